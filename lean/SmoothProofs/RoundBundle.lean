/-
  RoundBundle.lean — lifting the accuracy clause of C01 (standard model of floating-point arithmetic,
  RoundModel.lean) through `Bundle.prod` / `Bundle.bundle`, generically in the parts.

  `RoundAcc tol σ GR G Mod` says, for one group type given by its model at `RF` (`GR`, every operation
  rounded) and the SAME model at ℝ (`G`):  for all elements `a b` that are "moderate with bound `T`"
  (`Mod T`), the coefficients computed by `GR.composition` / `GR.inverse` on the same inputs, read back as real
  numbers `r`, satisfy  `|G.matrix r − G.matrix (G.composition a b)|_ij ≤ tol·σ(T)`  (resp. `G.inverse a`) in every
  entry.  `Same x̂ x` ("the RF vector stores exactly these reals") is heterogeneous in the vector length so that
  no casts between `GR.rep` and `G.rep` appear.

  `RoundAcc.prod`, `RoundAcc.unit`, `RoundAcc.bundle`: the clause is closed under the binary product, holds for
  the empty bundle, hence for `Bundle.bundle` of any list of parts (induction) — a Bundle's matrix is block
  diagonal, its operations act part by part and perform no arithmetic of their own.
-/
import SmoothProofs.RoundGal
import SmoothProofs.C01Bundle

set_option linter.unusedSimpArgs false
set_option linter.unusedVariables false
set_option linter.unusedSectionVars false

open RF Rounding Lin Scalar

noncomputable section
namespace Round

/-! ## `vcat`, `fst`, `snd` for any scalar type -/
section Generic
variable {α : Type}

theorem fst_vcat' {n m : Nat} (a : Vec α n) (b : Vec α m) : Bundle.fst (vcat a b) = a := by
  ext i
  simp [Bundle.fst, vcat]

theorem snd_vcat' {n m : Nat} (a : Vec α n) (b : Vec α m) : Bundle.snd (vcat a b) = b := by
  ext i
  simp [Bundle.snd, vcat]

end Generic

/-! ## "the RF vector stores exactly these reals" -/

/-- `xh : Vec RF n` and `x : Vec ℝ m` have the same length and the same entries -/
def Same {n m : Nat} (xh : Vec RF n) (x : Vec ℝ m) : Prop :=
  n = m ∧ ∀ (i : Nat) (h1 : i < n) (h2 : i < m), toReal (xh ⟨i, h1⟩) = x ⟨i, h2⟩

theorem same_toRF {n : Nat} (x : Vec ℝ n) : Same (Vec.toRF x) x := ⟨rfl, fun _ _ _ => rfl⟩
theorem same_toR {n : Nat} (xh : Vec RF n) : Same xh (Vec.toR xh) := ⟨rfl, fun _ _ _ => rfl⟩

theorem Same.eq_toRF {n : Nat} {xh : Vec RF n} {x : Vec ℝ n} (h : Same xh x) : xh = Vec.toRF x := by
  ext i
  exact h.2 i.val i.isLt i.isLt

theorem Same.eq_toR {n : Nat} {xh : Vec RF n} {x : Vec ℝ n} (h : Same xh x) : x = Vec.toR xh := by
  ext i
  exact (h.2 i.val i.isLt i.isLt).symm

theorem Same.fst {n m n' m' : Nat} {xh : Vec RF (n + m)} {x : Vec ℝ (n' + m')} (hn : n = n') (h : Same xh x) :
    Same (Bundle.fst (n := n) (m := m) xh) (Bundle.fst (n := n') (m := m') x) := by
  subst hn
  exact ⟨rfl, fun i h1 h2 => h.2 i (by omega) (by omega)⟩

theorem Same.snd {n m n' m' : Nat} {xh : Vec RF (n + m)} {x : Vec ℝ (n' + m')} (hn : n = n') (h : Same xh x) :
    Same (Bundle.snd (n := n) (m := m) xh) (Bundle.snd (n := n') (m := m') x) := by
  subst hn
  have hm : m = m' := by have := h.1; omega
  subst hm
  exact ⟨rfl, fun i h1 h2 => h.2 (n + i) (by omega) (by omega)⟩

theorem Same.vcat {n m n' m' : Nat} {xh : Vec RF n} {x : Vec ℝ n'} {yh : Vec RF m} {y : Vec ℝ m'}
    (h1 : Same xh x) (h2 : Same yh y) : Same (Lin.vcat xh yh) (Lin.vcat x y) := by
  obtain ⟨rfl, h1⟩ := h1
  obtain ⟨rfl, h2⟩ := h2
  refine ⟨rfl, fun i a b => ?_⟩
  simp only [Lin.vcat, Vec.of_get]
  split_ifs with hlt
  · exact h1 i hlt hlt
  · exact h2 (i - n) (by omega) (by omega)

/-! ## block-diagonal matrices, entrywise distance -/

theorem bdiag_dist_le {n m : Nat} (X X' : Mat ℝ n n) (Y Y' : Mat ℝ m m) (E : ℝ) (hE : 0 ≤ E)
    (hX : ∀ i j, |X i j - X' i j| ≤ E) (hY : ∀ i j, |Y i j - Y' i j| ≤ E) (i j : Fin (n + m)) :
    |(Bundle.bdiag X Y) i j - (Bundle.bdiag X' Y') i j| ≤ E := by
  simp only [Bundle.bdiag, Mat.of_get]
  split_ifs with hi hj hj
  · exact hX _ _
  · simpa using hE
  · simpa using hE
  · exact hY _ _

/-! ## the accuracy clause as a predicate on (model at `RF`, model at ℝ) -/

section
variable [Rounding]

structure RoundAcc (tol : ℝ) (σ : ℝ → ℝ) (GR : LieModel RF) (G : LieModel ℝ)
    (Mod : ℝ → Vec ℝ G.rep → Prop) : Prop where
  rep_eq : GR.rep = G.rep
  nonneg : ∀ T, 0 ≤ tol * σ T
  comp : ∀ (T : ℝ) (a b : Vec ℝ G.rep) (ah bh : Vec RF GR.rep), Same ah a → Same bh b → Mod T a → Mod T b →
    ∃ r : Vec ℝ G.rep, Same (GR.composition ah bh) r ∧
      ∀ i j, |(G.matrix r) i j - (G.matrix (G.composition a b)) i j| ≤ tol * σ T
  inv : ∀ (T : ℝ) (a : Vec ℝ G.rep) (ah : Vec RF GR.rep), Same ah a → Mod T a →
    ∃ r : Vec ℝ G.rep, Same (GR.inverse ah) r ∧
      ∀ i j, |(G.matrix r) i j - (G.matrix (G.inverse a)) i j| ≤ tol * σ T

/-- weaker tolerance / larger scale -/
theorem RoundAcc.mono {tol tol' : ℝ} {σ σ' : ℝ → ℝ} {GR : LieModel RF} {G : LieModel ℝ}
    {Mod : ℝ → Vec ℝ G.rep → Prop} (h : RoundAcc tol σ GR G Mod) (hle : ∀ T, tol * σ T ≤ tol' * σ' T) :
    RoundAcc tol' σ' GR G Mod where
  rep_eq := h.rep_eq
  nonneg := fun T => (h.nonneg T).trans (hle T)
  comp := fun T a b ah bh sa sb ma mb => by
    obtain ⟨r, sr, hr⟩ := h.comp T a b ah bh sa sb ma mb
    exact ⟨r, sr, fun i j => (hr i j).trans (hle T)⟩
  inv := fun T a ah sa ma => by
    obtain ⟨r, sr, hr⟩ := h.inv T a ah sa ma
    exact ⟨r, sr, fun i j => (hr i j).trans (hle T)⟩

/-- "moderate" for a product element: both parts are -/
def prodMod {A B : LieModel ℝ} (MA : ℝ → Vec ℝ A.rep → Prop) (MB : ℝ → Vec ℝ B.rep → Prop) :
    ℝ → Vec ℝ (Bundle.prod A B).rep → Prop :=
  fun T g => MA T (Bundle.fst (n := A.rep) (m := B.rep) g) ∧ MB T (Bundle.snd (n := A.rep) (m := B.rep) g)

/-- **the accuracy clause is closed under the binary direct product of the Bundle model** -/
theorem RoundAcc.prod {tol : ℝ} {σ : ℝ → ℝ} {AR BR : LieModel RF} {A B : LieModel ℝ}
    {MA : ℝ → Vec ℝ A.rep → Prop} {MB : ℝ → Vec ℝ B.rep → Prop}
    (hA : RoundAcc tol σ AR A MA) (hB : RoundAcc tol σ BR B MB) :
    RoundAcc tol σ (Bundle.prod AR BR) (Bundle.prod A B) (prodMod MA MB) where
  rep_eq := by
    show AR.rep + BR.rep = A.rep + B.rep
    rw [hA.rep_eq, hB.rep_eq]
  nonneg := hA.nonneg
  comp := by
    intro T a b ah bh sa sb ma mb
    obtain ⟨rA, sA, eA⟩ := hA.comp T _ _ _ _ (Same.fst (m := BR.rep) (m' := B.rep) hA.rep_eq sa)
      (Same.fst (m := BR.rep) (m' := B.rep) hA.rep_eq sb) ma.1 mb.1
    obtain ⟨rB, sB, eB⟩ := hB.comp T _ _ _ _ (Same.snd (m := BR.rep) (m' := B.rep) hA.rep_eq sa)
      (Same.snd (m := BR.rep) (m' := B.rep) hA.rep_eq sb) ma.2 mb.2
    refine ⟨vcat rA rB, Same.vcat sA sB, ?_⟩
    show ∀ i j : Fin (A.dim + B.dim),
      |(Bundle.bdiag (A.matrix (Bundle.fst (vcat rA rB))) (B.matrix (Bundle.snd (vcat rA rB)))) i j
        - (Bundle.bdiag (A.matrix (Bundle.fst (vcat (A.composition (Bundle.fst a) (Bundle.fst b))
              (B.composition (Bundle.snd a) (Bundle.snd b)))))
            (B.matrix (Bundle.snd (vcat (A.composition (Bundle.fst a) (Bundle.fst b))
              (B.composition (Bundle.snd a) (Bundle.snd b)))))) i j| ≤ tol * σ T
    rw [fst_vcat', snd_vcat', fst_vcat', snd_vcat']
    exact bdiag_dist_le _ _ _ _ _ (hA.nonneg T) eA eB
  inv := by
    intro T a ah sa ma
    obtain ⟨rA, sA, eA⟩ := hA.inv T _ _ (Same.fst (m := BR.rep) (m' := B.rep) hA.rep_eq sa) ma.1
    obtain ⟨rB, sB, eB⟩ := hB.inv T _ _ (Same.snd (m := BR.rep) (m' := B.rep) hA.rep_eq sa) ma.2
    refine ⟨vcat rA rB, Same.vcat sA sB, ?_⟩
    show ∀ i j : Fin (A.dim + B.dim),
      |(Bundle.bdiag (A.matrix (Bundle.fst (vcat rA rB))) (B.matrix (Bundle.snd (vcat rA rB)))) i j
        - (Bundle.bdiag (A.matrix (Bundle.fst (vcat (A.inverse (Bundle.fst a)) (B.inverse (Bundle.snd a)))))
            (B.matrix (Bundle.snd (vcat (A.inverse (Bundle.fst a)) (B.inverse (Bundle.snd a)))))) i j| ≤ tol * σ T
    rw [fst_vcat', snd_vcat', fst_vcat', snd_vcat']
    exact bdiag_dist_le _ _ _ _ _ (hA.nonneg T) eA eB

/-- the empty bundle (no coefficients, 0×0 matrices) -/
theorem RoundAcc.unit {tol : ℝ} {σ : ℝ → ℝ} (h : ∀ T, 0 ≤ tol * σ T) :
    RoundAcc tol σ (Bundle.unit : LieModel RF) (Bundle.unit : LieModel ℝ) (fun _ _ => True) where
  rep_eq := rfl
  nonneg := h
  comp := fun T a b ah bh _ _ _ _ =>
    ⟨vzero 0, ⟨rfl, fun i h1 _ => absurd h1 (Nat.not_lt_zero i)⟩, fun i _ => i.elim0⟩
  inv := fun T a ah _ _ =>
    ⟨vzero 0, ⟨rfl, fun i h1 _ => absurd h1 (Nat.not_lt_zero i)⟩, fun i _ => i.elim0⟩

/-- a group type: its model at `RF`, the same model at ℝ, and what "moderate with bound `T`" means for it -/
structure RModel where
  GR : LieModel RF
  G : LieModel ℝ
  Mod : ℝ → Vec ℝ G.rep → Prop

/-- "moderate" for a bundle element: every part is -/
def bundleMod : (ps : List RModel) → ℝ → Vec ℝ (Bundle.bundle (ps.map RModel.G)).rep → Prop
  | [] => fun _ _ => True
  | p :: ps => prodMod (A := p.G) (B := Bundle.bundle (ps.map RModel.G)) p.Mod (bundleMod ps)

/-- **the accuracy clause for the Bundle of ANY list of parts that satisfy it** (induction over the list) -/
theorem RoundAcc.bundle {tol : ℝ} {σ : ℝ → ℝ} (h0 : ∀ T, 0 ≤ tol * σ T) (ps : List RModel)
    (h : ∀ p ∈ ps, RoundAcc tol σ p.GR p.G p.Mod) :
    RoundAcc tol σ (Bundle.bundle (ps.map RModel.GR)) (Bundle.bundle (ps.map RModel.G)) (bundleMod ps) := by
  induction ps with
  | nil => exact RoundAcc.unit h0
  | cons p ps ih =>
    exact RoundAcc.prod (h p (List.mem_cons_self ..)) (ih (fun q hq => h q (List.mem_cons_of_mem _ hq)))

end
end Round
end
