/-
  C12Bernstein.lean — the constant-velocity hypothesis `ConstVelKer` discharged for kernels whose segment
  curve is the ordered product `Πⱼ exp(B̃ⱼ(u)·vⱼ)` (C11.value_is_product) with the cumulative BERNSTEIN basis
  of the code (`Poly.cumulativeBasis .Bernstein K`, property C20): uses `C20B.sum_cumulative_bernstein`.
-/
import SmoothProofs.C12More
import SmoothProofs.C20Bernstein

set_option linter.unusedSectionVars false

open SplineSM SplineSM.TimeOps

namespace C12
attribute [local instance] fieldTime

variable {G W : Type} [Group G]

/-- `B̃_{j+1}(u)` of the code's cumulative Bernstein basis of degree K (j = 0 … K−1) -/
noncomputable def bernCum (K : Nat) (j : Nat) (u : ℝ) : ℝ :=
  Poly.evalCol (Poly.cumulativeBasis (α := ℝ) .Bernstein K) (K + 1) (j + 1) u

theorem list_range_sum (f : Nat → ℝ) (n : Nat) : ((List.range n).map f).sum = ∑ i ∈ Finset.range n, f i := by
  induction n with
  | zero => simp
  | succ n ih => rw [List.range_succ, List.map_append, List.sum_append, ih, Finset.sum_range_succ]; simp

theorem bernCum_sum (K : Nat) (u : ℝ) : ((List.range K).map fun j => bernCum K j u).sum = (K : ℝ) * u := by
  rw [list_range_sum, ← C20B.sum_cumulative_bernstein K u, Finset.sum_Ico_eq_sum_range]
  apply Finset.sum_congr (by simp)
  intro i _
  simp [bernCum, add_comm]

/-- for the Bernstein kernel the constant-velocity hypothesis is a theorem -/
theorem constVelKer_bernstein (C : Ker ℝ G W) (expo : ℝ → W → G)
    (hzero : ∀ v, expo 0 v = 1) (hadd : ∀ a b v, expo (a + b) v = expo a v * expo b v)
    (hprod : ∀ (s : ℝ) (v : W) (u : ℝ), C.c (List.replicate C.K (C.wsmul s v)) u =
      ((List.range C.K).map fun j => expo (bernCum C.K j u * s) v).prod) : ConstVelKer C expo :=
  constVel_of_product expo (bernCum C.K) hzero hadd (bernCum_sum C.K) hprod

end C12

namespace C12
attribute [local instance] fieldTime

/-- a concrete kernel over G = (ℝ,+) whose segment curve is the ordered product with the code's cumulative
    Bernstein basis (non-vacuity of `constVelKer_bernstein`) -/
noncomputable def kerBern (K : Nat) : Ker ℝ (Multiplicative ℝ) ℝ where
  K := K
  one := 1
  mul := fun a b => a * b
  inv := fun a => a⁻¹
  exp := fun w => Multiplicative.ofAdd w
  log := fun g => Multiplicative.toAdd g
  wzero := 0
  wneg := fun v => -v
  wadd := fun a b => a + b
  wsmul := fun s v => s * v
  wdivs := fun v s => v / s
  cev := fun V u => (Multiplicative.ofAdd (((List.range K).map fun j => bernCum K j u * V.getD j 0).sum), 0, 0)
  absint := fun _ _ _ => 0

theorem kerBern_prod (K : Nat) (s v u : ℝ) :
    (kerBern K).c (List.replicate (kerBern K).K ((kerBern K).wsmul s v)) u =
      ((List.range (kerBern K).K).map fun j => Multiplicative.ofAdd (bernCum (kerBern K).K j u * s * v)).prod := by
  have h : ∀ (l : List Nat) (f : Nat → ℝ), (l.map fun j => Multiplicative.ofAdd (f j)).prod = Multiplicative.ofAdd (l.map f).sum := by
    intro l f
    induction l with
    | nil => simp
    | cons a r ih => simp [ih, ofAdd_add]
  simp only [Ker.c, kerBern]
  rw [h]
  congr 1
  apply congrArg
  apply List.map_congr_left
  intro j hj
  have hj' : j < K := List.mem_range.1 hj
  simp [List.getD_eq_getElem?_getD, hj', mul_assoc]

end C12
