/-
  C14Scan.lean — lemmas for the Dubins six-word scan and emission, the `fit_bspline` sizes and
  the `reparameterize_spline` guards (models: SmoothModel/Dubins.lean, Fit.lean, Reparam.lean).
-/
import Mathlib.Order.Basic
import Mathlib.Algebra.Order.Floor.Semiring
import Mathlib.Algebra.Order.Field.Basic
import Mathlib.Analysis.SpecialFunctions.Sqrt
import Mathlib.Tactic.Ring
import Mathlib.Tactic.Linarith
import Mathlib.Tactic.Positivity
import Mathlib.Tactic.FieldSimp
import SmoothProofs.Real

open Scalar Lin

-- ================================================================ Dubins
namespace Dubins

section Scan
variable {β : Type} [LinearOrder β]

/-- the comparison the code uses, `len < min_length` -/
def ltB (a b : β) : Bool := decide (a < b)

/-- invariant of the scan after a prefix `p` of the candidates -/
def ScanInv (top : β) (p : List (Cand β)) (st : β × Option (Cand β)) : Prop :=
  st.1 ≤ top ∧ (∀ c ∈ p, st.1 ≤ c.len) ∧ (st.2 = none → st.1 = top ∧ ∀ c ∈ p, top ≤ c.len) ∧
  (∀ c, st.2 = some c → c.len = st.1 ∧ st.1 < top ∧
      ∃ pre post, p = pre ++ c :: post ∧ ∀ d ∈ pre, st.1 < d.len)

theorem scan_append (top : β) (p : List (Cand β)) (c : Cand β) :
    scan ltB top (p ++ [c])
      = (if ltB c.len (scan ltB top p).1 then (c.len, some c) else scan ltB top p) := by
  unfold scan
  rw [List.foldl_append]
  rfl

theorem scanInv (top : β) (cs : List (Cand β)) : ScanInv top cs (scan ltB top cs) := by
  induction cs using List.reverseRecOn with
  | nil => simp [scan, ScanInv]
  | append_singleton p c ih =>
    rw [scan_append]
    obtain ⟨h1, h2, h3, h4⟩ := ih
    by_cases hlt : c.len < (scan ltB top p).1
    · simp only [ltB, hlt, decide_true, if_true]
      refine ⟨le_trans (le_of_lt hlt) h1, ?_, ?_, ?_⟩
      · intro d hd
        rcases List.mem_append.1 hd with hd | hd
        · exact le_trans (le_of_lt hlt) (h2 d hd)
        · simp only [List.mem_singleton] at hd; subst hd; exact le_refl _
      · intro h; simp at h
      · intro c' hc'
        simp only [Option.some.injEq] at hc'
        subst hc'
        refine ⟨rfl, lt_of_lt_of_le hlt h1, p, [], by simp, ?_⟩
        intro d hd
        exact lt_of_lt_of_le hlt (h2 d hd)
    · simp only [ltB, hlt, decide_false, Bool.false_eq_true, if_false]
      have hle : (scan ltB top p).1 ≤ c.len := not_lt.1 hlt
      refine ⟨h1, ?_, ?_, ?_⟩
      · intro d hd
        rcases List.mem_append.1 hd with hd | hd
        · exact h2 d hd
        · simp only [List.mem_singleton] at hd; subst hd; exact hle
      · intro hn
        obtain ⟨e1, e2⟩ := h3 hn
        refine ⟨e1, ?_⟩
        intro d hd
        rcases List.mem_append.1 hd with hd | hd
        · exact e2 d hd
        · simp only [List.mem_singleton] at hd; subst hd; rw [← e1]; exact hle
      · intro c' hc'
        obtain ⟨e1, e2, pre, post, e3, e4⟩ := h4 c' hc'
        exact ⟨e1, e2, pre, post ++ [c], by simp [e3], e4⟩

end Scan

/-- over ℝ the model's scan is the scan with the order's `<` -/
theorem scan_real (top : ℝ) (cs : List (Cand ℝ)) :
    scan (fun a b => decide (a < b)) top cs = scan ltB top cs := rfl

section Emit

/-- every emitted segment is `ConstantVelocity((1, 0, κ), T)` with `κ ∈ {0, 1/R, −1/R}`, and its
    duration is the arc length `R·angle` (turns) or the straight length -/
theorem emit_spec (R : ℝ) (c : Cand ℝ) :
    ∀ e ∈ emit R c, e.vx = 1 ∧ e.vy = 0 ∧ (e.kappa = 0 ∨ e.kappa = 1 / R ∨ e.kappa = -(1 / R)) := by
  intro e he
  obtain ⟨⟨w1, w2, w3⟩, ⟨l1, l2, l3⟩, len⟩ := c
  simp only [emit, List.mem_cons, List.mem_nil_iff, or_false] at he
  rcases he with rfl | rfl | rfl
  · cases w1 <;> simp [neg_div]
  · cases w2 <;> simp [neg_div]
  · cases w3 <;> simp [neg_div]

theorem emit_curvature_bound (R : ℝ) (hR : 0 < R) (c : Cand ℝ) :
    ∀ e ∈ emit R c, |e.kappa| ≤ 1 / R := by
  intro e he
  have hpos : 0 ≤ 1 / R := by positivity
  rcases (emit_spec R c e he).2.2 with h | h | h
  · rw [h]; simpa using hpos
  · rw [h, abs_of_nonneg hpos]
  · rw [h, abs_neg, abs_of_nonneg hpos]

end Emit
end Dubins

-- ================================================================ fit_bspline
namespace Fit

/-- `static_cast<Index>` of a non-negative real: the floor -/
noncomputable def truncR (x : ℝ) : ℕ := ⌊x⌋₊

theorem bsplineNumPts_ge (trunc : ℝ → ℕ) (K : ℕ) (t0 t1 dt : ℝ) :
    K + 1 ≤ bsplineNumPts trunc K t0 t1 dt := by
  unfold bsplineNumPts; omega

/-- `t_max = t0 + (NumPts − K)·dt > t1` in exact arithmetic -/
theorem bsplineTmax_covers (K : ℕ) (t0 t1 dt : ℝ) (hdt : 0 < dt) :
    t1 < bsplineTmax truncR K t0 t1 dt := by
  unfold bsplineTmax bsplineNumPts truncR
  have hsub : K + 1 + ⌊(t1 - t0) / dt⌋₊ - K = ⌊(t1 - t0) / dt⌋₊ + 1 := by omega
  simp only [Scalar.nat_real, hsub, Nat.cast_add, Nat.cast_one]
  have h := Nat.lt_floor_add_one ((t1 - t0) / dt)
  have h4 : t1 - t0 < ((⌊(t1 - t0) / dt⌋₊ : ℝ) + 1) * dt := by
    rwa [div_lt_iff₀ hdt] at h
  linarith

/-- every data time `t ≤ t1` has its window of `K+1` control points, `istar + K + 1 ≤ NumPts` with
    `istar = trunc((t − t0)/dt)` — for ANY monotone integer conversion and any (e.g. rounded)
    quotients that are ordered like the times: the count is now derived from the same expression
    the evaluation uses, so the property no longer depends on exact arithmetic. -/
theorem bspline_window (trunc : ℝ → ℕ) (htr : Monotone trunc) (K : ℕ) (t0 t1 dt : ℝ) (q : ℝ)
    (hq : q ≤ (t1 - t0) / dt) :
    trunc q + K + 1 ≤ bsplineNumPts trunc K t0 t1 dt := by
  unfold bsplineNumPts
  have := htr hq
  omega

theorem truncR_mono : Monotone truncR := fun _ _ h => Nat.floor_le_floor h

theorem bspline_window_exact (K : ℕ) (t0 t1 dt t : ℝ) (hdt : 0 < dt) (h1 : t ≤ t1) :
    truncR ((t - t0) / dt) + K + 1 ≤ bsplineNumPts truncR K t0 t1 dt :=
  bspline_window truncR truncR_mono K t0 t1 dt _
    (div_le_div_of_nonneg_right (by linarith) (le_of_lt hdt))

end Fit

-- ================================================================ reparameterize_spline
namespace Reparam

theorem eps_real : (eps : ℝ) = 1 / 100000000 := by simp [eps]
theorem eps_pos : (0 : ℝ) < eps := by rw [eps_real]; norm_num

theorem max_real (a b : ℝ) : Scalar.max a b = Max.max a b := by
  unfold Scalar.max
  split
  · rename_i h; exact (max_eq_right (le_of_lt h)).symm
  · rename_i h; exact (max_eq_left (not_lt.1 h)).symm

theorem min_real (a b : ℝ) : Scalar.min a b = Min.min a b := by
  unfold Scalar.min
  split
  · rename_i h; exact (min_eq_right (le_of_lt h)).symm
  · rename_i h; exact (min_eq_left (not_lt.1 h)).symm

theorem abs_real (a : ℝ) : Scalar.abs a = |a| := by
  unfold Scalar.abs
  split
  · rename_i h; simp only [Nat.cast_zero] at h; exact (abs_of_neg h).symm
  · rename_i h; simp only [Nat.cast_zero, not_lt] at h; exact (abs_of_nonneg h).symm

/-- the square-root branch of `segDt` (`|ai| ≥ eps`), written out over ℝ -/
theorem segDt_sqrt_branch (ds vi vi2 ai : ℝ) (h : ¬ |ai| < eps) :
    segDt ds vi vi2 ai = (-vi + Real.sqrt (Max.max eps (vi2 + 2 * ds * ai))) / ai := by
  unfold segDt
  rw [abs_real, if_neg h, max_real]
  simp [Scalar.sqrt]

theorem segDt_small_branch (ds vi vi2 ai : ℝ) (h : |ai| < eps) :
    segDt ds vi vi2 ai = ds / vi := by
  unfold segDt
  rw [abs_real, if_pos h]

/-- accelerating (`ai ≥ eps`): the emitted duration is positive -/
theorem segDt_pos_accel (ds vi ai : ℝ) (hds : 0 < ds) (hvi : 0 ≤ vi) (hai : eps ≤ ai) :
    0 < segDt ds vi (vi ^ 2) ai := by
  have hai0 : 0 < ai := lt_of_lt_of_le eps_pos hai
  rw [segDt_sqrt_branch _ _ _ _ (by rw [abs_of_pos hai0]; exact not_lt.2 hai)]
  apply div_pos _ hai0
  have h1 : vi ^ 2 < Max.max eps (vi ^ 2 + 2 * ds * ai) := by
    apply lt_of_lt_of_le _ (le_max_right _ _)
    have : 0 < 2 * ds * ai := by positivity
    linarith
  have h2 : vi < Real.sqrt (Max.max eps (vi ^ 2 + 2 * ds * ai)) := by
    calc vi = Real.sqrt (vi ^ 2) := (Real.sqrt_sq hvi).symm
      _ < _ := Real.sqrt_lt_sqrt (sq_nonneg vi) h1
  linarith

/-- decelerating (`ai ≤ −eps`): the duration is non-negative, and positive as soon as the current
    squared speed exceeds the clamp `eps` — the case `vi² = eps` with a further forced
    deceleration gives `dt = 0` (the `assert(T > 0)` abort found by the audit) -/
theorem segDt_nonneg_decel (ds vi ai : ℝ) (hds : 0 < ds) (hvi : 0 ≤ vi) (hai : ai ≤ -eps)
    (hv2 : eps ≤ vi ^ 2) : 0 ≤ segDt ds vi (vi ^ 2) ai := by
  have hai0 : ai < 0 := by have := eps_pos; linarith
  rw [segDt_sqrt_branch _ _ _ _ (by rw [abs_of_neg hai0]; have := eps_pos; intro h; linarith)]
  apply div_nonneg_of_nonpos _ (le_of_lt hai0)
  have h1 : Max.max eps (vi ^ 2 + 2 * ds * ai) ≤ vi ^ 2 := by
    apply max_le hv2
    have : 2 * ds * ai < 0 := by nlinarith
    linarith
  have h2 : Real.sqrt (Max.max eps (vi ^ 2 + 2 * ds * ai)) ≤ vi := by
    calc _ ≤ Real.sqrt (vi ^ 2) := Real.sqrt_le_sqrt h1
      _ = vi := Real.sqrt_sq hvi
  linarith

theorem segDt_pos_decel (ds vi ai : ℝ) (hds : 0 < ds) (hvi : 0 ≤ vi) (hai : ai ≤ -eps)
    (hv2 : eps < vi ^ 2) : 0 < segDt ds vi (vi ^ 2) ai := by
  have hai0 : ai < 0 := by have := eps_pos; linarith
  rw [segDt_sqrt_branch _ _ _ _ (by rw [abs_of_neg hai0]; have := eps_pos; intro h; linarith)]
  apply div_pos_of_neg_of_neg _ hai0
  have h1 : Max.max eps (vi ^ 2 + 2 * ds * ai) < vi ^ 2 := by
    apply max_lt hv2
    have : 2 * ds * ai < 0 := by nlinarith
    linarith
  have h2 : Real.sqrt (Max.max eps (vi ^ 2 + 2 * ds * ai)) < vi := by
    calc _ < Real.sqrt (vi ^ 2) := Real.sqrt_lt_sqrt (le_trans (le_of_lt eps_pos) (le_max_left _ _)) h1
      _ = vi := Real.sqrt_sq hvi
  linarith

/-- the witness of the abort: clamped speed `vi² = eps` and a forced deceleration give `dt = 0` -/
theorem segDt_zero_at_clamp (ds ai : ℝ) (hds : 0 < ds) (hai : ai ≤ -eps) :
    segDt ds (Real.sqrt eps) eps ai = 0 := by
  have hai0 : ai < 0 := by have := eps_pos; linarith
  rw [segDt_sqrt_branch _ _ _ _ (by rw [abs_of_neg hai0]; have := eps_pos; intro h; linarith)]
  have h1 : Max.max eps (eps + 2 * ds * ai) = eps := by
    apply max_eq_left
    have : 2 * ds * ai < 0 := by nlinarith
    linarith
  rw [h1]; simp

/-- end speed of the emitted segment in the square-root branch: `vi + ai·dt = √(max(eps, ·)) ≥ 0` -/
theorem end_speed_sqrt_branch (ds vi vi2 ai : ℝ) (h : ¬ |ai| < eps) :
    vi + ai * segDt ds vi vi2 ai = Real.sqrt (Max.max eps (vi2 + 2 * ds * ai)) := by
  rw [segDt_sqrt_branch _ _ _ _ h]
  have hai : ai ≠ 0 := by
    intro h0; apply h; rw [h0, abs_zero]; exact eps_pos
  field_simp
  ring

/-- both cumulative coefficients of an emitted segment are non-negative (square-root branch) -/
theorem mkSeg_coeffs_nonneg (si ds vi vi2 ai : ℝ) (hvi : 0 ≤ vi) (h : ¬ |ai| < eps)
    (hdt : 0 ≤ segDt ds vi vi2 ai) :
    0 ≤ (mkSeg si vi ai (segDt ds vi vi2 ai)).c1 ∧ 0 ≤ (mkSeg si vi ai (segDt ds vi vi2 ai)).c2 := by
  have he := end_speed_sqrt_branch ds vi vi2 ai h
  have hs : 0 ≤ Real.sqrt (Max.max eps (vi2 + 2 * ds * ai)) := Real.sqrt_nonneg _
  simp only [mkSeg, Nat.cast_ofNat]
  constructor
  · positivity
  · have : segDt ds vi vi2 ai * ai + vi = vi + ai * segDt ds vi vi2 ai := by ring
    rw [this, he]
    positivity

/-- small-acceleration branch (`|ai| < eps`, `dt = ds/vi`): needs a positive speed, and the end
    speed `vi + ai·ds/vi` is non-negative iff `0 ≤ vi² + ai·ds` -/
theorem mkSeg_coeffs_nonneg_small (si ds vi vi2 ai : ℝ) (hds : 0 < ds) (hvi : 0 < vi) (h : |ai| < eps)
    (hend : 0 ≤ vi ^ 2 + ai * ds) :
    0 < segDt ds vi vi2 ai ∧
    0 ≤ (mkSeg si vi ai (segDt ds vi vi2 ai)).c1 ∧ 0 ≤ (mkSeg si vi ai (segDt ds vi vi2 ai)).c2 := by
  rw [segDt_small_branch _ _ _ _ h]
  have hdt : 0 < ds / vi := div_pos hds hvi
  simp only [mkSeg, Nat.cast_ofNat]
  refine ⟨hdt, by positivity, ?_⟩
  have : ds / vi * ai + vi = (vi ^ 2 + ai * ds) / vi := by field_simp; ring
  rw [this]
  have : 0 ≤ (vi ^ 2 + ai * ds) / vi := div_nonneg hend (le_of_lt hvi)
  positivity

/-- value of a degree-2 cumulative Bernstein segment at `u ∈ [0,1]`:
    `s(u) = s0 + B̃₁(u)·c1 + B̃₂(u)·c2`, `B̃₁ = 2u − u²`, `B̃₂ = u²` -/
def segVal (sg : SegOut ℝ) (u : ℝ) : ℝ := sg.s0 + (2 * u - u ^ 2) * sg.c1 + u ^ 2 * sg.c2

/-- non-negative coefficients ⇒ the segment is non-decreasing -/
theorem segVal_mono (sg : SegOut ℝ) (h1 : 0 ≤ sg.c1) (h2 : 0 ≤ sg.c2) (u v : ℝ)
    (hu : 0 ≤ u) (huv : u ≤ v) (hv : v ≤ 1) : segVal sg u ≤ segVal sg v := by
  unfold segVal
  have e : (sg.s0 + (2 * v - v ^ 2) * sg.c1 + v ^ 2 * sg.c2) - (sg.s0 + (2 * u - u ^ 2) * sg.c1 + u ^ 2 * sg.c2)
      = (v - u) * ((2 - u - v) * sg.c1 + (u + v) * sg.c2) := by ring
  have hnn : 0 ≤ (v - u) * ((2 - u - v) * sg.c1 + (u + v) * sg.c2) := by
    apply mul_nonneg (by linarith)
    apply add_nonneg
    · apply mul_nonneg (by linarith) h1
    · apply mul_nonneg (by linarith) h2
  linarith

/-- the segment starts at its `s0` with speed `2·c1/dt = vi` -/
theorem mkSeg_start (si vi ai dt : ℝ) (hdt : dt ≠ 0) :
    segVal (mkSeg si vi ai dt) 0 = si ∧ 2 * (mkSeg si vi ai dt).c1 / dt = vi := by
  simp only [segVal, mkSeg, Nat.cast_ofNat]
  constructor
  · ring
  · field_simp

/-- where the segment ends: `s0 + c1 + c2 = si + dt·(vi + ai·dt/2)` -/
theorem mkSeg_end (si vi ai dt : ℝ) :
    segVal (mkSeg si vi ai dt) 1 = si + dt * (vi + ai * dt / 2) := by
  simp only [segVal, mkSeg, Nat.cast_ofNat]
  ring

/-- with the guard inactive the segment ends exactly at the next grid point `si + ds` -/
theorem mkSeg_end_exact (si ds vi ai : ℝ) (h : ¬ |ai| < eps) (hg : eps ≤ vi ^ 2 + 2 * ds * ai) :
    segVal (mkSeg si vi ai (segDt ds vi (vi ^ 2) ai)) 1 = si + ds := by
  rw [mkSeg_end]
  have hai : ai ≠ 0 := by
    intro h0; apply h; rw [h0, abs_zero]; exact eps_pos
  have he := end_speed_sqrt_branch ds vi (vi ^ 2) ai h
  rw [max_eq_right hg] at he
  have hs : Real.sqrt (vi ^ 2 + 2 * ds * ai) ^ 2 = vi ^ 2 + 2 * ds * ai :=
    Real.sq_sqrt (le_trans (le_of_lt eps_pos) hg)
  set dt := segDt ds vi (vi ^ 2) ai with hdt
  have h2 : (vi + ai * dt) ^ 2 = vi ^ 2 + 2 * ds * ai := by rw [he]; exact hs
  have h3 : ai * (dt * (vi + ai * dt / 2)) = ai * ds := by nlinarith
  have := mul_left_cancel₀ hai h3
  linarith

/-- with the guard active while decelerating the segment ends SHORT of the next grid point
    (the map then jumps upwards at the knot: still non-decreasing) -/
theorem mkSeg_end_le_decel (si ds vi ai : ℝ) (hai : ai ≤ -eps)
    (hg : vi ^ 2 + 2 * ds * ai ≤ eps) :
    segVal (mkSeg si vi ai (segDt ds vi (vi ^ 2) ai)) 1 ≤ si + ds := by
  rw [mkSeg_end]
  have hai0 : ai < 0 := by have := eps_pos; linarith
  have hna : ¬ |ai| < eps := by rw [abs_of_neg hai0]; have := eps_pos; intro h; linarith
  have he := end_speed_sqrt_branch ds vi (vi ^ 2) ai hna
  rw [max_eq_left hg] at he
  have hs : Real.sqrt eps ^ 2 = eps := Real.sq_sqrt (le_of_lt eps_pos)
  set dt := segDt ds vi (vi ^ 2) ai with hdt
  have h2 : (vi + ai * dt) ^ 2 = eps := by rw [he]; exact hs
  -- 2·ai·(dt·(vi + ai dt/2)) = (vi + ai dt)² − vi² = eps − vi² ≥ 2·ds·ai  (and ai < 0)
  have h3 : 2 * ai * (dt * (vi + ai * dt / 2)) = eps - vi ^ 2 := by nlinarith
  have h4 : 2 * ai * ds ≤ 2 * ai * (dt * (vi + ai * dt / 2)) := by rw [h3]; linarith
  have h5 : dt * (vi + ai * dt / 2) ≤ ds := by
    by_contra hc
    rw [not_le] at hc
    have : 2 * ai * (dt * (vi + ai * dt / 2)) < 2 * ai * ds := by
      apply mul_lt_mul_of_neg_left hc; linarith
    linarith
  linarith

/-- `v2m₀ = min(start_vel², v2max₀)`: the initial speed never exceeds the requested start speed -/
theorem start_speed_le (startVel v2max0 : ℝ) :
    Real.sqrt (Scalar.min (startVel * startVel) v2max0) ≤ |startVel| := by
  rw [min_real, ← Real.sqrt_sq (abs_nonneg startVel), sq_abs]
  apply Real.sqrt_le_sqrt
  have : startVel * startVel = startVel ^ 2 := by ring
  rw [this]
  exact min_le_left _ _


/-- `v2max` after the reverse pass is non-negative whatever the linear programmes returned -/
theorem backward_nonneg (lpres : List (ℝ × ℝ × ℕ)) (v2end : ℝ) (h : 0 ≤ v2end) :
    ∀ y ∈ backward lpres v2end, 0 ≤ y := by
  induction lpres with
  | nil => intro y hy; simp [backward] at hy; rw [hy]; exact h
  | cons r t ih =>
    intro y hy
    have hb : backward (r :: t) v2end
        = (if r.2.2 = 0 then Scalar.max (nat 0) r.1 else if r.2.2 = 2 then inf else nat 0) :: backward t v2end := rfl
    rw [hb] at hy
    rcases List.mem_cons.1 hy with rfl | hy
    · split
      · rw [max_real]; simp
      · split
        · simp [inf]
        · simp
    · exact ih y hy

/-- the guard `if (dt > 0)`: every emitted segment has a positive duration -/
theorem fwdStep_emits_positive {n : ℕ} (b : Bounds ℝ n) (ds si v2next v2m : ℝ) (p : Sample ℝ n) (sg : SegOut ℝ)
    (h : (fwdStep b ds si v2next v2m p).2 = some sg) : 0 < sg.dt := by
  unfold fwdStep at h
  simp only [] at h
  split at h
  · simp at h
  · split at h
    · rename_i hpos
      simp only [Option.some.injEq] at h
      rw [← h]
      simpa [mkSeg] using hpos
    · simp at h

end Reparam
