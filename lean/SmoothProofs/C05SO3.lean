/-
  C05SO3.lean — SO3 `d2r_exp` is the derivative of `dr_exp` (closed branch), all 27 entries, in the
  layout `H[r, 3·j + k] = ∂J[j,r]/∂a_k`.

  Structure: `dr_exp a = I + α(n)·M + β(n)·M²` with `n = |a|²`, `M = hat a`.  Along `t ↦ a + t e_k`:
  `n(t) = n + 2 t a_k + t²`, `M(t) = M + t E_k`, `M(t)² = M² + t (E_k M + M E_k) + t² E_k²`, so
  `∂J/∂a_k = α'(n)·2a_k·M + α·E_k + β'(n)·2a_k·M² + β·(E_k M + M E_k)`; the scalar derivatives are
  in C05Calc, the table `H0` of the code is `α·E_k + β·(E_k M + M E_k)` entry by entry (`ring`).
-/
import SmoothProofs.C05Calc
import SmoothProofs.C05dQBase
import Mathlib.Analysis.Calculus.Deriv.Comp
import Mathlib.Topology.Algebra.Polynomial
import Mathlib.Tactic.Continuity

open Lin Scalar

namespace C05SO3
open C04Alg C04SO3 C05Calc C05dQ

/-- unit vector `e_k` -/
noncomputable def e (k : Fin 3) : Vec ℝ 3 := .of (fun i => if i = k then 1 else 0)

theorem sqNorm_shift (a : Vec ℝ 3) (k : Fin 3) (t : ℝ) :
    sqNorm (shift a k t) = sqNorm a + t * (2 * a k) + t ^ 2 * 1 + t ^ 3 * 0 := by
  fin_cases k <;> simp [sqNorm3, shift] <;> ring

theorem hat_shift (a : Vec ℝ 3) (k : Fin 3) (t : ℝ) (j r : Fin 3) :
    (SO3.hat (shift a k t)) j r = (SO3.hat a) j r + t * (SO3.hat (e k)) j r := by
  fin_cases k <;> fin_cases j <;> fin_cases r <;> simp [SO3.hat, mat3, shift, e] <;> ring

/-- `E_k M + M E_k` -/
noncomputable def EM (a : Vec ℝ 3) (k : Fin 3) : Mat ℝ 3 3 :=
  madd (mmul (SO3.hat (e k)) (SO3.hat a)) (mmul (SO3.hat a) (SO3.hat (e k)))

theorem hat2_shift (a : Vec ℝ 3) (k : Fin 3) (t : ℝ) (j r : Fin 3) :
    (mmul (SO3.hat (shift a k t)) (SO3.hat (shift a k t))) j r
      = (mmul (SO3.hat a) (SO3.hat a)) j r + t * (EM a k) j r
        + t ^ 2 * (mmul (SO3.hat (e k)) (SO3.hat (e k))) j r + t ^ 3 * 0 := by
  simp only [C04Alg.mmul3, hat_shift, EM, madd, Mat.of_get]
  ring

theorem shift_zero {n : Nat} (a : Vec ℝ n) (k : Fin n) : shift a k 0 = a := by
  ext i; simp [shift]

theorem d2rExpCoef_closed {n : ℝ} (h : ¬ n < Scalar.eps2) :
    SO3.d2rExpCoef n = ((1 - Real.cos (Real.sqrt n)) / n,
      (Real.sqrt n - Real.sin (Real.sqrt n)) / (n * Real.sqrt n), dAc n, dBc n) := by
  simp only [SO3.d2rExpCoef, if_neg h, Nat.cast_one, Nat.cast_ofNat, dAc, dBc]
  rfl

/-- the code's table: for any coefficient values, entry `(r, 3j+k)` of `d2r_exp` is
    `−A·E_k + B·(E_k M + M E_k) − dA·a_k·M + dB·a_k·M²` at `(j, r)` -/
theorem d2r_exp_entry (a : Vec ℝ 3) (A B dA dB : ℝ)
    (hco : SO3.d2rExpCoef (sqNorm a) = (A, B, dA, dB)) (j r k : Fin 3) :
    (SO3.d2r_exp a) r ⟨3 * j.val + k.val, by have := j.isLt; have := k.isLt; omega⟩
      = ((-A) * (SO3.hat (e k)) j r + B * (EM a k) j r)
        - (dA * a k) * (SO3.hat a) j r + (dB * a k) * (mmul (SO3.hat a) (SO3.hat a)) j r := by
  simp only [SO3.d2r_exp, hco, memoM_eq, Mat.of_get, SO3.ad]
  fin_cases j <;> fin_cases r <;> fin_cases k <;>
    simp only [SO3.tab39, SO3.mk9, Mat.of_get, Vec.of_get, EM, madd, C04Alg.mmul3,
      hat_00, hat_01, hat_02, hat_10, hat_11, hat_12, hat_20, hat_21, hat_22, e,
      Fin.isValue, Fin.reduceEq, ↓reduceIte, Nat.cast_ofNat, Nat.cast_zero,
      Fin.zero_eta, Fin.mk_one, Fin.reduceFinMk, Nat.reduceMul, Nat.reduceAdd, Nat.reduceDiv,
      Nat.reduceMod] <;> ring

theorem eventually_closed (a : Vec ℝ 3) (k : Fin 3) (h : Scalar.eps2 < sqNorm a) :
    ∀ᶠ t in nhds (0:ℝ), Scalar.eps2 < sqNorm (shift a k t) := by
  have hc : ContinuousAt (fun t : ℝ => sqNorm (shift a k t)) 0 := by
    simp only [sqNorm_shift]
    apply Continuous.continuousAt
    continuity
  have h0 : Scalar.eps2 < sqNorm (shift a k 0) := by rw [shift_zero]; exact h
  exact hc.eventually (lt_mem_nhds h0)

theorem d2rExp_hasDerivAt (a : Vec ℝ 3) (h : Scalar.eps2 < sqNorm a) (j r k : Fin 3) :
    HasDerivAt (fun t => (SO3.dr_exp (shift a k t)) j r)
      ((SO3.d2r_exp a) r ⟨3 * j.val + k.val, by have := j.isLt; have := k.isLt; omega⟩) 0 := by
  have hn0 : 0 < sqNorm a := lt_trans eps2_pos h
  -- the three moving pieces
  have hn : HasDerivAt (fun t => sqNorm (shift a k t)) (2 * a k) 0 :=
    hasDerivAt_of_cubic_expansion (R2 := 1) (R3 := 0)
      (fun t => by rw [sqNorm_shift, sqNorm_shift a k 0]; ring)
  have hm : HasDerivAt (fun t => (SO3.hat (shift a k t)) j r) ((SO3.hat (e k)) j r) 0 :=
    hasDerivAt_of_cubic_expansion (R2 := 0) (R3 := 0)
      (fun t => by rw [hat_shift, hat_shift a k 0]; ring)
  have hm2 : HasDerivAt (fun t => (mmul (SO3.hat (shift a k t)) (SO3.hat (shift a k t))) j r)
      ((EM a k) j r) 0 :=
    hasDerivAt_of_cubic_expansion (R2 := (mmul (SO3.hat (e k)) (SO3.hat (e k))) j r) (R3 := 0)
      (fun t => by rw [hat2_shift, hat2_shift a k 0]; ring)
  have e0 : sqNorm a = sqNorm (shift a k 0) := by rw [shift_zero]
  have hα := (hasDerivAt_αr hn0).comp_of_eq (0:ℝ) hn e0
  have hβ := (hasDerivAt_βr hn0).comp_of_eq (0:ℝ) hn e0
  have hg := ((hα.mul hm).const_add ((ident 3 : Mat ℝ 3 3) j r)).add (hβ.mul hm2)
  -- the model's entry
  have hco := d2rExpCoef_closed (not_lt.2 h.le)
  rw [d2r_exp_entry a _ _ _ _ hco j r k]
  refine (hg.congr_deriv ?_).congr_of_eventuallyEq ?_
  · simp only [Function.comp, shift_zero, αr, βr]
    ring
  · filter_upwards [eventually_closed a k h] with t ht
    rw [dr_exp_closed _ ht]
    simp only [poly2, Mat.of_get, Pi.add_apply, Pi.mul_apply, Function.comp]

/-! ### `d2r_expinv` -/

theorem d2rExpinvCoef_closed {n : ℝ} (h : ¬ n < Scalar.eps2) :
    SO3.d2rExpinvCoef n = (Ainv n, dAic n) := by
  simp only [SO3.d2rExpinvCoef, if_neg h, Nat.cast_one, Nat.cast_ofNat, Ainv, dAic]
  rfl

/-- the code's table: entry `(r, 3j+k)` of `d2r_expinv` is `½·E_k + A·(E_k M + M E_k) + dA·a_k·M²` -/
theorem d2r_expinv_entry (a : Vec ℝ 3) (A dA : ℝ)
    (hco : SO3.d2rExpinvCoef (sqNorm a) = (A, dA)) (j r k : Fin 3) :
    (SO3.d2r_expinv a) r ⟨3 * j.val + k.val, by have := j.isLt; have := k.isLt; omega⟩
      = ((1 / 2) * (SO3.hat (e k)) j r + A * (EM a k) j r)
        + (dA * a k) * (mmul (SO3.hat a) (SO3.hat a)) j r := by
  simp only [SO3.d2r_expinv, hco, memoM_eq, Mat.of_get, SO3.ad]
  fin_cases j <;> fin_cases r <;> fin_cases k <;>
    simp only [SO3.tab39, SO3.mk9, Mat.of_get, Vec.of_get, EM, madd, C04Alg.mmul3,
      hat_00, hat_01, hat_02, hat_10, hat_11, hat_12, hat_20, hat_21, hat_22, e,
      Fin.isValue, Fin.reduceEq, ↓reduceIte, Nat.cast_ofNat, Nat.cast_zero, Nat.cast_one,
      Fin.zero_eta, Fin.mk_one, Fin.reduceFinMk, Nat.reduceMul, Nat.reduceAdd, Nat.reduceDiv,
      Nat.reduceMod] <;> ring

theorem d2rExpinv_hasDerivAt (a : Vec ℝ 3) (h : Scalar.eps2 < sqNorm a)
    (hs : Real.sin (Real.sqrt (sqNorm a)) ≠ 0) (j r k : Fin 3) :
    HasDerivAt (fun t => (SO3.dr_expinv (shift a k t)) j r)
      ((SO3.d2r_expinv a) r ⟨3 * j.val + k.val, by have := j.isLt; have := k.isLt; omega⟩) 0 := by
  have hn0 : 0 < sqNorm a := lt_trans eps2_pos h
  have hn : HasDerivAt (fun t => sqNorm (shift a k t)) (2 * a k) 0 :=
    hasDerivAt_of_cubic_expansion (R2 := 1) (R3 := 0)
      (fun t => by rw [sqNorm_shift, sqNorm_shift a k 0]; ring)
  have hm : HasDerivAt (fun t => (SO3.hat (shift a k t)) j r) ((SO3.hat (e k)) j r) 0 :=
    hasDerivAt_of_cubic_expansion (R2 := 0) (R3 := 0)
      (fun t => by rw [hat_shift, hat_shift a k 0]; ring)
  have hm2 : HasDerivAt (fun t => (mmul (SO3.hat (shift a k t)) (SO3.hat (shift a k t))) j r)
      ((EM a k) j r) 0 :=
    hasDerivAt_of_cubic_expansion (R2 := (mmul (SO3.hat (e k)) (SO3.hat (e k))) j r) (R3 := 0)
      (fun t => by rw [hat2_shift, hat2_shift a k 0]; ring)
  have e0 : sqNorm a = sqNorm (shift a k 0) := by rw [shift_zero]
  have hA := (hasDerivAt_Ainv hn0 hs).comp_of_eq (0:ℝ) hn e0
  have hg := ((hm.const_mul (1 / 2 : ℝ)).const_add ((ident 3 : Mat ℝ 3 3) j r)).add (hA.mul hm2)
  have hco := d2rExpinvCoef_closed (not_lt.2 h.le)
  rw [d2r_expinv_entry a _ _ hco j r k]
  refine (hg.congr_deriv ?_).congr_of_eventuallyEq ?_
  · simp only [Function.comp, shift_zero]
    ring
  · filter_upwards [eventually_closed a k h] with t ht
    rw [dr_expinv_closed _ (not_lt.2 ht.le)]
    simp only [poly2, Mat.of_get, Pi.add_apply, Pi.mul_apply, Function.comp]

end C05SO3
