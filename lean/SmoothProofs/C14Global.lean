/-
  C14Global.lean — `reparameterize_spline`: the map assembled from ALL emitted segments.
  `evalMap` is `Spline<2,double>::operator()` on the concatenation (`concat_global` restarts every
  segment at its own `s0`, the final `concat_global(t_max)` makes `t_max` the end value);
  `forward_grid` is the list induction over the forward fold (which segments exist, where they
  start, that their durations are positive), `chain_*` assemble the per-segment facts of
  C14Scan.lean into monotonicity of the whole map.
-/
import SmoothProofs.C14Scan

open Scalar Lin

namespace Reparam

/-- where the (rest of the) map starts: the first segment's `s0`, or `t_max` if none is left -/
def headStart : List (SegOut ℝ) → ℝ → ℝ
  | [], tmax => tmax
  | sg :: _, _ => sg.s0

/-- value of the concatenated map at time `t ≥ 0` -/
noncomputable def evalMap : List (SegOut ℝ) → ℝ → ℝ → ℝ
  | [], tmax, _ => tmax
  | sg :: rest, tmax, t => if t < sg.dt then segVal sg (t / sg.dt) else evalMap rest tmax (t - sg.dt)

/-- total duration -/
def total (segs : List (SegOut ℝ)) : ℝ := (segs.map (·.dt)).sum

/-- every segment has positive duration, non-negative cumulative coefficients and ends at or
    before the start of what follows -/
def Chain : List (SegOut ℝ) → ℝ → Prop
  | [], _ => True
  | sg :: rest, tmax =>
    0 < sg.dt ∧ 0 ≤ sg.c1 ∧ 0 ≤ sg.c2 ∧ segVal sg 1 ≤ headStart rest tmax ∧ Chain rest tmax

theorem segVal_zero (sg : SegOut ℝ) : segVal sg 0 = sg.s0 := by simp [segVal]

theorem headStart_le (segs : List (SegOut ℝ)) (tmax : ℝ) (h : Chain segs tmax) : headStart segs tmax ≤ tmax := by
  induction segs with
  | nil => simp [headStart]
  | cons sg rest ih =>
    obtain ⟨_, h1, h2, h3, h4⟩ := h
    have := segVal_mono sg h1 h2 0 1 (le_refl _) zero_le_one (le_refl _)
    rw [segVal_zero] at this
    simp only [headStart]
    linarith [ih h4]

theorem evalMap_bounds (segs : List (SegOut ℝ)) (tmax : ℝ) (h : Chain segs tmax) (t : ℝ) (ht : 0 ≤ t) :
    headStart segs tmax ≤ evalMap segs tmax t ∧ evalMap segs tmax t ≤ tmax := by
  induction segs generalizing t with
  | nil => simp [headStart, evalMap]
  | cons sg rest ih =>
    obtain ⟨hdt, h1, h2, h3, h4⟩ := h
    simp only [headStart, evalMap]
    split
    · rename_i hlt
      have hu0 : 0 ≤ t / sg.dt := div_nonneg ht (le_of_lt hdt)
      have hu1 : t / sg.dt ≤ 1 := by rw [div_le_one hdt]; exact le_of_lt hlt
      have ha := segVal_mono sg h1 h2 0 (t / sg.dt) (le_refl _) hu0 hu1
      have hb := segVal_mono sg h1 h2 (t / sg.dt) 1 hu0 hu1 (le_refl _)
      rw [segVal_zero] at ha
      exact ⟨ha, le_trans hb (le_trans h3 (headStart_le rest tmax h4))⟩
    · rename_i hge
      have ht' : 0 ≤ t - sg.dt := by linarith [not_lt.1 hge]
      obtain ⟨a, b⟩ := ih h4 (t - sg.dt) ht'
      have hs := segVal_mono sg h1 h2 0 1 (le_refl _) zero_le_one (le_refl _)
      rw [segVal_zero] at hs
      exact ⟨by linarith, b⟩

/-- **the assembled map is non-decreasing** -/
theorem evalMap_mono (segs : List (SegOut ℝ)) (tmax : ℝ) (h : Chain segs tmax) (t1 t2 : ℝ)
    (h0 : 0 ≤ t1) (h12 : t1 ≤ t2) : evalMap segs tmax t1 ≤ evalMap segs tmax t2 := by
  induction segs generalizing t1 t2 with
  | nil => simp [evalMap]
  | cons sg rest ih =>
    obtain ⟨hdt, h1, h2, h3, h4⟩ := h
    simp only [evalMap]
    by_cases c1 : t1 < sg.dt
    · have hu0 : 0 ≤ t1 / sg.dt := div_nonneg h0 (le_of_lt hdt)
      have hu1 : t1 / sg.dt ≤ 1 := by rw [div_le_one hdt]; exact le_of_lt c1
      by_cases c2 : t2 < sg.dt
      · simp only [c1, c2, if_true]
        apply segVal_mono sg h1 h2 _ _ hu0
        · exact div_le_div_of_nonneg_right h12 (le_of_lt hdt)
        · rw [div_le_one hdt]; exact le_of_lt c2
      · simp only [c1, c2, if_true, if_false]
        have ha := segVal_mono sg h1 h2 (t1 / sg.dt) 1 hu0 hu1 (le_refl _)
        have hb := (evalMap_bounds rest tmax h4 (t2 - sg.dt) (by linarith [not_lt.1 c2])).1
        linarith
    · have c2 : ¬ t2 < sg.dt := by intro hc; exact c1 (lt_of_le_of_lt h12 hc)
      simp only [c1, c2, if_false]
      exact ih h4 _ _ (by linarith [not_lt.1 c1]) (by linarith)

/-- the map starts at the first emitted segment's `s0` -/
theorem evalMap_start (sg : SegOut ℝ) (rest : List (SegOut ℝ)) (tmax : ℝ) (hdt : 0 < sg.dt) :
    evalMap (sg :: rest) tmax 0 = sg.s0 := by
  simp [evalMap, hdt, segVal_zero]

theorem total_nonneg (segs : List (SegOut ℝ)) (tmax : ℝ) (h : Chain segs tmax) : 0 ≤ total segs := by
  induction segs with
  | nil => simp [total]
  | cons sg rest ih =>
    obtain ⟨hdt, _, _, _, h4⟩ := h
    have := ih h4
    simp only [total, List.map_cons, List.sum_cons] at this ⊢
    linarith

/-- … and has the value `t_max` from the total duration on (the final `concat_global(t_max)`) -/
theorem evalMap_end (segs : List (SegOut ℝ)) (tmax : ℝ) (h : Chain segs tmax) (t : ℝ) (ht : total segs ≤ t) :
    evalMap segs tmax t = tmax := by
  induction segs generalizing t with
  | nil => simp [evalMap]
  | cons sg rest ih =>
    obtain ⟨hdt, _, _, _, h4⟩ := h
    have hr := total_nonneg rest tmax h4
    simp only [total, List.map_cons, List.sum_cons] at ht hr
    have : ¬ t < sg.dt := by intro hc; linarith
    simp only [evalMap, this, if_false]
    apply ih h4
    simp only [total]; linarith

theorem totalTime_eq_total (segs : List (SegOut ℝ)) : totalTime segs = total segs := by
  unfold totalTime total
  have : ∀ (a : ℝ), segs.foldl (fun t sg => t + sg.dt) a = a + (segs.map (·.dt)).sum := by
    induction segs with
    | nil => intro a; simp
    | cons sg rest ih => intro a; simp only [List.foldl_cons, List.map_cons, List.sum_cons]; rw [ih]; ring
  rw [this]; simp

-- ---------------------------------------------------------------- the forward fold

/-- what the fold guarantees by construction after `j` grid points: positive durations, every
    segment starts at a grid point `s0 + ds·i` with `i < j`, later segments start at least one
    grid step after earlier ones -/
def Grid (s0 ds : ℝ) (j : ℕ) (segs : List (SegOut ℝ)) : Prop :=
  (∀ sg ∈ segs, 0 < sg.dt ∧ ∃ i : ℕ, i < j ∧ sg.s0 = s0 + ds * (i : ℝ)) ∧
  segs.Pairwise (fun a b => a.s0 + ds ≤ b.s0)

theorem grid_mono {s0 ds : ℝ} {j j' : ℕ} {segs : List (SegOut ℝ)} (h : Grid s0 ds j segs) (hj : j ≤ j') :
    Grid s0 ds j' segs :=
  ⟨fun sg hs => by obtain ⟨a, i, hi, e⟩ := h.1 sg hs; exact ⟨a, i, lt_of_lt_of_le hi hj, e⟩, h.2⟩

theorem grid_snoc {s0 ds : ℝ} (hds : 0 < ds) {j : ℕ} {segs : List (SegOut ℝ)} (h : Grid s0 ds j segs)
    (sg : SegOut ℝ) (hdt : 0 < sg.dt) (hs : sg.s0 = s0 + ds * (j : ℝ)) : Grid s0 ds (j + 1) (segs ++ [sg]) := by
  constructor
  · intro x hx
    rcases List.mem_append.1 hx with hx | hx
    · obtain ⟨a, i, hi, e⟩ := h.1 x hx; exact ⟨a, i, by omega, e⟩
    · simp only [List.mem_singleton] at hx; subst hx; exact ⟨hdt, j, by omega, hs⟩
  · rw [List.pairwise_append]
    refine ⟨h.2, List.pairwise_singleton _ _, ?_⟩
    intro a ha b hb
    simp only [List.mem_singleton] at hb; subst hb
    obtain ⟨_, i, hi, e⟩ := h.1 a ha
    rw [e, hs]
    have : (i : ℝ) + 1 ≤ (j : ℝ) := by exact_mod_cast hi
    nlinarith

theorem forward_eq_fold {n : ℕ} (b : Bounds ℝ n) (s0 ds sv : ℝ) (v2max : List ℝ) (samples : List (Sample ℝ n)) :
    forward b s0 ds sv v2max samples
      = (samples.foldl (fstep b s0 ds v2max) (Scalar.min (sv * sv) (v2max.headD (nat 0)), 0, [])).2.2 := rfl

theorem fwdStep_s0 {n : ℕ} (b : Bounds ℝ n) (ds si v2next v2m : ℝ) (p : Sample ℝ n) (sg : SegOut ℝ)
    (h : (fwdStep b ds si v2next v2m p).2 = some sg) : sg.s0 = si := by
  unfold fwdStep at h
  simp only [] at h
  split at h
  · simp at h
  · split at h
    · simp only [Option.some.injEq] at h; rw [← h]; simp [mkSeg]
    · simp at h

theorem fold_grid {n : ℕ} (b : Bounds ℝ n) (s0 ds : ℝ) (hds : 0 < ds) (v2max : List ℝ)
    (samples : List (Sample ℝ n)) (st : ℝ × ℕ × List (SegOut ℝ)) (h : Grid s0 ds st.2.1 st.2.2) :
    let r := samples.foldl (fstep b s0 ds v2max) st
    r.2.1 = st.2.1 + samples.length ∧ Grid s0 ds r.2.1 r.2.2 := by
  induction samples generalizing st with
  | nil => exact ⟨by simp, h⟩
  | cons p t ih =>
    simp only [List.foldl_cons]
    have hst : Grid s0 ds (fstep b s0 ds v2max st p).2.1 (fstep b s0 ds v2max st p).2.2 := by
      unfold fstep
      simp only []
      cases hr : (fwdStep b ds (s0 + ds * nat st.2.1) (v2max.getD (st.2.1 + 1) (nat 0)) st.1 p).2 with
      | none => exact grid_mono h (by omega)
      | some sg =>
        have hp := fwdStep_emits_positive b ds _ _ _ p sg hr
        have hs := fwdStep_s0 b ds _ _ _ p sg hr
        exact grid_snoc hds h sg hp hs
    obtain ⟨e1, e2⟩ := ih _ hst
    refine ⟨?_, e2⟩
    rw [e1]
    simp only [fstep, List.length_cons]
    omega

/-- **which segments the forward pass emits**: positive durations, starting at distinct grid points
    `s0 + ds·i`, `i < N`, in increasing order — for any curve values and any LP results -/
theorem forward_grid {n : ℕ} (b : Bounds ℝ n) (s0 ds sv : ℝ) (hds : 0 < ds) (v2max : List ℝ)
    (samples : List (Sample ℝ n)) : Grid s0 ds samples.length (forward b s0 ds sv v2max samples) := by
  rw [forward_eq_fold]
  have := fold_grid b s0 ds hds v2max samples (Scalar.min (sv * sv) (v2max.headD (nat 0)), 0, [])
    ⟨by simp, List.Pairwise.nil⟩
  simp only [Nat.zero_add] at this
  rw [← this.1]
  exact this.2

/-- grid structure + per-segment facts ⇒ chain -/
theorem chain_of_grid {s0 ds : ℝ} {N : ℕ} (hds : 0 < ds) (segs : List (SegOut ℝ)) (hg : Grid s0 ds N segs)
    (hok : ∀ sg ∈ segs, 0 ≤ sg.c1 ∧ 0 ≤ sg.c2 ∧ segVal sg 1 ≤ sg.s0 + ds) :
    Chain segs (s0 + ds * (N : ℝ)) := by
  induction segs with
  | nil => trivial
  | cons sg rest ih =>
    obtain ⟨hmem, hpw⟩ := hg
    rw [List.pairwise_cons] at hpw
    obtain ⟨hdt, i, hi, es⟩ := hmem sg (List.mem_cons_self ..)
    obtain ⟨c1, c2, hend⟩ := hok sg (List.mem_cons_self ..)
    refine ⟨hdt, c1, c2, ?_, ih ⟨fun x hx => hmem x (List.mem_cons_of_mem _ hx), hpw.2⟩
      (fun x hx => hok x (List.mem_cons_of_mem _ hx))⟩
    cases rest with
    | nil =>
      simp only [headStart]
      have : (i : ℝ) + 1 ≤ (N : ℝ) := by exact_mod_cast hi
      rw [es] at hend
      nlinarith
    | cons nx _ =>
      simp only [headStart]
      have := hpw.1 nx (List.mem_cons_self ..)
      linarith

end Reparam
