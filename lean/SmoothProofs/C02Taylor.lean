/-
  C02Taylor.lean — the series branches of the coefficient functions are within an explicit
  next-term bound of the closed forms (exact arithmetic), for every argument on the series side
  of the switch.  Real-analysis input: C02TaylorReal.lean.
-/
import SmoothProofs.C02Basic
import SmoothProofs.C02TaylorReal
import Mathlib.Analysis.SpecialFunctions.Sqrt
import Mathlib.Tactic.FieldSimp
import Mathlib.Tactic.Positivity

open Lin Scalar

namespace C02

/-! ### real-variable forms (`x = √x2 > 0`) -/

theorem cos_2_real (x : ℝ) (hx0 : 0 < x) (hx1 : x ≤ 1) :
    |(-1/2 + x^2/24 - x^2*x^2/720) - (Real.cos x - 1)/x^2| ≤ (x^2)^3 * (9/322560) := by
  have hb := cos_bound8 x (by rw [abs_of_pos hx0]; exact hx1)
  rw [abs_of_pos hx0] at hb
  have key : (-1/2 + x^2/24 - x^2*x^2/720) - (Real.cos x - 1)/x^2
      = -(Real.cos x - (1 - x^2/2 + x^4/24 - x^6/720))/x^2 := by field_simp; ring
  rw [key, abs_div, abs_neg, abs_of_pos (by positivity : (0:ℝ) < x^2), div_le_iff₀ (by positivity)]
  calc _ ≤ x^8 * (9/322560) := hb
    _ = (x^2)^3 * (9/322560) * x^2 := by ring

theorem sin_3_real (x : ℝ) (hx0 : 0 < x) (hx1 : x ≤ 1) :
    |(-1/6 + x^2/120 - x^2*x^2/5040) - (Real.sin x - x)/(x^2*x)| ≤ (x^2)^3 * (10/3265920) := by
  have hb := sin_bound9 x (by rw [abs_of_pos hx0]; exact hx1)
  rw [abs_of_pos hx0] at hb
  have key : (-1/6 + x^2/120 - x^2*x^2/5040) - (Real.sin x - x)/(x^2*x)
      = -(Real.sin x - (x - x^3/6 + x^5/120 - x^7/5040))/(x^2*x) := by field_simp; ring
  rw [key, abs_div, abs_neg, abs_of_pos (by positivity : (0:ℝ) < x^2*x), div_le_iff₀ (by positivity)]
  calc _ ≤ x^9 * (10/3265920) := hb
    _ = (x^2)^3 * (10/3265920) * (x^2*x) := by ring

theorem cos_4_real (x : ℝ) (hx0 : 0 < x) (hx1 : x ≤ 1) :
    |(1/24 - x^2/720 + (x^2*x^2)/40320) - (Real.cos x - 1 + x^2/2)/(x^2*x^2)|
      ≤ (x^2)^3 * (11/36288000) := by
  have hb := cos_bound10 x (by rw [abs_of_pos hx0]; exact hx1)
  rw [abs_of_pos hx0] at hb
  have key : (1/24 - x^2/720 + (x^2*x^2)/40320) - (Real.cos x - 1 + x^2/2)/(x^2*x^2)
      = -(Real.cos x - (1 - x^2/2 + x^4/24 - x^6/720 + x^8/40320))/(x^2*x^2) := by
    field_simp; ring
  rw [key, abs_div, abs_neg, abs_of_pos (by positivity : (0:ℝ) < x^2*x^2),
    div_le_iff₀ (by positivity)]
  calc _ ≤ x^10 * (11/36288000) := hb
    _ = (x^2)^3 * (11/36288000) * (x^2*x^2) := by ring

theorem sin_5_real (x : ℝ) (hx0 : 0 < x) (hx1 : x ≤ 1) :
    |(1/120 - x^2/5040 + x^2*x^2/362880) - (Real.sin x - x + x^2*x/6)/(x^2*x^2*x)|
      ≤ (x^2)^3 * (12/439084800) := by
  have hb := sin_bound11 x (by rw [abs_of_pos hx0]; exact hx1)
  rw [abs_of_pos hx0] at hb
  have key : (1/120 - x^2/5040 + x^2*x^2/362880) - (Real.sin x - x + x^2*x/6)/(x^2*x^2*x)
      = -(Real.sin x - (x - x^3/6 + x^5/120 - x^7/5040 + x^9/362880))/(x^2*x^2*x) := by
    field_simp; ring
  rw [key, abs_div, abs_neg, abs_of_pos (by positivity : (0:ℝ) < x^2*x^2*x),
    div_le_iff₀ (by positivity)]
  calc _ ≤ x^11 * (12/439084800) := hb
    _ = (x^2)^3 * (12/439084800) * (x^2*x^2*x) := by ring

theorem cos_6_real (x : ℝ) (hx0 : 0 < x) (hx1 : x ≤ 1) :
    |(-1/720 + x^2/40320 - (x^2*x^2)/3628800)
        - (Real.cos x - 1 + x^2/2 - (x^2*x^2)/24)/((x^2*x^2)*x^2)|
      ≤ (x^2)^3 * (13/5748019200) := by
  have hb := cos_bound12 x (by rw [abs_of_pos hx0]; exact hx1)
  rw [abs_of_pos hx0] at hb
  have key : (-1/720 + x^2/40320 - (x^2*x^2)/3628800)
        - (Real.cos x - 1 + x^2/2 - (x^2*x^2)/24)/((x^2*x^2)*x^2)
      = -(Real.cos x - (1 - x^2/2 + x^4/24 - x^6/720 + x^8/40320 - x^10/3628800))/((x^2*x^2)*x^2) := by
    field_simp; ring
  rw [key, abs_div, abs_neg, abs_of_pos (by positivity : (0:ℝ) < (x^2*x^2)*x^2),
    div_le_iff₀ (by positivity)]
  calc _ ≤ x^12 * (13/5748019200) := hb
    _ = (x^2)^3 * (13/5748019200) * ((x^2*x^2)*x^2) := by ring


/-! ### the model functions `Trig.cos_2 … cos_6` -/

theorem sqrt_small {x2 : ℝ} (h0 : 0 < x2) (h1 : x2 ≤ Scalar.eps2) :
    0 < Real.sqrt x2 ∧ Real.sqrt x2 ≤ 1 ∧ Real.sqrt x2 ^ 2 = x2 := by
  refine ⟨Real.sqrt_pos.2 h0, ?_, Real.sq_sqrt h0.le⟩
  rw [scalar_eps2] at h1
  calc Real.sqrt x2 ≤ Real.sqrt 1 := Real.sqrt_le_sqrt (by linarith)
    _ = 1 := Real.sqrt_one

theorem cube_small {x2 : ℝ} (h0 : 0 < x2) (h1 : x2 ≤ Scalar.eps2) : x2 ^ 3 ≤ 1 / 10 ^ 24 := by
  rw [scalar_eps2] at h1
  calc x2 ^ 3 ≤ (1 / 100000000 : ℝ) ^ 3 := pow_le_pow_left₀ h0.le h1 3
    _ = 1 / 10 ^ 24 := by norm_num

theorem trig_cos_2_series (x2 : ℝ) (h0 : 0 < x2) (h1 : x2 ≤ Scalar.eps2) :
    |Trig.cos_2 x2 - (Real.cos (Real.sqrt x2) - 1) / x2| ≤ x2 ^ 3 * (9 / 322560) := by
  obtain ⟨hs0, hs1, hs2⟩ := sqrt_small h0 h1
  have := cos_2_real (Real.sqrt x2) hs0 hs1
  rw [hs2] at this
  simpa [Trig.cos_2, not_lt.2 h1] using this

theorem trig_cos_2_closed (x2 : ℝ) (h : Scalar.eps2 < x2) :
    Trig.cos_2 x2 = (Real.cos (Real.sqrt x2) - 1) / x2 := by
  simp [Trig.cos_2, h]

theorem trig_sin_3_series (x2 : ℝ) (h0 : 0 < x2) (h1 : x2 ≤ Scalar.eps2) :
    |Trig.sin_3 x2 - (Real.sin (Real.sqrt x2) - Real.sqrt x2) / (x2 * Real.sqrt x2)|
      ≤ x2 ^ 3 * (10 / 3265920) := by
  obtain ⟨hs0, hs1, hs2⟩ := sqrt_small h0 h1
  have := sin_3_real (Real.sqrt x2) hs0 hs1
  rw [hs2] at this
  simpa [Trig.sin_3, not_lt.2 h1] using this

theorem trig_sin_3_closed (x2 : ℝ) (h : Scalar.eps2 < x2) :
    Trig.sin_3 x2 = (Real.sin (Real.sqrt x2) - Real.sqrt x2) / (x2 * Real.sqrt x2) := by
  simp [Trig.sin_3, h]

theorem trig_cos_4_series (x2 : ℝ) (h0 : 0 < x2) (h1 : x2 ≤ Scalar.eps2) :
    |Trig.cos_4 x2 - (Real.cos (Real.sqrt x2) - 1 + x2 / 2) / (x2 * x2)|
      ≤ x2 ^ 3 * (11 / 36288000) := by
  obtain ⟨hs0, hs1, hs2⟩ := sqrt_small h0 h1
  have := cos_4_real (Real.sqrt x2) hs0 hs1
  rw [hs2] at this
  simpa [Trig.cos_4, not_lt.2 h1] using this

theorem trig_cos_4_closed (x2 : ℝ) (h : Scalar.eps2 < x2) :
    Trig.cos_4 x2 = (Real.cos (Real.sqrt x2) - 1 + x2 / 2) / (x2 * x2) := by
  simp [Trig.cos_4, h]

theorem trig_sin_5_series (x2 : ℝ) (h0 : 0 < x2) (h1 : x2 ≤ Scalar.eps2) :
    |Trig.sin_5 x2 - (Real.sin (Real.sqrt x2) - Real.sqrt x2 + x2 * Real.sqrt x2 / 6)
        / (x2 * x2 * Real.sqrt x2)| ≤ x2 ^ 3 * (12 / 439084800) := by
  obtain ⟨hs0, hs1, hs2⟩ := sqrt_small h0 h1
  have := sin_5_real (Real.sqrt x2) hs0 hs1
  rw [hs2] at this
  simpa [Trig.sin_5, not_lt.2 h1] using this

theorem trig_sin_5_closed (x2 : ℝ) (h : Scalar.eps2 < x2) :
    Trig.sin_5 x2 = (Real.sin (Real.sqrt x2) - Real.sqrt x2 + x2 * Real.sqrt x2 / 6)
        / (x2 * x2 * Real.sqrt x2) := by
  simp [Trig.sin_5, h]

theorem trig_cos_6_series (x2 : ℝ) (h0 : 0 < x2) (h1 : x2 ≤ Scalar.eps2) :
    |Trig.cos_6 x2 - (Real.cos (Real.sqrt x2) - 1 + x2 / 2 - (x2 * x2) / 24) / ((x2 * x2) * x2)|
      ≤ x2 ^ 3 * (13 / 5748019200) := by
  obtain ⟨hs0, hs1, hs2⟩ := sqrt_small h0 h1
  have := cos_6_real (Real.sqrt x2) hs0 hs1
  rw [hs2] at this
  simpa [Trig.cos_6, not_lt.2 h1] using this

theorem trig_cos_6_closed (x2 : ℝ) (h : Scalar.eps2 < x2) :
    Trig.cos_6 x2 = (Real.cos (Real.sqrt x2) - 1 + x2 / 2 - (x2 * x2) / 24) / ((x2 * x2) * x2) := by
  simp [Trig.cos_6, h]

/-- values at `x2 = 0` are the limits of the closed forms (first series coefficient). -/
theorem trig_at_zero :
    Trig.cos_2 (0:ℝ) = -1/2 ∧ Trig.sin_3 (0:ℝ) = -1/6 ∧ Trig.cos_4 (0:ℝ) = 1/24 ∧
    Trig.sin_5 (0:ℝ) = 1/120 ∧ Trig.cos_6 (0:ℝ) = -1/720 := by
  have h : ¬ (Scalar.eps2 : ℝ) < 0 := not_lt.2 eps2_pos.le
  refine ⟨?_, ?_, ?_, ?_, ?_⟩ <;> simp [Trig.cos_2, Trig.sin_3, Trig.cos_4, Trig.sin_5, Trig.cos_6, h]


/-! ### SO3.expAB and SE2.expAB -/

theorem so3_expA_real (θ : ℝ) (h0 : 0 < θ) (h1 : θ ≤ 1) :
    |(1/2 - θ^2/48) - Real.sin (θ/2)/θ| ≤ (θ^2)^2 * (1/3200) := by
  have hh0 : 0 < θ/2 := by linarith
  have hb := sin_bound5 (θ/2) (by rw [abs_of_pos hh0]; linarith)
  rw [abs_of_pos hh0] at hb
  have key : (1/2 - θ^2/48) - Real.sin (θ/2)/θ
      = -(Real.sin (θ/2) - (θ/2 - (θ/2)^3/6))/θ := by field_simp; ring
  rw [key, abs_div, abs_neg, abs_of_pos h0, div_le_iff₀ h0]
  calc _ ≤ (θ/2)^5 * (1/100) := hb
    _ = (θ^2)^2 * (1/3200) * θ := by ring

theorem so3_expB_real (θ : ℝ) (h0 : 0 < θ) (h1 : θ ≤ 1) :
    |(1 - θ^2/8) - Real.cos (θ/2)| ≤ (θ^2)^2 * (5/1536) := by
  have hh0 : 0 < θ/2 := by linarith
  have hb := cos_bound4 (θ/2) (by rw [abs_of_pos hh0]; linarith)
  rw [abs_of_pos hh0] at hb
  have key : (1 - θ^2/8) - Real.cos (θ/2) = -(Real.cos (θ/2) - (1 - (θ/2)^2/2)) := by ring
  rw [key, abs_neg]
  calc _ ≤ (θ/2)^4 * (5/96) := hb
    _ = (θ^2)^2 * (5/1536) := by ring

/-- SO3 `exp` coefficients, series branch vs closed form: next-term bounds. -/
theorem so3_expAB_series (th2 : ℝ) (h0 : 0 < th2) (h1 : th2 < Scalar.eps2) :
    |(SO3.expAB th2).1 - Real.sin (Real.sqrt th2 / 2) / Real.sqrt th2| ≤ th2 ^ 2 * (1 / 3200) ∧
    |(SO3.expAB th2).2 - Real.cos (Real.sqrt th2 / 2)| ≤ th2 ^ 2 * (5 / 1536) := by
  obtain ⟨hs0, hs1, hs2⟩ := sqrt_small h0 h1.le
  have hA := so3_expA_real (Real.sqrt th2) hs0 hs1
  have hB := so3_expB_real (Real.sqrt th2) hs0 hs1
  rw [hs2] at hA hB
  constructor
  · simpa [SO3.expAB, h1] using hA
  · simpa [SO3.expAB, h1] using hB

theorem so3_expAB_closed (th2 : ℝ) (h : ¬ th2 < Scalar.eps2) :
    SO3.expAB th2 = (Real.sin (Real.sqrt th2 / 2) / Real.sqrt th2, Real.cos (Real.sqrt th2 / 2)) := by
  simp [SO3.expAB, h]

theorem se2_expA_real (θ : ℝ) (h0 : θ ≠ 0) (h1 : |θ| ≤ 1) :
    |(1 - θ*θ/6) - Real.sin θ/θ| ≤ (θ*θ)^2 * (1/100) := by
  have hb := sin_bound5 θ h1
  have hpos : 0 < |θ| := abs_pos.2 h0
  have key : (1 - θ*θ/6) - Real.sin θ/θ = -(Real.sin θ - (θ - θ^3/6))/θ := by field_simp; ring
  rw [key, abs_div, abs_neg, div_le_iff₀ hpos]
  calc _ ≤ |θ|^5 * (1/100) := hb
    _ = (|θ| * |θ|) ^ 2 * (1/100) * |θ| := by ring
    _ = (θ*θ)^2 * (1/100) * |θ| := by rw [abs_mul_abs_self]

theorem se2_expB_real (θ : ℝ) (h0 : θ ≠ 0) (h1 : |θ| ≤ 1) :
    |(-θ/2 + θ*(θ*θ)/24) - (Real.cos θ - 1)/θ| ≤ (θ*θ)^2 * |θ| * (7/4320) := by
  have hb := cos_bound6 θ h1
  have hpos : 0 < |θ| := abs_pos.2 h0
  have key : (-θ/2 + θ*(θ*θ)/24) - (Real.cos θ - 1)/θ
      = -(Real.cos θ - (1 - θ^2/2 + θ^4/24))/θ := by field_simp; ring
  rw [key, abs_div, abs_neg, div_le_iff₀ hpos]
  calc _ ≤ |θ|^6 * (7/4320) := hb
    _ = (|θ| * |θ|) ^ 2 * |θ| * (7/4320) * |θ| := by ring
    _ = (θ*θ)^2 * |θ| * (7/4320) * |θ| := by rw [abs_mul_abs_self]

theorem abs_le_one_of_sq_small {θ : ℝ} (h1 : θ * θ < Scalar.eps2) : |θ| ≤ 1 := by
  rw [scalar_eps2] at h1
  rw [abs_le]; constructor <;> nlinarith

/-- SE2 `exp` coefficients, series branch vs closed form: next-term bounds. -/
theorem se2_expAB_series (θ : ℝ) (h0 : θ ≠ 0) (h1 : θ * θ < Scalar.eps2) :
    |(SE2.expAB θ (θ * θ)).1 - Real.sin θ / θ| ≤ (θ * θ) ^ 2 * (1 / 100) ∧
    |(SE2.expAB θ (θ * θ)).2 - (Real.cos θ - 1) / θ| ≤ (θ * θ) ^ 2 * |θ| * (7 / 4320) := by
  have hle := abs_le_one_of_sq_small h1
  have hA := se2_expA_real θ h0 hle
  have hB := se2_expB_real θ h0 hle
  constructor
  · simpa [SE2.expAB, h1] using hA
  · simpa [SE2.expAB, h1] using hB

theorem se2_expAB_closed (θ : ℝ) (h : ¬ θ * θ < Scalar.eps2) :
    SE2.expAB θ (θ * θ) = (Real.sin θ / θ, (Real.cos θ - 1) / θ) := by
  simp [SE2.expAB, h]

end C02
