/-
  C05SE2.lean — SE2 `d2r_exp` / `d2r_expinv` are the derivatives of `dr_exp` / `dr_expinv`
  (closed branch), all 27 entries each, layout `H[r, 3·j + k] = ∂J[j,r]/∂a_k`.
  Same structure as C05SO3 with `M = ad a` (linear in `a`) and `θ = a_2` (only `k = 2` moves it).
-/
import SmoothProofs.C05SO3

open Lin Scalar

namespace C05SE2
open C04Alg C04SO3 C04SE2 C05Calc C05dQ C05SO3

theorem ad_00 (a : Vec ℝ 3) : (SE2.ad a) 0 0 = 0 := by simp [SE2.ad, mat3]
theorem ad_01 (a : Vec ℝ 3) : (SE2.ad a) 0 1 = -(a 2) := by simp [SE2.ad, mat3]
theorem ad_02 (a : Vec ℝ 3) : (SE2.ad a) 0 2 = a 1 := by simp [SE2.ad, mat3]
theorem ad_10 (a : Vec ℝ 3) : (SE2.ad a) 1 0 = a 2 := by simp [SE2.ad, mat3]
theorem ad_11 (a : Vec ℝ 3) : (SE2.ad a) 1 1 = 0 := by simp [SE2.ad, mat3]
theorem ad_12 (a : Vec ℝ 3) : (SE2.ad a) 1 2 = -(a 0) := by simp [SE2.ad, mat3]
theorem ad_20 (a : Vec ℝ 3) : (SE2.ad a) 2 0 = 0 := by simp [SE2.ad, mat3]
theorem ad_21 (a : Vec ℝ 3) : (SE2.ad a) 2 1 = 0 := by simp [SE2.ad, mat3]
theorem ad_22 (a : Vec ℝ 3) : (SE2.ad a) 2 2 = 0 := by simp [SE2.ad, mat3]

theorem theta_shift (a : Vec ℝ 3) (k : Fin 3) (t : ℝ) :
    (shift a k t) 2 = a 2 + t * (e k) 2 := by
  fin_cases k <;> simp [shift, e]

theorem ad_shift (a : Vec ℝ 3) (k : Fin 3) (t : ℝ) (j r : Fin 3) :
    (SE2.ad (shift a k t)) j r = (SE2.ad a) j r + t * (SE2.ad (e k)) j r := by
  fin_cases k <;> fin_cases j <;> fin_cases r <;> simp [SE2.ad, mat3, shift, e] <;> ring

/-- `E_k M + M E_k`, `M = ad a`, `E_k = ad e_k` -/
noncomputable def EM (a : Vec ℝ 3) (k : Fin 3) : Mat ℝ 3 3 :=
  madd (mmul (SE2.ad (e k)) (SE2.ad a)) (mmul (SE2.ad a) (SE2.ad (e k)))

theorem ad2_shift (a : Vec ℝ 3) (k : Fin 3) (t : ℝ) (j r : Fin 3) :
    (mmul (SE2.ad (shift a k t)) (SE2.ad (shift a k t))) j r
      = (mmul (SE2.ad a) (SE2.ad a)) j r + t * (EM a k) j r
        + t ^ 2 * (mmul (SE2.ad (e k)) (SE2.ad (e k))) j r + t ^ 3 * 0 := by
  simp only [C04Alg.mmul3, ad_shift, EM, madd, Mat.of_get]
  ring

theorem d2rExpCoef_closed {θ : ℝ} (h : ¬ θ * θ < Scalar.eps2) :
    SE2.d2rExpCoef θ = ((1 - Real.cos θ) / (θ * θ), (θ - Real.sin θ) / (θ * θ * θ), dAe θ, dBe θ) := by
  simp only [SE2.d2rExpCoef, if_neg h, Nat.cast_one, Nat.cast_ofNat, dAe, dBe]
  rfl

theorem d2rExpinvCoef_closed {θ : ℝ} (h : ¬ θ * θ < Scalar.eps2) :
    SE2.d2rExpinvCoef θ = (1 / (θ * θ) - (1 + Real.cos θ) / (2 * θ * Real.sin θ), dAie θ) := by
  simp only [SE2.d2rExpinvCoef, if_neg h, Nat.cast_one, Nat.cast_ofNat, dAie]
  rfl

macro "se2_tab_simp" : tactic => `(tactic|
  simp only [SE2.tab39, SE2.mk9, Mat.of_get, Vec.of_get, EM, madd, C04Alg.mmul3,
      ad_00, ad_01, ad_02, ad_10, ad_11, ad_12, ad_20, ad_21, ad_22, e,
      Fin.isValue, Fin.reduceEq, ↓reduceIte, Nat.cast_ofNat, Nat.cast_zero, Nat.cast_one,
      Scalar.nat_real, Fin.zero_eta, Fin.mk_one, Fin.reduceFinMk, Nat.reduceMul, Nat.reduceAdd,
      Nat.reduceDiv, Nat.reduceMod, Nat.reduceEqDiff, OfNat.ofNat_ne_zero, OfNat.ofNat_ne_one,
      zero_ne_one, one_ne_zero])

/-- the code's table: entry `(r, 3j+k)` of SE2 `d2r_exp` for any coefficient values -/
theorem d2r_exp_entry (a : Vec ℝ 3) (A B dA dB : ℝ)
    (hco : SE2.d2rExpCoef (a 2) = (A, B, dA, dB)) (j r k : Fin 3) :
    (SE2.d2r_exp a) r ⟨3 * j.val + k.val, by have := j.isLt; have := k.isLt; omega⟩
      = ((-A) * (SE2.ad (e k)) j r + B * (EM a k) j r)
        - (dA * (e k) 2) * (SE2.ad a) j r + (dB * (e k) 2) * (mmul (SE2.ad a) (SE2.ad a)) j r := by
  simp only [SE2.d2r_exp, hco, memoM_eq, Mat.of_get]
  fin_cases j <;> fin_cases r <;> fin_cases k <;> se2_tab_simp <;> ring

theorem d2r_expinv_entry (a : Vec ℝ 3) (A dA : ℝ)
    (hco : SE2.d2rExpinvCoef (a 2) = (A, dA)) (j r k : Fin 3) :
    (SE2.d2r_expinv a) r ⟨3 * j.val + k.val, by have := j.isLt; have := k.isLt; omega⟩
      = ((1 / 2) * (SE2.ad (e k)) j r + A * (EM a k) j r)
        + (dA * (e k) 2) * (mmul (SE2.ad a) (SE2.ad a)) j r := by
  simp only [SE2.d2r_expinv, hco, memoM_eq, Mat.of_get]
  fin_cases j <;> fin_cases r <;> fin_cases k <;> se2_tab_simp <;> ring

theorem theta_ne_zero {θ : ℝ} (h : Scalar.eps2 < θ * θ) : θ ≠ 0 := by
  rintro rfl
  have := eps2_pos
  simp at h
  linarith

theorem eventually_closed (a : Vec ℝ 3) (k : Fin 3) (h : Scalar.eps2 < a 2 * a 2) :
    ∀ᶠ t in nhds (0:ℝ), Scalar.eps2 < (shift a k t) 2 * (shift a k t) 2 := by
  have hc : ContinuousAt (fun t : ℝ => (shift a k t) 2 * (shift a k t) 2) 0 := by
    simp only [theta_shift]
    apply Continuous.continuousAt
    continuity
  have h0 : Scalar.eps2 < (shift a k 0) 2 * (shift a k 0) 2 := by rw [shift_zero]; exact h
  exact hc.eventually (lt_mem_nhds h0)

theorem d2rExp_hasDerivAt (a : Vec ℝ 3) (h : Scalar.eps2 < a 2 * a 2) (j r k : Fin 3) :
    HasDerivAt (fun t => (SE2.dr_exp (shift a k t)) j r)
      ((SE2.d2r_exp a) r ⟨3 * j.val + k.val, by have := j.isLt; have := k.isLt; omega⟩) 0 := by
  have hθ0 := theta_ne_zero h
  have hθ : HasDerivAt (fun t => (shift a k t) 2) ((e k) 2) 0 :=
    hasDerivAt_of_cubic_expansion (R2 := 0) (R3 := 0)
      (fun t => by rw [theta_shift, theta_shift a k 0]; ring)
  have hm : HasDerivAt (fun t => (SE2.ad (shift a k t)) j r) ((SE2.ad (e k)) j r) 0 :=
    hasDerivAt_of_cubic_expansion (R2 := 0) (R3 := 0)
      (fun t => by rw [ad_shift, ad_shift a k 0]; ring)
  have hm2 : HasDerivAt (fun t => (mmul (SE2.ad (shift a k t)) (SE2.ad (shift a k t))) j r)
      ((EM a k) j r) 0 :=
    hasDerivAt_of_cubic_expansion (R2 := (mmul (SE2.ad (e k)) (SE2.ad (e k))) j r) (R3 := 0)
      (fun t => by rw [ad2_shift, ad2_shift a k 0]; ring)
  have e0 : a 2 = (shift a k 0) 2 := by rw [shift_zero]
  have hα := (hasDerivAt_αe hθ0).comp_of_eq (0:ℝ) hθ e0
  have hβ := (hasDerivAt_βe hθ0).comp_of_eq (0:ℝ) hθ e0
  have hg := ((hα.mul hm).const_add ((ident 3 : Mat ℝ 3 3) j r)).add (hβ.mul hm2)
  have hco := d2rExpCoef_closed (not_lt.2 h.le)
  rw [d2r_exp_entry a _ _ _ _ hco j r k]
  refine (hg.congr_deriv ?_).congr_of_eventuallyEq ?_
  · simp only [Function.comp, shift_zero, αe, βe]
    field_simp
    ring
  · filter_upwards [eventually_closed a k h] with t ht
    rw [C04SE2.dr_exp_closed _ ht]
    simp only [poly2, Mat.of_get, Pi.add_apply, Pi.mul_apply, Function.comp]

theorem d2rExpinv_hasDerivAt (a : Vec ℝ 3) (h : Scalar.eps2 < a 2 * a 2)
    (hs : Real.sin (a 2) ≠ 0) (j r k : Fin 3) :
    HasDerivAt (fun t => (SE2.dr_expinv (shift a k t)) j r)
      ((SE2.d2r_expinv a) r ⟨3 * j.val + k.val, by have := j.isLt; have := k.isLt; omega⟩) 0 := by
  have hθ0 := theta_ne_zero h
  have hθ : HasDerivAt (fun t => (shift a k t) 2) ((e k) 2) 0 :=
    hasDerivAt_of_cubic_expansion (R2 := 0) (R3 := 0)
      (fun t => by rw [theta_shift, theta_shift a k 0]; ring)
  have hm : HasDerivAt (fun t => (SE2.ad (shift a k t)) j r) ((SE2.ad (e k)) j r) 0 :=
    hasDerivAt_of_cubic_expansion (R2 := 0) (R3 := 0)
      (fun t => by rw [ad_shift, ad_shift a k 0]; ring)
  have hm2 : HasDerivAt (fun t => (mmul (SE2.ad (shift a k t)) (SE2.ad (shift a k t))) j r)
      ((EM a k) j r) 0 :=
    hasDerivAt_of_cubic_expansion (R2 := (mmul (SE2.ad (e k)) (SE2.ad (e k))) j r) (R3 := 0)
      (fun t => by rw [ad2_shift, ad2_shift a k 0]; ring)
  have e0 : a 2 = (shift a k 0) 2 := by rw [shift_zero]
  have hA := (hasDerivAt_Ae hθ0 hs).comp_of_eq (0:ℝ) hθ e0
  have hg := ((hm.const_mul (1 / 2 : ℝ)).const_add ((ident 3 : Mat ℝ 3 3) j r)).add (hA.mul hm2)
  have hco := d2rExpinvCoef_closed (not_lt.2 h.le)
  rw [d2r_expinv_entry a _ _ hco j r k]
  refine (hg.congr_deriv ?_).congr_of_eventuallyEq ?_
  · simp only [Function.comp, shift_zero, Ae]
    field_simp
    ring
  · filter_upwards [eventually_closed a k h] with t ht
    rw [C04SE2.dr_expinv_closed _ (not_lt.2 ht.le)]
    simp only [poly2, Mat.of_get, Pi.add_apply, Pi.mul_apply, Function.comp]

/-! ### the series-branch constant `dA_dwz = 1/360` of `d2r_expinv` (observation): induced error -/

theorem ad_sq (a : Vec ℝ 3) :
    mmul (SE2.ad a) (SE2.ad a)
      = mat3 (-(a 2 * a 2)) 0 (a 2 * a 0) 0 (-(a 2 * a 2)) (a 2 * a 1) 0 0 0 := by
  ext i j
  fin_cases i <;> fin_cases j <;>
    simp only [C04Alg.mmul3, ad_00, ad_01, ad_02, ad_10, ad_11, ad_12, ad_20, ad_21, ad_22, mat3,
      Mat.of_get, Fin.zero_eta, Fin.mk_one, Fin.reduceFinMk, Fin.isValue] <;> ring

theorem abs_lt_of_series {θ : ℝ} (h : θ * θ < Scalar.eps2) : |θ| ≤ 1 / 10000 := by
  rw [eps2_real] at h
  have h2 : |θ| * |θ| < 1 / 100000000 := by rw [abs_mul_abs_self]; exact h
  by_contra hc
  rw [not_le] at hc
  have := abs_nonneg θ
  nlinarith

/-- In the series branch the code adds `(1/360)·ad²[j,r]` to column `3j+2` where the derivative of its
    own `A = 1/12 + wz²/720` requires `(wz/360)·ad²[j,r]`; the difference is bounded by
    `|ad²[j,r]|/359`, and `ad² = [[−θ², 0, θx],[0, −θ², θy],[0,0,0]]` is `O(θ·|a|)`. -/
theorem d2rExpinv_series_error (a : Vec ℝ 3) (h : a 2 * a 2 < Scalar.eps2) (j r : Fin 3) :
    |(SE2.d2rExpinvCoef (a 2)).2 * (mmul (SE2.ad a) (SE2.ad a)) j r
        - (a 2 / 360) * (mmul (SE2.ad a) (SE2.ad a)) j r|
      ≤ |(mmul (SE2.ad a) (SE2.ad a)) j r| / 359 := by
  have hco : (SE2.d2rExpinvCoef (a 2)).2 = 1 / 360 := by
    simp only [SE2.d2rExpinvCoef, if_pos h, Nat.cast_one, Nat.cast_ofNat]
  have hθ := abs_lt_of_series h
  obtain ⟨hθ1, hθ2⟩ := abs_le.1 hθ
  rw [hco, ← sub_mul, abs_mul]
  have hc : |1 / 360 - a 2 / 360| ≤ 1 / 359 := by
    rw [abs_le]
    constructor <;> linarith
  calc |1 / 360 - a 2 / 360| * |(mmul (SE2.ad a) (SE2.ad a)) j r|
      ≤ 1 / 359 * |(mmul (SE2.ad a) (SE2.ad a)) j r| :=
        mul_le_mul_of_nonneg_right hc (abs_nonneg _)
    _ = |(mmul (SE2.ad a) (SE2.ad a)) j r| / 359 := by ring

end C05SE2
