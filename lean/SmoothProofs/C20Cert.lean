/-
  C20Cert.lean — bridge between the kernel-evaluated rational certificates of C20Tables.lean and real
  analysis: a polynomial whose Bernstein-form coefficients are ≥ lo is ≥ lo on [0,1].
  Used for "B-spline bases are non-negative on [0,1]" (model tables, K ≤ 10) and for the tables dumped
  from the code (≥ −1e-9).
-/
import Mathlib.Data.Rat.Cast.Order
import Mathlib.Data.Real.Basic
import SmoothProofs.C20Tables
import SmoothProofs.C20Bernstein

namespace C20C
open Poly Finset C20T

theorem allBelow_iff (n : Nat) (p : Nat → Bool) : allBelow n p = true ↔ ∀ i, i < n → p i = true := by
  simp [allBelow, List.all_eq_true]

theorem sumQ_eq_sum (n : Nat) (f : Nat → Q) : sumQ n f = ∑ i ∈ range n, f i := by
  unfold sumQ
  induction n with
  | zero => simp
  | succ n ih => rw [List.range_succ, List.foldl_append, ih, Finset.sum_range_succ]; simp

theorem getQ_ofFn (r c : Nat) (f : Nat → Nat → Q) (i j : Nat) :
    (ofFn r c f).get i j = if i < r ∧ j < c then f i j else 0 := by
  unfold Tab.get ofFn rget
  by_cases hi : i < r <;> by_cases hj : j < c <;> simp [List.getD_eq_getElem?_getD, hi, hj]

theorem pget_col (M : Tab Q) (rows j i : Nat) (h : i < rows) : pget (col M rows j) i = M.get i j := by
  simp [pget, col, rowFn, List.getD_eq_getElem?_getD, h]

theorem choose_eq (n k : Nat) : C20T.choose n k = n.choose k := by
  induction n generalizing k with
  | zero => rcases k with _ | k <;> simp [C20T.choose]
  | succ n ih => rcases k with _ | k
                 · simp [C20T.choose]
                 · rw [C20T.choose, ih, ih, Nat.choose_succ_succ]

theorem sgn_cast (n : Nat) : ((sgn n : Q) : ℝ) = (-1) ^ n := by
  unfold sgn
  rcases Nat.even_or_odd n with h | h
  · rw [if_pos (Nat.even_iff.mp h), h.neg_one_pow]; simp
  · rw [if_neg (by rw [Nat.odd_iff.mp h]; decide), h.neg_one_pow]; simp

/-- the rational closed form of C20Tables is the real closed form of C20Bernstein -/
theorem bernClosed_cast (K i j : Nat) : ((bernClosed K i j : Q) : ℝ) = C20B.bernC K i j := by
  unfold bernClosed C20B.bernC
  by_cases hji : j ≤ i
  · rw [if_pos hji, choose_eq, choose_eq]
    push_cast
    rw [sgn_cast]
    have h1 : (-1 : ℝ) ^ (i + j) = (-1) ^ (i - j) := by
      rw [show i + j = (i - j) + 2 * j by omega, pow_add, pow_mul]; norm_num
    have h2 : (K.choose i : ℝ) * (i.choose j : ℝ) = (K.choose j : ℝ) * ((K - j).choose (i - j) : ℝ) := by
      exact_mod_cast Nat.choose_mul (n := K) (k := i) (s := j) hji
    rw [h1, mul_assoc, h2]
  · rw [if_neg hji, Nat.choose_eq_zero_of_lt (by omega : i < j)]; simp

/-- if `Bn` is the degree-K Bernstein table (as rationals) and every column of `M` passes the
    Bernstein-form certificate with lower bound `lo`, then every basis polynomial of `M` is ≥ lo on [0,1] -/
theorem nonneg_of_bernstein_certificate (Bn M : Tab Q) (K : Nat) (lo : Q)
    (hB : ∀ i j, i ≤ K → j ≤ K → ((Bn.get i j : Q) : ℝ) = C20B.bernC K i j)
    (hcert : allColsBernCert Bn M K lo = true) (j : Nat) (hj : j ≤ K) (u : ℝ) (h0 : 0 ≤ u) (h1 : u ≤ 1) :
    (lo : ℝ) ≤ ∑ i ∈ range (K+1), ((M.get i j : Q) : ℝ) * u ^ i := by
  rw [allColsBernCert, allBelow_iff] at hcert
  have hc := hcert j (by omega)
  rw [bernCertOK, Bool.and_eq_true, allBelow_iff, allBelow_iff] at hc
  obtain ⟨ha, hlo⟩ := hc
  set c : Nat → Q := fun j' => pget (bernCoeffs K (col M (K+1) j)) j' with hcdef
  have ha' : ∀ i, i < K + 1 → ((M.get i j : Q) : ℝ) = ∑ j' ∈ range (K+1), C20B.bernC K i j' * ((c j' : Q) : ℝ) := by
    intro i hi
    have := of_decide_eq_true (ha i hi)
    rw [pget_col _ _ _ _ hi, sumQ_eq_sum] at this
    rw [this]
    push_cast
    apply Finset.sum_congr rfl
    intro j' hj'
    rw [hB i j' (by omega) (by have := Finset.mem_range.mp hj'; omega)]
  have hlo' : ∀ j', j' < K + 1 → (lo : ℝ) ≤ ((c j' : Q) : ℝ) := by
    intro j' hj'
    exact_mod_cast of_decide_eq_true (hlo j' hj')
  calc (lo : ℝ) = ∑ j' ∈ range (K+1), (lo : ℝ) * C20B.bernPoly K j' u := by
        rw [← Finset.mul_sum, C20B.sum_bernPoly, mul_one]
    _ ≤ ∑ j' ∈ range (K+1), ((c j' : Q) : ℝ) * C20B.bernPoly K j' u := by
        apply Finset.sum_le_sum
        intro j' hj'
        exact mul_le_mul_of_nonneg_right (hlo' j' (Finset.mem_range.mp hj')) (C20B.bernPoly_nonneg K j' u h0 h1)
    _ = ∑ i ∈ range (K+1), ((M.get i j : Q) : ℝ) * u ^ i := by
        have e : ∀ i ∈ range (K+1), ((M.get i j : Q) : ℝ) * u ^ i
            = ∑ j' ∈ range (K+1), C20B.bernC K i j' * ((c j' : Q) : ℝ) * u ^ i :=
          fun i hi => by rw [ha' i (Finset.mem_range.mp hi), Finset.sum_mul]
        rw [Finset.sum_congr rfl e, Finset.sum_comm]
        apply Finset.sum_congr rfl
        intro j' hj'
        rw [← C20B.sum_bernC_pow K j' u (by have := Finset.mem_range.mp hj'; omega), Finset.mul_sum]
        apply Finset.sum_congr rfl
        intro i _
        ring

/-- a table that passes `closedOK … (bernClosed K)` is the real Bernstein table -/
theorem bern_table_cast (Bn : Tab Q) (K : Nat) (h : closedOK Bn K (bernClosed K) = true) (i j : Nat)
    (hi : i ≤ K) (hj : j ≤ K) : ((Bn.get i j : Q) : ℝ) = C20B.bernC K i j := by
  have : Bn = ofFn (K+1) (K+1) (bernClosed K) := by
    unfold closedOK at h; exact eq_of_beq h
  rw [this, getQ_ofFn, if_pos ⟨by omega, by omega⟩, bernClosed_cast K i j]

end C20C
