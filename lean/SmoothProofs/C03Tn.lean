/-
  C03Tn.lean — C03 for the translation groups `Tn n` (every `n`): commutative, `Ad = 1`, `ad = 0`.
-/
import SmoothProofs.C03Adjoint

open Lin Scalar
set_option linter.unusedSimpArgs false
set_option linter.unusedTactic false
set_option linter.unreachableTactic false
set_option linter.unnecessarySeqFocus false

namespace C03
namespace Tn
variable {n : Nat}

/-- documented algebra of `Tn`: only the last column above the corner may be non-zero -/
def InAlgebra (A : Mat ℝ (n + 1) (n + 1)) : Prop := ∀ i j, (j.val < n ∨ i.val = n) → A i j = 0

theorem hat_apply (a : Vec ℝ n) (i j : Fin (n + 1)) :
    Tn.hat a i j = if j.val < n then 0 else if hi : i.val < n then a ⟨i.val, hi⟩ else 0 := by
  simp [Tn.hat]

theorem matrix_apply (g : Vec ℝ n) (i j : Fin (n + 1)) :
    Tn.matrix g i j = if j.val < n then (if i.val = j.val then 1 else 0)
      else if hi : i.val < n then g ⟨i.val, hi⟩ else 1 := by
  simp [Tn.matrix]

theorem vee_hat (a : Vec ℝ n) : Tn.vee (Tn.hat a) = a := by
  ext i; simp [Tn.vee, Tn.hat]

theorem hat_inAlgebra (a : Vec ℝ n) : InAlgebra (Tn.hat a) := by
  intro i j h
  rw [hat_apply]
  rcases h with h | h
  · simp [h]
  · have : ¬ i.val < n := by omega
    simp [this]

theorem hat_vee (A : Mat ℝ (n + 1) (n + 1)) (h : InAlgebra A) : Tn.hat (Tn.vee A) = A := by
  ext i j
  rw [hat_apply]
  by_cases hj : j.val < n
  · simp [hj, h i j (Or.inl hj)]
  · by_cases hi : i.val < n
    · obtain ⟨jv, hjlt⟩ := j
      have e : jv = n := by simp at hj; omega
      subst e
      simp [hi, Tn.vee]
    · have : i.val = n := by have := i.isLt; omega
      simp [hj, hi, h i j (Or.inr this)]

theorem hat_add (a b : Vec ℝ n) : Tn.hat (vadd a b) = madd (Tn.hat a) (Tn.hat b) := by
  ext i j
  simp only [hat_apply, madd, vadd, Mat.of_get, Vec.of_get]
  split_ifs <;> simp

theorem hat_smul (s : ℝ) (a : Vec ℝ n) : Tn.hat (vsmul s a) = msmul s (Tn.hat a) := by
  ext i j
  simp only [hat_apply, msmul, vsmul, Mat.of_get, Vec.of_get]
  split_ifs <;> simp

theorem hat_zero : Tn.hat (vzero n : Vec ℝ n) = mzero (n + 1) (n + 1) := by
  ext i j
  simp only [hat_apply, mzero, vzero, Mat.of_get, Vec.of_get]
  split_ifs <;> simp

/-- commutative group: all `hat a`, `hat b` commute — both products vanish -/
theorem hat_mul_hat (a b : Vec ℝ n) : mmul (Tn.hat a) (Tn.hat b) = mzero (n + 1) (n + 1) := by
  ext i j
  rw [mmul_apply]
  simp only [mzero, Mat.of_get, Scalar.nat_real, Nat.cast_zero]
  apply Finset.sum_eq_zero
  intro l _
  simp only [hat_apply]
  by_cases hl : l.val < n
  · simp [hl]
  · simp [hl]

theorem hat_comm (a b : Vec ℝ n) : mmul (Tn.hat a) (Tn.hat b) = mmul (Tn.hat b) (Tn.hat a) := by
  rw [hat_mul_hat, hat_mul_hat]

/-- `matrix g · hat a = hat a` -/
theorem matrix_mul_hat (g a : Vec ℝ n) : mmul (Tn.matrix g) (Tn.hat a) = Tn.hat a := by
  ext i j
  rw [mmul_apply]
  rw [Finset.sum_eq_single i]
  · simp only [matrix_apply, hat_apply]
    by_cases hj : j.val < n <;> by_cases hi : i.val < n <;> simp [hj, hi]
  · intro l _ hl
    simp only [matrix_apply, hat_apply]
    by_cases hl' : l.val < n
    · have : ¬ i.val = l.val := fun e => hl (Fin.ext e.symm)
      simp [hl', this]
    · simp [hl']
  · simp

/-- `hat a · matrix g = hat a` -/
theorem hat_mul_matrix (g a : Vec ℝ n) : mmul (Tn.hat a) (Tn.matrix g) = Tn.hat a := by
  ext i j
  rw [mmul_apply]
  rw [Finset.sum_eq_single j]
  · simp only [matrix_apply, hat_apply]
    by_cases hj : j.val < n <;> by_cases hi : i.val < n <;> simp [hj, hi]
  · intro l _ hl
    simp only [matrix_apply, hat_apply]
    by_cases hl' : l.val < n
    · simp [hl']
    · have hln : l.val = n := by have := l.isLt; omega
      have : j.val < n := by
        have := j.isLt
        rcases Nat.lt_or_ge j.val n with h | h
        · exact h
        · exact absurd (Fin.ext (by omega)) hl
      have h2 : ¬ l.val = j.val := by omega
      simp [hl', this, h2]
  · simp

/-- commutative group: `matrix g` commutes with every `hat a` (so `Ad = 1` agrees) -/
theorem matrix_hat_comm (g a : Vec ℝ n) :
    mmul (Tn.matrix g) (Tn.hat a) = mmul (Tn.hat a) (Tn.matrix g) := by
  rw [matrix_mul_hat, hat_mul_matrix]

/-- API-level form (`Ad = 1` short-cut of lie_group_base.hpp) -/
theorem Ad_def (g a : Vec ℝ n) :
    mmul (Tn.matrix g) (Tn.hat a) = mmul (Tn.hat (mulVec (ident n) a)) (Tn.matrix g) := by
  rw [mulVec_ident]; exact matrix_hat_comm g a

/-- API-level form (`ad = 0` short-cut of lie_group_base.hpp) -/
theorem ad_def (a b : Vec ℝ n) :
    Tn.hat (mulVec (mzero n n) b) = msub (mmul (Tn.hat a) (Tn.hat b)) (mmul (Tn.hat b) (Tn.hat a)) := by
  rw [mulVec_mzero, hat_zero, hat_comm a b]; ext i j; simp [msub, mzero]

theorem Ad_composition : (ident n : Mat ℝ n n) = mmul (ident n) (ident n) := by
  apply toM_inj; rw [toM_mmul, toM_ident, Matrix.one_mul]

theorem adjointRep (n : Nat) : AdjointRep (Tn.model n : LieModel ℝ) (fun _ => True) InAlgebra where
  vee_hat := vee_hat
  hat_inAlg := hat_inAlgebra
  hat_vee := hat_vee
  hat_add := hat_add
  hat_smul := hat_smul
  Ad_def := fun g a _ => Ad_def g a
  ad_def := ad_def
  Ad_comp := fun _ _ _ _ => Ad_composition

end Tn
end C03
