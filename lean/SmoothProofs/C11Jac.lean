/-
  C11Jac.lean — the Jacobian recursions of `cspline_eval_dg_dvs` in an abstract algebra with a
  second derivation `δ` ("variation of the differences v_j in some direction").

  `δ` is additive + Leibniz on the ring `𝔸`.  A factor `E = exp(b V)` varies as `δE = E·R`
  (`R = (b·dr_exp(b v) δv)^` — the right Jacobian of exp, C04), `δV = W` (`W = (δv)^`), the basis
  scalars do not vary (`δ c_k = 0`).  The code works with `Rm = (b·dr_exp(−b v) δv)^` and the
  identity `Ad(exp(−b v))·dr_exp(−b v) = dr_exp(b v)`, i.e. `Ei·Rm·E = R`.
  `stepJ` is the loop body of cumulative_spline_impl.hpp:112-149 applied to one direction:
      X ← Ei X E + R                                            (dg_dvs)
      Y ← Ei Y E + Ei (vel Rm − Rm vel) E + c1 W                (dvel_dvs, old vel)
      Z ← Ei Z E − c1 (V Y' − Y' V) + Ei (acc Rm − Rm acc) E + c1 (vel' W − W vel') + c2 W   (dacc_dvs)
  and the theorem says `X = g⁻¹ δg`, `Y = δ vel`, `Z = δ acc` after any list of factors.
-/
import SmoothProofs.C11Alg

namespace C11

/-- one factor with its variation data -/
structure VFactor (𝔸 : Type*) [Ring 𝔸] (δ : Deriv 𝔸) where
  E : 𝔸
  Ei : 𝔸
  V : 𝔸
  c1 : 𝔸
  c2 : 𝔸
  R : 𝔸
  Rm : 𝔸
  W : 𝔸
  E_Ei : E * Ei = 1
  Ei_E : Ei * E = 1
  δE : δ.D E = E * R
  δV : δ.D V = W
  δc1 : δ.D c1 = 0
  δc2 : δ.D c2 = 0
  conj : Ei * Rm * E = R

/-- loop state of `cspline_eval_dg_dvs` for one direction of variation -/
structure JState (𝔸 : Type*) where
  g : 𝔸
  gi : 𝔸
  vel : 𝔸
  acc : 𝔸
  X : 𝔸
  Y : 𝔸
  Z : 𝔸

variable {𝔸 : Type*} [Ring 𝔸]

/-- the loop body of `cspline_eval_dg_dvs` as a ring formula -/
def stepJFormula (E Ei V c1 c2 R Rm W : 𝔸) (s : JState 𝔸) : JState 𝔸 :=
  let X' := Ei * s.X * E + R
  let Y' := Ei * s.Y * E + Ei * (s.vel * Rm - Rm * s.vel) * E + c1 * W
  let vel' := Ei * s.vel * E + c1 * V
  let Z' := Ei * s.Z * E - c1 * (V * Y' - Y' * V) + Ei * (s.acc * Rm - Rm * s.acc) * E
              + c1 * (vel' * W - W * vel') + c2 * W
  let acc' := Ei * s.acc * E + c1 * (vel' * V - V * vel') + c2 * V
  ⟨s.g * E, Ei * s.gi, vel', acc', X', Y', Z'⟩

variable {δ : Deriv 𝔸}

def stepJ (F : VFactor 𝔸 δ) (s : JState 𝔸) : JState 𝔸 :=
  stepJFormula F.E F.Ei F.V F.c1 F.c2 F.R F.Rm F.W s

/-- invariant: `X = g⁻¹ δg`, `Y = δ vel`, `Z = δ acc` -/
structure JGood (δ : Deriv 𝔸) (s : JState 𝔸) : Prop where
  g_gi : s.g * s.gi = 1
  gi_g : s.gi * s.g = 1
  X : s.X = s.gi * δ.D s.g
  Y : s.Y = δ.D s.vel
  Z : s.Z = δ.D s.acc

def initJ : JState 𝔸 := ⟨1, 1, 0, 0, 0, 0, 0⟩

theorem jgood_init : JGood δ (initJ : JState 𝔸) := by
  refine ⟨by simp [initJ], by simp [initJ], ?_, ?_, ?_⟩ <;> simp [initJ, δ.one, δ.zero]

section step
variable (F : VFactor 𝔸 δ) (s : JState 𝔸)

theorem δEi : δ.D F.Ei = - (F.R * F.Ei) := by
  rw [δ.inv F.E_Ei F.Ei_E, F.δE]
  have : F.Ei * (F.E * F.R) * F.Ei = (F.Ei * F.E) * F.R * F.Ei := by noncomm_ring
  rw [this, F.Ei_E, one_mul]

/-- `δ (Ei A E) = Ei (δA) E + Ei (A Rm − Rm A) E` -/
theorem δ_conj (A : 𝔸) :
    δ.D (F.Ei * A * F.E) = F.Ei * δ.D A * F.E + F.Ei * (A * F.Rm - F.Rm * A) * F.E := by
  rw [δ.mul, δ.mul, δEi, F.δE]
  have h1 : F.Ei * (A * F.Rm - F.Rm * A) * F.E
      = (F.Ei * A * (F.E * F.Ei) * F.Rm * F.E) - (F.Ei * F.Rm * (F.E * F.Ei) * A * F.E) := by
    rw [F.E_Ei]; noncomm_ring
  have h2 : F.Ei * A * (F.E * F.Ei) * F.Rm * F.E = F.Ei * A * F.E * (F.Ei * F.Rm * F.E) := by noncomm_ring
  have h3 : F.Ei * F.Rm * (F.E * F.Ei) * A * F.E = (F.Ei * F.Rm * F.E) * (F.Ei * A * F.E) := by noncomm_ring
  rw [h1, h2, h3, F.conj]
  noncomm_ring

theorem stepJ_X (h : JGood δ s) : (stepJ F s).X = (stepJ F s).gi * δ.D (stepJ F s).g := by
  show F.Ei * s.X * F.E + F.R = F.Ei * s.gi * δ.D (s.g * F.E)
  rw [δ.mul, F.δE, h.X]
  calc F.Ei * (s.gi * δ.D s.g) * F.E + F.R
      = F.Ei * s.gi * δ.D s.g * F.E + (F.Ei * (s.gi * s.g) * F.E) * F.R := by
        rw [h.gi_g, mul_one, F.Ei_E, one_mul]; noncomm_ring
    _ = F.Ei * s.gi * (δ.D s.g * F.E + s.g * (F.E * F.R)) := by noncomm_ring

theorem stepJ_Y (h : JGood δ s) : (stepJ F s).Y = δ.D (stepJ F s).vel := by
  show F.Ei * s.Y * F.E + F.Ei * (s.vel * F.Rm - F.Rm * s.vel) * F.E + F.c1 * F.W
      = δ.D (F.Ei * s.vel * F.E + F.c1 * F.V)
  rw [δ.add, δ_conj, δ.mul, F.δc1, F.δV, ← h.Y]
  noncomm_ring

theorem stepJ_Z (h : JGood δ s) : (stepJ F s).Z = δ.D (stepJ F s).acc := by
  have hY := stepJ_Y F s h
  obtain ⟨Y', hY'⟩ : ∃ Y', Y' = (stepJ F s).Y := ⟨_, rfl⟩
  obtain ⟨v', hv'⟩ : ∃ v', v' = (stepJ F s).vel := ⟨_, rfl⟩
  have hδv : δ.D v' = Y' := by rw [hv', hY', hY]
  have hZ : (stepJ F s).Z = F.Ei * s.Z * F.E - F.c1 * (F.V * Y' - Y' * F.V)
      + F.Ei * (s.acc * F.Rm - F.Rm * s.acc) * F.E + F.c1 * (v' * F.W - F.W * v') + F.c2 * F.W := by
    rw [hY', hv']; rfl
  have hacc : (stepJ F s).acc = F.Ei * s.acc * F.E + F.c1 * (v' * F.V - F.V * v') + F.c2 * F.V := by
    rw [hv']; rfl
  rw [hZ, hacc, δ.add, δ.add, δ_conj, δ.mul, δ.mul, δ.sub, δ.mul, δ.mul, F.δc1, F.δc2, F.δV, hδv, ← h.Z]
  noncomm_ring

theorem jgood_step (h : JGood δ s) : JGood δ (stepJ F s) :=
  ⟨by show s.g * F.E * (F.Ei * s.gi) = 1
      calc s.g * F.E * (F.Ei * s.gi) = s.g * (F.E * F.Ei) * s.gi := by noncomm_ring
        _ = 1 := by rw [F.E_Ei, mul_one, h.g_gi],
   by show F.Ei * s.gi * (s.g * F.E) = 1
      calc F.Ei * s.gi * (s.g * F.E) = F.Ei * (s.gi * s.g) * F.E := by noncomm_ring
        _ = 1 := by rw [h.gi_g, mul_one, F.Ei_E],
   stepJ_X F s h, stepJ_Y F s h, stepJ_Z F s h⟩

end step

theorem jgood_foldl (Fs : List (VFactor 𝔸 δ)) (s : JState 𝔸) (h : JGood δ s) :
    JGood δ (Fs.foldl (fun s F => stepJ F s) s) := by
  induction Fs generalizing s with
  | nil => exact h
  | cons F Fs ih => exact ih _ (jgood_step F s h)

/-- the `(g, gi, vel, acc)` part of `stepJ` is that of `stepFormula` (the same curve) -/
theorem stepJ_curve (E Ei V c1 c2 R Rm W c3 : 𝔸) (s : JState 𝔸) (jer : 𝔸) :
    let a := stepFormula E Ei V c1 c2 c3 ⟨s.g, s.gi, s.vel, s.acc, jer⟩
    let j := stepJFormula E Ei V c1 c2 R Rm W s
    j.g = a.g ∧ j.gi = a.gi ∧ j.vel = a.vel ∧ j.acc = a.acc := by
  intro a j
  refine ⟨rfl, rfl, rfl, ?_⟩
  show Ei * s.acc * E + c1 * ((Ei * s.vel * E + c1 * V) * V - V * (Ei * s.vel * E + c1 * V)) + c2 * V = _
  rfl

end C11
