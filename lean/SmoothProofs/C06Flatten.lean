/-
  C06Flatten.lean — nested Bundles: `Bundle.bundle (ps ++ Bundle.bundle qs :: rs)` has the same
  coefficient / tangent / matrix layout as the Bundle of the flattened list `ps ++ qs ++ rs`:
  equal totals, and every leaf part starts at the same flat offset (for each of the three size
  functions rep, dof, dim).  Together with the part-by-part theorems of C06List (applied to the
  outer list and again to the nested list) this says that the nested Bundle performs the same leaf
  operation on the same flat segment as the flattened Bundle.
-/
import SmoothProofs.C06List

open Lin Scalar
set_option linter.unusedSectionVars false
set_option linter.unusedVariables false

namespace C06
variable {α : Type} [Scalar α]

/-- the three size functions, with the facts that make `offs` compute totals -/
structure SizeFn (S : LieModel α → Nat) : Prop where
  prod : ∀ A B : LieModel α, S (Bundle.prod A B) = S A + S B
  unit : S (Bundle.unit : LieModel α) = 0

theorem sizeFn_rep : SizeFn (α := α) LieModel.rep := ⟨fun _ _ => rfl, rfl⟩
theorem sizeFn_dof : SizeFn (α := α) LieModel.dof := ⟨fun _ _ => rfl, rfl⟩
theorem sizeFn_dim : SizeFn (α := α) LieModel.dim := ⟨fun _ _ => rfl, rfl⟩

variable {S : LieModel α → Nat}

/-- the size of a Bundle is the sum of the part sizes -/
theorem size_bundle (hS : SizeFn S) (ps : List (LieModel α)) : S (Bundle.bundle ps) = (ps.map S).sum := by
  induction ps with
  | nil => exact hS.unit
  | cons p ps ih =>
    show S (Bundle.prod p (Bundle.bundle ps)) = _
    rw [hS.prod, ih]; simp

theorem offs_append_left (ps rs : List (LieModel α)) (i : Nat) (h : i ≤ ps.length) :
    offs S (ps ++ rs) i = offs S ps i := by
  rw [offs_eq_sum_take, offs_eq_sum_take, List.map_append, List.take_append_of_le_length (by simpa using h)]

theorem offs_append_right (ps rs : List (LieModel α)) (k : Nat) :
    offs S (ps ++ rs) (ps.length + k) = (ps.map S).sum + offs S rs k := by
  rw [offs_eq_sum_take, offs_eq_sum_take, List.map_append]
  have : (ps.map S).length = ps.length := by simp
  rw [← this, List.take_length_add_append, List.sum_append]

/-- totals: nesting does not change the size -/
theorem flatten_size (hS : SizeFn S) (ps qs rs : List (LieModel α)) :
    S (Bundle.bundle (ps ++ Bundle.bundle qs :: rs)) = S (Bundle.bundle (ps ++ (qs ++ rs))) := by
  rw [size_bundle hS, size_bundle hS]
  simp [size_bundle hS, List.sum_append]

/-- parts before the nested Bundle keep their offsets -/
theorem flatten_offs_before (ps qs rs : List (LieModel α)) (i : Nat) (h : i ≤ ps.length) :
    offs S (ps ++ Bundle.bundle qs :: rs) i = offs S (ps ++ (qs ++ rs)) i := by
  rw [offs_append_left _ _ i h, offs_append_left _ _ i h]

/-- leaf `j` of the nested Bundle: (start of the nested Bundle) + (start of `j` inside it) is the
    start of leaf `|ps| + j` of the flattened Bundle -/
theorem flatten_offs_inside (ps qs rs : List (LieModel α)) (j : Nat) (h : j ≤ qs.length) :
    offs S (ps ++ Bundle.bundle qs :: rs) ps.length + offs S qs j = offs S (ps ++ (qs ++ rs)) (ps.length + j) := by
  have e1 := offs_append_right (S := S) ps (Bundle.bundle qs :: rs) 0
  have e2 := offs_append_right (S := S) ps (qs ++ rs) j
  simp only [Nat.add_zero, offs_zero] at e1
  rw [e1, e2, offs_append_left _ _ j h]

/-- parts after the nested Bundle: part `|ps| + 1 + k` of the nested list is part
    `|ps| + |qs| + k` of the flattened list, at the same offset -/
theorem flatten_offs_after (hS : SizeFn S) (ps qs rs : List (LieModel α)) (k : Nat) :
    offs S (ps ++ Bundle.bundle qs :: rs) (ps.length + (1 + k)) = offs S (ps ++ (qs ++ rs)) (ps.length + (qs.length + k)) := by
  rw [offs_append_right, offs_append_right, Nat.add_comm 1 k, offs_succ, offs_append_right, size_bundle hS]

end C06
