/-
  C02Galilei.lean — Galilei: the closed-form branch of `exp` (`v = S₁ b`, `p = S₁ q + S₂ b τ`) is
  the matrix exponential of the 5×5 `hat a`, any magnitude of the rotation part.
  Block form `[[K, (b q)],[0, N]]` with `N = [[0, τ],[0, 0]]`; the second translation column
  needs the `S₂` curve `w(u) = (u²/2 + γ_u K + δ_u K²) b`, `w' = K w + u b`.
-/
import SmoothProofs.C02SEK3

open Lin Scalar

namespace C02

/-- the `S₂` curve -/
noncomputable def wCurve (x y z θ : ℝ) (b : Fin 3 → ℝ) (u : ℝ) : Fin 3 → ℝ :=
  (u * u / 2) • b + ((u*θ - Real.sin (u*θ)) / (θ*θ*θ)) • (K3 x y z).mulVec b
    + ((u*u*(θ*θ)/2 + Real.cos (u*θ) - 1) / (θ*θ*(θ*θ))) • (K3 x y z).mulVec ((K3 x y z).mulVec b)

theorem wCurve_zero (x y z θ : ℝ) (b : Fin 3 → ℝ) : wCurve x y z θ b 0 = 0 := by
  simp [wCurve]

theorem wCurve_hasDerivAt (x y z θ : ℝ) (b : Fin 3 → ℝ) (hθ : θ ≠ 0)
    (hn : θ * θ = x*x + y*y + z*z) (t : ℝ) (i : Fin 3) :
    HasDerivAt (fun u => wCurve x y z θ b u i)
      (((K3 x y z).mulVec (wCurve x y z θ b t) + t • b) i) t := by
  set K := K3 x y z with hK
  set w1 := K.mulVec b with hw1
  set w2 := K.mulVec w1 with hw2
  have hl : HasDerivAt (fun u : ℝ => u * θ) θ t := by
    simpa using (hasDerivAt_id t).mul_const θ
  have hKw : K.mulVec (wCurve x y z θ b t) = (t * t / 2) • w1
      + ((t*θ - Real.sin (t*θ)) / (θ*θ*θ)) • w2
      + ((t*t*(θ*θ)/2 + Real.cos (t*θ) - 1) / (θ*θ*(θ*θ))) • ((-(x*x + y*y + z*z)) • w1) := by
    simp only [wCurve, Matrix.mulVec_add, Matrix.mulVec_smul, ← hK, ← hw1, ← hw2]
    rw [hw2, hw1, hK, K3_mulVec_cube]
  rw [hKw]
  have he : (fun u => wCurve x y z θ b u i) = fun u => u * u / 2 * b i
      + (u*θ - Real.sin (u*θ)) / (θ*θ*θ) * w1 i
      + (u*u*(θ*θ)/2 + Real.cos (u*θ) - 1) / (θ*θ*(θ*θ)) * w2 i := by
    funext u
    simp only [wCurve, ← hK, ← hw1, ← hw2, Pi.add_apply, Pi.smul_apply, smul_eq_mul]
  rw [he]
  have hsq : HasDerivAt (fun u : ℝ => u * u) (1 * t + t * 1) t :=
    (hasDerivAt_id t).mul (hasDerivAt_id t)
  have hd := ((((hsq.div_const 2).mul_const (b i)).add
    (((hl.sub hl.sin).div_const (θ*θ*θ)).mul_const (w1 i)))).add
    ((((((hsq.mul_const (θ*θ)).div_const 2).add hl.cos).sub_const 1).div_const
      (θ*θ*(θ*θ))).mul_const (w2 i))
  refine hd.congr_deriv ?_
  simp only [Pi.add_apply, Pi.smul_apply, smul_eq_mul]
  rw [← hn]
  field_simp
  ring


/-- the two translation columns `(b | q)` -/
def vMat2 (b q : Fin 3 → ℝ) : Matrix (Fin 3) (Fin 2) ℝ := fun c i => if i = 0 then b c else q c

/-- the two translation curves `(S₁-curve of b | S₁-curve of q + τ·S₂-curve of b)` -/
noncomputable def cMat (x y z θ : ℝ) (b q : Fin 3 → ℝ) (τ u : ℝ) : Matrix (Fin 3) (Fin 2) ℝ :=
  fun c i => if i = 0 then pCurve x y z θ b u c
    else pCurve x y z θ q u c + τ * wCurve x y z θ b u c

def nMat (τ : ℝ) : Matrix (Fin 2) (Fin 2) ℝ := !![0, τ; 0, 0]
def dMat (τ u : ℝ) : Matrix (Fin 2) (Fin 2) ℝ := !![1, u * τ; 0, 1]

theorem nMat_mul_dMat (τ u : ℝ) : nMat τ * dMat τ u = nMat τ := by
  ext i j; fin_cases i <;> fin_cases j <;> simp [nMat, dMat, Matrix.mul_apply, Fin.sum_univ_two]

theorem cMat_zero (x y z θ : ℝ) (b q : Fin 3 → ℝ) (τ : ℝ) : cMat x y z θ b q τ 0 = 0 := by
  ext c i; fin_cases i <;> simp [cMat, pCurve_zero, wCurve_zero]

theorem dMat_zero (τ : ℝ) : dMat τ 0 = 1 := by
  ext i j; fin_cases i <;> fin_cases j <;> simp [dMat]

/-- the Galilei curve at `u = 1` is the matrix exponential -/
theorem galilei_curve_eq_exp (x y z θ : ℝ) (b q : Fin 3 → ℝ) (τ : ℝ) (hθ : θ ≠ 0)
    (hn : θ * θ = x*x + y*y + z*z) :
    blkK (rodCurve x y z θ 1) (cMat x y z θ b q τ 1) (dMat τ 1)
      = NormedSpace.exp (blkK (K3 x y z) (vMat2 b q) (nMat τ)) := by
  let Φ : ℝ → Matrix (Fin (3 + 2)) (Fin (3 + 2)) ℝ := fun u =>
    blkK (rodCurve x y z θ u) (cMat x y z θ b q τ u) (dMat τ u)
  have h := Matrix.eq_exp_of_entry_hasDerivAt_one (blkK (K3 x y z) (vMat2 b q) (nMat τ)) Φ
    (by
      simp only [Φ, rodCurve_zero, cMat_zero, dMat_zero]
      exact blkK_one)
    (by
      intro t i j
      simp only [Φ, blkK_mul, nMat_mul_dMat]
      have key0 : ∀ c, (K3 x y z * cMat x y z θ b q τ t + vMat2 b q * dMat τ t) c 0
          = ((K3 x y z).mulVec (pCurve x y z θ b t) + (1:ℝ) • b) c := by
        intro c
        simp [Matrix.mul_apply, Matrix.mulVec, dotProduct, cMat, vMat2, dMat, Fin.sum_univ_two]
      have key1 : ∀ c, (K3 x y z * cMat x y z θ b q τ t + vMat2 b q * dMat τ t) c 1
          = ((K3 x y z).mulVec (pCurve x y z θ q t) + (1:ℝ) • q) c
            + τ * ((K3 x y z).mulVec (wCurve x y z θ b t) + t • b) c := by
        intro c
        simp [Matrix.mul_apply, Matrix.mulVec, dotProduct, cMat, vMat2, dMat, Fin.sum_univ_two,
          Fin.sum_univ_three]
        ring
      by_cases hi : i.val < 3
      · by_cases hj : j.val < 3
        · simpa [blkK, hi, hj] using rodCurve_hasDerivAt x y z θ hθ hn t ⟨i.val, hi⟩ ⟨j.val, hj⟩
        · have hj34 : j.val = 3 ∨ j.val = 4 := by have := j.isLt; omega
          rcases hj34 with h3 | h4
          · have hj' : (⟨j.val - 3, by omega⟩ : Fin 2) = 0 := Fin.ext (by simp [h3])
            have := pCurve_hasDerivAt x y z θ b hθ hn t ⟨i.val, hi⟩
            rw [← key0] at this
            simpa [blkK, hi, hj, hj', cMat] using this
          · have hj' : (⟨j.val - 3, by omega⟩ : Fin 2) = 1 := Fin.ext (by simp [h4])
            have h1 := pCurve_hasDerivAt x y z θ q hθ hn t ⟨i.val, hi⟩
            have h2 := (wCurve_hasDerivAt x y z θ b hθ hn t ⟨i.val, hi⟩).const_mul τ
            have : HasDerivAt (fun u => pCurve x y z θ q u ⟨i.val, hi⟩
                + τ * wCurve x y z θ b u ⟨i.val, hi⟩)
                (((K3 x y z).mulVec (pCurve x y z θ q t) + (1:ℝ) • q) ⟨i.val, hi⟩
                  + τ * ((K3 x y z).mulVec (wCurve x y z θ b t) + t • b) ⟨i.val, hi⟩) t :=
              h1.add h2
            rw [← key1] at this
            simpa [blkK, hi, hj, hj', cMat] using this
      · by_cases hj : j.val < 3
        · simpa [blkK, hi, hj] using hasDerivAt_const t (0:ℝ)
        · have hi34 : i.val = 3 ∨ i.val = 4 := by have := i.isLt; omega
          have hj34 : j.val = 3 ∨ j.val = 4 := by have := j.isLt; omega
          have hl : HasDerivAt (fun u : ℝ => u * τ) τ t := by
            simpa using (hasDerivAt_id t).mul_const τ
          rcases hi34 with hi3 | hi4 <;> rcases hj34 with hj3 | hj4
          · have hi' : (⟨i.val - 3, by omega⟩ : Fin 2) = 0 := Fin.ext (by simp [hi3])
            have hj' : (⟨j.val - 3, by omega⟩ : Fin 2) = 0 := Fin.ext (by simp [hj3])
            simpa [blkK, hi, hj, hi', hj', dMat, nMat] using hasDerivAt_const t (1:ℝ)
          · have hi' : (⟨i.val - 3, by omega⟩ : Fin 2) = 0 := Fin.ext (by simp [hi3])
            have hj' : (⟨j.val - 3, by omega⟩ : Fin 2) = 1 := Fin.ext (by simp [hj4])
            simpa [blkK, hi, hj, hi', hj', dMat, nMat] using hl
          · have hi' : (⟨i.val - 3, by omega⟩ : Fin 2) = 1 := Fin.ext (by simp [hi4])
            have hj' : (⟨j.val - 3, by omega⟩ : Fin 2) = 0 := Fin.ext (by simp [hj3])
            simpa [blkK, hi, hj, hi', hj', dMat, nMat] using hasDerivAt_const t (0:ℝ)
          · have hi' : (⟨i.val - 3, by omega⟩ : Fin 2) = 1 := Fin.ext (by simp [hi4])
            have hj' : (⟨j.val - 3, by omega⟩ : Fin 2) = 1 := Fin.ext (by simp [hj4])
            simpa [blkK, hi, hj, hi', hj', dMat, nMat] using hasDerivAt_const t (1:ℝ))
  exact h


/-! ### connection with the model -/

/-- `calc_S2 b = 1/2 − sin_3·K + cos_4·K²` as Mathlib matrices -/
theorem so3_calc_S2_toM (b : Vec ℝ 3) :
    toM (SO3.calc_S2 b) = (1/2 : ℝ) • (1 : Matrix (Fin 3) (Fin 3) ℝ)
      - Trig.sin_3 (sqNorm b) • K3 (b 0) (b 1) (b 2)
      + Trig.cos_4 (sqNorm b) • (K3 (b 0) (b 1) (b 2) * K3 (b 0) (b 1) (b 2)) := by
  ext i j
  rw [Matrix.add_apply, Matrix.sub_apply, Matrix.smul_apply, Matrix.smul_apply, Matrix.smul_apply,
    Matrix.mul_apply, Fin.sum_univ_three]
  simp only [toM, SO3.calc_S2, memoM_eq, Mat.of_get]
  generalize Trig.sin_3 (sqNorm b) = s3
  generalize Trig.cos_4 (sqNorm b) = c4
  fin_cases i <;> fin_cases j <;>
    simp [mmul, msmul, vsum, SO3.hat, ident, mat3, K3] <;> ring

theorem galilei_gq_mkG (v p : Vec ℝ 3) (t : ℝ) (q : Vec ℝ 4) :
    Galilei.gq (Galilei.mkG v p t q) = q := by
  ext i; fin_cases i <;> simp [Galilei.gq, Galilei.mkG, mk4]

theorem galilei_hat_toM (a : Vec ℝ 10) :
    toM (Galilei.hat a) = blkK (K3 (a 7) (a 8) (a 9)) (vMat2 (Galilei.tb a).get (Galilei.tq a).get)
      (nMat (a 6)) := by
  ext i j
  fin_cases i <;> fin_cases j <;>
    simp [toM, Galilei.hat, Galilei.tw, Galilei.tb, Galilei.tq, SO3.hat, blkK, vMat2, nMat, K3,
      mat3, mk3]

theorem galilei_matrix_mkG (v p : Vec ℝ 3) (t : ℝ) (q : Vec ℝ 4) :
    toM (Galilei.matrix (Galilei.mkG v p t q))
      = blkK (toM (SO3.matrix q)) (vMat2 v.get p.get) (dMat t 1) := by
  ext i j
  simp only [toM, Galilei.matrix, galilei_gq_mkG, Mat.of_get]
  fin_cases i <;> fin_cases j <;>
    simp [Galilei.mkG, blkK, vMat2, dMat]


/-- **Galilei, closed-form branch**: `matrix (exp a) = exp (hat a)` (5×5), any magnitude of the
rotation part with `‖ω‖² > eps2`. -/
theorem galilei_exp_is_matrix_exp_closed (a : Vec ℝ 10)
    (h : Scalar.eps2 < sqNorm (Galilei.tw a)) :
    toM (Galilei.matrix (Galilei.exp a)) = NormedSpace.exp (toM (Galilei.hat a)) := by
  obtain ⟨hθ, hn, hR, _, hS1⟩ := so3_closed_pack (Galilei.tw a) h
  have hx : (Galilei.tw a) 0 = a 7 := rfl
  have hy : (Galilei.tw a) 1 = a 8 := rfl
  have hz : (Galilei.tw a) 2 = a 9 := rfl
  rw [hx, hy, hz] at hn hR hS1
  set θ := Real.sqrt (sqNorm (Galilei.tw a)) with hθdef
  have hpos : 0 < sqNorm (Galilei.tw a) := lt_trans eps2_pos h
  have hθθ : θ * θ = sqNorm (Galilei.tw a) := Real.mul_self_sqrt hpos.le
  have hS2 : toM (SO3.calc_S2 (Galilei.tw a))
      = (1/2 : ℝ) • (1 : Matrix (Fin 3) (Fin 3) ℝ)
        + ((θ - Real.sin θ) / (θ*θ*θ)) • K3 (a 7) (a 8) (a 9)
        + ((θ*θ/2 + Real.cos θ - 1) / (θ*θ*(θ*θ))) • (K3 (a 7) (a 8) (a 9) * K3 (a 7) (a 8) (a 9)) := by
    rw [so3_calc_S2_toM, trig_sin_3_closed _ h, trig_cos_4_closed _ h, ← hθdef, ← hθθ, hx, hy, hz]
    have e1 : -((Real.sin θ - θ) / (θ * θ * θ)) = (θ - Real.sin θ) / (θ * θ * θ) := by ring
    have e2 : (Real.cos θ - 1 + θ * θ / 2) / (θ * θ * (θ * θ))
        = (θ * θ / 2 + Real.cos θ - 1) / (θ * θ * (θ * θ)) := by ring
    rw [sub_eq_add_neg, ← neg_smul, e1, e2]
  have hexp : Galilei.exp a = Galilei.mkG (mulVec (SO3.calc_S1 (Galilei.tw a)) (Galilei.tb a))
      (.of (fun i => (mulVec (SO3.calc_S1 (Galilei.tw a)) (Galilei.tq a)) i
        + (mulVec (SO3.calc_S2 (Galilei.tw a)) (Galilei.tb a)) i * Galilei.ts a))
      (Galilei.ts a) (SO3.exp (Galilei.tw a)) := by
    simp only [Galilei.exp, memoM_eq]
  have hts : Galilei.ts a = a 6 := rfl
  rw [hexp, galilei_matrix_mkG, galilei_hat_toM, hts,
    ← galilei_curve_eq_exp _ _ _ θ _ _ _ hθ hn, hR]
  congr 1
  ext c i
  fin_cases i
  · simp only [vMat2, cMat, mulVec3_get, hS1, rodrigues_mulVec, pCurve, if_true, Fin.zero_eta,
      Fin.isValue]
    simp
  · have h10 : ((1 : Fin 2) = 0) = False := by simp
    simp only [vMat2, cMat, Fin.mk_one, Fin.isValue, h10, if_false, Vec.of_get]
    have e1 := congrFun (mulVec3_get (SO3.calc_S1 (Galilei.tw a)) (Galilei.tq a)) c
    have e2 := congrFun (mulVec3_get (SO3.calc_S2 (Galilei.tw a)) (Galilei.tb a)) c
    rw [e1, e2, hS1, hS2, rodrigues_mulVec]
    simp only [pCurve, wCurve, Matrix.add_mulVec, Matrix.smul_mulVec, Matrix.one_mulVec,
      Matrix.mulVec_mulVec, Pi.add_apply, Pi.smul_apply, smul_eq_mul, one_mul]
    ring

end C02
