/-
  C13Dumped.lean — velocity continuity at a knot for basis tables that satisfy the knot
  identities only up to a tolerance `ε` (the double tables the implementation uses: ε = 2⁻⁴⁸,
  kernel-checked in C13Knot.lean), with an explicit error term.

  Needs quantitative control of `x ↦ Ad(exp(b v)⁻¹) x` in the sup norm:
  `‖Ad_b x‖ ≤ M‖x‖`, `‖Ad_b x − Ad_b' x‖ ≤ L |b − b'| ‖x‖`, `Ad_0 = id`  (`AdBounds`).
  For commutative groups `M = 1`, `L = 0`.
-/
import SmoothProofs.C13Table
import SmoothProofs.C11JacBridge
import Mathlib.Analysis.Normed.Module.Basic

open Lin Scalar

namespace C13
open C11 (mv mv_add mv_sub mv_zero mv_get_mulVec)

variable (G : LieModel ℝ)

/-- `Ad(inverse(exp(b v)))` -/
noncomputable def AdB (b : ℝ) (v : Vec ℝ G.dof) : Mat ℝ G.dof G.dof := G.Ad (G.inverse (G.exp (vsmul b v)))

/-- quantitative hypotheses on the group model (sup norm on the tangent space) -/
structure AdBounds (M L : ℝ) : Prop where
  M_nonneg : 0 ≤ M
  L_nonneg : 0 ≤ L
  bound : ∀ (b : ℝ) (v : Vec ℝ G.dof) (x : Fin G.dof → ℝ), ‖mv (AdB G b v) x‖ ≤ M * ‖x‖
  lip : ∀ (b b' : ℝ) (v : Vec ℝ G.dof) (x : Fin G.dof → ℝ),
    ‖mv (AdB G b v) x - mv (AdB G b' v) x‖ ≤ L * |b - b'| * ‖x‖
  zero : ∀ (v : Vec ℝ G.dof) (x : Fin G.dof → ℝ), mv (AdB G 0 v) x = x

theorem stepV_get (x : Vec ℝ G.dof) (B dB : ℝ) (v : Vec ℝ G.dof) :
    (stepV G x B dB v).get = mv (AdB G B v) x.get + dB • v.get := by
  funext i
  simp only [stepV, AdB, Vec.of_get, Pi.add_apply, Pi.smul_apply, smul_eq_mul, ← mv_get_mulVec]

/-- one step, two different basis jets: the difference of the results -/
theorem stepV_diff {M L : ℝ} (h : AdBounds G M L) (x y : Vec ℝ G.dof) (B B' dB dB' : ℝ) (v : Vec ℝ G.dof) :
    ‖(stepV G x B dB v).get - (stepV G y B' dB' v).get‖
      ≤ M * ‖x.get - y.get‖ + L * |B - B'| * ‖y.get‖ + |dB - dB'| * ‖v.get‖ := by
  rw [stepV_get, stepV_get]
  have e : mv (AdB G B v) x.get + dB • v.get - (mv (AdB G B' v) y.get + dB' • v.get)
      = mv (AdB G B v) (x.get - y.get) + (mv (AdB G B v) y.get - mv (AdB G B' v) y.get) + (dB - dB') • v.get := by
    rw [mv_sub]; module
  rw [e]
  calc _ ≤ ‖mv (AdB G B v) (x.get - y.get)‖ + ‖mv (AdB G B v) y.get - mv (AdB G B' v) y.get‖ + ‖(dB - dB') • v.get‖ :=
        norm_add₃_le
    _ ≤ _ := by
        rw [norm_smul, Real.norm_eq_abs]
        exact add_le_add (add_le_add (h.bound _ _ _) (h.lip _ _ _ _)) (le_refl _)

theorem stepV_norm {M L : ℝ} (h : AdBounds G M L) (y : Vec ℝ G.dof) (B dB : ℝ) (v : Vec ℝ G.dof) :
    ‖(stepV G y B dB v).get‖ ≤ M * ‖y.get‖ + |dB| * ‖v.get‖ := by
  rw [stepV_get]
  calc _ ≤ ‖mv (AdB G B v) y.get‖ + ‖dB • v.get‖ := norm_add_le _ _
    _ ≤ _ := by rw [norm_smul, Real.norm_eq_abs]; exact add_le_add (h.bound _ _ _) (le_refl _)

/-- error recursion: `(e, y) ↦ (M e + Lε y + εV, M y + βV)`, `k` times -/
noncomputable def errB (M L ε β V : ℝ) : Nat → ℝ → ℝ → ℝ
  | 0, e, _ => e
  | k + 1, e, y => errB M L ε β V k (M * e + L * ε * y + ε * V) (M * y + β * V)

noncomputable def normB (M β V : ℝ) : Nat → ℝ → ℝ
  | 0, y => y
  | k + 1, y => normB M β V k (M * y + β * V)

/-- two folds of `stepV` whose jets differ by at most `ε` stay close -/
theorem fold_close {M L ε β V : ℝ} (h : AdBounds G M L) (hε : 0 ≤ ε) {ι : Type} (l : List ι)
    (bA dbA bB dbB : ι → ℝ) (vs : ι → Vec ℝ G.dof)
    (hb : ∀ i, |bA i - bB i| ≤ ε) (hdb : ∀ i, |dbA i - dbB i| ≤ ε) (hβ : ∀ i, |dbB i| ≤ β)
    (hV : ∀ i, ‖(vs i).get‖ ≤ V) :
    ∀ (x y : Vec ℝ G.dof) (e yb : ℝ), ‖x.get - y.get‖ ≤ e → ‖y.get‖ ≤ yb →
      ‖(l.foldl (fun x i => stepV G x (bA i) (dbA i) (vs i)) x).get
          - (l.foldl (fun y i => stepV G y (bB i) (dbB i) (vs i)) y).get‖ ≤ errB M L ε β V l.length e yb
      ∧ ‖(l.foldl (fun y i => stepV G y (bB i) (dbB i) (vs i)) y).get‖ ≤ normB M β V l.length yb := by
  induction l with
  | nil => intro x y e yb he hy; exact ⟨he, hy⟩
  | cons i l ih =>
    intro x y e yb he hy
    simp only [List.foldl_cons, List.length_cons]
    have hM := h.M_nonneg
    have hL := h.L_nonneg
    have hy0 : 0 ≤ ‖y.get‖ := norm_nonneg _
    have hV0 : 0 ≤ ‖(vs i).get‖ := norm_nonneg _
    have hβ0 : 0 ≤ β := le_trans (abs_nonneg _) (hβ i)
    apply ih
    · refine le_trans (stepV_diff G h x y _ _ _ _ _) ?_
      have h1 : M * ‖x.get - y.get‖ ≤ M * e := mul_le_mul_of_nonneg_left he hM
      have h2 : L * |bA i - bB i| * ‖y.get‖ ≤ L * ε * yb := by
        have : L * |bA i - bB i| ≤ L * ε := mul_le_mul_of_nonneg_left (hb i) hL
        exact mul_le_mul this hy hy0 (mul_nonneg hL hε)
      have h3 : |dbA i - dbB i| * ‖(vs i).get‖ ≤ ε * V := mul_le_mul (hdb i) (hV i) hV0 hε
      linarith
    · refine le_trans (stepV_norm G h y _ _ _) ?_
      have h1 : M * ‖y.get‖ ≤ M * yb := mul_le_mul_of_nonneg_left hy hM
      have h2 : |dbB i| * ‖(vs i).get‖ ≤ β * V := mul_le_mul (hβ i) (hV i) hV0 hβ0
      linarith

/-- **Velocity continuity at a knot up to `ε`**: jets that satisfy the knot identities of orders
    0 and 1 within `ε` give velocities at `u = 1` of window A and `u = 0` of window B that differ by
    at most `errB … n (εV) 0 + Lε·normB … n 0 + εV` (linear in `ε`). -/
theorem knot_continuity_vel_tol {M L ε β V : ℝ} (h : AdBounds G M L) (hε : 0 ≤ ε) {n : Nat}
    (vsA vsB : Fin (n + 1) → Vec ℝ G.dof) (Bcum : Mat ℝ (n + 2) (n + 2))
    (hvs : ∀ j : Fin n, vsA j.succ = vsB j.castSucc)
    (hfirst : |bd Bcum 1 1 (0 : Fin (n + 1))| ≤ ε)
    (hshift : ∀ j : Fin n, |bd Bcum 1 0 j.succ - bd Bcum 0 0 j.castSucc| ≤ ε ∧
      |bd Bcum 1 1 j.succ - bd Bcum 0 1 j.castSucc| ≤ ε)
    (hlast : |bd Bcum 0 0 (Fin.last n)| ≤ ε ∧ |bd Bcum 0 1 (Fin.last n)| ≤ ε)
    (hβ : ∀ j : Fin n, |bd Bcum 0 1 j.castSucc| ≤ β)
    (hV : ∀ j, ‖(vsA j).get‖ ≤ V) (hVl : ‖(vsB (Fin.last n)).get‖ ≤ V) :
    ‖(CSpline.eval_vs G vsA Bcum 1).vel.get - (CSpline.eval_vs G vsB Bcum 0).vel.get‖
      ≤ errB M L ε β V n (ε * V) 0 + L * ε * normB M β V n 0 + ε * V := by
  have hA : (CSpline.eval_vs G vsA Bcum 1).vel
      = List.foldl (fun x (j : Fin n) => stepV G x (bd Bcum 1 0 j.succ) (bd Bcum 1 1 j.succ) (vsA j.succ))
          (stepV G (vzero _) (bd Bcum 1 0 0) (bd Bcum 1 1 0) (vsA 0)) (List.finRange n) := by
    rw [eval_vs_vel, List.finRange_succ]
    simp only [List.foldl_cons, List.foldl_map]
  have hB : (CSpline.eval_vs G vsB Bcum 0).vel
      = stepV G (List.foldl (fun x (j : Fin n) => stepV G x (bd Bcum 0 0 j.castSucc) (bd Bcum 0 1 j.castSucc) (vsB j.castSucc))
          (vzero _) (List.finRange n)) (bd Bcum 0 0 (Fin.last n)) (bd Bcum 0 1 (Fin.last n)) (vsB (Fin.last n)) := by
    rw [eval_vs_vel, List.finRange_succ_last]
    simp only [List.foldl_cons, List.foldl_map, List.foldl_append, List.foldl_nil]
  rw [hA, hB]
  -- first factor of A: from zero velocity
  set x0 := stepV G (vzero _) (bd Bcum 1 0 0) (bd Bcum 1 1 0) (vsA 0) with hx0
  have hx0n : ‖x0.get - (vzero G.dof : Vec ℝ G.dof).get‖ ≤ ε * V := by
    have hz : (vzero G.dof : Vec ℝ G.dof).get = 0 := by funext i; simp [vzero]
    rw [hx0, stepV_get, hz, mv_zero, zero_add, sub_zero, norm_smul, Real.norm_eq_abs]
    exact mul_le_mul hfirst (hV 0) (norm_nonneg _) hε
  have hz0 : ‖(vzero G.dof : Vec ℝ G.dof).get‖ ≤ 0 := by
    have hz : (vzero G.dof : Vec ℝ G.dof).get = 0 := by funext i; simp [vzero]
    rw [hz, norm_zero]
  have hfold := fold_close G h hε (List.finRange n)
    (fun j => bd Bcum 1 0 j.succ) (fun j => bd Bcum 1 1 j.succ)
    (fun j => bd Bcum 0 0 j.castSucc) (fun j => bd Bcum 0 1 j.castSucc) (fun j => vsA j.succ)
    (fun j => (hshift j).1) (fun j => (hshift j).2) hβ (fun j => hV j.succ) x0 (vzero _) (ε * V) 0 hx0n hz0
  simp only [List.length_finRange] at hfold
  obtain ⟨hE, hY⟩ := hfold
  -- rewrite B's fold with A's differences
  have hfB : (fun (x : Vec ℝ G.dof) (j : Fin n) => stepV G x (bd Bcum 0 0 j.castSucc) (bd Bcum 0 1 j.castSucc) (vsB j.castSucc))
      = fun x j => stepV G x (bd Bcum 0 0 j.castSucc) (bd Bcum 0 1 j.castSucc) (vsA j.succ) := by
    funext x j; rw [hvs j]
  rw [hfB]
  set xN := List.foldl (fun x j => stepV G x (bd Bcum 1 0 j.succ) (bd Bcum 1 1 j.succ) (vsA j.succ)) x0 (List.finRange n)
  set yN := List.foldl (fun x j => stepV G x (bd Bcum 0 0 j.castSucc) (bd Bcum 0 1 j.castSucc) (vsA j.succ))
    (vzero _) (List.finRange n)
  -- last factor of B: almost the identity
  have hlastStep : ‖yN.get - (stepV G yN (bd Bcum 0 0 (Fin.last n)) (bd Bcum 0 1 (Fin.last n)) (vsB (Fin.last n))).get‖
      ≤ L * ε * normB M β V n 0 + ε * V := by
    rw [stepV_get]
    have e : yN.get - (mv (AdB G (bd Bcum 0 0 (Fin.last n)) (vsB (Fin.last n))) yN.get
          + bd Bcum 0 1 (Fin.last n) • (vsB (Fin.last n)).get)
        = (mv (AdB G 0 (vsB (Fin.last n))) yN.get - mv (AdB G (bd Bcum 0 0 (Fin.last n)) (vsB (Fin.last n))) yN.get)
          - bd Bcum 0 1 (Fin.last n) • (vsB (Fin.last n)).get := by
      rw [h.zero]; module
    rw [e]
    refine le_trans (norm_sub_le _ _) ?_
    have h1 := h.lip 0 (bd Bcum 0 0 (Fin.last n)) (vsB (Fin.last n)) yN.get
    rw [zero_sub, abs_neg] at h1
    have h2 : L * |bd Bcum 0 0 (Fin.last n)| * ‖yN.get‖ ≤ L * ε * normB M β V n 0 := by
      have : L * |bd Bcum 0 0 (Fin.last n)| ≤ L * ε := mul_le_mul_of_nonneg_left hlast.1 h.L_nonneg
      exact mul_le_mul this hY (norm_nonneg _) (mul_nonneg h.L_nonneg hε)
    have h3 : ‖bd Bcum 0 1 (Fin.last n) • (vsB (Fin.last n)).get‖ ≤ ε * V := by
      rw [norm_smul, Real.norm_eq_abs]
      exact mul_le_mul hlast.2 hVl (norm_nonneg _) hε
    linarith
  calc ‖xN.get - (stepV G yN (bd Bcum 0 0 (Fin.last n)) (bd Bcum 0 1 (Fin.last n)) (vsB (Fin.last n))).get‖
      ≤ ‖xN.get - yN.get‖ + ‖yN.get - (stepV G yN (bd Bcum 0 0 (Fin.last n)) (bd Bcum 0 1 (Fin.last n)) (vsB (Fin.last n))).get‖ :=
        norm_sub_le_norm_sub_add_norm_sub _ _ _
    _ ≤ _ := by linarith

/-! ### jets of a table that satisfies the identities within a tolerance -/

theorem within_abs {x tol : Rat} (h : within x tol = true) : |((x : Rat) : ℝ)| ≤ ((tol : Rat) : ℝ) := by
  unfold within at h
  simp only [Bool.and_eq_true, decide_eq_true_eq] at h
  rw [abs_le]
  constructor
  · have : ((-tol : Rat) : ℝ) ≤ ((x : Rat) : ℝ) := by exact_mod_cast h.2
    simpa using this
  · exact_mod_cast h.1

theorem knotIdent_spec_tol {T : Poly.Tab Rat} {K : Nat} {tol : Rat} (h : knotIdent T K tol = true) (d : Nat) (hd : d < K) :
    within (colDeriv1 T K d 1 - (if d = 0 then 1 else 0)) tol = true ∧
    (∀ j', j' < K - 1 → within (colDeriv1 T K d (j' + 2) - colDeriv0 T d (j' + 1)) tol = true) ∧
    within (colDeriv0 T d K) tol = true := by
  unfold knotIdent at h
  rw [List.all_eq_true] at h
  have hd' := h d (List.mem_range.mpr hd)
  simp only [Bool.and_eq_true, List.all_eq_true] at hd'
  obtain ⟨⟨h1, h2⟩, h3⟩ := hd'
  exact ⟨h1, fun j' hj' => h2 j' (List.mem_range.mpr hj'), h3⟩

theorem jets_of_table_tol {T : Poly.Tab Rat} {n : Nat} {tol : Rat} (h : knotIdent T (n + 1) tol = true)
    (d : Nat) (hd : d < n + 1) :
    |bd (castTab T (n + 1)) 1 d (0 : Fin (n + 1)) - (if d = 0 then 1 else 0)| ≤ (tol : ℝ) ∧
    (∀ j : Fin n, |bd (castTab T (n + 1)) 1 d j.succ - bd (castTab T (n + 1)) 0 d j.castSucc| ≤ (tol : ℝ)) ∧
    |bd (castTab T (n + 1)) 0 d (Fin.last n)| ≤ (tol : ℝ) := by
  obtain ⟨h1, h2, h3⟩ := knotIdent_spec_tol h d hd
  refine ⟨?_, ?_, ?_⟩
  · rw [bd_one]
    simp only [Fin.val_zero, Nat.zero_add]
    have := within_abs h1
    push_cast at this
    split_ifs at this ⊢ <;> simpa using this
  · intro j
    rw [bd_one, bd_zero T d (by omega)]
    have := within_abs (h2 j.val (by have := j.isLt; omega))
    simp only [Fin.val_succ, Fin.val_castSucc]
    rw [show j.val + 1 + 1 = j.val + 2 by omega]
    push_cast at this
    exact this
  · rw [bd_zero T d (by omega)]
    simp only [Fin.val_last]
    exact within_abs h3


end C13
