/-
  C01Block.lean — block upper-triangular matrices `[[R, P], [0, U]]` of size `(n+k) × (n+k)`:
  product, identity and inverse.  Every `matrix` of the model is of this form
  (SE3: `U = 1`, `P` = translation column; Galilei: `U = [[1,τ],[0,1]]`, `P = [v p]`;
  SE_K_3: `U = 1_k`, `P = [p₁ … p_k]`; Bundle: `P = 0`), so the group laws reduce to this file.
-/
import SmoothProofs.C01Base

open Lin Scalar

namespace Lin

theorem toM_madd {n m : Nat} (A B : Mat ℝ n m) : toM (madd A B) = toM A + toM B := by
  ext i j; simp [madd]

theorem toM_mneg {n m : Nat} (A : Mat ℝ n m) : toM (mneg A) = - toM A := by
  ext i j; simp [mneg]

theorem toM_mzero (n m : Nat) : toM (mzero n m : Mat ℝ n m) = 0 := by
  ext i j; simp [mzero]

/-- `[[R, P], [0, U]]` -/
def blockUT {n k : Nat} (R : Mat ℝ n n) (P : Mat ℝ n k) (U : Mat ℝ k k) : Mat ℝ (n + k) (n + k) :=
  .of (fun i j =>
    if hi : i.val < n then
      if hj : j.val < n then R ⟨i.val, hi⟩ ⟨j.val, hj⟩ else P ⟨i.val, hi⟩ ⟨j.val - n, by omega⟩
    else
      if hj : j.val < n then 0 else U ⟨i.val - n, by omega⟩ ⟨j.val - n, by omega⟩)

section
variable {n k : Nat} (R : Mat ℝ n n) (P : Mat ℝ n k) (U : Mat ℝ k k)

theorem blockUT_cc (i j : Fin n) : (blockUT R P U) (Fin.castAdd k i) (Fin.castAdd k j) = R i j := by
  simp [blockUT]

theorem blockUT_cn (i : Fin n) (j : Fin k) : (blockUT R P U) (Fin.castAdd k i) (Fin.natAdd n j) = P i j := by
  simp [blockUT]

theorem blockUT_nc (i : Fin k) (j : Fin n) : (blockUT R P U) (Fin.natAdd n i) (Fin.castAdd k j) = 0 := by
  simp [blockUT]

theorem blockUT_nn (i j : Fin k) : (blockUT R P U) (Fin.natAdd n i) (Fin.natAdd n j) = U i j := by
  simp [blockUT]

/-- two block matrices are equal when their blocks are -/
theorem blockUT_congr {R R' : Mat ℝ n n} {P P' : Mat ℝ n k} {U U' : Mat ℝ k k}
    (hR : R = R') (hP : P = P') (hU : U = U') : blockUT R P U = blockUT R' P' U' := by
  rw [hR, hP, hU]

theorem blockUT_mmul (R' : Mat ℝ n n) (P' : Mat ℝ n k) (U' : Mat ℝ k k) :
    mmul (blockUT R P U) (blockUT R' P' U')
      = blockUT (mmul R R') (madd (mmul R P') (mmul P U')) (mmul U U') := by
  ext i j
  rw [mmul_apply, Fin.sum_univ_add]
  induction i using Fin.addCases with
  | left i =>
    induction j using Fin.addCases with
    | left j => simp [blockUT_cc, blockUT_cn, blockUT_nc, mmul_apply]
    | right j => simp [blockUT_cc, blockUT_cn, blockUT_nn, mmul_apply, madd]
  | right i =>
    induction j using Fin.addCases with
    | left j => simp [blockUT_nc]
    | right j => simp [blockUT_nc, blockUT_nn, mmul_apply]

theorem blockUT_ident : blockUT (ident n) (mzero n k) (ident k) = (ident (n + k) : Mat ℝ (n + k) (n + k)) := by
  ext i j
  rw [ident_apply]
  induction i using Fin.addCases with
  | left i =>
    induction j using Fin.addCases with
    | left j => simp [blockUT_cc, ident_apply, Fin.ext_iff]
    | right j =>
      have : (i : Nat) ≠ n + j := by have := i.isLt; omega
      simp [blockUT_cn, mzero, Fin.ext_iff, this]
  | right i =>
    induction j using Fin.addCases with
    | left j =>
      have : n + (i : Nat) ≠ j := by have := j.isLt; omega
      simp [blockUT_nc, Fin.ext_iff, this]
    | right j => simp [blockUT_nn, ident_apply, Fin.ext_iff]

/-- left inverse of a block matrix -/
theorem blockUT_inv_left (Ri : Mat ℝ n n) (Pi : Mat ℝ n k) (Ui : Mat ℝ k k)
    (hR : mmul Ri R = ident n) (hU : mmul Ui U = ident k)
    (hP : Pi = mneg (mmul (mmul Ri P) Ui)) :
    mmul (blockUT Ri Pi Ui) (blockUT R P U) = ident (n + k) := by
  rw [blockUT_mmul, ← blockUT_ident]
  refine blockUT_congr hR ?_ hU
  apply toM_inj
  have hU' := congrArg toM hU
  rw [toM_mmul, toM_ident] at hU'
  rw [hP, toM_madd, toM_mmul, toM_mmul, toM_mneg, toM_mmul, toM_mmul, toM_mzero,
    Matrix.neg_mul, Matrix.mul_assoc (toM Ri * toM P), hU', Matrix.mul_one, add_neg_cancel]

/-- right inverse of a block matrix -/
theorem blockUT_inv_right (Ri : Mat ℝ n n) (Pi : Mat ℝ n k) (Ui : Mat ℝ k k)
    (hR : mmul R Ri = ident n) (hU : mmul U Ui = ident k)
    (hP : Pi = mneg (mmul (mmul Ri P) Ui)) :
    mmul (blockUT R P U) (blockUT Ri Pi Ui) = ident (n + k) := by
  rw [blockUT_mmul, ← blockUT_ident]
  refine blockUT_congr hR ?_ hU
  apply toM_inj
  have hR' := congrArg toM hR
  rw [toM_mmul, toM_ident] at hR'
  rw [hP, toM_madd, toM_mmul, toM_mmul, toM_mneg, toM_mmul, toM_mmul, toM_mzero,
    Matrix.mul_neg, ← Matrix.mul_assoc, ← Matrix.mul_assoc, hR', Matrix.one_mul, neg_add_cancel]

/-- the block-diagonal arrangement of the Bundle model is the case `P = 0` -/
theorem bdiag_eq_blockUT {m : Nat} (A : Mat ℝ n n) (B : Mat ℝ m m) :
    Bundle.bdiag A B = blockUT A (mzero n m) B := by
  ext i j
  simp only [Bundle.bdiag, blockUT, mzero, Mat.of_get]
  split_ifs <;> simp

end

end Lin
