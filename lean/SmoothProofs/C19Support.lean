/-
  C19Support.lean — the published sparsity patterns contain the support of the dense model
  functions, for ALL tangent vectors over ℝ (symbolic: the model entry reduces to 0).
  Leaves: SO2 / C1 / Tn (identity / zero), SE2 (row 2), SE3 (lower-left block, Hessian placement);
  SO3, Galilei, SE_K_3 publish the dense pattern.  Bundles: induction over `Bundle.prod`.
-/
import SmoothProofs.Real
import SmoothProofs.C16Mem
import SmoothModel.Sparse
import Mathlib.Tactic.Ring
import Mathlib.Tactic.FinCases

open Lin Scalar Mem

namespace Sparse

theorem getN_eq {n m : Nat} (M : Mat ℝ n m) (r c : Nat) (hr : r < n) (hc : c < m) :
    getN M r c = M ⟨r, hr⟩ ⟨c, hc⟩ := by
  simp [getN, hr, hc]

theorem getN_out {n m : Nat} (M : Mat ℝ n m) (r c : Nat) (h : ¬ (r < n ∧ c < m)) : getN M r c = 0 := by
  simp [getN, h]

/-- entries of a block-diagonal arrangement -/
theorem getN_bdiag {n m n' m' : Nat} (A : Mat ℝ n n') (B : Mat ℝ m m') (r c : Nat) :
    getN (Bundle.bdiag A B) r c
      = if r < n then (if c < n' then getN A r c else 0)
        else (if c < n' then 0 else getN B (r - n) (c - n')) := by
  by_cases hr : r < n + m
  · by_cases hc : c < n' + m'
    · rw [getN_eq _ _ _ hr hc]
      simp only [Bundle.bdiag, Mat.of]
      by_cases h1 : r < n
      · by_cases h2 : c < n'
        · simp [h1, h2, getN]
        · simp [h1, h2]
      · by_cases h2 : c < n'
        · simp [h1, h2]
        · have h3 : r - n < m := by omega
          have h4 : c - n' < m' := by omega
          simp [h1, h2, getN, h3, h4]
    · rw [getN_out _ _ _ (by omega)]
      by_cases h1 : r < n
      · simp [h1, show ¬ c < n' by omega]
      · simp [h1, show ¬ c < n' by omega, getN, show ¬ (c - n' < m') by omega]
  · rw [getN_out _ _ _ (by omega)]
    have h1 : ¬ r < n := by omega
    by_cases h2 : c < n'
    · simp [h1, h2]
    · simp [h1, h2, getN, show ¬ (r - n < m) by omega]

/-- entries of the Bundle Hessian placement -/
theorem hessPlace_eq {d : Nat} (D off : Nat) (Hi : Mat ℝ d (d * d)) (R : Fin D) (C : Fin (D * D)) :
    Bundle.hessPlace D off Hi R C
      = if off ≤ R.val ∧ R.val < off + d ∧ off ≤ C.val / D ∧ C.val / D < off + d ∧ off ≤ C.val % D ∧ C.val % D < off + d
        then getN Hi (R.val - off) ((C.val / D - off) * d + (C.val % D - off)) else 0 := by
  unfold Bundle.hessPlace
  simp only
  split
  · rename_i h
    have h1 : R.val - off < d := by omega
    have h2 : (C.val / D - off) * d + (C.val % D - off) < d * d := by
      have a1 : C.val / D - off < d := by omega
      have a2 : C.val % D - off < d := by omega
      calc (C.val / D - off) * d + (C.val % D - off) < (C.val / D - off) * d + d := by omega
        _ = (C.val / D - off + 1) * d := by rw [Nat.add_mul, Nat.one_mul]
        _ ≤ d * d := Nat.mul_le_mul_right d a1
    rw [getN_eq _ _ _ h1 h2]
  · simp

/-! ### generic induction over descriptors for a block-diagonal matrix-valued member -/

section square
variable (sel : (M : LieModel ℝ) → Vec ℝ M.dof → Mat ℝ M.dof M.dof)

/-- `q` contains the support of `sel M a` for every `a` -/
def Cov (M : LieModel ℝ) (q : Nat → Nat → Bool) : Prop :=
  ∀ (a : Vec ℝ M.dof) (r c : Nat), r < M.dof → c < M.dof → q r c = false → getN (sel M a) r c = 0

variable (hprod : ∀ (A B : LieModel ℝ) (a : Vec ℝ (A.dof + B.dof)),
    sel (Bundle.prod A B) a = Bundle.bdiag (sel A (Bundle.fst a)) (sel B (Bundle.snd a)))
  (p : GDesc → Nat → Nat → Bool) (pL : List GDesc → Nat → Nat → Bool)
  (hpB : ∀ ps r c, p (.bundle ps) r c = pL ps r c)
  (hpCons : ∀ q ps r c, pL (q :: ps) r c =
    (if r < dofSize q then (decide (c < dofSize q) && p q r c)
     else (decide (dofSize q ≤ c) && pL ps (r - dofSize q) (c - dofSize q))))

include hprod in
theorem cov_prod (A B : LieModel ℝ) (pA pB : Nat → Nat → Bool) (h1 : Cov sel A pA) (h2 : Cov sel B pB) :
    Cov sel (Bundle.prod A B) (fun r c =>
      if r < A.dof then (decide (c < A.dof) && pA r c) else (decide (A.dof ≤ c) && pB (r - A.dof) (c - A.dof))) := by
  intro a r c hr hc hp
  have e : getN (sel (Bundle.prod A B) a) r c
      = getN (Bundle.bdiag (sel A (Bundle.fst a)) (sel B (Bundle.snd a))) r c :=
    congrArg (fun M => getN M r c) (hprod A B a)
  rw [e, getN_bdiag]
  have hr' : r < A.dof + B.dof := hr
  have hc' : c < A.dof + B.dof := hc
  simp only at hp
  by_cases hr1 : r < A.dof
  · rw [if_pos hr1]
    rw [if_pos hr1] at hp
    by_cases hc1 : c < A.dof
    · rw [if_pos hc1]
      exact h1 _ r c hr1 hc1 (by simpa [hc1] using hp)
    · rw [if_neg hc1]
  · rw [if_neg hr1]
    rw [if_neg hr1] at hp
    by_cases hc1 : c < A.dof
    · rw [if_pos hc1]
    · rw [if_neg hc1]
      have hc2 : A.dof ≤ c := by omega
      exact h2 _ (r - A.dof) (c - A.dof) (by omega) (by omega) (by simpa [hc2] using hp)

include hprod hpCons in
theorem cov_cons (q : GDesc) (ps : List GDesc) (h1 : Cov sel (GDesc.model q) (p q))
    (h2 : Cov sel (Bundle.bundle (GDesc.models ps)) (pL ps)) :
    Cov sel (Bundle.bundle (GDesc.models (q :: ps))) (pL (q :: ps)) := by
  have hd : (GDesc.model (α := ℝ) q).dof = dofSize q := model_dof q
  intro a r c hr hc hp
  rw [hpCons] at hp
  exact cov_prod sel hprod (GDesc.model q) (Bundle.bundle (GDesc.models ps)) (p q) (pL ps) h1 h2 a r c hr hc
    (by simpa [hd] using hp)

end square

/-! ### generic induction for a Hessian-valued member -/

section hess
variable (sel : (M : LieModel ℝ) → Vec ℝ M.dof → Mat ℝ M.dof (M.dof * M.dof))

def Cov2 (M : LieModel ℝ) (q : Nat → Nat → Bool) : Prop :=
  ∀ (a : Vec ℝ M.dof) (r c : Nat), r < M.dof → c < M.dof * M.dof → q r c = false → getN (sel M a) r c = 0

variable (hprod : ∀ (A B : LieModel ℝ) (a : Vec ℝ (A.dof + B.dof)) (R : Fin (A.dof + B.dof))
      (C : Fin ((A.dof + B.dof) * (A.dof + B.dof))),
    sel (Bundle.prod A B) a R C
      = Bundle.hessPlace (A.dof + B.dof) 0 (sel A (Bundle.fst a)) R C
        + Bundle.hessPlace (A.dof + B.dof) A.dof (sel B (Bundle.snd a)) R C)

include hprod in
theorem cov2_prod (A B : LieModel ℝ) (pA pB : Nat → Nat → Bool) (h1 : Cov2 sel A pA) (h2 : Cov2 sel B pB) :
    Cov2 sel (Bundle.prod A B) (fun r c =>
      let d := A.dof
      let D := d + B.dof
      let J := c / D
      let K := c % D
      if r < d then (decide (J < d) && decide (K < d) && pA r (J * d + K))
      else (decide (d ≤ J) && decide (d ≤ K) && pB (r - d) ((J - d) * (D - d) + (K - d)))) := by
  intro a r c hr hc hp
  have hr' : r < A.dof + B.dof := hr
  have hc' : c < (A.dof + B.dof) * (A.dof + B.dof) := hc
  have e : getN (sel (Bundle.prod A B) a) r c
      = Bundle.hessPlace (A.dof + B.dof) 0 (sel A (Bundle.fst a)) ⟨r, hr'⟩ ⟨c, hc'⟩
        + Bundle.hessPlace (A.dof + B.dof) A.dof (sel B (Bundle.snd a)) ⟨r, hr'⟩ ⟨c, hc'⟩ := by
    rw [← hprod A B a ⟨r, hr'⟩ ⟨c, hc'⟩]
    exact getN_eq _ r c hr' hc'
  rw [e, hessPlace_eq, hessPlace_eq]
  clear e
  simp only [Nat.zero_le, true_and, Nat.zero_add, Nat.sub_zero] at hp ⊢
  generalize c / (A.dof + B.dof) = J at hp ⊢
  generalize c % (A.dof + B.dof) = K at hp ⊢
  by_cases hr1 : r < A.dof
  · rw [if_pos hr1] at hp
    have hsecond : ¬ (A.dof ≤ r ∧ r < A.dof + B.dof ∧ A.dof ≤ J ∧ J < A.dof + B.dof ∧ A.dof ≤ K ∧ K < A.dof + B.dof) := by
      omega
    rw [if_neg hsecond, add_zero]
    by_cases hcond : r < A.dof ∧ J < A.dof ∧ K < A.dof
    · rw [if_pos hcond]
      have hpq : pA r (J * A.dof + K) = false := by
        simpa [hcond.2.1, hcond.2.2] using hp
      have hbound : J * A.dof + K < A.dof * A.dof := by
        calc J * A.dof + K < J * A.dof + A.dof := by omega
          _ = (J + 1) * A.dof := by rw [Nat.add_mul, Nat.one_mul]
          _ ≤ A.dof * A.dof := Nat.mul_le_mul_right _ hcond.2.1
      exact h1 (Bundle.fst a) r (J * A.dof + K) hr1 hbound hpq
    · rw [if_neg hcond]
  · rw [if_neg hr1] at hp
    have hfirst : ¬ (r < A.dof ∧ J < A.dof ∧ K < A.dof) := by omega
    rw [if_neg hfirst, zero_add]
    by_cases hcond : A.dof ≤ r ∧ r < A.dof + B.dof ∧ A.dof ≤ J ∧ J < A.dof + B.dof ∧ A.dof ≤ K ∧ K < A.dof + B.dof
    · rw [if_pos hcond]
      have hDd : A.dof + B.dof - A.dof = B.dof := by omega
      have hpq : pB (r - A.dof) ((J - A.dof) * B.dof + (K - A.dof)) = false := by
        have := hp
        simp only [hcond.2.2.1, hcond.2.2.2.2.1, decide_true, Bool.true_and, hDd] at this
        exact this
      have a1 : J - A.dof < B.dof := by omega
      have a2 : K - A.dof < B.dof := by omega
      have hbound : (J - A.dof) * B.dof + (K - A.dof) < B.dof * B.dof := by
        calc (J - A.dof) * B.dof + (K - A.dof) < (J - A.dof) * B.dof + B.dof := by omega
          _ = (J - A.dof + 1) * B.dof := by rw [Nat.add_mul, Nat.one_mul]
          _ ≤ B.dof * B.dof := Nat.mul_le_mul_right _ a1
      exact h2 (Bundle.snd a) (r - A.dof) ((J - A.dof) * B.dof + (K - A.dof)) (by omega) hbound hpq
    · rw [if_neg hcond]

include hprod in
theorem cov2_cons (q : GDesc) (ps : List GDesc) (h1 : Cov2 sel (GDesc.model q) (inD2 q))
    (h2 : Cov2 sel (Bundle.bundle (GDesc.models ps)) (inD2L ps)) :
    Cov2 sel (Bundle.bundle (GDesc.models (q :: ps))) (inD2L (q :: ps)) := by
  have hd : (GDesc.model (α := ℝ) q).dof = dofSize q := model_dof q
  have hdL : (Bundle.bundle (GDesc.models (α := ℝ) ps)).dof = dofSizeL ps := models_dof ps
  intro a r c hr hc hp
  simp only [inD2L] at hp
  exact cov2_prod sel hprod (GDesc.model q) (Bundle.bundle (GDesc.models ps)) (inD2 q) (inD2L ps) h1 h2 a r c hr hc
    (by simpa [hd, hdL] using hp)

end hess

end Sparse
