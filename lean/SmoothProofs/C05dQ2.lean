/-
  C05dQ2.lean — row 2 of the dQ table (18 entries): cubic expansions closed by `ring`.
-/
import SmoothProofs.C05dQBase

open Lin Scalar
namespace C05dQ

set_option maxRecDepth 8192 in
set_option maxHeartbeats 1000000 in
theorem expands_2_0 (A B C : ℝ) (a : Vec ℝ 6) : Expands A B C a 2 0 := by
  intro t; dq_simp; ring

set_option maxRecDepth 8192 in
set_option maxHeartbeats 1000000 in
theorem expands_2_1 (A B C : ℝ) (a : Vec ℝ 6) : Expands A B C a 2 1 := by
  intro t; dq_simp; ring

set_option maxRecDepth 8192 in
set_option maxHeartbeats 1000000 in
theorem expands_2_2 (A B C : ℝ) (a : Vec ℝ 6) : Expands A B C a 2 2 := by
  intro t; dq_simp; ring

set_option maxRecDepth 8192 in
set_option maxHeartbeats 1000000 in
theorem expands_2_3 (A B C : ℝ) (a : Vec ℝ 6) : Expands A B C a 2 3 := by
  intro t; dq_simp; ring

set_option maxRecDepth 8192 in
set_option maxHeartbeats 1000000 in
theorem expands_2_4 (A B C : ℝ) (a : Vec ℝ 6) : Expands A B C a 2 4 := by
  intro t; dq_simp; ring

set_option maxRecDepth 8192 in
set_option maxHeartbeats 1000000 in
theorem expands_2_5 (A B C : ℝ) (a : Vec ℝ 6) : Expands A B C a 2 5 := by
  intro t; dq_simp; ring

set_option maxRecDepth 8192 in
set_option maxHeartbeats 1000000 in
theorem expands_2_6 (A B C : ℝ) (a : Vec ℝ 6) : Expands A B C a 2 6 := by
  intro t; dq_simp; ring

set_option maxRecDepth 8192 in
set_option maxHeartbeats 1000000 in
theorem expands_2_7 (A B C : ℝ) (a : Vec ℝ 6) : Expands A B C a 2 7 := by
  intro t; dq_simp; ring

set_option maxRecDepth 8192 in
set_option maxHeartbeats 1000000 in
theorem expands_2_8 (A B C : ℝ) (a : Vec ℝ 6) : Expands A B C a 2 8 := by
  intro t; dq_simp; ring

set_option maxRecDepth 8192 in
set_option maxHeartbeats 1000000 in
theorem expands_2_9 (A B C : ℝ) (a : Vec ℝ 6) : Expands A B C a 2 9 := by
  intro t; dq_simp; ring

set_option maxRecDepth 8192 in
set_option maxHeartbeats 1000000 in
theorem expands_2_10 (A B C : ℝ) (a : Vec ℝ 6) : Expands A B C a 2 10 := by
  intro t; dq_simp; ring

set_option maxRecDepth 8192 in
set_option maxHeartbeats 1000000 in
theorem expands_2_11 (A B C : ℝ) (a : Vec ℝ 6) : Expands A B C a 2 11 := by
  intro t; dq_simp; ring

set_option maxRecDepth 8192 in
set_option maxHeartbeats 1000000 in
theorem expands_2_12 (A B C : ℝ) (a : Vec ℝ 6) : Expands A B C a 2 12 := by
  intro t; dq_simp; ring

set_option maxRecDepth 8192 in
set_option maxHeartbeats 1000000 in
theorem expands_2_13 (A B C : ℝ) (a : Vec ℝ 6) : Expands A B C a 2 13 := by
  intro t; dq_simp; ring

set_option maxRecDepth 8192 in
set_option maxHeartbeats 1000000 in
theorem expands_2_14 (A B C : ℝ) (a : Vec ℝ 6) : Expands A B C a 2 14 := by
  intro t; dq_simp; ring

set_option maxRecDepth 8192 in
set_option maxHeartbeats 1000000 in
theorem expands_2_15 (A B C : ℝ) (a : Vec ℝ 6) : Expands A B C a 2 15 := by
  intro t; dq_simp; ring

set_option maxRecDepth 8192 in
set_option maxHeartbeats 1000000 in
theorem expands_2_16 (A B C : ℝ) (a : Vec ℝ 6) : Expands A B C a 2 16 := by
  intro t; dq_simp; ring

set_option maxRecDepth 8192 in
set_option maxHeartbeats 1000000 in
theorem expands_2_17 (A B C : ℝ) (a : Vec ℝ 6) : Expands A B C a 2 17 := by
  intro t; dq_simp; ring

theorem expands_row2 (A B C : ℝ) (a : Vec ℝ 6) (c : Fin 18) : Expands A B C a 2 c := by
  fin_cases c
  · exact expands_2_0 A B C a
  · exact expands_2_1 A B C a
  · exact expands_2_2 A B C a
  · exact expands_2_3 A B C a
  · exact expands_2_4 A B C a
  · exact expands_2_5 A B C a
  · exact expands_2_6 A B C a
  · exact expands_2_7 A B C a
  · exact expands_2_8 A B C a
  · exact expands_2_9 A B C a
  · exact expands_2_10 A B C a
  · exact expands_2_11 A B C a
  · exact expands_2_12 A B C a
  · exact expands_2_13 A B C a
  · exact expands_2_14 A B C a
  · exact expands_2_15 A B C a
  · exact expands_2_16 A B C a
  · exact expands_2_17 A B C a

end C05dQ
