/-
  C17Lift.lean — lift_so3 / lift_se3 / project_so2 / project_se2 over ℝ.

  Route: for a unit quaternion `ofQuat q = canon q`; `lift_so3 g = (0, 0, sin(yaw/2), cos(yaw/2))`
  with `yaw = arg(qw + i qz) ∈ (−π, π]`, so `cos(yaw/2) ≥ 0` and the canonical sign never fires;
  the double-angle identities and `Complex.cos_arg / sin_arg` give
  `matrix (lift_so3 g) = blockDiag(matrix g, 1)`.
-/
import SmoothProofs.C17Angles
import SmoothProofs.C01SO3
import SmoothProofs.C01SE3

open Lin Scalar

namespace C17P

/-! ### `SO3(quaternion)` -/

/-- `q / ‖q‖` -/
noncomputable def normalize (q : Vec ℝ 4) : Vec ℝ 4 := .of (fun i => q i / Real.sqrt (SO3.sqn q))

theorem ofQuat_eq (q : Vec ℝ 4) : SO3.ofQuat q = SO3.canon (normalize q) := by
  simp only [SO3.ofQuat, normalize, SO3.sqNorm_eq, C02.scalar_sqrt]

theorem sqn_pos (q : Vec ℝ 4) (h : SO3.sqn q ≠ 0) : 0 < SO3.sqn q := by
  have : 0 ≤ SO3.sqn q := by unfold SO3.sqn; positivity
  exact lt_of_le_of_ne this (Ne.symm h)

theorem unit_normalize (q : Vec ℝ 4) (h : SO3.sqn q ≠ 0) : SO3.Unit (normalize q) := by
  have hp := sqn_pos q h
  have hs : Real.sqrt (SO3.sqn q) ^ 2 = SO3.sqn q := Real.sq_sqrt (le_of_lt hp)
  have hn : Real.sqrt (SO3.sqn q) ≠ 0 := ne_of_gt (Real.sqrt_pos.2 hp)
  unfold SO3.Unit
  show (q 0 / _) ^ 2 + (q 1 / _) ^ 2 + (q 2 / _) ^ 2 + (q 3 / _) ^ 2 = 1
  simp only [div_pow, hs]
  unfold SO3.sqn at h ⊢
  field_simp

theorem normalize_of_unit (q : Vec ℝ 4) (h : SO3.Unit q) : normalize q = q := by
  have hs : SO3.sqn q = 1 := h
  ext i
  simp [normalize, hs]

/-- `SO3(quat)` returns a unit quaternion … -/
theorem unit_ofQuat (q : Vec ℝ 4) (h : SO3.sqn q ≠ 0) : SO3.Unit (SO3.ofQuat q) := by
  rw [ofQuat_eq]; exact SO3.unit_canon _ (unit_normalize q h)

/-- … in the canonical hemisphere … -/
theorem canon_ofQuat (q : Vec ℝ 4) : SO3.Canon (SO3.ofQuat q) := by
  rw [ofQuat_eq]; exact SO3.canon_canon _

theorem rotH_div (q : Vec ℝ 4) (n : ℝ) (hn : n ≠ 0) (i j : Fin 3) :
    (SO3.rotH (Vec.of (fun k => q k / n))) i j = (SO3.rotH q) i j / (n * n) := by
  fin_cases i <;> fin_cases j <;> simp [SO3.rotH, mat3, Mat.of, Vec.of] <;> field_simp

/-- … representing the rotation of the normalised input: `matrix = rotH q / ‖q‖²` -/
theorem matrix_ofQuat (q : Vec ℝ 4) (h : SO3.sqn q ≠ 0) (i j : Fin 3) :
    (SO3.matrix (SO3.ofQuat q)) i j = (SO3.rotH q) i j / SO3.sqn q := by
  have hp := sqn_pos q h
  have hs : Real.sqrt (SO3.sqn q) * Real.sqrt (SO3.sqn q) = SO3.sqn q := Real.mul_self_sqrt (le_of_lt hp)
  have hn : Real.sqrt (SO3.sqn q) ≠ 0 := ne_of_gt (Real.sqrt_pos.2 hp)
  rw [ofQuat_eq, SO3.matrix_canon, SO3.matrix_eq_rotH _ (unit_normalize q h)]
  unfold normalize
  rw [rotH_div q _ hn, hs]

theorem ofQuat_of_unit (q : Vec ℝ 4) (h : SO3.Unit q) : SO3.ofQuat q = SO3.canon q := by
  rw [ofQuat_eq, normalize_of_unit q h]

theorem matrix_ofQuat_of_unit (q : Vec ℝ 4) (h : SO3.Unit q) : SO3.matrix (SO3.ofQuat q) = SO3.matrix q := by
  rw [ofQuat_of_unit q h, SO3.matrix_canon]

/-- positive multiples of a quaternion give the same element -/
theorem ofQuat_smul_pos (q : Vec ℝ 4) (c : ℝ) (hc : 0 < c) : SO3.ofQuat (vsmul c q) = SO3.ofQuat q := by
  rw [ofQuat_eq, ofQuat_eq]
  congr 1
  have hsq : SO3.sqn (vsmul c q) = c ^ 2 * SO3.sqn q := by
    simp [SO3.sqn, vsmul]; ring
  have hsqrt : Real.sqrt (SO3.sqn (vsmul c q)) = c * Real.sqrt (SO3.sqn q) := by
    rw [hsq, Real.sqrt_mul (sq_nonneg c), Real.sqrt_sq (le_of_lt hc)]
  ext i
  show (vsmul c q) i / Real.sqrt (SO3.sqn (vsmul c q)) = q i / Real.sqrt (SO3.sqn q)
  rw [hsqrt]
  show c * q i / (c * Real.sqrt (SO3.sqn q)) = q i / Real.sqrt (SO3.sqn q)
  rw [mul_div_mul_left _ _ (ne_of_gt hc)]

/-- negative multiples give the same rotation (the antipodal quaternion) -/
theorem matrix_ofQuat_neg (q : Vec ℝ 4) (h : SO3.sqn q ≠ 0) :
    SO3.matrix (SO3.ofQuat (vneg q)) = SO3.matrix (SO3.ofQuat q) := by
  have hs : SO3.sqn (vneg q) = SO3.sqn q := SO3.sqn_vneg q
  ext i j
  rw [matrix_ofQuat _ (by rw [hs]; exact h), matrix_ofQuat _ h, hs]
  congr 1
  fin_cases i <;> fin_cases j <;> simp [SO3.rotH, vneg, mat3, Mat.of, Vec.of]

/-! ### lift_so3 -/

/-- `blockDiag(R, 1)` -/
def blockDiag21 (R : Mat ℝ 2 2) : Mat ℝ 3 3 := mat3 (R 0 0) (R 0 1) 0 (R 1 0) (R 1 1) 0 0 0 1

/-- the half-angle quaternion about z -/
noncomputable def zQuat (yaw : ℝ) : Vec ℝ 4 := mk4 0 0 (Real.sin (yaw / 2)) (Real.cos (yaw / 2))

theorem unit_zQuat (yaw : ℝ) : SO3.Unit (zQuat yaw) := by
  simp [SO3.Unit, zQuat, mk4, Vec.of]

theorem cos_half_nonneg (yaw : ℝ) (h1 : -Real.pi < yaw) (h2 : yaw ≤ Real.pi) : 0 ≤ Real.cos (yaw / 2) := by
  apply Real.cos_nonneg_of_neg_pi_div_two_le_of_le <;> linarith

/-- `lift_so3 g` is literally the half-angle quaternion (no normalisation effect, no sign flip) -/
theorem lift_so3_eq (g : Vec ℝ 2) : Conv.lift_so3 g = zQuat (Conv.angle g) := by
  have hu := unit_zQuat (Conv.angle g)
  have hr := angle_range g
  have e : Conv.lift_so3 g = SO3.ofQuat (zQuat (Conv.angle g)) := by
    simp [Conv.lift_so3, zQuat, Conv.angle]
  rw [e, ofQuat_of_unit _ hu]
  apply SO3.canon_of_nonneg
  simpa [zQuat, mk4, Vec.of] using cos_half_nonneg _ hr.1 hr.2

theorem matrix_zQuat (yaw : ℝ) :
    SO3.matrix (zQuat yaw) = blockDiag21 (SO2.matrix (Conv.so2OfAngle yaw)) := by
  have hs : Real.sin yaw = 2 * Real.sin (yaw / 2) * Real.cos (yaw / 2) := by
    rw [← Real.sin_two_mul]; congr 1; ring
  have hc : Real.cos yaw = 1 - 2 * Real.sin (yaw / 2) * Real.sin (yaw / 2) := by
    have : Real.cos yaw = Real.cos (2 * (yaw / 2)) := by congr 1; ring
    rw [this, Real.cos_two_mul, Real.cos_sq']; ring
  ext i j
  fin_cases i <;> fin_cases j <;>
    simp [SO3.matrix, zQuat, blockDiag21, SO2.matrix, Conv.so2OfAngle, mat3, mat2, mk4, mk2, Mat.of, Vec.of, hs, hc]

/-- **lift_matrix**: `matrix (lift_so3 g) = blockDiag(matrix g, 1)` for unit `g` -/
theorem lift_matrix (g : Vec ℝ 2) (h : SO2.Unit g) :
    SO3.matrix (Conv.lift_so3 g) = blockDiag21 (SO2.matrix g) := by
  rw [lift_so3_eq, matrix_zQuat, so2OfAngle_angle g h]

theorem unit_lift_so3 (g : Vec ℝ 2) : SO3.Unit (Conv.lift_so3 g) := by
  rw [lift_so3_eq]; exact unit_zQuat _

theorem canon_lift_so3 (g : Vec ℝ 2) : SO3.Canon (Conv.lift_so3 g) := by
  unfold Conv.lift_so3; exact canon_ofQuat _

theorem blockDiag21_mmul (A B : Mat ℝ 2 2) :
    mmul (blockDiag21 A) (blockDiag21 B) = blockDiag21 (mmul A B) := by
  ext i j
  fin_cases i <;> fin_cases j <;> simp [blockDiag21, mmul, mat3, vsum, Mat.of]

theorem blockDiag21_inj {A B : Mat ℝ 2 2} (h : blockDiag21 A = blockDiag21 B) : A = B := by
  ext i j
  have e00 := congrArg (fun M : Mat ℝ 3 3 => M 0 0) h
  have e01 := congrArg (fun M : Mat ℝ 3 3 => M 0 1) h
  have e10 := congrArg (fun M : Mat ℝ 3 3 => M 1 0) h
  have e11 := congrArg (fun M : Mat ℝ 3 3 => M 1 1) h
  simp [blockDiag21, mat3, Mat.of] at e00 e01 e10 e11
  fin_cases i <;> fin_cases j <;> assumption

/-- **lift_homomorphism** (matrices): the lift of a product is the product of the lifts -/
theorem lift_homomorphism (a b : Vec ℝ 2) (ha : SO2.Unit a) (hb : SO2.Unit b) :
    SO3.matrix (Conv.lift_so3 (SO2.composition a b))
      = mmul (SO3.matrix (Conv.lift_so3 a)) (SO3.matrix (Conv.lift_so3 b)) := by
  rw [lift_matrix _ (SO2.unit_composition a b ha hb), lift_matrix a ha, lift_matrix b hb,
    blockDiag21_mmul, SO2.matrix_composition]

/-- the same through the SO3 group operation -/
theorem lift_homomorphism' (a b : Vec ℝ 2) (ha : SO2.Unit a) (hb : SO2.Unit b) :
    SO3.matrix (Conv.lift_so3 (SO2.composition a b))
      = SO3.matrix (SO3.composition (Conv.lift_so3 a) (Conv.lift_so3 b)) := by
  rw [SO3.matrix_composition _ _ (unit_lift_so3 a) (unit_lift_so3 b)]
  exact lift_homomorphism a b ha hb

theorem lift_identity : SO3.matrix (Conv.lift_so3 (SO2.identity : Vec ℝ 2)) = ident 3 := by
  rw [lift_matrix _ SO2.unit_identity, SO2.matrix_identity]
  ext i j
  fin_cases i <;> fin_cases j <;> simp [blockDiag21, ident, mat3, Mat.of]

theorem so2_matrix_inj {a b : Vec ℝ 2} (h : SO2.matrix a = SO2.matrix b) : a = b := by
  have e00 := congrArg (fun M : Mat ℝ 2 2 => M 0 0) h
  have e10 := congrArg (fun M : Mat ℝ 2 2 => M 1 0) h
  simp [SO2.matrix, mat2, Mat.of] at e00 e10
  ext i
  fin_cases i <;> assumption

/-- **lift_injective** -/
theorem lift_injective (a b : Vec ℝ 2) (ha : SO2.Unit a) (hb : SO2.Unit b)
    (h : Conv.lift_so3 a = Conv.lift_so3 b) : a = b := by
  have hm : SO3.matrix (Conv.lift_so3 a) = SO3.matrix (Conv.lift_so3 b) := by rw [h]
  rw [lift_matrix a ha, lift_matrix b hb] at hm
  exact so2_matrix_inj (blockDiag21_inj hm)

/-! ### project_so2 -/

theorem yawOf_zQuat (yaw : ℝ) (h1 : -Real.pi < yaw) (h2 : yaw ≤ Real.pi) : Conv.yawOf (zQuat yaw) = yaw := by
  have hs : Real.sin yaw = 2 * Real.sin (yaw / 2) * Real.cos (yaw / 2) := by
    rw [← Real.sin_two_mul]; congr 1; ring
  have hc : Real.cos yaw = 1 - 2 * Real.sin (yaw / 2) * Real.sin (yaw / 2) := by
    have : Real.cos yaw = Real.cos (2 * (yaw / 2)) := by congr 1; ring
    rw [this, Real.cos_two_mul, Real.cos_sq']; ring
  have e : Conv.yawOf (zQuat yaw) = Complex.arg ⟨Real.cos yaw, Real.sin yaw⟩ := by
    simp only [Conv.yawOf, zQuat, mk4, Vec.of, C02.scalar_atan2, Scalar.nat_real]
    congr 1
    apply Complex.ext
    · show ((1 : ℕ) : ℝ) - ((2 : ℕ) : ℝ) * ((0 : ℝ) * 0 + Real.sin (yaw / 2) * Real.sin (yaw / 2)) = Real.cos yaw
      rw [hc]; push_cast; ring
    · show ((2 : ℕ) : ℝ) * (Real.cos (yaw / 2) * Real.sin (yaw / 2) + (0 : ℝ) * 0) = Real.sin yaw
      rw [hs]; push_cast; ring
  rw [e]
  have : (⟨Real.cos yaw, Real.sin yaw⟩ : ℂ) = Complex.cos yaw + Complex.sin yaw * Complex.I := by
    apply Complex.ext <;> simp [← Complex.ofReal_cos, ← Complex.ofReal_sin]
  rw [this]
  exact Complex.arg_cos_add_sin_mul_I ⟨h1, h2⟩

/-- the yaw extracted from a lift is the SO2 angle, for every element incl. the half turn -/
theorem yawOf_lift (g : Vec ℝ 2) : Conv.yawOf (Conv.lift_so3 g) = Conv.angle g := by
  rw [lift_so3_eq]
  exact yawOf_zQuat _ (angle_range g).1 (angle_range g).2

/-- **project_lift**: `project_so2 ∘ lift_so3 = id` on SO2 -/
theorem project_lift (g : Vec ℝ 2) (h : SO2.Unit g) : Conv.project_so2 (Conv.lift_so3 g) = g := by
  unfold Conv.project_so2
  rw [yawOf_lift, so2OfAngle_angle g h]

/-- the half turn separately: `yaw = π`, lift `= (0,0,1,0)`, projected back to `(0, −1)` -/
theorem project_lift_halfTurn : Conv.project_so2 (Conv.lift_so3 halfTurn) = halfTurn :=
  project_lift halfTurn (by simp [SO2.Unit, halfTurn, mk2, Vec.of])

theorem lift_halfTurn : Conv.lift_so3 halfTurn = mk4 0 0 1 0 := by
  have ha : Conv.angle halfTurn = Real.pi := by
    rw [angle_eq]
    have hc : cplx halfTurn = -1 := by
      apply Complex.ext <;> simp [cplx, halfTurn, mk2, Vec.of]
    rw [hc, Complex.arg_neg_one]
  rw [lift_so3_eq, ha]
  ext i
  fin_cases i <;> simp [zQuat, mk4, Vec.of]

theorem unit_project_so2 (q : Vec ℝ 4) : SO2.Unit (Conv.project_so2 q) := unit_so2OfAngle _

/-- for rotations about z in the canonical hemisphere `lift_so3 ∘ project_so2 = id` -/
theorem lift_project_zQuat (yaw : ℝ) (h1 : -Real.pi < yaw) (h2 : yaw ≤ Real.pi) :
    Conv.lift_so3 (Conv.project_so2 (zQuat yaw)) = zQuat yaw := by
  unfold Conv.project_so2
  rw [yawOf_zQuat yaw h1 h2, lift_so3_eq, angle_so2OfAngle yaw h1 h2]

/-! ### lift_se3 / project_se2 -/

/-- the SE2 homogeneous matrix embedded in 4×4: rotation about z, translation `(x, y, 0)` -/
def embedSE2 (M : Mat ℝ 3 3) : Mat ℝ 4 4 := .of (fun i j =>
  match i, j with
  | 0, 0 => M 0 0 | 0, 1 => M 0 1 | 0, 2 => 0 | 0, 3 => M 0 2
  | 1, 0 => M 1 0 | 1, 1 => M 1 1 | 1, 2 => 0 | 1, 3 => M 1 2
  | 2, 0 => 0 | 2, 1 => 0 | 2, 2 => 1 | 2, 3 => 0
  | 3, 0 => 0 | 3, 1 => 0 | 3, 2 => 0 | 3, 3 => 1)

theorem so3_lift_se3 (g : Vec ℝ 4) : SE3.so3 (Conv.lift_se3 g) = Conv.lift_so3 (SE2.so2 g) := by
  unfold Conv.lift_se3; rw [SE3.so3_mk7]

theorem r3_lift_se3 (g : Vec ℝ 4) : SE3.r3 (Conv.lift_se3 g) = mk3 (g 0) (g 1) 0 := by
  unfold Conv.lift_se3; rw [SE3.r3_mk7]; simp

def SE2Unit (g : Vec ℝ 4) : Prop := SO2.Unit (SE2.so2 g)

theorem unit_lift_se3 (g : Vec ℝ 4) : SE3.Unit (Conv.lift_se3 g) := by
  unfold SE3.Unit; rw [so3_lift_se3]; exact unit_lift_so3 _

/-- **lift_matrix** for SE2 → SE3 -/
theorem lift_se3_matrix (g : Vec ℝ 4) (h : SE2Unit g) :
    SE3.matrix (Conv.lift_se3 g) = embedSE2 (SE2.matrix g) := by
  have hR := lift_matrix (SE2.so2 g) h
  have hq := so3_lift_se3 g
  ext i j
  have e : ∀ a b : Fin 3, (SO3.matrix (SE3.so3 (Conv.lift_se3 g))) a b = (blockDiag21 (SO2.matrix (SE2.so2 g))) a b := by
    intro a b; rw [hq, hR]
  have e00 := e 0 0; have e01 := e 0 1; have e02 := e 0 2
  have e10 := e 1 0; have e11 := e 1 1; have e12 := e 1 2
  have e20 := e 2 0; have e21 := e 2 1; have e22 := e 2 2
  simp [blockDiag21, mat3, Mat.of] at e00 e01 e02 e10 e11 e12 e20 e21 e22
  have t0 : (Conv.lift_se3 g) 0 = g 0 := by simp [Conv.lift_se3, SE3.mk7, mk3, Vec.of]
  have t1 : (Conv.lift_se3 g) 1 = g 1 := by simp [Conv.lift_se3, SE3.mk7, mk3, Vec.of]
  have t2 : (Conv.lift_se3 g) 2 = 0 := by simp [Conv.lift_se3, SE3.mk7, mk3, Vec.of]
  fin_cases i <;> fin_cases j <;>
    simp [SE3.matrix, embedSE2, SE2.matrix, Mat.of, mat3, e00, e01, e02, e10, e11, e12, e20, e21, e22, t0, t1, t2]

theorem embedSE2_mmul (A B : Mat ℝ 3 3) (hB : B 2 0 = 0 ∧ B 2 1 = 0 ∧ B 2 2 = 1) :
    mmul (embedSE2 A) (embedSE2 B) = embedSE2 (mmul A B) := by
  obtain ⟨b0, b1, b2⟩ := hB
  ext i j
  fin_cases i <;> fin_cases j <;> simp [embedSE2, mmul, vsum, Mat.of, b0, b1, b2]

theorem se2_matrix_lastrow (g : Vec ℝ 4) :
    (SE2.matrix g) 2 0 = 0 ∧ (SE2.matrix g) 2 1 = 0 ∧ (SE2.matrix g) 2 2 = 1 := by
  simp [SE2.matrix, mat3, Mat.of]

theorem se2_unit_composition (a b : Vec ℝ 4) (ha : SE2Unit a) (hb : SE2Unit b) :
    SE2Unit (SE2.composition a b) := by
  unfold SE2Unit at *
  have : SE2.so2 (SE2.composition a b) = SO2.composition (SE2.so2 a) (SE2.so2 b) := by
    ext i; fin_cases i <;> simp [SE2.so2, SE2.composition, mk2, mk4, Vec.of]
  rw [this]; exact SO2.unit_composition _ _ ha hb

theorem se2_matrix_composition (a b : Vec ℝ 4) :
    SE2.matrix (SE2.composition a b) = mmul (SE2.matrix a) (SE2.matrix b) := by
  ext i j
  fin_cases i <;> fin_cases j <;>
    simp [SE2.matrix, SE2.composition, SE2.so2, SE2.r2, SO2.matrix, SO2.composition, mmul, mulVec, vadd,
      mat3, mat2, mk2, mk4, vsum, Mat.of, Vec.of] <;> ring

/-- **lift_homomorphism** for SE2 → SE3 (matrices) -/
theorem lift_se3_homomorphism (a b : Vec ℝ 4) (ha : SE2Unit a) (hb : SE2Unit b) :
    SE3.matrix (Conv.lift_se3 (SE2.composition a b))
      = SE3.matrix (SE3.composition (Conv.lift_se3 a) (Conv.lift_se3 b)) := by
  rw [SE3.matrix_composition _ _ (unit_lift_se3 a) (unit_lift_se3 b),
    lift_se3_matrix _ (se2_unit_composition a b ha hb), lift_se3_matrix a ha, lift_se3_matrix b hb,
    embedSE2_mmul _ _ (se2_matrix_lastrow b), se2_matrix_composition]

/-- **project_lift** for SE2 → SE3 → SE2 -/
theorem project_lift_se (g : Vec ℝ 4) (h : SE2Unit g) : Conv.project_se2 (Conv.lift_se3 g) = g := by
  have hq : Conv.project_so2 (SE3.so3 (Conv.lift_se3 g)) = SE2.so2 g := by
    rw [so3_lift_se3]; exact project_lift _ h
  have h0 : (Conv.lift_se3 g) 0 = g 0 := by simp [Conv.lift_se3, SE3.mk7, mk3, Vec.of]
  have h1 : (Conv.lift_se3 g) 1 = g 1 := by simp [Conv.lift_se3, SE3.mk7, mk3, Vec.of]
  ext i
  fin_cases i
  · simp [Conv.project_se2, mk4, Vec.of, h0]
  · simp [Conv.project_se2, mk4, Vec.of, h1]
  · have := congrArg (fun v : Vec ℝ 2 => v 0) hq
    simpa [Conv.project_se2, mk4, Vec.of, SE2.so2, mk2] using this
  · have := congrArg (fun v : Vec ℝ 2 => v 1) hq
    simpa [Conv.project_se2, mk4, Vec.of, SE2.so2, mk2] using this

/-- **lift_injective** for SE2 → SE3 -/
theorem lift_se3_injective (a b : Vec ℝ 4) (ha : SE2Unit a) (hb : SE2Unit b)
    (h : Conv.lift_se3 a = Conv.lift_se3 b) : a = b := by
  rw [← project_lift_se a ha, ← project_lift_se b hb, h]

end C17P
