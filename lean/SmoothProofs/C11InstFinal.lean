/-
  C11InstFinal.lean — the concrete C11 statements in the shapes used by SmoothProps/C11.lean:

  * `JacHyp` / `dvs_single_hasDerivAt`: the three Jacobian statements for a variation of ONE
    difference `v_j ↦ v_j + ε·w` (exactly the shape of `C11.dg_dvs_recursion_statement` …), from the
    total differential `eval_dvs_hasDerivAt`;
  * the exactness hypotheses discharged for SO3 (closed-form branch or zero difference), SE2 and the
    translation groups (no hypothesis).
-/
import SmoothProofs.C11InstJacGroups

open Lin Scalar
open scoped Topology

namespace C11

section single
variable {G : LieModel ℝ} (L : LieCalculusJ G) {K : Nat} (vs : Fin K → Vec ℝ G.dof)
  (Bcum : Mat ℝ (K + 1) (K + 1)) (u : ℝ) (j : Fin K) (w : Vec ℝ G.dof)

/-- hypotheses of the single-difference Jacobian statements: all factors (and the inverse
    factors `exp(−b_i v_i)` the code uses) exact at `ε = 0`; the varied factor in the domain of the
    C04 facts and exact for small `ε`. -/
structure JacHyp : Prop where
  dom : ∀ i : Fin K, L.Dom (vsmul (bfun Bcum i 0 u) (vs i))
  dom_neg : ∀ i : Fin K, L.Dom (vsmul (-(bfun Bcum i 0 u)) (vs i))
  domJ : L.DomJ (vsmul (bfun Bcum j 0 u) (vs j))
  ev : ∀ᶠ ε in 𝓝 (0 : ℝ), L.Dom (vsmul (bfun Bcum j 0 u) (vadd (vs j) (vsmul ε w)))

/-- one-hot family of directions -/
noncomputable def onehot : Fin K → Vec ℝ G.dof := fun i => if i = j then w else vzero _

theorem pert_onehot (ε : ℝ) :
    pert vs (onehot j w) ε = fun i => if i = j then vadd (vs i) (vsmul ε w) else vs i := by
  funext i
  unfold pert onehot
  by_cases h : i = j
  · rw [if_pos h, if_pos h]
  · rw [if_neg h, if_neg h]
    ext k; simp [vadd, vsmul, vzero]

theorem onehot_get : (fun i : Fin K => ((onehot j w) i).get) = fun i => if i = j then w.get else 0 := by
  funext i
  unfold onehot
  by_cases h : i = j
  · rw [if_pos h, if_pos h]
  · rw [if_neg h, if_neg h]; funext k; simp [vzero]

theorem vec_of_mv {n m : Nat} (D : Mat ℝ n m) (x : Vec ℝ m) : (Vec.of (mv D x.get) : Vec ℝ n) = mulVec D x := by
  ext i
  show mv D x.get i = mulVec D x i
  rw [← mv_get_mulVec]

/-- **Jacobians w.r.t. one difference** (shape of the three `…_dvs_recursion_statement`s) -/
theorem dvs_single_hasDerivAt (h : JacHyp L vs Bcum u j w) :
    (∀ a b : Fin G.dim, HasDerivAt (fun ε : ℝ =>
        G.matrix (CSpline.eval_vs G (fun i => if i = j then vadd (vs i) (vsmul ε w) else vs i) Bcum u).g a b)
      (mmul (G.matrix (CSpline.eval_vs G vs Bcum u).g)
        (G.hat (mulVec ((CSpline.eval_dg_dvs G vs Bcum u).dg.getD j.val (mzero _ _)) w)) a b) 0) ∧
    (∀ a : Fin G.dof, HasDerivAt (fun ε : ℝ =>
        (CSpline.eval_vs G (fun i => if i = j then vadd (vs i) (vsmul ε w) else vs i) Bcum u).vel a)
      (mulVec ((CSpline.eval_dg_dvs G vs Bcum u).dvel.getD j.val (mzero _ _)) w a) 0) ∧
    (∀ a : Fin G.dof, HasDerivAt (fun ε : ℝ =>
        (CSpline.eval_vs G (fun i => if i = j then vadd (vs i) (vsmul ε w) else vs i) Bcum u).acc a)
      (mulVec ((CSpline.eval_dg_dvs G vs Bcum u).dacc.getD j.val (mzero _ _)) w a) 0) := by
  have hok : ∀ i : Fin K, FactorOK L (bfun Bcum i 0 u) (vs i) (onehot j w i) := by
    intro i
    refine ⟨h.dom i, h.dom_neg i, ?_⟩
    by_cases hij : i = j
    · right; rw [hij]; exact h.domJ
    · left; unfold onehot; rw [if_neg hij]
  have hev : ∀ i : Fin K, ∀ᶠ ε in 𝓝 (0 : ℝ), L.Dom (vsmul (bfun Bcum i 0 u) (pert vs (onehot j w) ε i)) := by
    intro i
    by_cases hij : i = j
    · subst hij
      refine h.ev.mono fun ε hε => ?_
      rw [pert_onehot]; simp only [if_pos]; exact hε
    · refine Filter.Eventually.of_forall fun ε => ?_
      rw [pert_onehot]; simp only [if_neg hij]; exact h.dom i
  have H := eval_dvs_hasDerivAt L vs (onehot j w) Bcum u hok hev
  simp only [pert_onehot, onehot_get] at H
  obtain ⟨l1, l2, l3⟩ := eval_dg_dvs_lengths (G := G) vs Bcum u
  rw [applyL_onehot K _ l1 j w.get, applyL_onehot K _ l2 j w.get, applyL_onehot K _ l3 j w.get,
    vec_of_mv] at H
  obtain ⟨H1, H2, H3⟩ := H
  refine ⟨H1, ?_, ?_⟩
  · intro a
    have := H2 a
    rw [← mv_get_mulVec] at this
    exact this
  · intro a
    have := H3 a
    rw [← mv_get_mulVec] at this
    exact this

end single

/-! ### discharging the hypotheses for concrete groups -/

theorem bfun_continuousAt {K : Nat} (Bcum : Mat ℝ (K + 1) (K + 1)) (j : Fin K) (u : ℝ) :
    ContinuousAt (fun u' => bfun Bcum j 0 u') u :=
  (bdot_hasDerivAt Bcum _ 0 u).continuousAt

theorem sqNorm3_vsmul (b : ℝ) (v : Vec ℝ 3) : sqNorm (vsmul b v) = b * b * sqNorm v := by
  rw [C02.sqNorm3, C02.sqNorm3]; simp [vsmul]; ring

/-- SO3: closed-form branch (strict) or zero difference, per factor -/
def so3Exact (b : ℝ) (v : Vec ℝ 3) : Prop := Scalar.eps2 < sqNorm (vsmul b v) ∨ sqNorm v = 0

theorem so3_hd {K : Nat} (vs : Fin K → Vec ℝ 3) (Bcum : Mat ℝ (K + 1) (K + 1)) (u : ℝ)
    (h : ∀ j : Fin K, so3Exact (bfun Bcum j 0 u) (vs j)) :
    ∀ j : Fin K, ∀ᶠ u' in 𝓝 u, so3Calculus.Dom (vsmul (bfun Bcum j 0 u') (vs j)) := by
  intro j
  rcases h j with hc | hz
  · exact so3_eventually_dom (vs j) (fun u' => bfun Bcum j 0 u') u (bfun_continuousAt Bcum j u) hc
  · exact Filter.Eventually.of_forall fun u' => so3_dom_zero _ _ hz

theorem so3_jacHyp {K : Nat} (vs : Fin K → Vec ℝ 3) (Bcum : Mat ℝ (K + 1) (K + 1)) (u : ℝ) (j : Fin K)
    (w : Vec ℝ 3) (h : ∀ i : Fin K, so3Exact (bfun Bcum i 0 u) (vs i))
    (hj : Scalar.eps2 < sqNorm (vsmul (bfun Bcum j 0 u) (vs j))) :
    JacHyp so3CalculusJ vs Bcum u j w := by
  have hdom : ∀ (b : ℝ) (v : Vec ℝ 3), so3Exact b v → so3Dom (vsmul b v) := by
    intro b v hb
    rcases hb with hc | hz
    · exact Or.inl (not_lt.mpr hc.le)
    · exact so3_dom_zero b v hz
  have hneg : ∀ (b : ℝ) (v : Vec ℝ 3), so3Exact b v → so3Exact (-b) v := by
    intro b v hb
    rcases hb with hc | hz
    · left; rw [sqNorm3_vsmul] at hc ⊢; rw [neg_mul_neg]; exact hc
    · right; exact hz
  exact ⟨fun i => hdom _ _ (h i), fun i => hdom _ _ (hneg _ _ (h i)), hj,
    so3_eventually_dom_pert _ _ _ hj⟩

/-- SE2: closed-form branch (strict) or zero angle, per factor -/
def se2Exact (b : ℝ) (v : Vec ℝ 3) : Prop := Scalar.eps2 < (vsmul b v) 2 * (vsmul b v) 2 ∨ v 2 = 0

theorem se2_hd {K : Nat} (vs : Fin K → Vec ℝ 3) (Bcum : Mat ℝ (K + 1) (K + 1)) (u : ℝ)
    (h : ∀ j : Fin K, se2Exact (bfun Bcum j 0 u) (vs j)) :
    ∀ j : Fin K, ∀ᶠ u' in 𝓝 u, se2Calculus.Dom (vsmul (bfun Bcum j 0 u') (vs j)) := by
  intro j
  rcases h j with hc | hz
  · exact se2_eventually_dom (vs j) (fun u' => bfun Bcum j 0 u') u (bfun_continuousAt Bcum j u) hc
  · refine Filter.Eventually.of_forall fun u' => Or.inr ?_
    show bfun Bcum j 0 u' * (vs j) 2 = 0
    rw [hz, mul_zero]

theorem se2_jacHyp {K : Nat} (vs : Fin K → Vec ℝ 3) (Bcum : Mat ℝ (K + 1) (K + 1)) (u : ℝ) (j : Fin K)
    (w : Vec ℝ 3) (h : ∀ i : Fin K, se2Exact (bfun Bcum i 0 u) (vs i))
    (hj : Scalar.eps2 < (vsmul (bfun Bcum j 0 u) (vs j)) 2 * (vsmul (bfun Bcum j 0 u) (vs j)) 2) :
    JacHyp se2CalculusJ vs Bcum u j w := by
  have hdom : ∀ (b : ℝ) (v : Vec ℝ 3), se2Exact b v → se2Dom (vsmul b v) := by
    intro b v hb
    rcases hb with hc | hz
    · exact Or.inl (not_lt.mpr hc.le)
    · right
      show b * v 2 = 0
      rw [hz, mul_zero]
  have hneg : ∀ (b : ℝ) (v : Vec ℝ 3), se2Exact b v → se2Exact (-b) v := by
    intro b v hb
    rcases hb with hc | hz
    · left
      have e : (vsmul (-b) v) 2 * (vsmul (-b) v) 2 = (vsmul b v) 2 * (vsmul b v) 2 := by
        simp [vsmul]
      rw [e]; exact hc
    · right; exact hz
  exact ⟨fun i => hdom _ _ (h i), fun i => hdom _ _ (hneg _ _ (h i)), hj,
    se2_eventually_dom_pert _ _ _ hj⟩

/-- translations: no hypothesis at all -/
theorem tn_jacHyp (n : Nat) {K : Nat} (vs : Fin K → Vec ℝ n) (Bcum : Mat ℝ (K + 1) (K + 1)) (u : ℝ)
    (j : Fin K) (w : Vec ℝ n) : JacHyp (tnCalculusJ n) vs Bcum u j w :=
  ⟨fun _ => trivial, fun _ => trivial, trivial, Filter.Eventually.of_forall fun _ => trivial⟩

end C11
