/-
  C07Glue.lean — from C01 (the coefficient operations realise a matrix group on `Valid`) and C02
  (exp/log round trips) to the manifold axioms of every concrete group model.

  Coefficient-level group laws do NOT hold for the quaternion-based groups (associativity fails up
  to the sign of the quaternion at half turns, C01 `so3_composition_not_assoc`).  What does hold
  and suffices: the transformation (`matrix`) determines the canonical representative.
  `CanonRep G Valid Canon Strict`:
      every result of `composition` is `Canon` (w ≥ 0),
      a `Valid`+`Canon` and a `Valid`+`Strict` (w > 0) element with the same matrix are equal.
  For SO2, C1, Tn, SE2 `matrix` is injective outright (`Canon = Strict = True`).
  The exp/log round trips enter as explicit equations (`RoundTripDom`, `RoundTripCompat`); the
  per-group corollaries replace them by the hypotheses of the C02 theorems.
-/
import SmoothProofs.C07Laws
import SmoothProofs.C01Bundle

open Scalar Lin Manif

set_option linter.unusedSectionVars false
set_option linter.unusedSimpArgs false

namespace C07

/-- the manifold axioms at the level of a group model (`rplus = g ∘ exp a`,
    `rminus = log (g₂⁻¹ ∘ g₁)`), relative to validity, a domain for tangents and a compatibility
    relation for pairs -/
structure LieAxioms (G : LieModel ℝ) (Valid : Vec ℝ G.rep → Prop)
    (Dom : Vec ℝ G.rep → Vec ℝ G.dof → Prop) (Compat : Vec ℝ G.rep → Vec ℝ G.rep → Prop) : Prop where
  valid_rplus : ∀ g a, Valid g → Dom g a → Valid (G.rplus g a)
  compat_rplus : ∀ g a, Valid g → Dom g a → Compat (G.rplus g a) g
  rminus_rplus : ∀ g a, Valid g → Dom g a → G.rminus (G.rplus g a) g = a
  rplus_rminus : ∀ g g2, Valid g → Valid g2 → Compat g2 g → G.rplus g (G.rminus g2 g) = g2
  rminus_self : ∀ g, Valid g → G.rminus g g = vzero G.dof

/-- … give the `ManLaws` of `traits::man<G>` (tangents as lists of length `dof`) -/
theorem LieAxioms.manLaws {G : LieModel ℝ} {Valid : Vec ℝ G.rep → Prop}
    {Dom : Vec ℝ G.rep → Vec ℝ G.dof → Prop} {Compat : Vec ℝ G.rep → Vec ℝ G.rep → Prop}
    (h : LieAxioms G Valid Dom Compat) :
    ManLaws (ofLie G) Valid (fun g a => Dom g (vecOfList a)) Compat where
  valid_rplus := by
    intro g a hg _ hd
    change Valid (lieRplus G g a)
    simp only [lieRplus, memoV_eq]
    exact h.valid_rplus g _ hg hd
  dof_rplus := by intros; rfl
  compat_rplus := by
    intro g a hg _ hd
    change Compat (lieRplus G g a) g
    simp only [lieRplus, memoV_eq]
    exact h.compat_rplus g _ hg hd
  compat_dof := by intros; rfl
  rminus_length := by
    intro g1 g2 _ _ _
    exact ⟨_, rfl, listOfVec_length _⟩
  rminus_rplus := by
    intro g a hg hl hd
    have hl' : a.length = G.dof := hl
    change lieRminus G (lieRplus G g a) g = _
    simp only [lieRminus, lieRplus, memoV_eq]
    rw [h.rminus_rplus g _ hg hd, listOfVec_vecOfList a hl']
  rplus_rminus := by
    intro g g2 d hg hg2 hc hd
    change lieRminus G g2 g = _ at hd
    simp only [lieRminus, Except.ok.injEq] at hd
    change lieRplus G g d = g2
    simp only [lieRplus, memoV_eq, ← hd, vecOfList_listOfVec]
    exact h.rplus_rminus g g2 hg hg2 hc
  rminus_self := by
    intro g hg
    change lieRminus G g g = _
    simp only [lieRminus]
    rw [h.rminus_self g hg, listOfVec_vzero]
    rfl

/-- the transformation determines the canonical representative -/
structure CanonRep (G : LieModel ℝ) (Valid Canon Strict : Vec ℝ G.rep → Prop) : Prop where
  canon_comp : ∀ a b, Canon (G.composition a b)
  inj : ∀ a b, Valid a → Valid b → Canon a → Strict b → G.matrix a = G.matrix b → a = b
  strict_id : Strict G.identity
  log_id : G.log G.identity = vzero G.dof

section generic
variable {G : LieModel ℝ} {Valid Canon Strict : Vec ℝ G.rep → Prop}

/-- `g⁻¹ ∘ (g ∘ e) = e` at coefficient level when `e` is a strict canonical representative -/
theorem cancel_left (h : IsMatrixGroup G Valid) (c : CanonRep G Valid Canon Strict)
    (g e : Vec ℝ G.rep) (hg : Valid g) (he : Valid e) (hs : Strict e) :
    G.composition (G.inverse g) (G.composition g e) = e := by
  have hge := h.valid_composition g e hg he
  have hi := h.valid_inverse g hg
  apply c.inj _ _ (h.valid_composition _ _ hi hge) he (c.canon_comp _ _) hs
  rw [h.matrix_composition _ _ hi hge, h.matrix_composition _ _ hg he, ← mmul_assoc,
    h.matrix_inverse_left g hg, ident_mmul]

/-- `g ∘ (g⁻¹ ∘ g₂) = g₂` -/
theorem cancel_right (h : IsMatrixGroup G Valid) (c : CanonRep G Valid Canon Strict)
    (g g2 : Vec ℝ G.rep) (hg : Valid g) (hg2 : Valid g2) (hs : Strict g2) :
    G.composition g (G.composition (G.inverse g) g2) = g2 := by
  have hi := h.valid_inverse g hg
  have hig := h.valid_composition _ _ hi hg2
  apply c.inj _ _ (h.valid_composition _ _ hg hig) hg2 (c.canon_comp _ _) hs
  rw [h.matrix_composition _ _ hg hig, h.matrix_composition _ _ hi hg2, ← mmul_assoc,
    h.matrix_inverse_right g hg, ident_mmul]

/-- `g⁻¹ ∘ g = identity` -/
theorem inv_comp_self (h : IsMatrixGroup G Valid) (c : CanonRep G Valid Canon Strict)
    (g : Vec ℝ G.rep) (hg : Valid g) : G.composition (G.inverse g) g = G.identity := by
  have hi := h.valid_inverse g hg
  apply c.inj _ _ (h.valid_composition _ _ hi hg) h.valid_identity (c.canon_comp _ _) c.strict_id
  rw [h.matrix_composition _ _ hi hg, h.matrix_inverse_left g hg, h.matrix_identity]

/-- **rminus (rplus g a) g = a**: `exp a` valid and strict, `log (exp a) = a` -/
theorem matrix_rminus_rplus (h : IsMatrixGroup G Valid) (c : CanonRep G Valid Canon Strict)
    (g : Vec ℝ G.rep) (a : Vec ℝ G.dof) (hg : Valid g) (hv : Valid (G.exp a)) (hs : Strict (G.exp a))
    (hle : G.log (G.exp a) = a) : G.rminus (G.rplus g a) g = a := by
  simp only [LieModel.rminus, LieModel.rplus]
  rw [cancel_left h c g _ hg hv hs, hle]

/-- **rplus g (rminus g₂ g) = g₂**: `g₂` strict, `exp (log y) = y` for the relative element -/
theorem matrix_rplus_rminus (h : IsMatrixGroup G Valid) (c : CanonRep G Valid Canon Strict)
    (g g2 : Vec ℝ G.rep) (hg : Valid g) (hg2 : Valid g2) (hs : Strict g2)
    (hel : G.exp (G.log (G.composition (G.inverse g) g2)) = G.composition (G.inverse g) g2) :
    G.rplus g (G.rminus g2 g) = g2 := by
  simp only [LieModel.rminus, LieModel.rplus]
  rw [hel, cancel_right h c g g2 hg hg2 hs]

/-- **rminus g g = 0** -/
theorem matrix_rminus_self (h : IsMatrixGroup G Valid) (c : CanonRep G Valid Canon Strict)
    (g : Vec ℝ G.rep) (hg : Valid g) : G.rminus g g = vzero G.dof := by
  simp only [LieModel.rminus]
  rw [inv_comp_self h c g hg, c.log_id]

/-- tangents for which the round trip is exact and the results are strict representatives -/
def RoundTripDom (G : LieModel ℝ) (Valid Strict : Vec ℝ G.rep → Prop) (g : Vec ℝ G.rep)
    (a : Vec ℝ G.dof) : Prop :=
  Valid (G.exp a) ∧ Strict (G.exp a) ∧ G.log (G.exp a) = a ∧ Strict (G.rplus g a)

/-- pairs for which `exp ∘ log` is exact on the relative element and the target is strict -/
def RoundTripCompat (G : LieModel ℝ) (Strict : Vec ℝ G.rep → Prop) (g2 g : Vec ℝ G.rep) : Prop :=
  Strict g2 ∧ G.exp (G.log (G.composition (G.inverse g) g2)) = G.composition (G.inverse g) g2

theorem lieAxioms_of_matrixGroup (h : IsMatrixGroup G Valid) (c : CanonRep G Valid Canon Strict) :
    LieAxioms G Valid (RoundTripDom G Valid Strict) (RoundTripCompat G Strict) where
  valid_rplus := fun g a hg hd => h.valid_composition _ _ hg hd.1
  compat_rplus := by
    intro g a hg hd
    refine ⟨hd.2.2.2, ?_⟩
    simp only [LieModel.rplus]
    rw [cancel_left h c g _ hg hd.1 hd.2.1, hd.2.2.1]
  rminus_rplus := fun g a hg hd => matrix_rminus_rplus h c g a hg hd.1 hd.2.1 hd.2.2.1
  rplus_rminus := fun g g2 hg hg2 hc => matrix_rplus_rminus h c g g2 hg hg2 hc.1 hc.2
  rminus_self := fun g hg => matrix_rminus_self h c g hg

end generic

end C07
