/-
  C02Exp.lean — closed-form `exp` of SO2, C1, Tn, SE2 is the matrix exponential of `hat`.
  Method: the curve `u ↦ matrix (exp (u • a))` solves `Φ' = hat a * Φ`, `Φ 0 = 1`
  (`Matrix.eq_exp_of_entry_hasDerivAt_one`).
-/
import SmoothProofs.C02Basic
import SmoothProofs.ExpODE
import Mathlib.Analysis.SpecialFunctions.Trigonometric.Deriv
import Mathlib.Analysis.SpecialFunctions.ExpDeriv

open Lin Scalar

namespace C02

/-! ### SO2 -/

theorem so2_hat_toM (a : Vec ℝ 1) : toM (SO2.hat a) = !![0, -(a 0); a 0, 0] := by
  ext i j; fin_cases i <;> fin_cases j <;> simp [toM, SO2.hat, mat2]

/-- the rotation curve `u ↦ R(uθ)` is `exp (u • θJ)` -/
theorem rot2_eq_exp (θ : ℝ) :
    (!![Real.cos θ, -Real.sin θ; Real.sin θ, Real.cos θ] : Matrix (Fin 2) (Fin 2) ℝ)
      = NormedSpace.exp !![0, -θ; θ, 0] := by
  let Φ : ℝ → Matrix (Fin 2) (Fin 2) ℝ := fun u =>
    !![Real.cos (u*θ), -Real.sin (u*θ); Real.sin (u*θ), Real.cos (u*θ)]
  have h := Matrix.eq_exp_of_entry_hasDerivAt_one !![0, -θ; θ, 0] Φ
    (by ext i j; fin_cases i <;> fin_cases j <;> simp [Φ])
    (by
      intro t i j
      have hl : HasDerivAt (fun u : ℝ => u * θ) θ t := by
        simpa using (hasDerivAt_id t).mul_const θ
      fin_cases i <;> fin_cases j <;>
        simp [Φ, Matrix.mul_apply, Fin.sum_univ_two]
      · exact hl.cos.congr_deriv (by ring)
      · exact hl.sin.neg.congr_deriv (by ring)
      · exact hl.sin.congr_deriv (by ring)
      · exact hl.cos.congr_deriv (by ring))
  rw [← h]; simp [Φ]

theorem so2_exp_is_matrix_exp (a : Vec ℝ 1) :
    toM (SO2.matrix (SO2.exp a)) = NormedSpace.exp (toM (SO2.hat a)) := by
  rw [so2_hat_toM, ← rot2_eq_exp]
  ext i j
  fin_cases i <;> fin_cases j <;> simp [toM, SO2.matrix, SO2.exp, mat2, mk2]

/-! ### C1 -/

theorem c1_hat_toM (a : Vec ℝ 2) : toM (C1.hat a) = !![a 0, -(a 1); a 1, a 0] := by
  ext i j; fin_cases i <;> fin_cases j <;> simp [toM, C1.hat, mat2]

theorem c1_exp_is_matrix_exp (a : Vec ℝ 2) :
    toM (C1.matrix (C1.exp a)) = NormedSpace.exp (toM (C1.hat a)) := by
  rw [c1_hat_toM]
  set s := a 0 with hs
  set θ := a 1 with hθ
  let Φ : ℝ → Matrix (Fin 2) (Fin 2) ℝ := fun u =>
    !![Real.exp (u*s) * Real.cos (u*θ), -(Real.exp (u*s) * Real.sin (u*θ));
       Real.exp (u*s) * Real.sin (u*θ), Real.exp (u*s) * Real.cos (u*θ)]
  have h := Matrix.eq_exp_of_entry_hasDerivAt_one !![s, -θ; θ, s] Φ
    (by ext i j; fin_cases i <;> fin_cases j <;> simp [Φ])
    (by
      intro t i j
      have hl : HasDerivAt (fun u : ℝ => u * θ) θ t := by
        simpa using (hasDerivAt_id t).mul_const θ
      have hs' : HasDerivAt (fun u : ℝ => u * s) s t := by
        simpa using (hasDerivAt_id t).mul_const s
      fin_cases i <;> fin_cases j <;>
        simp [Φ, Matrix.mul_apply, Fin.sum_univ_two]
      · exact (hs'.exp.mul hl.cos).congr_deriv (by ring)
      · exact (hs'.exp.mul hl.sin).neg.congr_deriv (by ring)
      · exact (hs'.exp.mul hl.sin).congr_deriv (by ring)
      · exact (hs'.exp.mul hl.cos).congr_deriv (by ring))
  rw [← h]
  ext i j
  fin_cases i <;> fin_cases j <;> simp [Φ, toM, C1.matrix, C1.exp, mat2, mk2, ← hs, ← hθ]



/-! ### Tn -/

theorem tn_hat_sq {n : Nat} (a : Vec ℝ n) : toM (Tn.hat a) * toM (Tn.hat a) = 0 := by
  ext i j
  rw [Matrix.mul_apply]
  apply Finset.sum_eq_zero
  intro k _
  simp only [toM, Tn.hat, Mat.of_get]
  by_cases hk : k.val < n
  · simp [hk]
  · by_cases hj : j.val < n
    · simp [hj]
    · simp [hk]

/-- `N² = 0 ⟹ exp N = 1 + N` (through the ODE characterisation). -/
theorem exp_eq_one_add_of_sq_zero {n : Nat} (A : Matrix (Fin n) (Fin n) ℝ) (hsq : A * A = 0) :
    NormedSpace.exp A = 1 + A := by
  let Φ : ℝ → Matrix (Fin n) (Fin n) ℝ := fun u => 1 + u • A
  have h := Matrix.eq_exp_of_entry_hasDerivAt_one A Φ (by simp [Φ])
    (by
      intro t i j
      have hmul : A * Φ t = A := by
        simp only [Φ, mul_add, mul_one, Matrix.mul_smul, hsq, smul_zero, add_zero]
      rw [hmul]
      have := ((hasDerivAt_id t).mul_const (A i j)).const_add ((1 : Matrix _ _ ℝ) i j)
      simpa [Φ] using this)
  have h1 : Φ 1 = 1 + A := by simp [Φ]
  rw [← h, h1]

theorem tn_exp_is_matrix_exp {n : Nat} (a : Vec ℝ n) :
    toM (Tn.matrix (Tn.exp a)) = NormedSpace.exp (toM (Tn.hat a)) := by
  rw [exp_eq_one_add_of_sq_zero _ (tn_hat_sq a)]
  ext i j
  rw [Matrix.add_apply, Matrix.one_apply]
  simp only [toM, Tn.matrix, Tn.exp, Tn.hat, Mat.of_get]
  by_cases hj : j.val < n
  · simp [hj, Fin.ext_iff]
  · by_cases hi : i.val < n
    · have : i ≠ j := fun h => hj (h ▸ hi)
      simp [hj, hi, this]
    · have : i = j := by ext; omega
      simp [hj, this]

/-! ### SE2 -/

theorem se2_hat_toM (a : Vec ℝ 3) :
    toM (SE2.hat a) = !![0, -(a 2), a 0; a 2, 0, a 1; 0, 0, 0] := by
  ext i j; fin_cases i <;> fin_cases j <;> simp [toM, SE2.hat, mat3]

/-- closed-form branch of `SE2.exp` (the `else` branch of `SE2.expAB`) -/
noncomputable def se2ExpClosed (a : Vec ℝ 3) : Vec ℝ 4 :=
  let th := a 2
  mk4 (Real.sin th / th * a 0 + (Real.cos th - 1) / th * a 1)
      (-((Real.cos th - 1) / th) * a 0 + Real.sin th / th * a 1)
      (Real.sin th) (Real.cos th)

theorem se2_exp_eq_closed (a : Vec ℝ 3) (h : ¬ a 2 * a 2 < Scalar.eps2) :
    SE2.exp a = se2ExpClosed a := by
  ext i
  fin_cases i <;>
    simp [SE2.exp, SE2.expAB, se2ExpClosed, h, SO2.exp, mulVec, vsum, mat2, mk2, mk4, mk1]

theorem se2_expClosed_is_matrix_exp (a : Vec ℝ 3) (hθ : a 2 ≠ 0) :
    toM (SE2.matrix (se2ExpClosed a)) = NormedSpace.exp (toM (SE2.hat a)) := by
  rw [se2_hat_toM]
  set x := a 0 with hx
  set y := a 1 with hy
  set θ := a 2 with hth
  let Φ : ℝ → Matrix (Fin 3) (Fin 3) ℝ := fun u =>
    !![Real.cos (u*θ), -Real.sin (u*θ), (Real.sin (u*θ) * x + (Real.cos (u*θ) - 1) * y) / θ;
       Real.sin (u*θ), Real.cos (u*θ), ((1 - Real.cos (u*θ)) * x + Real.sin (u*θ) * y) / θ;
       0, 0, 1]
  have h := Matrix.eq_exp_of_entry_hasDerivAt_one !![0, -θ, x; θ, 0, y; 0, 0, 0] Φ
    (by ext i j; fin_cases i <;> fin_cases j <;> simp [Φ])
    (by
      intro t i j
      have hl : HasDerivAt (fun u : ℝ => u * θ) θ t := by
        simpa using (hasDerivAt_id t).mul_const θ
      fin_cases i <;> fin_cases j <;>
        simp [Φ, Matrix.mul_apply, Fin.sum_univ_three]
      · exact hl.cos.congr_deriv (by ring)
      · exact hl.sin.neg.congr_deriv (by ring)
      · exact (((hl.sin.mul_const x).add ((hl.cos.sub_const 1).mul_const y)).div_const θ).congr_deriv
          (by field_simp; ring)
      · exact hl.sin.congr_deriv (by ring)
      · exact hl.cos.congr_deriv (by ring)
      · exact ((((hl.cos.const_sub 1).mul_const x).add (hl.sin.mul_const y)).div_const θ).congr_deriv
          (by field_simp; ring)
      · exact hasDerivAt_const _ _
      · exact hasDerivAt_const _ _
      · exact hasDerivAt_const _ _)
  rw [← h]
  ext i j
  fin_cases i <;> fin_cases j <;>
    simp [Φ, toM, SE2.matrix, se2ExpClosed, SE2.so2, SO2.matrix, mat3, mat2, mk2, mk4, ← hx, ← hy, ← hth] <;>
    ring



/-- `θ = 0` exactly: the series branch is taken and is exact (`exp (hat a) = 1 + hat a`). -/
theorem se2_exp_is_matrix_exp_zero (a : Vec ℝ 3) (hθ : a 2 = 0) :
    toM (SE2.matrix (SE2.exp a)) = NormedSpace.exp (toM (SE2.hat a)) := by
  have hsq : toM (SE2.hat a) * toM (SE2.hat a) = 0 := by
    rw [se2_hat_toM, hθ]
    ext i j; fin_cases i <;> fin_cases j <;> simp [Matrix.mul_apply, Fin.sum_univ_three]
  rw [exp_eq_one_add_of_sq_zero _ hsq, se2_hat_toM]
  have hb : (0 : ℝ) < Scalar.eps2 := eps2_pos
  ext i j
  fin_cases i <;> fin_cases j <;>
    simp [toM, SE2.matrix, SE2.exp, SE2.expAB, hb, SE2.so2, SO2.matrix, SO2.exp, mulVec, vsum,
      mat3, mat2, mk2, mk4, mk1, hθ]

/-- SE2, actual model function, closed-form branch. -/
theorem se2_exp_is_matrix_exp_closed (a : Vec ℝ 3) (h : ¬ a 2 * a 2 < Scalar.eps2) :
    toM (SE2.matrix (SE2.exp a)) = NormedSpace.exp (toM (SE2.hat a)) := by
  rw [se2_exp_eq_closed a h]
  apply se2_expClosed_is_matrix_exp
  intro h0
  apply h
  rw [h0]; simpa using eps2_pos

end C02
