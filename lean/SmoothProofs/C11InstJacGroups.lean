/-
  C11InstJacGroups.lean — `C11.LieCalculusJ` is INHABITED for the concrete group models.

  `LieCalculusJ.ofSeries`: for any `LieCalculus`, the two C04 facts the Jacobian loop uses follow from
    (i)  C04's power-series characterisation `dr_exp a = Σ_k (−1)^k ad(a)^k/(k+1)!` on a symmetric domain,
    (ii) C03's `Ad (exp a) = exp (ad a)`,
  through Duhamel's formula (C11InstDexp.lean):
    `dexp` — `d/dε exp(hat a + ε·hat w)|₀ = exp(hat a)·hat(dr_exp a·w)`,
    `dl`   — `dr_exp(−a) = Ad(exp a)·dr_exp(a)`.
  Instances: `so3CalculusJ`, `se2CalculusJ`, `se3CalculusJ` (closed-form branch, by C04
  `drExp_hasSum`, `se2_drExp_hasSum`, `se3_drExp_hasSum`), `tnCalculusJ n`, `so2CalculusJ` (commutative).
-/
import SmoothProofs.C11InstJacModel
import SmoothProofs.C11InstGroups
import SmoothProofs.C11InstDexp
import SmoothProofs.C04Series
import SmoothProofs.C04SeriesSE3
import SmoothProofs.C05SE3H

open Lin Scalar
open scoped Topology

namespace C11

attribute [local instance] Matrix.linftyOpNormedRing Matrix.linftyOpNormedAlgebra

section ofSeries
variable {G : LieModel ℝ} (L : LieCalculus G)

theorem mulVec_basis {n m : Nat} (A : Mat ℝ n m) (j : Fin m) (i : Fin n) :
    mulVec A (Vec.of (fun l => if l = j then (1 : ℝ) else 0)) i = A i j := by
  rw [Lin.mulVec_apply]
  simp

theorem vneg_apply {n : Nat} (x : Vec ℝ n) (i : Fin n) : (vneg x) i = - x i := by
  simp [vneg]

include L in
theorem toM_hat_vneg (a : Vec ℝ G.dof) : toM (G.hat (vneg a)) = -toM (G.hat a) := by
  have e : vneg a = vsmul (-1 : ℝ) a := by ext i; simp [vneg, vsmul]
  rw [e, L.toM_hat_smul, neg_one_smul]

include L in
/-- `ad (−a) = −ad a` (from `ad_def`, linearity and injectivity of `hat`) -/
theorem ad_vneg (a : Vec ℝ G.dof) : toM (G.ad (vneg a)) = -toM (G.ad a) := by
  have key : ∀ b : Vec ℝ G.dof, mulVec (G.ad (vneg a)) b = vneg (mulVec (G.ad a) b) := by
    intro b
    apply L.hat_inj
    apply toM_inj
    rw [toM_hat_vneg L, L.ad_def, L.ad_def, toM_msub', toM_msub', toM_mmul, toM_mmul, toM_mmul, toM_mmul,
      toM_hat_vneg L]
    noncomm_ring
  ext i j
  have h : (mulVec (G.ad (vneg a)) (Vec.of (fun l => if l = j then (1 : ℝ) else 0))) i
      = (vneg (mulVec (G.ad a) (Vec.of (fun l => if l = j then (1 : ℝ) else 0)))) i := by
    rw [key]
  rw [mulVec_basis, vneg_apply, mulVec_basis] at h
  exact h

/-- `hat` intertwines `ad a` with the commutator by `hat a` (Mathlib `mulVec` form) -/
theorem ρ_intertwine (a : Vec ℝ G.dof) (v : Fin G.dof → ℝ) :
    L.ρ ((toM (G.ad a)).mulVec v) = toM (G.hat a) * L.ρ v - L.ρ v * toM (G.hat a) := by
  have h := L.ρ_ad a (Vec.of v)
  have e : (mulVec (G.ad a) (Vec.of v)).get = (toM (G.ad a)).mulVec v :=
    Lin.toV_mulVec (G.ad a) (Vec.of v)
  rw [e, L.ρ_get a] at h
  exact h

/-- **the C04 facts from the series characterisation** -/
noncomputable def LieCalculusJ.ofSeries (DomJ : Vec ℝ G.dof → Prop)
    (hneg : ∀ a, DomJ a → DomJ (vneg a))
    (hser : ∀ a, DomJ a → ∀ j r : Fin G.dof,
      HasSum (fun k : ℕ => (-1 : ℝ) ^ k / ((k + 1).factorial : ℝ) * ((toM (G.ad a)) ^ k) j r) ((G.dr_exp a) j r))
    (hAdExp : ∀ a, DomJ a → toM (G.Ad (G.exp a)) = NormedSpace.exp (toM (G.ad a))) :
    LieCalculusJ G where
  toLieCalculus := L
  DomJ := DomJ
  dexp := by
    intro a w ha
    have h := mx_hasDerivAt_exp_of_intertwine (toM (G.hat a)) (toM (G.ad a)) L.ρ (ρ_intertwine L a) w.get
    have hJ : phiSeries (-(toM (G.ad a))) 1 = toM (G.dr_exp a) :=
      mx_phiSeries_neg_one_eq (toM (G.ad a)) (toM (G.dr_exp a)) (hser a ha)
    rw [hJ, L.ρ_get] at h
    have e : (toM (G.dr_exp a)).mulVec w.get = (mulVec (G.dr_exp a) w).get :=
      (Lin.toV_mulVec (G.dr_exp a) w).symm
    rw [e, L.ρ_get] at h
    exact h
  dl := by
    intro a ha
    apply toM_inj
    have h1 : phiSeries (-(toM (G.ad (vneg a)))) 1 = toM (G.dr_exp (vneg a)) :=
      mx_phiSeries_neg_one_eq _ _ (hser _ (hneg a ha))
    have h2 : phiSeries (-(toM (G.ad a))) 1 = toM (G.dr_exp a) :=
      mx_phiSeries_neg_one_eq _ _ (hser a ha)
    rw [toM_mmul, ← h1, ← h2, hAdExp a ha, ad_vneg L a, neg_neg]
    exact phiSeries_one_eq_exp_mul (toM (G.ad a))

end ofSeries

/-! ### SO3, SE2, SE3 -/

/-- **SO3** on the closed-form branch `eps2 < ‖a‖²` (C04 `drExp_hasSum`, C03 `so3_AdExpAt`) -/
noncomputable def so3CalculusJ : LieCalculusJ (SO3.model : LieModel ℝ) :=
  LieCalculusJ.ofSeries so3Calculus (fun a : Vec ℝ 3 => Scalar.eps2 < sqNorm a)
    (fun (a : Vec ℝ 3) h => by show Scalar.eps2 < sqNorm (vneg a); rw [C04Alg.sqNorm3_neg a]; exact h)
    (fun (a : Vec ℝ 3) h j r => C04Series.drExp_hasSum a h j r)
    (fun (a : Vec ℝ 3) h => C03.so3_AdExpAt a (not_lt.mpr h.le))

theorem se2_vneg_2 (a : Vec ℝ 3) : (vneg a) 2 * (vneg a) 2 = a 2 * a 2 := by
  simp [vneg]

/-- **SE2** on the closed-form branch `eps2 < θ²` (C04 `se2_drExp_hasSum`, C03 `se2_AdExpAt`) -/
noncomputable def se2CalculusJ : LieCalculusJ (SE2.model : LieModel ℝ) :=
  LieCalculusJ.ofSeries se2Calculus (fun a : Vec ℝ 3 => Scalar.eps2 < a 2 * a 2)
    (fun (a : Vec ℝ 3) h => by show Scalar.eps2 < (vneg a) 2 * (vneg a) 2; rw [se2_vneg_2 a]; exact h)
    (fun (a : Vec ℝ 3) h j r => C04Series.se2_drExp_hasSum a h j r)
    (fun (a : Vec ℝ 3) h => C03.se2_AdExpAt a (not_lt.mpr h.le))

/-- **SE3** on the closed-form branch `eps2 < ‖ω‖²` (C04 `se3_drExp_hasSum`, C03 `se3_AdExpAt`) -/
noncomputable def se3CalculusJ : LieCalculusJ (SE3.model : LieModel ℝ) :=
  LieCalculusJ.ofSeries se3Calculus (fun a : Vec ℝ 6 => Scalar.eps2 < sqNorm (SE3.tw a))
    (fun (a : Vec ℝ 6) h => by
      show Scalar.eps2 < sqNorm (SE3.tw (vneg a))
      rw [C05SE3H.tw_vneg a, C04Alg.sqNorm3_neg]; exact h)
    (fun (a : Vec ℝ 6) h j r => C04SeriesSE3.se3_drExp_hasSum a h j r)
    (fun (a : Vec ℝ 6) h => C03.se3_AdExpAt a h)

/-! ### commutative groups: `ad = 0`, `dr_exp = I` -/

theorem hasSum_comm_series {d : Nat} (j r : Fin d) :
    HasSum (fun k : ℕ => (-1 : ℝ) ^ k / ((k + 1).factorial : ℝ)
      * ((toM (mzero d d : Mat ℝ d d)) ^ k) j r) ((ident d : Mat ℝ d d) j r) := by
  have hz : toM (mzero d d : Mat ℝ d d) = 0 := by ext i j; simp [mzero]
  rw [hz]
  have h := hasSum_single (f := fun k : ℕ => (-1 : ℝ) ^ k / ((k + 1).factorial : ℝ)
      * (((0 : Matrix (Fin d) (Fin d) ℝ)) ^ k) j r) 0 (by
    intro k hk
    rw [zero_pow hk]; simp)
  have e : (-1 : ℝ) ^ 0 / ((0 + 1).factorial : ℝ) * (((0 : Matrix (Fin d) (Fin d) ℝ)) ^ 0) j r
      = (ident d : Mat ℝ d d) j r := by
    simp [Matrix.one_apply, Lin.ident_apply]
  rw [e] at h
  exact h

/-- **Tn** (every `n`, everywhere) -/
noncomputable def tnCalculusJ (n : Nat) : LieCalculusJ (Tn.model n : LieModel ℝ) :=
  LieCalculusJ.ofSeries (tnCalculus n) (fun _ => True) (fun _ _ => trivial)
    (fun _ _ j r => hasSum_comm_series j r)
    (fun a _ => C03.tn_AdExpAt n a)

/-- **SO2** (everywhere) -/
noncomputable def so2CalculusJ : LieCalculusJ (SO2.model : LieModel ℝ) :=
  LieCalculusJ.ofSeries so2Calculus (fun _ => True) (fun _ _ => trivial)
    (fun _ _ j r => hasSum_comm_series j r)
    (fun a _ => C03.so2_AdExpAt a)

/-! ### the perturbed factor stays exact for small `ε` (closed-form branch, strict) -/

/-- SO3: if `eps2 < ‖b·v‖²` then `exp(b·(v + ε w))` is exact for all small `ε` -/
theorem so3_eventually_dom_pert (b : ℝ) (v w : Vec ℝ 3) (h : Scalar.eps2 < sqNorm (vsmul b v)) :
    ∀ᶠ ε in 𝓝 (0 : ℝ), so3Dom (vsmul b (vadd v (vsmul ε w))) := by
  have hc : ContinuousAt (fun ε : ℝ => sqNorm (vsmul b (vadd v (vsmul ε w)))) 0 := by
    have : (fun ε : ℝ => sqNorm (vsmul b (vadd v (vsmul ε w))))
        = fun ε : ℝ => (b * (v 0 + ε * w 0)) * (b * (v 0 + ε * w 0))
          + (b * (v 1 + ε * w 1)) * (b * (v 1 + ε * w 1)) + (b * (v 2 + ε * w 2)) * (b * (v 2 + ε * w 2)) := by
      funext ε; rw [C02.sqNorm3]; simp [vsmul, vadd]
    rw [this]
    apply Continuous.continuousAt
    fun_prop
  have h0 : Scalar.eps2 < (fun ε : ℝ => sqNorm (vsmul b (vadd v (vsmul ε w)))) 0 := by
    have e : vadd v (vsmul (0 : ℝ) w) = v := by ext i; simp [vadd, vsmul]
    show Scalar.eps2 < sqNorm (vsmul b (vadd v (vsmul (0 : ℝ) w)))
    rw [e]; exact h
  exact (hc.eventually (lt_mem_nhds h0)).mono fun ε hε => Or.inl (not_lt.mpr hε.le)

/-- SE2: if `eps2 < (b·θ)²` then `exp(b·(v + ε w))` is exact for all small `ε` -/
theorem se2_eventually_dom_pert (b : ℝ) (v w : Vec ℝ 3)
    (h : Scalar.eps2 < (vsmul b v) 2 * (vsmul b v) 2) :
    ∀ᶠ ε in 𝓝 (0 : ℝ), se2Dom (vsmul b (vadd v (vsmul ε w))) := by
  have hc : ContinuousAt (fun ε : ℝ => (vsmul b (vadd v (vsmul ε w))) 2 * (vsmul b (vadd v (vsmul ε w))) 2) 0 := by
    have : (fun ε : ℝ => (vsmul b (vadd v (vsmul ε w))) 2 * (vsmul b (vadd v (vsmul ε w))) 2)
        = fun ε : ℝ => (b * (v 2 + ε * w 2)) * (b * (v 2 + ε * w 2)) := by
      funext ε; simp [vsmul, vadd]
    rw [this]
    apply Continuous.continuousAt
    fun_prop
  have h0 : Scalar.eps2 < (fun ε : ℝ => (vsmul b (vadd v (vsmul ε w))) 2 * (vsmul b (vadd v (vsmul ε w))) 2) 0 := by
    have e : vadd v (vsmul (0 : ℝ) w) = v := by ext i; simp [vadd, vsmul]
    show Scalar.eps2 < (vsmul b (vadd v (vsmul (0 : ℝ) w))) 2 * (vsmul b (vadd v (vsmul (0 : ℝ) w))) 2
    rw [e]; exact h
  exact (hc.eventually (lt_mem_nhds h0)).mono fun ε hε => Or.inl (not_lt.mpr hε.le)

end C11
