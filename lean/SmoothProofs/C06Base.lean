/-
  C06Base.lean — helper lemmas for C06 (Bundle = direct product), over ANY `[Scalar α]`:
  `fst/snd/vcat`, entries of `bdiag`, `tl/br` of a block-diagonal matrix, segments of
  concatenations, `psum` (utils::array_psum) as running sums.
  No arithmetic law of the scalar is used anywhere in this file.
-/
import SmoothProofs.Real
import Mathlib.Tactic.SplitIfs

open Lin Scalar
set_option linter.unusedSectionVars false

namespace C06
variable {α : Type} [Scalar α]

/-! ### concatenation and its two halves -/

theorem fst_vcat {n m : Nat} (a : Vec α n) (b : Vec α m) : Bundle.fst (vcat a b) = a := by
  ext i
  simp [Bundle.fst, vcat]

theorem snd_vcat {n m : Nat} (a : Vec α n) (b : Vec α m) : Bundle.snd (vcat a b) = b := by
  ext i
  simp [Bundle.snd, vcat]

theorem vcat_fst_snd {n m : Nat} (g : Vec α (n + m)) : vcat (Bundle.fst g) (Bundle.snd g) = g := by
  ext i
  simp only [vcat, Bundle.fst, Bundle.snd, Vec.of_get]
  split_ifs with h
  · rfl
  · congr 1; ext; simp; omega

theorem vcat_apply_lt {n m : Nat} (a : Vec α n) (b : Vec α m) (i : Fin (n + m)) (h : i.val < n) :
    vcat a b i = a ⟨i.val, h⟩ := by
  simp [vcat, h]

theorem vcat_apply_ge {n m : Nat} (a : Vec α n) (b : Vec α m) (i : Fin (n + m)) (h : ¬ i.val < n) :
    vcat a b i = b ⟨i.val - n, by omega⟩ := by
  simp [vcat, h]

/-! ### entries of the block-diagonal arrangement -/
section bdiag
variable {n m n' m' : Nat} (A : Mat α n n') (B : Mat α m m')

theorem bdiag_tl (i : Fin (n + m)) (j : Fin (n' + m')) (hi : i.val < n) (hj : j.val < n') :
    Bundle.bdiag A B i j = A ⟨i.val, hi⟩ ⟨j.val, hj⟩ := by
  simp [Bundle.bdiag, hi, hj]

theorem bdiag_br (i : Fin (n + m)) (j : Fin (n' + m')) (hi : ¬ i.val < n) (hj : ¬ j.val < n') :
    Bundle.bdiag A B i j = B ⟨i.val - n, by omega⟩ ⟨j.val - n', by omega⟩ := by
  simp [Bundle.bdiag, hi, hj]

/-- the upper-right off-diagonal block is exactly zero -/
theorem bdiag_tr (i : Fin (n + m)) (j : Fin (n' + m')) (hi : i.val < n) (hj : ¬ j.val < n') :
    Bundle.bdiag A B i j = nat 0 := by
  simp [Bundle.bdiag, hi, hj]

/-- the lower-left off-diagonal block is exactly zero -/
theorem bdiag_bl (i : Fin (n + m)) (j : Fin (n' + m')) (hi : ¬ i.val < n) (hj : j.val < n') :
    Bundle.bdiag A B i j = nat 0 := by
  simp [Bundle.bdiag, hi, hj]

end bdiag

theorem tl_bdiag {n m : Nat} (A : Mat α n n) (B : Mat α m m) : Bundle.tl (Bundle.bdiag A B) = A := by
  ext i j
  simp [Bundle.tl, Bundle.bdiag]

theorem br_bdiag {n m : Nat} (A : Mat α n n) (B : Mat α m m) : Bundle.br (Bundle.bdiag A B) = B := by
  ext i j
  simp [Bundle.br, Bundle.bdiag]

/-- identity blocks assemble to the identity (entries are `nat 1` / `nat 0`, no arithmetic) -/
theorem bdiag_ident (n m : Nat) :
    Bundle.bdiag (ident n) (ident m) = (ident (n + m) : Mat α (n + m) (n + m)) := by
  ext i j
  simp only [Bundle.bdiag, ident, Mat.of_get]
  by_cases hi : i.val < n <;> by_cases hj : j.val < n <;> simp only [hi, hj, dite_true, dite_false]
  · by_cases h : i = j
    · subst h; simp
    · have : ¬ i.val = j.val := fun e => h (Fin.ext e)
      simp [h, Fin.ext_iff, this]
  · have : i ≠ j := fun e => hj (e ▸ hi)
    simp [this]
  · have : i ≠ j := fun e => hi (e ▸ hj)
    simp [this]
  · by_cases h : i = j
    · subst h; simp
    · have : ¬ i.val - n = j.val - n := fun e => h (Fin.ext (by omega))
      simp [h, Fin.ext_iff, this]

theorem bdiag_mzero (n m n' m' : Nat) :
    Bundle.bdiag (mzero n n') (mzero m m') = (mzero (n + m) (n' + m') : Mat α (n + m) (n' + m')) := by
  ext i j
  simp only [Bundle.bdiag, mzero, Mat.of_get]
  split_ifs <;> rfl

/-! ### segments (`v.segment(off,len)`) and blocks (`M.block(r0,c0,nr,nc)`) of product layouts -/

theorem seg_zero_fst {n m : Nat} (v : Vec α (n + m)) (h : 0 + n ≤ n + m) :
    seg v 0 n h = Bundle.fst v := by
  ext i
  simp [seg, Bundle.fst]

theorem seg_snd {n m : Nat} (v : Vec α (n + m)) (off len : Nat) (h : off + len ≤ m)
    (h' : (n + off) + len ≤ n + m) :
    seg v (n + off) len h' = seg (Bundle.snd v) off len h := by
  ext i
  simp only [seg, Bundle.snd, Vec.of_get]
  congr 1; ext; simp; omega

theorem block_zero_tl {n m : Nat} (M : Mat α (n + m) (n + m)) (hr : 0 + n ≤ n + m) :
    block M 0 0 n n hr hr = Bundle.tl M := by
  ext i j
  simp [block, Bundle.tl]

theorem block_br {n m : Nat} (M : Mat α (n + m) (n + m)) (r0 c0 nr nc : Nat)
    (hr : r0 + nr ≤ m) (hc : c0 + nc ≤ m) (hr' : (n + r0) + nr ≤ n + m) (hc' : (n + c0) + nc ≤ n + m) :
    block M (n + r0) (n + c0) nr nc hr' hc' = block (Bundle.br M) r0 c0 nr nc hr hc := by
  ext i j
  simp only [block, Bundle.br, Mat.of_get]
  congr 1 <;> (ext; simp; omega)

/-- a block of `bdiag A B` that lies inside the lower-right part is that block of `B` -/
theorem block_bdiag_br {n m n' m' : Nat} (A : Mat α n n') (B : Mat α m m') (r0 c0 nr nc : Nat)
    (hr : r0 + nr ≤ m) (hc : c0 + nc ≤ m') (hr' : (n + r0) + nr ≤ n + m) (hc' : (n' + c0) + nc ≤ n' + m') :
    block (Bundle.bdiag A B) (n + r0) (n' + c0) nr nc hr' hc' = block B r0 c0 nr nc hr hc := by
  ext i j
  simp only [block, Mat.of_get]
  rw [bdiag_br A B _ _ (by simp; omega) (by simp; omega)]
  congr 1 <;> (ext; simp; omega)

/-- the leading block of `bdiag A B` is `A` -/
theorem block_bdiag_tl {n m n' m' : Nat} (A : Mat α n n') (B : Mat α m m')
    (hr : 0 + n ≤ n + m) (hc : 0 + n' ≤ n' + m') :
    block (Bundle.bdiag A B) 0 0 n n' hr hc = A := by
  ext i j
  simp only [block, Mat.of_get]
  rw [bdiag_tl A B _ _ (by simp) (by simp)]
  congr 1 <;> (ext; simp)

/-- a block in the first block-row and right of the first block-column is zero -/
theorem block_bdiag_tr {n m n' m' : Nat} (A : Mat α n n') (B : Mat α m m') (c0 nc : Nat)
    (hr : 0 + n ≤ n + m) (hc' : (n' + c0) + nc ≤ n' + m') :
    block (Bundle.bdiag A B) 0 (n' + c0) n nc hr hc' = mzero n nc := by
  ext i j
  simp only [block, mzero, Mat.of_get]
  rw [bdiag_tr A B _ _ (by simp) (by simp; omega)]

/-- a block below the first block-row and in the first block-column is zero -/
theorem block_bdiag_bl {n m n' m' : Nat} (A : Mat α n n') (B : Mat α m m') (r0 nr : Nat)
    (hr' : (n + r0) + nr ≤ n + m) (hc : 0 + n' ≤ n' + m') :
    block (Bundle.bdiag A B) (n + r0) 0 nr n' hr' hc = mzero nr n' := by
  ext i j
  simp only [block, mzero, Mat.of_get]
  rw [bdiag_bl A B _ _ (by simp; omega) (by simp)]

/-! ### `psum` = `utils::array_psum`: running sums -/

/-- running sums started at `s` -/
def partials (s : Nat) : List Nat → List Nat
  | [] => []
  | x :: xs => (s + x) :: partials (s + x) xs

theorem psum_fold (acc : List Nat) (s : Nat) (l : List Nat) :
    l.foldl (fun acc x => acc ++ [acc.getLast! + x]) (acc ++ [s]) = (acc ++ [s]) ++ partials s l := by
  induction l generalizing acc s with
  | nil => simp [partials]
  | cons x xs ih =>
    simp only [List.foldl_cons, partials]
    have h : (acc ++ [s]).getLast! = s := by simp [List.getLast!_eq_getLast?_getD]
    rw [h]
    have := ih (acc ++ [s]) (s + x)
    rw [this]
    simp

theorem psum_eq (l : List Nat) : Bundle.psum l = 0 :: partials 0 l := by
  have := psum_fold [] 0 l
  simpa [Bundle.psum] using this

theorem partials_getElem? (s : Nat) (l : List Nat) (i : Nat) (h : i < l.length) :
    (partials s l)[i]? = some (s + (l.take (i + 1)).sum) := by
  induction l generalizing s i with
  | nil => simp at h
  | cons x xs ih =>
    cases i with
    | zero => simp [partials]
    | succ i =>
      simp only [partials, List.getElem?_cons_succ, List.take_succ_cons, List.sum_cons]
      rw [ih (s + x) i (by simpa using h)]
      simp [Nat.add_assoc]

/-- `psum l` has length `l.length + 1` -/
theorem psum_length (l : List Nat) : (Bundle.psum l).length = l.length + 1 := by
  rw [psum_eq]
  have : ∀ s, (partials s l).length = l.length := by
    induction l with
    | nil => intro s; rfl
    | cons x xs ih => intro s; simp [partials, ih]
  simp [this]

/-- `psum_spec`: the `i`-th entry of `array_psum(l)` is the sum of the first `i` entries -/
theorem psum_getElem? (l : List Nat) (i : Nat) (h : i ≤ l.length) :
    (Bundle.psum l)[i]? = some (l.take i).sum := by
  rw [psum_eq]
  cases i with
  | zero => simp
  | succ i =>
    rw [List.getElem?_cons_succ, partials_getElem? 0 l i (by omega)]
    simp

end C06
