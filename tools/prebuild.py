#!/usr/bin/env python3
"""setup helper: compile every harness once (content-hash cache in build/bin) so that the quick
checks start from warm binaries.  Failures here are not fatal: each check builds what it needs."""
import json, os, sys, traceback
from concurrent.futures import ThreadPoolExecutor
sys.path.insert(0, os.path.dirname(__file__))
import check

src = json.load(open(os.path.join(os.path.dirname(__file__), 'manifest_src.json')))
def one(pid):
    try:
        P = check.load_plugin(pid)
        if hasattr(P, 'prebuild'):
            P.prebuild()
        return pid, 'ok'
    except Exception as e:
        return pid, 'skipped: %r' % (e,)
with ThreadPoolExecutor(max_workers=4) as ex:
    for pid, st in ex.map(one, sorted(src['checks'])):
        print('prebuild', pid, st)
