#!/usr/bin/env python3
"""Translator (tie by regeneration from source): the scalar coefficient code of pettni/smooth —
`detail/trig.hpp` (cos_2 … cos_6) and the inline coefficient lambdas of detail/so3.hpp, se2.hpp,
se3.hpp (small-angle / closed-form switches of exp, log, S1inv, dr_expinv, d2r_exp, d2r_expinv,
calculate_Q_dQ) — is parsed from the CURRENT source and re-emitted as Lean definitions over any
`[Scalar α]` in `SmoothModel/Gen/CoefSrc.lean`.  `SmoothProps/SrcTie.lean` proves, on every run, that
each generated definition equals the hand-written model function the other theorems are about
(`rfl`-style).  A changed coefficient, threshold, sign or branch in the C++ changes the generated
definition and the tie theorem stops checking.

Supported C++ subset (everything else is a hard error, never silently skipped):
  statements:  [using …;]  const T name = expr;  if (cond) { … } else { … }  return expr;  return { e, … };
  expressions: + - * / unary -, parentheses, identifiers, integer and simple floating literals,
               S(x)/Scalar(x) casts of literals and of `eps2`, calls sin cos tan sqrt atan2,
               the member/index forms listed in each function's substitution table.

WHOLE IMPLEMENTATION FUNCTIONS (tools/gen_impl.py + gen_impl_parse.py, run from main() below)
---------------------------------------------------------------------------------------------
Every static function of the Impl classes of detail/so2.hpp, c1.hpp, tn.hpp, se2.hpp, so3.hpp, se3.hpp,
galilei.hpp, se_k_3.hpp is transliterated statement by statement into `SmoothModel/Gen/ImplSrc.lean` (namespaces
ImplSrc.SO2 …, over `[Scalar α]`; TnImpl<N> and SE_K_3Impl<K> for a SYMBOLIC dimension n / k), and
SmoothProps/SrcTieImpl{,C01..C05}.lean prove `ImplSrc.G.f = G.f` for the hand-written model (`rfl`, or entry by
entry `fin_cases`+`rfl` after unfolding memoM/memoV and rewriting callees by their own ties; the loops over K of
SE_K(3) by induction over the iterations with index arithmetic only; α abstract, so no arithmetic law is used
and the expression trees, including operation order, coincide).
  TRANSLATED (98): SO2 C1: setIdentity matrix composition inverse log exp hat vee;  Tn: the same + ad;
    SE2: setIdentity matrix composition inverse log Ad exp hat vee ad dr_exp dr_expinv d2r_exp d2r_expinv;
    SO3: calc_S1 calc_S2 calc_S1inv setIdentity matrix composition inverse log Ad exp hat vee ad dr_exp
         dr_expinv d2r_exp d2r_expinv;
    SE3: setIdentity matrix composition inverse log Ad exp hat vee ad calculate_q calculate_Q_dQ dr_exp dr_expinv
         d2r_exp d2r_expinv (calculate_Q_dQ whole: its 3x18 table is ALSO re-emitted by gen_dq.py for the theorem
         C05.dQ_is_derivative_of_Q; the two translations are tied to each other through the model);
    Galilei: setIdentity matrix composition inverse log Ad exp hat vee ad calculate_r dr_exp dr_expinv;
    SE_K(3) (every K): setIdentity matrix composition inverse log Ad exp hat vee ad calculate_q dr_exp dr_expinv;
    + the constants RepSize, Dim, Dof, IsCommutative of the eight classes (`ImplSrc.consts_*`).
  NOT TRANSLATED (table EXCLUDED of gen_impl.py, repeated in the header of the generated file and as
    `ImplSrc.notTranslated`): setRandom of every class (Eigen's RNG).  OPAQUE CALLEE: the free template
    `d_matrix_product` (detail/derivatives_impl.hpp) called by SE3 d2r_expinv is mapped to the hand model
    `Derivs.d_matrix_product`; its text is pinned by tools/gen_base.py and the model is tied by execution (T1).
    The list of translated functions is itself tied (`SrcTieImpl.manifest_eq`): a function added to or
    removed from a class breaks it.
  C++ SUBSET: declarations `[const] T x [= e]`, `T x{{..},{..}}`, `Eigen::Map<const Quaternion> q(v.data())`,
    `const auto [a, b] = <lambda>()`, `[const] auto [A, B] = f(x)` for f returning std::pair (`return {A, B};`),
    local `using X = T;`; assignments `=  +=  -=  *=` (with .noalias()) to
    whole objects, coefficients `x(i) x(i,j) x[i]`, blocks `.head<k>() .tail<k>() .segment<k>(o)
    .topLeftCorner<r,c>() (all four corners) .block<r,c>(i,j) .middleCols<k>(j) .col(j)`; comma initialiser;
    `.setZero() .setIdentity()`; calls of other Impl functions (one output parameter) and of value-returning
    ones; `if (a < b) { x op= …; }`; `for (auto i = 0u; i < N; ++i)` (N a literal: unrolled; N the template
    parameter K: kept as `EigenSem.forLoop K body init`, the body must assign exactly one outer variable);
    `Eigen::Ref<[const] T> x = <block>` (a live VIEW, not a copy); `const double t = <coefficient>` (noted in the
    generated header: exact only for Scalar ∈ {float, double}); immediately invoked
    lambdas `[&]() -> Scalar | std::array<Scalar,k> { const Scalar…; if/else; return …; }()`; `return e;`.
    Expressions: + - * / unary -, coefficient access `.x() .y() .z() .w()`, `.squaredNorm() .dot() .row(i).transpose()
    .transpose()`, `::Identity() ::Zero()`, quaternion `* .inverse() .conjugate() .toRotationMatrix() .coeffs()`.
    HARD ERRORS (never skipped): any other statement, member function, operator or type; integer division
    of literals; a bare floating literal in arithmetic (C++ would compute in double); reading an entry of a
    declared-but-unassigned object, or leaving an entry of an output unassigned (definite-assignment
    analysis: cell sets for static sizes, row intervals with linear end points for vectors of symbolic size,
    `[3i, 3i+3)` for i < K generalised to `[0, 3K)`); a block outside of its object (decided for linear index
    forms under 0 ≤ i < K); first assignment inside a conditional; assignment to a const / input;
    overloaded or recursive functions; a class member that is not a constant, a using or a static function.
  TRUSTED TABLES (the meaning given to Eigen 3.4 constructs; SmoothModel/EigenSem.lean documents the Eigen
    source lines, Lin.lean has the dense helpers):
      A+B A-B -A s*A A*s A/s   -> madd msub mneg msmul msmulR mdivs (vadd vsub vneg vsmul vsmulR vdivs)
      A*B, A*v                 -> mmul, mulVec: Σ_l A(i,l)·B(l,j) summed left to right from 0 (Lin.vsum);
                                  `s*A*B` is `(s*A)*B` as C++ parses it and as Eigen evaluates it
                                  (entries of A scaled first) — NOT s*(A*B)
      v.squaredNorm() v.dot(w) -> sqNorm, dot (same summation order)
      x *= s ; B *= M          -> entries x(i)*s (vscaleR mscaleR) ; B = B*M (mmul)
      Identity() Zero() setIdentity() setZero() -> ident mzero vzero
      x << e0, e1, …  and  T x{{…},{…}}   -> row-major fill: mk1..mk4 mat2 mat3 vecLit matLit
      block reads / writes     -> head tail segment blockM blockCol rowT / setSegment setBlock setBlockCol
                                  setCoeffV setCoeffM (index arithmetic only)
      q.toRotationMatrix()  q1*q2  q.inverse()  q.conjugate()  -> quatToRot quatMul quatInverse quatConj
                                  (Quaternion.h 592–624, 487–498 generic quat_product, 720–731, 735–741;
                                  coefficient order x y z w)
      sin cos tan sqrt atan2 exp log -> Scalar.*;  detail::cos_2 … cos_6 -> CoefSrc.Trig_* (generated above)
      Scalar(k) Scalar(-k) Scalar(0.5) Scalar(1. / 6) Scalar(eps2); int literal meeting a Scalar -> nat k;
      whole initialiser entries `0.` `0.5` `-0.5` -> nat 0, nat 1 / nat 2, -(nat 1 / nat 2)
    What the tables do NOT claim: Eigen's summation order inside a product/reduction of inner size 3
    depends on the scalar type and instruction set (packet path left-to-right, scalar path x0+(x1+x2)) and
    Eigen has SIMD quaternion products; these rounding-level differences are the business of the execution
    tie T1 (ulp comparison), not of this syntactic tie.

THE GENERIC LAYER (tools/gen_base.py + gen_base_pins.py, run from main() below)
-------------------------------------------------------------------------------
include/smooth/lie_group_base.hpp (class LieGroupBase<Derived>) and include/smooth/detail/derivatives_impl.hpp:
every member is TRANSLATED into a term over an abstract record of implementation functions
(`SmoothModel/Gen/BaseSrc.lean`, meanings in SmoothModel/BaseSem.lean) and/or PINNED TEXTUALLY (normalised token
sequence compared with the expected sequence of gen_base_pins.py — in-place writes through derived().coeffs(), the
aliasing-protecting temporary of operator*=, signatures, qualifiers; d_matrix_product and d2_fog).  Ties
`SrcTieImpl.base_*`, `derivs_*`.  See the doc-comment of gen_base.py.
"""
import os, re, sys
sys.path.insert(0, os.path.dirname(os.path.abspath(__file__)))

FUNS = {'sin': 'Scalar.sin', 'cos': 'Scalar.cos', 'tan': 'Scalar.tan', 'sqrt': 'Scalar.sqrt', 'atan2': 'Scalar.atan2'}


class TrErr(Exception):
    pass


# ------------------------------------------------------------------ tokenizer / expression parser
TOK = re.compile(r'\s*(?:(\d+\.\d*|\.\d+|\d+)|([A-Za-z_][A-Za-z_0-9:]*)|(<=|>=|==|!=|&&|\|\||[-+*/(){},;<>=\[\].]))')


def tokenize(s):
    out, i = [], 0
    s = s.strip()
    while i < len(s):
        m = TOK.match(s, i)
        if not m:
            raise TrErr('cannot tokenize at: ' + s[i:i + 30])
        if m.group(1) is not None:
            out.append(('num', m.group(1)))
        elif m.group(2) is not None:
            out.append(('id', m.group(2)))
        else:
            out.append(('op', m.group(3)))
        i = m.end()
    return out


def lit(txt):
    """numeric literal (possibly an expression of literals inside a cast) -> Lean"""
    t = txt.strip()
    if re.fullmatch(r'\d+', t):
        return f'(nat {t})'
    if re.fullmatch(r'\d+\.', t):
        return f'(nat {t[:-1]})'
    if t == '0.5':
        return '(nat 1 / nat 2)'
    m = re.fullmatch(r'(\d+)\.?\s*/\s*(\d+)\.?', t)
    if m:
        return f'(nat {m.group(1)} / nat {m.group(2)})'
    raise TrErr('unsupported literal: ' + txt)


class P:
    def __init__(self, toks, subst):
        self.t, self.i, self.subst = toks, 0, subst

    def peek(self):
        return self.t[self.i] if self.i < len(self.t) else ('eof', '')

    def take(self, kind=None, val=None):
        k, v = self.peek()
        if (kind and k != kind) or (val is not None and v != val):
            raise TrErr(f'expected {kind} {val}, got {k} {v}')
        self.i += 1
        return v

    def expr(self):
        e = self.term()
        while self.peek() in (('op', '+'), ('op', '-')):
            op = self.take()
            e = f'({e} {op} {self.term()})'
        return e

    def term(self):
        e = self.unary()
        while self.peek() in (('op', '*'), ('op', '/')):
            op = self.take()
            e = f'({e} {op} {self.unary()})'
        return e

    def unary(self):
        if self.peek() == ('op', '-'):
            self.take()
            return f'(-{self.unary()})'
        if self.peek() == ('op', '+'):
            self.take()
            return self.unary()
        return self.atom()

    def atom(self):
        k, v = self.peek()
        if k == 'num':
            self.take()
            return lit(v)
        if k == 'op' and v == '(':
            self.take()
            e = self.expr()
            self.take('op', ')')
            return e
        if k == 'id':
            self.take()
            name = v
            if name.startswith('std::'):
                name = name[5:]
            if name.startswith('detail::'):
                name = name[8:]
            # member / index forms through the substitution table, e.g. a_in.z()  g_in[3]
            j = self.i
            txt = name
            while j < len(self.t) and self.t[j] in (('op', '.'), ('op', '[')):
                if self.t[j] == ('op', '.'):
                    txt += '.' + self.t[j + 1][1] + '()'
                    j += 4  # . name ( )
                else:
                    txt += '[' + self.t[j + 1][1] + ']'
                    j += 3
            if txt != name:
                if txt not in self.subst:
                    raise TrErr('no substitution for ' + txt)
                self.i = j
                return self.subst[txt]
            if name in ('S', 'Scalar'):
                self.take('op', '(')
                # cast of a literal expression or of eps2
                depth, start = 1, self.i
                while depth:
                    k2, v2 = self.t[self.i]
                    if (k2, v2) == ('op', '('):
                        depth += 1
                    elif (k2, v2) == ('op', ')'):
                        depth -= 1
                    self.i += 1
                inner = self.t[start:self.i - 1]
                if inner == [('id', 'eps2')]:
                    return 'Scalar.eps2'
                return lit(' '.join(x[1] for x in inner))
            if self.peek() == ('op', '('):
                if name not in FUNS:
                    raise TrErr('unsupported call ' + name)
                self.take()
                args = [self.expr()]
                while self.peek() == ('op', ','):
                    self.take()
                    args.append(self.expr())
                self.take('op', ')')
                return '(' + FUNS[name] + ' ' + ' '.join(args) + ')'
            if name == 'eps2':
                return 'Scalar.eps2'
            return self.subst.get(name, name)
        raise TrErr(f'unexpected token {k} {v}')

    def cond(self):
        a = self.expr()
        k, op = self.peek()
        if op not in ('<', '>'):
            raise TrErr('unsupported comparison ' + op)
        self.take()
        b = self.expr()
        return f'{a} < {b}' if op == '<' else f'{b} < {a}'


# ------------------------------------------------------------------ statement level
def strip_comments(s):
    s = re.sub(r'//[^\n]*', '', s)
    return re.sub(r'/\*.*?\*/', '', s, flags=re.S)


def match_brace(s, i):
    assert s[i] == '{'
    d = 0
    for j in range(i, len(s)):
        if s[j] == '{':
            d += 1
        elif s[j] == '}':
            d -= 1
            if d == 0:
                return j
    raise TrErr('unbalanced braces')


def body_to_lean(body, subst, ind='  '):
    """body: C++ statement list (comments stripped) ending in return or if/else -> Lean term"""
    body = body.strip()
    out = []
    while body:
        body = body.lstrip()
        if body.startswith('using '):
            body = body[body.index(';') + 1:]
            continue
        m = re.match(r'const\s+(?:Scalar|S|auto|double)\s+(\w+)\s*=\s*', body)
        if m:
            end = body.index(';', m.end())
            e = P(tokenize(body[m.end():end]), subst)
            val = e.expr()
            if e.i != len(e.t):
                raise TrErr('trailing tokens in: ' + body[m.end():end])
            out.append(f'{ind}let {m.group(1)} := {val}')
            body = body[end + 1:]
            continue
        if body.startswith('if'):
            i0 = body.index('(')
            # find matching paren
            d, j = 0, i0
            while True:
                if body[j] == '(':
                    d += 1
                elif body[j] == ')':
                    d -= 1
                    if d == 0:
                        break
                j += 1
            c = P(tokenize(body[i0 + 1:j]), subst)
            cond = c.cond()
            b1 = body.index('{', j)
            e1 = match_brace(body, b1)
            rest = body[e1 + 1:].lstrip()
            if not rest.startswith('else'):
                raise TrErr('if without else')
            b2 = rest.index('{')
            e2 = match_brace(rest, b2)
            if rest[e2 + 1:].strip():
                raise TrErr('statements after if/else: ' + rest[e2 + 1:][:40])
            t1 = body_to_lean(body[b1 + 1:e1], subst, ind + '  ')
            t2 = body_to_lean(rest[b2 + 1:e2], subst, ind + '  ')
            out.append(f'{ind}if {cond} then\n{t1}\n{ind}else\n{t2}')
            return '\n'.join(out)
        if body.startswith('return'):
            end = body.rindex(';')
            r = body[len('return'):end].strip()
            if body[end + 1:].strip():
                raise TrErr('statements after return')
            if r.startswith('{'):
                inner = r[1:match_brace(r, 0)]
                parts, d, cur = [], 0, ''
                for ch in inner:
                    if ch in '({':
                        d += 1
                    elif ch in ')}':
                        d -= 1
                    if ch == ',' and d == 0:
                        parts.append(cur)
                        cur = ''
                    else:
                        cur += ch
                if cur.strip():
                    parts.append(cur)
                vals = []
                for prt in parts:
                    e = P(tokenize(prt), subst)
                    vals.append(e.expr())
                    if e.i != len(e.t):
                        raise TrErr('trailing tokens in: ' + prt)
                out.append(f'{ind}(' + ', '.join(vals) + ')')
            else:
                e = P(tokenize(r), subst)
                v = e.expr()
                if e.i != len(e.t):
                    raise TrErr('trailing tokens in: ' + r)
                out.append(f'{ind}{v}')
            return '\n'.join(out)
        raise TrErr('unsupported statement: ' + body[:60])
    raise TrErr('body without return')


def extract_function(src, header_re):
    m = re.search(header_re, src)
    if not m:
        raise TrErr('not found: ' + header_re)
    b = src.index('{', m.end() - 1)
    return src[b + 1:match_brace(src, b)]


def extract_lambda(src, func_header_re, lambda_decl_re, occurrence=0):
    """the body of the `occurrence`-th lambda matching lambda_decl_re inside the function"""
    fb = extract_function(src, func_header_re)
    ms = list(re.finditer(lambda_decl_re, fb))
    if len(ms) <= occurrence:
        raise TrErr(f'lambda {lambda_decl_re} #{occurrence} not found in {func_header_re}')
    m = ms[occurrence]
    b = fb.index('{', m.end() - 1)
    return fb[b + 1:match_brace(fb, b)]


# name, file, how to find it, params, substitution, prelude (statements of the enclosing function the lambda uses)
def specs(repo):
    d = os.path.join(repo, 'include/smooth/detail')
    trig = strip_comments(open(os.path.join(d, 'trig.hpp')).read())
    so3 = strip_comments(open(os.path.join(d, 'so3.hpp')).read())
    se2 = strip_comments(open(os.path.join(d, 'se2.hpp')).read())
    se3 = strip_comments(open(os.path.join(d, 'se3.hpp')).read())
    L = []
    for f in ('cos_2', 'sin_3', 'cos_4', 'sin_5', 'cos_6'):
        L.append(('Trig_' + f, ['x2'], {}, extract_function(trig, r'S\s+' + f + r'\s*\(const S & x2\)\s*\{')))
    lam = r'=\s*\[&\]\(\)\s*->\s*[\w:<>, ]+\{'
    L.append(('SO3_S1invA', ['th2'], {}, extract_lambda(so3, r'calc_S1inv\(TRefIn a_in\)\s*\{', lam)))
    L.append(('SO3_logPhi', ['xyz2', 'w'], {'g_in[3]': 'w'}, extract_lambda(so3, r'static void log\(GRefIn g_in, TRefOut a_out\)\s*\{', lam)))
    L.append(('SO3_expAB', ['th2'], {}, extract_lambda(so3, r'static void exp\(TRefIn a_in, GRefOut g_out\)\s*\{', lam)))
    L.append(('SO3_d2rExpCoef', ['th2'], {'a_in.squaredNorm()': 'th2'}, extract_lambda(so3, r'static void d2r_exp\(TRefIn a_in, THessRefOut H_out\)\s*\{', lam)))
    L.append(('SO3_d2rExpinvCoef', ['th2'], {'a_in.squaredNorm()': 'th2'}, extract_lambda(so3, r'static void d2r_expinv\(TRefIn a_in, THessRefOut H_out\)\s*\{', lam)))
    L.append(('SE2_logA', ['th2', 'B'], {}, extract_lambda(se2, r'static void log\(GRefIn g_in, TRefOut a_out\)\s*\{', lam)))
    L.append(('SE2_expAB', ['th', 'th2'], {}, extract_lambda(se2, r'static void exp\(TRefIn a_in, GRefOut g_out\)\s*\{', lam)))
    L.append(('SE2_drExpinvA', ['th', 'th2'], {}, extract_lambda(se2, r'static void dr_expinv\(TRefIn a_in, TMapRefOut A_out\)\s*\{', lam)))
    L.append(('SE2_d2rExpCoef', ['a_z'], {'a_in.z()': 'a_z'}, extract_lambda(se2, r'static void d2r_exp\(TRefIn a_in, THessRefOut H_out\)\s*\{', lam)))
    L.append(('SE2_d2rExpinvCoef', ['a_z'], {'a_in.z()': 'a_z'}, extract_lambda(se2, r'static void d2r_expinv\(TRefIn a_in, THessRefOut H_out\)\s*\{', lam)))
    L.append(('SE3_dQCoef', ['th2'], {}, extract_lambda(se3, r'calculate_Q_dQ\(TRefIn a\)\s*\{', lam)))
    return L


def main():
    repo = sys.argv[1] if len(sys.argv) > 1 else os.environ.get('VERIF_REPO', '/repo')
    outp = sys.argv[2] if len(sys.argv) > 2 else os.path.join(os.path.dirname(os.path.abspath(__file__)), '..', 'lean', 'SmoothModel', 'Gen', 'CoefSrc.lean')
    L = ["/- GENERATED by tools/gen_src.py from include/smooth/detail/{trig,so3,se2,se3}.hpp.",
         "   Do not edit: regenerated from the repository on every check run. -/",
         "import SmoothModel.Scalar",
         "set_option linter.unusedVariables false",
         "open Scalar",
         "namespace CoefSrc",
         "variable {α : Type} [Scalar α]", ""]
    try:
        for name, params, subst, body in specs(repo):
            term = body_to_lean(body, subst)
            L.append(f"def {name} " + ' '.join(f'({p} : α)' for p in params) + " :=")
            L.append(term)
            L.append("")
    except TrErr as e:
        print('gen_src: cannot translate the current source:', e)
        sys.exit(1)
    L.append("end CoefSrc")
    txt = '\n'.join(L) + '\n'
    write_if_changed(outp, txt)
    # whole implementation functions (tools/gen_impl.py) -> SmoothModel/Gen/ImplSrc.lean
    import gen_impl
    outi = sys.argv[3] if len(sys.argv) > 3 else os.path.join(os.path.dirname(os.path.abspath(outp)), 'ImplSrc.lean')
    try:
        txti = gen_impl.generate(repo)
    except gen_impl.TrErr as e:
        print('gen_src: cannot translate the current source (implementation functions):', e)
        sys.exit(1)
    write_if_changed(outi, txti)
    # the generic layer: LieGroupBase members and derivatives_impl.hpp (tools/gen_base.py) -> SmoothModel/Gen/BaseSrc.lean
    import gen_base
    outb = sys.argv[4] if len(sys.argv) > 4 else os.path.join(os.path.dirname(os.path.abspath(outp)), 'BaseSrc.lean')
    try:
        txtb = gen_base.generate(repo)[0]
    except gen_base.TrErr as e:
        print('gen_src: cannot translate the current source (generic layer lie_group_base.hpp / derivatives_impl.hpp):', e)
        sys.exit(1)
    write_if_changed(outb, txtb)


def write_if_changed(outp, txt):
    old = open(outp).read() if os.path.exists(outp) else None
    if old != txt:
        open(outp, 'w').write(txt)
        print('gen_src: wrote', outp)
    else:
        print('gen_src: unchanged', os.path.basename(outp))


if __name__ == '__main__':
    main()
