#!/bin/bash
# setup: build the Lean model, the driver and every property's proofs, then warm the harness cache
# (offline; nothing fetched)
set -e
cd "$(dirname "$0")/.."
python3 tools/gen_dq.py /repo
python3 tools/gen_src.py /repo
python3 tools/gen_logic.py /repo
python3 tools/gen_bundle.py /repo
( cd lean && lake build smoothdrv SmoothProofs SmoothProps 2>&1 | tail -5 )
python3 tools/prebuild.py || true
