#!/usr/bin/env python3
"""gen_base.py — source-to-Lean translator for the GENERIC layer of pettni/smooth (called by tools/gen_src.py):

  include/smooth/lie_group_base.hpp      class LieGroupBase<Derived>: what every group type inherits
  include/smooth/detail/derivatives_impl.hpp (+ the declarations of include/smooth/derivatives.hpp)

Output: lean/SmoothModel/Gen/BaseSrc.lean — one definition per member over an ABSTRACT record
`(I : LieModel α)` of implementation functions (the meaning of `Impl::f`, `cderived().coeffs()`, `if constexpr
(IsCommutative)` … is the fixed table documented in SmoothModel/BaseSem.lean).  SmoothProps/SrcTieImplC01..C05.lean
prove `BaseSrc.f G = <derived operation of the hand model>` for every `G` (theorems `base_*`, `derivs_*`).

Every member of the class, and every top-level item of the two derivative headers, must be accounted for:
  T  translated: the body is parsed in the subset below and re-emitted as a Lean term;
  P  pinned textually: the normalised token sequence (comments, whitespace and preprocessor lines removed;
     tokens joined by one blank) must equal the sequence stored in PINS below;
  TP both (in-place members: the value-level meaning is translated, the way it is written is pinned).
The SIGNATURE of every member (template header, requires-clause, attributes, return type, parameters,
qualifiers) is always pinned.  So are the order of the members, the access labels, and everything in the file
outside of the class.  A difference is a HARD ERROR naming the member; so is any statement or expression outside
the subset.  `python3 tools/gen_base.py --pins [repo]` prints the pins of the current source (to review and paste
after an intended change of the source).

Subset (T): `LocalType x;` (PlainObject Matrix Tangent TangentMap Hessian), `Impl::f(in…, out);` with out a local,
`x.coeffs()` of one or `derived().coeffs()`, `x.setIdentity();`, `derived().coeffs() = e;`, `*this *= e;`,
`return e;`, `return derived();`, `if constexpr (IsCommutative) { … } else { … }`; expressions `*this`,
`cderived().coeffs()`, `static_cast<const OtherDerived &>(o).coeffs()`, parameters and locals, calls of other
members (`exp(a)`, `x.inverse()`, `(e).log()`), `T::Identity()`, `T::Zero()`, unary minus, `x * y` (group values;
TangentMap times Tangent).  Free functions: `const T x = e;`, `auto x = e;`, `f<G>(e)`, `e.transpose() * M`,
`d2_fog(e.transpose(), Matrix<…>::Identity(), J, H)`, and the one loop of `d2r_rminus`
(`for j < Dof<G>: res.block<Dof,Dof>(0, j·n, n, n).applyOnTheRight(J)`).
"""
import os, re, sys
sys.path.insert(0, os.path.dirname(os.path.abspath(__file__)))
from gen_impl_parse import TrErr, tokenize, strip_comments, show, match_close, match_angle

# ------------------------------------------------------------------------------------------------ tables
# value types: G group element (coefficients), T tangent, M Dim×Dim, TM Dof×Dof, H Dof×Dof²
LEAN_TY = {'G': 'Vec α I.rep', 'T': 'Vec α I.dof', 'M': 'Mat α I.dim I.dim', 'TM': 'Mat α I.dof I.dof',
           'H': 'Mat α I.dof (I.dof * I.dof)'}
LOCAL_TYPES = {'PlainObject': 'G', 'Matrix': 'M', 'Tangent': 'T', 'TangentMap': 'TM', 'Hessian': 'H'}
# Impl::f -> (LieModel field, input types, output type)
IMPL = {'setIdentity': ('identity', [], 'G'), 'matrix': ('matrix', ['G'], 'M'),
        'composition': ('composition', ['G', 'G'], 'G'), 'inverse': ('inverse', ['G'], 'G'),
        'log': ('log', ['G'], 'T'), 'Ad': ('Ad', ['G'], 'TM'), 'exp': ('exp', ['T'], 'G'),
        'hat': ('hat', ['T'], 'M'), 'vee': ('vee', ['M'], 'T'), 'ad': ('ad', ['T'], 'TM'),
        'dr_exp': ('dr_exp', ['T'], 'TM'), 'dr_expinv': ('dr_expinv', ['T'], 'TM'),
        'd2r_exp': ('d2r_exp', ['T'], 'H'), 'd2r_expinv': ('d2r_expinv', ['T'], 'H')}
STATIC_CONST = {('TM', 'Identity'): '(ident I.dof)', ('TM', 'Zero'): '(mzero I.dof I.dof)',
                ('H', 'Zero'): '(mzero I.dof (I.dof * I.dof))', ('T', 'Zero'): '(vzero I.dof)'}

# members of LieGroupBase, in source order: C++ name -> (mode, Lean name, is_static, params [(name, type)], result)
# result: value type, or 'self' (the member updates the object and returns derived() / nothing)
MEMBERS = [
    ('derived', 'P'), ('cderived', 'P'), ('LieGroupBase', 'P'),
    ('using traits', 'P'), ('using Impl', 'P'), ('constexpr is_mutable', 'P'), ('constexpr RepSize', 'P'),
    ('constexpr Dof', 'P'), ('constexpr Dim', 'P'), ('constexpr IsCommutative', 'P'), ('using Scalar', 'P'),
    ('using Matrix', 'P'), ('using Tangent', 'P'), ('using TangentMap', 'P'), ('using Hessian', 'P'),
    ('using CastT', 'P'), ('using PlainObject', 'P'),
    ('coeffs', 'P'), ('coeffs#2', 'P'), ('data', 'P'), ('data#2', 'P'), ('operator=', 'P'), ('dof', 'P'),
    ('setIdentity', 'TP', 'setIdentity', False, [], 'self'),
    ('setRandom', 'P'),
    ('Identity', 'T', 'Identity', True, [], 'G'),
    ('Random', 'P'),
    ('matrix', 'T', 'matrix', False, [], 'M'),
    ('isApprox', 'P'), ('cast', 'P'),
    ('operator*', 'T', 'mul', False, [('o', 'G')], 'G'),
    ('operator*=', 'TP', 'imul', False, [('o', 'G')], 'self'),
    ('inverse', 'T', 'inverse', False, [], 'G'),
    ('log', 'T', 'log', False, [], 'T'),
    ('Ad', 'T', 'Ad', False, [], 'TM'),
    ('operator+', 'T', 'rplus', False, [('a', 'T')], 'G'),
    ('operator+=', 'TP', 'irplus', False, [('a', 'T')], 'self'),
    ('operator-', 'T', 'rminus', False, [('xo', 'G')], 'T'),
    ('exp', 'T', 'exp', True, [('a', 'T')], 'G'),
    ('hat', 'T', 'hat', True, [('a', 'T')], 'M'),
    ('vee', 'T', 'vee', True, [('A', 'M')], 'T'),
    ('ad', 'T', 'ad', True, [('a', 'T')], 'TM'),
    ('lie_bracket', 'T', 'lie_bracket', True, [('a', 'T'), ('b', 'T')], 'T'),
    ('dr_exp', 'T', 'dr_exp', True, [('a', 'T')], 'TM'),
    ('dr_expinv', 'T', 'dr_expinv', True, [('a', 'T')], 'TM'),
    ('dl_exp', 'T', 'dl_exp', True, [('a', 'T')], 'TM'),
    ('dl_expinv', 'T', 'dl_expinv', True, [('a', 'T')], 'TM'),
    ('d2r_exp', 'T', 'd2r_exp', True, [('a', 'T')], 'H'),
    ('d2r_expinv', 'T', 'd2r_expinv', True, [('a', 'T')], 'H'),
    ('d2l_exp', 'T', 'd2l_exp', True, [('a', 'T')], 'H'),
    ('d2l_expinv', 'T', 'd2l_expinv', True, [('a', 'T')], 'H'),
]
# free functions of detail/derivatives_impl.hpp, in source order
FREE = [
    ('d_matrix_product', 'P'), ('d2_fog', 'P'),
    ('dr_rminus', 'T', 'dr_rminus', True, [('e', 'T')], 'TM'),
    ('d2r_rminus', 'T', 'd2r_rminus', True, [('e', 'T')], 'H'),
    ('dr_rminus_squarednorm', 'T', 'dr_rminus_squarednorm', True, [('e', 'T')], 'T'),
    ('d2r_rminus_squarednorm', 'T', 'd2r_rminus_squarednorm', True, [('e', 'T')], 'TM'),
]
# the free functions `f<G>(x)` of concepts/lie_group.hpp forward through traits::lie<G> (lie_groups/native.hpp)
# to the static member `G::f(x)` of LieGroupBase: both forwarders are pinned below (FORWARD)
FORWARD = ['dr_expinv', 'd2r_expinv']

from gen_base_pins import PINS  # noqa: E402  (expected token sequences; separate file for readability)


# ------------------------------------------------------------------------------------------------ reading
def file_tokens(path):
    if not os.path.exists(path):
        raise TrErr('missing header ' + path)
    src = strip_comments(open(path).read())
    src = '\n'.join(l for l in src.split('\n') if not l.lstrip().startswith('#'))
    return tokenize(src)


def preproc_lines(path):
    """the preprocessor lines of a header (includes, pragmas), blanks normalised"""
    src = strip_comments(open(path).read())
    return ' | '.join(' '.join(l.split()) for l in src.split('\n') if l.lstrip().startswith('#'))


def text(toks):
    return ' '.join(str(t[1]) for t in toks)


def split_items(toks, in_class):
    """split a token list into declarations: each ends at `;` or at the `}` closing its body.
    -> list of (access, head tokens, body tokens or None)"""
    out, i, access = [], 0, 'private'
    n = len(toks)
    while i < n:
        t = toks[i]
        if in_class and t[0] == 'id' and t[1] in ('public', 'protected', 'private') and toks[i + 1] == ('op', ':'):
            access = t[1]
            i += 2
            continue
        d, j = 0, i
        while True:
            if j >= n:
                raise TrErr('unterminated declaration: ' + show(toks[i:]))
            u = toks[j]
            if u[0] == 'op' and u[1] in '([':
                d += 1
            elif u[0] == 'op' and u[1] in ')]':
                d -= 1
            elif u == ('op', '{') and d == 0:
                e = match_close(toks, j)
                head, body, j = toks[i:j], toks[j + 1:e], e
                if j + 1 < n and toks[j + 1] == ('op', ';') and head and head[-1][1] not in (')', 'noexcept', 'const'):
                    j += 1      # class/struct definition `struct X {…};`
                break
            elif u == ('op', ';') and d == 0:
                head, body = toks[i:j], None
                break
            j += 1
        out.append((access, head, body))
        i = j + 1
    return out


def strip_prefix(head):
    """drop template<…>, requires(…), [[…]] in front of a declaration"""
    k = 0
    while k < len(head):
        if head[k] == ('id', 'template') and head[k + 1] == ('op', '<'):
            k = match_angle(head, k + 1) + 1
        elif head[k] == ('id', 'requires'):
            k = match_close(head, k + 1) + 1
        elif head[k] == ('op', '[') and k + 1 < len(head) and head[k + 1] == ('op', '['):
            k = match_close(head, k) + 1
        else:
            break
    return head[k:]


def item_name(head, where):
    core = strip_prefix(head)
    if not core:
        raise TrErr(f'{where}: empty declaration')
    if core[0] == ('id', 'using'):
        return 'using ' + core[1][1]
    if core[0][1] in ('class', 'struct'):
        return core[0][1] + ' ' + core[1][1]
    if ('op', '(') not in core:
        if core[:2] == [('id', 'static'), ('id', 'constexpr')] and ('op', '=') in core:
            return 'constexpr ' + core[core.index(('op', '=')) - 1][1]
        raise TrErr(f'{where}: unsupported declaration: ' + show(core))
    p = core.index(('op', '('))
    if core[p - 1][0] == 'id' and core[p - 1][1] != 'operator':
        return core[p - 1][1]
    q = p - 1
    while q >= 0 and core[q] != ('id', 'operator'):
        q -= 1
    if q < 0:
        raise TrErr(f'{where}: cannot find the name of: ' + show(core))
    return 'operator' + ''.join(str(t[1]) for t in core[q + 1:p])


def number(names):
    seen, out = {}, []
    for n in names:
        seen[n] = seen.get(n, 0) + 1
        out.append(n if seen[n] == 1 else f'{n}#{seen[n]}')
    return out


# ------------------------------------------------------------------------------------------------ bodies
class Body:
    """translator of one member body"""

    def __init__(self, gen, where, spec, scope):
        self.gen, self.where, self.scope = gen, where, scope        # scope: 'member' | 'free'
        _, _, self.lean, self.static, self.params, self.result = spec
        self.env = {n: t for n, t in self.params}                     # name -> value type
        self.assigned = set(self.env)
        self.mutable = set()
        self.deps = []
        self.self_written = False

    def err(self, msg):
        return TrErr(f'{self.where}: {msg}')

    # ---------------------------------------------------------------- expressions
    def parse(self, toks):
        self.t, self.i = list(toks), 0
        v = self.expr()
        if self.i != len(self.t):
            raise self.err('unsupported expression (trailing tokens `' + show(self.t[self.i:]) + '`) in: ' + show(self.t, 40))
        return v

    def peek(self, k=0):
        return self.t[self.i + k] if self.i + k < len(self.t) else ('eof', '')

    def take(self, val=None):
        k, v = self.peek()
        if k == 'eof' or (val is not None and v != val):
            raise self.err(f'expected `{val}`, got `{v}` in: ' + show(self.t, 40))
        self.i += 1
        return v

    def member_call(self, cname, args):
        """call of another member of the base class / free function -> (lean, type)"""
        spec = self.gen.spec(cname)
        if spec is None or spec[1] == 'P':
            raise self.err(f'call of `{cname}`, which is not a translated member')
        _, _, lean, static, params, result = spec
        if len(args) != len(params) + (0 if static else 1):
            raise self.err(f'call of `{cname}` with {len(args)} arguments')
        want = ([] if static else ['G']) + [t for _, t in params]
        for (al, at), w in zip(args, want):
            if at != w:
                raise self.err(f'call of `{cname}`: argument of type {at}, expected {w}')
        self.deps.append(cname)
        rt = 'G' if result == 'self' else result
        return '(BaseSrc.' + lean + ' I' + ''.join(' ' + a for a, _ in args) + ')', rt

    def expr(self):
        a = self.unary()
        while self.peek() == ('op', '*'):
            self.take()
            b = self.unary()
            if a[1] == 'G' and b[1] == 'G':
                a = self.member_call('operator*', [a, b])
            elif a[1] == 'TM' and b[1] == 'T':
                a = (f'(mulVec {a[0]} {b[0]})', 'T')
            elif a[1] == 'ROW' and b[1] == 'TM':
                a = (f'(BaseSem.rowMul {a[0]} {b[0]})', 'T')
            else:
                raise self.err(f'`*` on values of type {a[1]} and {b[1]}')
        if self.peek()[1] in ('+', '-', '/', '<', '>', '==', '!=', '<=', '>=', '&&', '||', '?'):
            raise self.err(f'unsupported operator `{self.peek()[1]}` in: ' + show(self.t, 40))
        return a

    def unary(self):
        if self.peek() == ('op', '-'):
            self.take()
            a = self.unary()
            if a[1] == 'T':
                return (f'(vneg {a[0]})', 'T')
            if a[1] in ('TM', 'H', 'M'):
                return (f'(mneg {a[0]})', a[1])
            raise self.err('unary minus on a value of type ' + a[1])
        if self.peek() == ('op', '*') and self.peek(1) == ('id', 'this'):
            if self.static:
                raise self.err('`*this` in a static member')
            self.take()
            self.take()
            return self.postfix(('self', 'G'))
        return self.postfix(self.primary())

    def call_args(self):
        self.take('(')
        out = []
        if self.peek() == ('op', ')'):
            self.take()
            return out
        while True:
            out.append(self.expr())
            if self.peek() == ('op', ','):
                self.take()
                continue
            self.take(')')
            return out

    def postfix(self, v):
        while self.peek() == ('op', '.'):
            self.take()
            if self.peek() == ('id', 'template'):
                self.take()
            name = self.take()
            if self.peek() != ('op', '('):
                raise self.err(f'member access `.{name}` that is not a call')
            args = self.call_args()
            if name == 'coeffs' and not args and v[1] == 'G':
                continue
            if name == 'transpose' and not args and v[1] == 'T' and self.scope == 'free':
                v = (v[0], 'ROW')
                continue
            if v[1] == 'G':
                v = self.member_call(name, [v] + args)
                continue
            raise self.err(f'unsupported member function `.{name}()` on a value of type {v[1]}')
        return v

    def primary(self):
        k, v = self.peek()
        if (k, v) == ('op', '('):
            self.take()
            e = self.expr()
            self.take(')')
            return e
        if k != 'id':
            raise self.err(f'unexpected token `{v}` in: ' + show(self.t, 40))
        if v == 'cderived' and self.scope == 'member':
            if self.static:
                raise self.err('`cderived()` in a static member')
            self.take()
            self.take('(')
            self.take(')')
            return ('self', 'G')
        if v == 'static_cast':
            toks = self.t[self.i:self.i + 7]
            if text(toks) != 'static_cast < const OtherDerived & > (':
                raise self.err('unsupported cast: ' + show(self.t[self.i:], 12))
            self.i += 7
            e = self.expr()
            self.take(')')
            if e[1] != 'G':
                raise self.err('static_cast<const OtherDerived &> of a value of type ' + e[1])
            return e
        if v in LOCAL_TYPES and self.peek(1) == ('op', '::') and self.scope == 'member':
            ty = LOCAL_TYPES[v]
            self.take()
            self.take('::')
            fn = self.take()
            self.take('(')
            self.take(')')
            if (ty, fn) not in STATIC_CONST:
                raise self.err(f'unsupported constant {v}::{fn}()')
            return (STATIC_CONST[(ty, fn)], ty)
        if v == 'Eigen' and self.scope == 'free':
            want = 'Eigen :: Matrix < Scalar < G > , Dof < G > , Dof < G > > :: Identity ( )'
            n = len(want.split())
            if text(self.t[self.i:self.i + n]) != want:
                raise self.err('unsupported Eigen expression: ' + show(self.t[self.i:], 24))
            self.i += n
            return ('(ident I.dof)', 'TM')
        self.take()
        if self.scope == 'free' and self.peek() == ('op', '<'):
            if text(self.t[self.i:self.i + 3]) != '< G >':
                raise self.err(f'`{v}<…>` with a template argument other than G')
            self.i += 3
            args = self.call_args()
            if v in FORWARD:
                self.gen.forward_used.add(v)
            elif self.gen.spec(v) is None or self.gen.spec_scope(v) != 'free':
                raise self.err(f'call of the free function `{v}<G>`, whose forwarding to LieGroupBase is not pinned')
            return self.member_call(v, args)
        if v == 'd2_fog' and self.scope == 'free' and self.peek() == ('op', '('):
            args = self.call_args()
            if [a[1] for a in args] != ['ROW', 'TM', 'TM', 'H']:
                raise self.err('d2_fog called with arguments of types ' + str([a[1] for a in args]))
            self.gen.opaque_used.add('d2_fog')
            return (f'(BaseSem.ofHess1 (Derivs.d2_fog (BaseSem.rowMat {args[0][0]}) (BaseSem.asHess1 {args[1][0]}) '
                    f'{args[2][0]} {args[3][0]}))', 'TM')
        if self.peek() == ('op', '('):
            if self.scope != 'member':
                raise self.err(f'unsupported call `{v}(…)`')
            args = self.call_args()
            spec = self.gen.spec(v)
            if spec is None or spec[1] == 'P' or not spec[3]:
                raise self.err(f'call of `{v}`, which is not a translated static member')
            return self.member_call(v, args)
        if v not in self.env:
            raise self.err('unknown identifier `' + v + '`')
        if v not in self.assigned:
            raise self.err(f'`{v}` is read before it is assigned')
        return (v, self.env[v])

    # ---------------------------------------------------------------- statements
    def stmt_end(self, toks, i):
        d = 0
        for j in range(i, len(toks)):
            t = toks[j]
            if t[0] == 'op' and t[1] in '({[':
                d += 1
            elif t[0] == 'op' and t[1] in ')}]':
                d -= 1
            elif t == ('op', ';') and d == 0:
                return j
        raise self.err('statement without `;`: ' + show(toks[i:]))

    def bind(self, name, ty, lean, ind, lines):
        lines.append(f'{ind}let {name} : {LEAN_TY[ty]} := {lean}')
        self.assigned.add(name)

    def out_target(self, toks):
        """an output argument: a local (or `x.coeffs()`), or `derived().coeffs()` -> (lean name, type)"""
        s = text(toks)
        if s == 'derived ( ) . coeffs ( )':
            if self.static:
                raise self.err('`derived()` in a static member')
            self.self_written = True
            return 'self', 'G'
        m = re.fullmatch(r'(\w+)( \. coeffs \( \))?', s)
        if m and m.group(1) in self.env and m.group(1) in self.mutable:
            if m.group(2) and self.env[m.group(1)] != 'G':
                raise self.err('.coeffs() on a value that is not a group element')
            return m.group(1), self.env[m.group(1)]
        raise self.err('unsupported output argument: ' + s)

    def split_args(self, toks):
        parts, cur, d = [], [], 0
        for t in toks:
            if t[0] == 'op' and t[1] in '({[<':
                d += 1
            elif t[0] == 'op' and t[1] in ')}]>':
                d -= 1
            if t == ('op', ',') and d == 0:
                parts.append(cur)
                cur = []
            else:
                cur.append(t)
        if cur:
            parts.append(cur)
        return parts

    def block(self, toks, ind):
        """-> lines of one Lean term (`let`s, then the result)"""
        lines, i, n = [], 0, len(toks)
        while i < n:
            t = toks[i]
            if t == ('id', 'if'):
                if text(toks[i:i + 6]) != 'if constexpr ( IsCommutative ) {' or self.scope != 'member':
                    raise self.err('unsupported statement: ' + show(toks[i:], 24))
                be = match_close(toks, i + 5)
                if toks[be + 1:be + 3] != [('id', 'else'), ('op', '{')]:
                    raise self.err('`if constexpr (IsCommutative)` without an else-block')
                ee = match_close(toks, be + 2)
                if ee != n - 1:
                    raise self.err('statements after if constexpr/else: ' + show(toks[ee + 1:]))
                if self.result == 'self':
                    raise self.err('`if constexpr` in an in-place member')
                saved = (set(self.assigned), dict(self.env), set(self.mutable))
                l1 = self.block(toks[i + 6:be], ind + '  ')
                self.assigned, self.env, self.mutable = saved
                l2 = self.block(toks[be + 3:ee], ind + '  ')
                return lines + [f'{ind}if I.comm then'] + l1 + [f'{ind}else'] + l2
            if t == ('id', 'for'):
                lines += self.loop(toks, i, ind)
                i = match_close(toks, match_close(toks, i + 1) + 1) + 1
                continue
            j = self.stmt_end(toks, i)
            st = toks[i:j]
            s = text(st)
            if t == ('id', 'return'):
                if j != n - 1:
                    raise self.err('statements after return')
                if s == 'return derived ( )':
                    if self.result != 'self':
                        raise self.err('`return derived()` in a member that returns a value')
                    return lines + [ind + 'self']
                v = self.parse(st[1:])
                if self.result == 'self' or v[1] != self.result:
                    raise self.err(f'returns a value of type {v[1]}, expected {self.result}')
                return lines + [ind + v[0]]
            # LocalType x;
            if len(st) == 2 and st[0][1] in LOCAL_TYPES and st[1][0] == 'id' and self.scope == 'member':
                self.env[st[1][1]] = LOCAL_TYPES[st[0][1]]
                self.mutable.add(st[1][1])
                i = j + 1
                continue
            # Impl::f(args…, out);
            if st[:3] == [('id', 'Impl'), ('op', '::'), st[2]] and len(st) > 4 and st[3] == ('op', '(') \
                    and match_close(st, 3) == len(st) - 1 and self.scope == 'member':
                f = st[2][1]
                if f not in IMPL:
                    raise self.err(f'call of Impl::{f}, which is not in the table of implementation functions')
                fld, ins, outty = IMPL[f]
                args = self.split_args(st[4:-1])
                if len(args) != len(ins) + 1:
                    raise self.err(f'Impl::{f} called with {len(args)} arguments, expected {len(ins) + 1}')
                vals = [self.parse(a) for a in args[:-1]]
                for (al, at), w in zip(vals, ins):
                    if at != w:
                        raise self.err(f'Impl::{f}: argument of type {at}, expected {w}')
                name, ty = self.out_target(args[-1])
                if ty != outty:
                    raise self.err(f'Impl::{f} writes a value of type {outty} into `{name}` of type {ty}')
                self.bind(name, ty, '(I.' + fld + ''.join(' ' + a for a, _ in vals) + ')' if vals else 'I.' + fld, ind, lines)
                i = j + 1
                continue
            # x.setIdentity();
            m = re.fullmatch(r'(\w+) \. setIdentity \( \)', s)
            if m and m.group(1) in self.mutable and self.env[m.group(1)] == 'G' and self.scope == 'member':
                sp = self.gen.spec('setIdentity')
                if sp is None or 'T' not in sp[1]:
                    raise self.err('call of the member setIdentity, which is not translated')
                # the member overwrites all coefficients of the object (its body is pinned): the new value
                self.deps.append('setIdentity')
                prev = m.group(1) if m.group(1) in self.assigned else '(uninitV I.rep)'
                self.bind(m.group(1), 'G', f'(BaseSrc.setIdentity I {prev})', ind, lines)
                i = j + 1
                continue
            # derived().coeffs() = e;
            if s.startswith('derived ( ) . coeffs ( ) = ') and self.scope == 'member' and not self.static:
                v = self.parse(st[8:])
                if v[1] != 'G':
                    raise self.err('assignment of a value of type ' + v[1] + ' to derived().coeffs()')
                self.self_written = True
                self.bind('self', 'G', v[0], ind, lines)
                i = j + 1
                continue
            # *this *= e;
            if st[:3] == [('op', '*'), ('id', 'this'), ('op', '*=')] and self.scope == 'member' and not self.static:
                v = self.parse(st[3:])
                lean, _ = self.member_call('operator*=', [('self', 'G'), v])
                self.self_written = True
                self.bind('self', 'G', lean, ind, lines)
                i = j + 1
                continue
            # free functions: [const] T x = e;  auto x = e;
            if self.scope == 'free':
                q = list(st)
                const = q[0] == ('id', 'const')
                if const:
                    q = q[1:]
                decl = None
                if q[0] == ('id', 'auto') and q[1][0] == 'id' and q[2] == ('op', '='):
                    decl = (q[1][1], None, q[3:])
                elif text(q[:4]) in ('TangentMap < G >', 'Hessian < G >') and q[4][0] == 'id' and q[5] == ('op', '='):
                    decl = (q[4][1], LOCAL_TYPES[q[0][1]], q[6:])
                if decl:
                    v = self.parse(decl[2])
                    if decl[1] and v[1] != decl[1]:
                        raise self.err(f'`{decl[0]}` declared {decl[1]} but initialised with a value of type {v[1]}')
                    if v[1] not in LEAN_TY:
                        raise self.err(f'`{decl[0]}` initialised with a value of type {v[1]}')
                    self.env[decl[0]] = v[1]
                    if not const:
                        self.mutable.add(decl[0])
                    self.bind(decl[0], v[1], v[0], ind, lines)
                    i = j + 1
                    continue
            raise self.err('unsupported statement: ' + s)
        if self.result == 'self':
            return lines + [ind + 'self']
        raise self.err('missing return')

    def loop(self, toks, i, ind):
        """the loop of d2r_rminus: for (auto j = 0u; j < Dof<G>; ++j) { res.block<Dof,Dof>(0, j*n, n, n).applyOnTheRight(J); }"""
        he = match_close(toks, i + 1)
        be = match_close(toks, he + 1)
        hdr, body = text(toks[i + 2:he]), text(toks[he + 2:be])
        m = re.fullmatch(r'auto (\w+) = 0 ; \1 < Dof < G > ; \+\+ \1', hdr)
        if not m or self.scope != 'free':
            raise self.err('unsupported for-loop header: ' + hdr)
        jv = m.group(1)
        m2 = re.fullmatch(r'(\w+) \. template block < Dof < G > , Dof < G > > \( 0 , ' + jv +
                          r' \* (\w+) \. size \( \) , \2 \. size \( \) , \2 \. size \( \) \) \. applyOnTheRight \( (\w+) \) ;', body)
        if not m2:
            raise self.err('unsupported loop body: ' + body)
        res, e, J = m2.group(1), m2.group(2), m2.group(3)
        if self.env.get(res) != 'H' or res not in self.mutable or self.env.get(e) != 'T' or self.env.get(J) != 'TM':
            raise self.err('loop body applies to operands of unexpected types')
        if jv in self.env:
            raise self.err('loop counter shadows a variable')
        return [f'{ind}let {res} : {LEAN_TY["H"]} := forLoop I.dof (fun {jv} h{jv} {res} => '
                f'BaseSem.applyRightBlock {res} {jv} h{jv} {J}) {res}']


# ------------------------------------------------------------------------------------------------ generator
class Gen:
    def __init__(self, repo):
        self.repo = repo
        self.specs = {}
        self.scopes = {}
        for s in MEMBERS:
            self.specs[s[0]] = s
            self.scopes[s[0]] = 'member'
        for s in FREE:
            if s[1] != 'P' and s[0] in self.specs:
                raise TrErr('name clash between a member and a free function: ' + s[0])
            if s[1] != 'P':
                self.specs[s[0]] = s
                self.scopes[s[0]] = 'free'
        self.forward_used, self.opaque_used = set(), set()

    def spec(self, name):
        return self.specs.get(name)

    def spec_scope(self, name):
        return self.scopes.get(name)

    def read(self):
        inc = os.path.join(self.repo, 'include/smooth')
        # ---- lie_group_base.hpp
        toks = file_tokens(os.path.join(inc, 'lie_group_base.hpp'))
        pos = None
        for k in range(len(toks) - 2):
            if toks[k] == ('id', 'class') and toks[k + 1] == ('id', 'LieGroupBase') and toks[k + 2] == ('op', '{'):
                pos = k + 2
        if pos is None:
            raise TrErr('lie_group_base.hpp: class LieGroupBase not found')
        end = match_close(toks, pos)
        self.pins = {'lie_group_base.hpp: outside of class LieGroupBase': text(toks[:pos + 1] + toks[end:]),
                     'lie_group_base.hpp: preprocessor lines': preproc_lines(os.path.join(inc, 'lie_group_base.hpp')),
                     'derivatives.hpp: preprocessor lines': preproc_lines(os.path.join(inc, 'derivatives.hpp')),
                     'derivatives_impl.hpp: preprocessor lines': preproc_lines(os.path.join(inc, 'detail/derivatives_impl.hpp'))}
        items = split_items(toks[pos + 1:end], True)
        names = number([item_name(h, 'LieGroupBase') for _, h, _ in items])
        self.pins['LieGroupBase: members'] = ' | '.join(f'{a} {n}' for (a, _, _), n in zip(items, names))
        self.members = {}
        for (a, h, b), n in zip(items, names):
            self.members[n] = (h, b)
        # ---- derivatives
        dt = file_tokens(os.path.join(inc, 'derivatives.hpp'))
        self.pins['derivatives.hpp'] = text(dt)
        it = file_tokens(os.path.join(inc, 'detail/derivatives_impl.hpp'))
        if it[0] != ('id', 'SMOOTH_BEGIN_NAMESPACE') or it[-1] != ('id', 'SMOOTH_END_NAMESPACE'):
            raise TrErr('derivatives_impl.hpp: expected SMOOTH_BEGIN_NAMESPACE … SMOOTH_END_NAMESPACE')
        fitems = split_items(it[1:-1], False)
        fnames = number([item_name(h, 'derivatives_impl.hpp') for _, h, _ in fitems])
        self.pins['derivatives_impl.hpp: functions'] = ' | '.join(fnames)
        self.free = {n: (h, b) for (_, h, b), n in zip(fitems, fnames)}
        # ---- forwarders f<G>(x) -> traits::lie<G>::f(x) -> G::f(x)
        lg = file_tokens(os.path.join(inc, 'concepts/lie_group.hpp'))
        nt = file_tokens(os.path.join(inc, 'lie_groups/native.hpp'))
        for f in FORWARD:
            self.pins[f'concepts/lie_group.hpp: {f}<G>'] = self.find_fn(lg, f, 'inline')
            self.pins[f'lie_groups/native.hpp: traits::lie<G>::{f}'] = self.find_fn(nt, f, 'static')

    def find_fn(self, toks, name, lead):
        """text of the function definition `… lead … name ( … ) { … }` (first definition with a body)"""
        for k in range(1, len(toks) - 1):
            if toks[k] == ('id', name) and toks[k + 1] == ('op', '('):
                pe = match_close(toks, k + 1)
                if pe + 1 < len(toks) and toks[pe + 1] == ('op', '{'):
                    s = k
                    while s > 0 and toks[s] != ('id', lead):
                        s -= 1
                        if toks[s][1] in (';', '}', '{'):
                            break
                    if toks[s] != ('id', lead):
                        continue
                    return text(toks[s:match_close(toks, pe + 1) + 1])
        raise TrErr(f'forwarding function `{name}` not found')

    def check_pin(self, key, actual):
        """differences are COLLECTED (self.problems) so that one run names every member that changed"""
        if key not in PINS:
            self.problems.append(f'{key}: no expected text is stored for this item (new member?) — current text: {actual[:200]}')
        elif PINS[key] != actual:
            a, b = PINS[key].split(' '), actual.split(' ')
            k = 0
            while k < min(len(a), len(b)) and a[k] == b[k]:
                k += 1
            self.problems.append(f'{key}: the source text differs from the pinned text at token {k}: expected `'
                                 + ' '.join(a[k:k + 12]) + '`, found `' + ' '.join(b[k:k + 12]) + '`')

    def run(self):
        self.problems = []
        self.read()
        for key in list(self.pins):
            self.check_pin(key, self.pins[key])
        defs, order, notes = {}, [], []
        for table, items, cls, scope in ((MEMBERS, self.members, 'LieGroupBase', 'member'),
                                         (FREE, self.free, 'derivatives_impl.hpp', 'free')):
            known = {s[0] for s in table}
            for n in items:
                if n not in known:
                    self.problems.append(f'{cls}::{n}: member/function not in the table of tools/gen_base.py (new in the source?)')
            for s in table:
                n, mode = s[0], s[1]
                if n not in items:
                    self.problems.append(f'{cls}::{n}: listed in the table of tools/gen_base.py but no longer in the source')
                    continue
                head, body = items[n]
                where = f'{cls}::{n}'
                self.pins[where + ' [signature]'] = text(head)
                self.check_pin(where + ' [signature]', text(head))
                if 'P' in mode:
                    self.pins[where + ' [body]'] = text(body) if body is not None else '<no body>'
                    self.check_pin(where + ' [body]', self.pins[where + ' [body]'])
                if 'T' in mode:
                    b = Body(self, where, s, scope)
                    if not b.static:
                        b.assigned.add('self')
                        b.env['self'] = 'G'
                    try:
                        if body is None:
                            raise TrErr(f'{where}: no body to translate')
                        lines = b.block(body, '  ')
                        if b.result == 'self' and not b.self_written:
                            raise TrErr(f'{where}: in-place member that does not write derived().coeffs()')
                    except TrErr as e:
                        self.problems.append(str(e))
                        continue
                    rty = 'G' if b.result == 'self' else b.result
                    ps = ([] if b.static else [('self', 'G')]) + list(b.params)
                    hdr = f'def {b.lean} (I : LieModel α)' + ''.join(f' ({p} : {LEAN_TY[t]})' for p, t in ps) + f' : {LEAN_TY[rty]} :='
                    defs[n] = (hdr + '\n' + '\n'.join(lines) + '\n', b.deps, mode)
        if self.problems:
            raise TrErr(f'{len(self.problems)} difference(s):\n    ' + '\n    '.join(self.problems))
        # dependency order
        done, visiting = set(), []

        def visit(n):
            if n in done:
                return
            if n in visiting:
                raise TrErr('recursive members: ' + ' -> '.join(visiting + [n]))
            visiting.append(n)
            for d in defs[n][1]:
                visit(d)
            visiting.pop()
            done.add(n)
            order.append(n)
        for s in MEMBERS + FREE:
            if s[0] in defs:
                visit(s[0])
        return defs, order

    def pins_text(self):
        return self.pins


def generate(repo):
    g = Gen(repo)
    defs, order = g.run()
    tm = [s for s in MEMBERS if 'T' in s[1]]
    pm = [s for s in MEMBERS if s[1] == 'P']
    L = ['/- GENERATED by tools/gen_src.py (tools/gen_base.py) from include/smooth/lie_group_base.hpp and',
         '   include/smooth/detail/derivatives_impl.hpp.  Do not edit: regenerated from the repository on every check run.',
         '   Each member of `LieGroupBase<Derived>` becomes a term over an abstract record `(I : LieModel α)` of',
         '   implementation functions; the meaning of the constructs is the fixed table of SmoothModel/BaseSem.lean.',
         '',
         '   TRANSLATED members of LieGroupBase (C++ name → definition below; * = in-place member, body also pinned textually)']
    L.append('     ' + ', '.join(f'{s[0]}{"*" if s[1] == "TP" else ""} → {s[2]}' for s in tm))
    L.append('   PINNED TEXTUALLY only (tools/gen_base_pins.py; signature and body must not change)')
    L.append('     ' + ', '.join(s[0] for s in pm))
    L.append('     + the signature of every translated member, the order and access of the members, the file outside the class')
    L.append('   derivatives_impl.hpp: translated ' + ', '.join(s[0] for s in FREE if 'T' in s[1]) + '; pinned textually '
             + ', '.join(s[0] for s in FREE if s[1] == 'P') + ' (their hand models Derivs.d_matrix_product / Derivs.d2_fog are tied by execution);')
    L.append('     `f<G>(x)` ↦ `LieGroupBase::f(x)`: the forwarders of concepts/lie_group.hpp and lie_groups/native.hpp are pinned for '
             + ', '.join(sorted(g.forward_used)) + '; derivatives.hpp (declarations) is pinned')
    L += ['-/', 'import SmoothModel.BaseSem', 'set_option linter.unusedVariables false', 'open Scalar Lin EigenSem',
          'namespace BaseSrc', 'variable {α : Type} [Scalar α]', '']
    for n in order:
        L.append(defs[n][0])
    L.append('/-- the translated members, in source order (tied by `SrcTieImpl.base_manifest_eq`) -/')
    L.append('def manifest : List String := [' + ', '.join(f'"{s[0]}"' for s in MEMBERS + FREE if 'T' in s[1]) + ']')
    L.append('/-- members and functions that are only pinned textually -/')
    L.append('def pinnedOnly : List String := [' + ', '.join(f'"{s[0]}"' for s in MEMBERS + FREE if s[1] == 'P') + ']')
    L += ['', 'end BaseSrc']
    return '\n'.join(L) + '\n', g


def main():
    if len(sys.argv) > 1 and sys.argv[1] == '--pins':
        repo = sys.argv[2] if len(sys.argv) > 2 else os.environ.get('VERIF_REPO', '/repo')
        g = Gen(repo)
        g.check_pin = lambda key, actual: None
        g.run()
        print('"""expected normalised token sequences of the textually pinned parts of the generic layer (see tools/gen_base.py).')
        print('Regenerate with `python3 tools/gen_base.py --pins /repo > tools/gen_base_pins.py` AFTER reviewing the change."""')
        print('PINS = {')
        for k, v in g.pins.items():
            print(f'    {k!r}:\n        {v!r},')
        print('}')
        return
    try:
        sys.stdout.write(generate(sys.argv[1] if len(sys.argv) > 1 else '/repo')[0])
    except TrErr as e:
        print('gen_base: cannot translate the current source:', e, file=sys.stderr)
        sys.exit(1)


if __name__ == '__main__':
    main()
