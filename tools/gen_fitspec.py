#!/usr/bin/env python3
"""gen_fitspec.py <repo> [out] — source → Lean translator for the spline SPECIFICATION types of spline/fit.hpp
(namespace spline_specs: NoConstraints, PiecewiseConstant, PiecewiseLinear, FixedDerCubic, MinDerivative), property C14.

The compile-time members `Degree`, `OptDeg`, `InnCnt`, `LeftDeg`, `RghtDeg` of each struct become a `RawSpec` over `Int`,
as functions of the integer template parameters (`SmoothModel/Gen/FitSpecSrc.lean`); `SmoothProps/SrcTieFitSpec.lean` ties
them to the model's `Fit.Spec` values.  Subset: integer expressions in the template parameters (`+ - *`, `int(·)`,
`std::size_t(·)`), brace initialisers, `= OtherMember`, and the immediately-invoked lambda
`[]() { std::array<int, N> ret; for (auto i = 0; i + c < X; ++i) { ret[static_cast<std::size_t>(i)] = E; } return ret; }()`
whose loop condition is a strict upper bound on the counter (so the loop visits exactly the indices satisfying it;
entries it does not reach are rendered as the sentinel `uninit`).  Anything else makes that struct UNTRANSLATED (a `String`),
so only its tie theorem stops elaborating.  Always exits 0.
"""
import os, re, sys

ROOT = os.path.dirname(os.path.dirname(os.path.abspath(__file__)))


class Untranslatable(Exception):
    pass


def strip_comments(s):
    s = re.sub(r'/\*.*?\*/', ' ', s, flags=re.S)
    return re.sub(r'//[^\n]*', ' ', s)


def block_after(text, start):
    k = text.index('{', start)
    d, e = 0, k
    while True:
        d += text[e] == '{'
        d -= text[e] == '}'
        if d == 0:
            return k, e
        e += 1


def iexpr(s, names):
    """integer expression over the template parameters -> Lean Int expression"""
    s = s.strip()
    s = re.sub(r'\b(?:int|std::size_t|static_cast<std::size_t>)\s*\(', '(', s)
    toks = re.findall(r'[A-Za-z_]\w*|\d+|[-+*()]', s)
    if ''.join(toks) != re.sub(r'\s+', '', s):
        raise Untranslatable('integer expression: ' + s)
    out = []
    for t in toks:
        if re.fullmatch(r'\d+', t) or t in '-+*()':
            out.append(t)
        elif t in names:
            out.append(t)
        else:
            raise Untranslatable(f'unknown name {t!r} in {s!r}')
    e = ' '.join(out).replace('( ', '(').replace(' )', ')')
    return e


def translate_struct(text, name):
    m = re.search(r'template<LieGroup G((?:,\s*int \w+(?:\s*=\s*\w+)?)*)>\s*struct ' + name + r'\b', text)
    if not m:
        raise Untranslatable('struct not found')
    params = re.findall(r'int (\w+)', m.group(1))
    k, e = block_after(text, m.end())
    body = text[k + 1:e]
    spec = {}
    for fld in ('Degree', 'OptDeg', 'InnCnt'):
        mm = re.findall(r'static constexpr int ' + fld + r'\s*=\s*([^;]+);', body)
        if len(mm) != 1:
            raise Untranslatable(f'{fld}: {len(mm)} definitions')
        spec[fld] = iexpr(mm[0], params)
    for fld in ('LeftDeg', 'RghtDeg'):
        mm = re.search(r'static constexpr std::array<int,\s*([^>]+)>\s*' + fld + r'\s*(\{[^;]*\}|=\s*\[\]\(\).*?\}\(\)|=[^;]*);', body, re.S)
        if not mm:
            raise Untranslatable(f'{fld}: definition not recognised')
        size, init = iexpr(mm.group(1), params), mm.group(2).strip()
        if init.startswith('{'):
            items = [x for x in init[1:-1].split(',') if x.strip()]
            val = '[' + ', '.join(iexpr(x, params) for x in items) + ']'
            if not re.fullmatch(r'\d+', size) or int(size) != len(items):
                raise Untranslatable(f'{fld}: {len(items)} initialisers for size {size}')
        elif re.fullmatch(r'=\s*(LeftDeg|RghtDeg)', init):
            other = re.fullmatch(r'=\s*(\w+)', init).group(1)
            if other not in spec:
                raise Untranslatable(f'{fld} refers to {other} before its definition')
            val = spec[other]
        else:
            lam = re.fullmatch(r'=\s*\[\]\(\)\s*\{\s*std::array<int,\s*([^>]+)>\s*ret;\s*for \(auto (\w+) = 0; (\w+) \+ (\d+) < (\w+); \+\+(\w+)\)\s*'
                               r'\{\s*ret\[static_cast<std::size_t>\((\w+)\)\] = ([^;]+);\s*\}\s*return ret;\s*\}\(\)', init, re.S)
            if not lam:
                raise Untranslatable(f'{fld}: initialiser outside the subset: ' + ' '.join(init.split())[:120])
            size2, i0, i1, c, bound, i2, i3, rhs = lam.groups()
            if not (i0 == i1 == i2 == i3) or iexpr(size2, params) != size or bound not in params:
                raise Untranslatable(f'{fld}: loop shape')
            rhs_l = iexpr(rhs, params + [i0])
            val = (f'(List.range (Int.toNat ({size}))).map (fun (_n : Nat) => let {i0} : Int := (_n : Int); '
                   f'if {i0} + {c} < {bound} then {rhs_l} else uninit)')
        spec[fld] = val
    return params, spec


def alias(text, name):
    m = re.search(r'template<LieGroup G>\s*using ' + name + r'\s*=\s*NoConstraints<G,\s*(\d+)>;', text)
    if not m:
        raise Untranslatable('alias not recognised')
    return int(m.group(1))


# ----------------------------------------------------------------------------- fit_impl.hpp: splinespec_max_deriv, N_coef, N_eq
class CondParser:
    """integer expressions with `?:`, `>=`, `>`, `+ - *`, `.size()` over the names in `names` (-> Lean Int expression)"""
    def __init__(self, src, names):
        src = re.sub(r'static_cast<Eigen::Index>', '', src)
        self.t = re.findall(r'[A-Za-z_][\w:.]*(?:\(\))?|\d+|>=|[-+*()?:>]', src)
        if ''.join(self.t) != re.sub(r'\s+', '', src):
            raise Untranslatable('expression outside the subset: ' + ' '.join(src.split())[:100])
        self.i, self.names = 0, names

    def peek(self): return self.t[self.i] if self.i < len(self.t) else None
    def eat(self, x=None):
        tok = self.peek()
        if tok is None or (x and tok != x): raise Untranslatable(f'expected {x}, found {tok}')
        self.i += 1; return tok

    def expr(self):
        c = self.cmp()
        if self.peek() == '?':
            self.eat(); a = self.expr(); self.eat(':'); b = self.expr()
            return f'(if {c} then {a} else {b})'
        return c

    def cmp(self):
        a = self.add()
        if self.peek() in ('>=', '>'):
            op = self.eat(); b = self.add()
            return f'{b} ≤ {a}' if op == '>=' else f'{b} < {a}'
        return a

    def add(self):
        a = self.mul()
        while self.peek() in ('+', '-'):
            op = self.eat(); a = f'{a} {op} {self.mul()}'
        return a

    def mul(self):
        a = self.atom()
        while self.peek() == '*':
            self.eat(); a = f'{a} * {self.atom()}'
        return a

    def atom(self):
        tok = self.eat()
        if tok == '(':
            e = self.expr(); self.eat(')'); return f'({e})'
        if re.fullmatch(r'\d+', tok): return tok
        if tok in self.names: return self.names[tok]
        raise Untranslatable(f'unknown name {tok!r}')


def translate_fit_impl(repo):
    text = strip_comments(open(os.path.join(repo, 'include', 'smooth', 'spline', 'detail', 'fit_impl.hpp')).read())
    out = []
    # splinespec_max_deriv: pinned statement shape, translated to folds
    try:
        m = re.search(r'constexpr int splinespec_max_deriv\(\)', text)
        if not m: raise Untranslatable('function not found')
        k, e = block_after(text, m.end())
        body = ' '.join(text[k + 1:e].split())
        mm = re.fullmatch(r'int ret = std::max<int>\(0, SS::InnCnt\); '
                          r'for \(const auto & x : SS::(\w+)\) \{ ret = std::max\(ret, x\); \} '
                          r'for \(const auto & x : SS::(\w+)\) \{ ret = std::max\(ret, x\); \} return ret;', body)
        if not mm: raise Untranslatable('body outside the subset: ' + body[:160])
        out += ['/-- `detail::splinespec_max_deriv<SS>()`: `ret = max(0, InnCnt)`, then `ret = max(ret, x)` over both arrays in source order -/',
                'def maxDeriv (r : RawSpec) : Int :=',
                f'  r.{mm.group(2)}.foldl max (r.{mm.group(1)}.foldl max (max 0 r.InnCnt))', '']
    except (Untranslatable, ValueError) as ex:
        out += [f'def maxDeriv : String := "UNTRANSLATED: {ex}"', '']
    names = {'K': 'r.Degree', 'N': 'N', 'SS::InnCnt': 'r.InnCnt', 'ss.LeftDeg.size()': '(r.LeftDeg.length : Int)',
             'ss.RghtDeg.size()': '(r.RghtDeg.length : Int)'}
    for lean, cxx in (('nCoef', 'N_coef'), ('nEq', 'N_eq')):
        try:
            mm = re.findall(r'const auto ' + cxx + r'\s*=\s*static_cast<Eigen::Index>\((.*?)\);', text, re.S)
            if len(mm) != 1: raise Untranslatable(f'{len(mm)} definitions of {cxx}')
            P = CondParser(mm[0], names)
            ex = P.expr()
            if P.peek() is not None: raise Untranslatable('trailing tokens')
            out += [f'/-- `{cxx}` of `fit_spline_1d` (`N` = number of segments, as an integer ≥ 1: `N − 1` does not wrap) -/',
                    f'def {lean} (r : RawSpec) (N : Int) : Int :=', f'  {ex}', '']
        except (Untranslatable, ValueError) as ex:
            out += [f'def {lean} : String := "UNTRANSLATED: {ex}"', '']
    return out


def main():
    repo = sys.argv[1] if len(sys.argv) > 1 else '/repo'
    path = sys.argv[2] if len(sys.argv) > 2 else os.path.join(ROOT, 'lean', 'SmoothModel', 'Gen', 'FitSpecSrc.lean')
    out = ['/- GENERATED by tools/gen_fitspec.py from include/smooth/spline/fit.hpp (namespace spline_specs), property C14.',
           '   Do not edit: regenerated from the repository on every check run. -/',
           'namespace FitSpecSrc', '',
           '/-- the compile-time members of a spline specification type -/',
           'structure RawSpec where', '  Degree : Int', '  OptDeg : Int', '  InnCnt : Int', '  LeftDeg : List Int', '  RghtDeg : List Int', '',
           '/-- an array entry no statement writes -/', 'def uninit : Int := -1000000', '']
    bad = []
    try:
        text = strip_comments(open(os.path.join(repo, 'include', 'smooth', 'spline', 'fit.hpp')).read())
    except OSError as e:
        text = ''
    for name in ('NoConstraints', 'FixedDerCubic', 'MinDerivative'):
        try:
            params, spec = translate_struct(text, name)
            binders = ' '.join(f'({p} : Int)' for p in params)
            out.append(f'/-- `struct {name}<G, {", ".join(params)}>` -/')
            out.append(f'def {name} {binders} : RawSpec :=')
            out.append(f'  {{ Degree := {spec["Degree"]}, OptDeg := {spec["OptDeg"]}, InnCnt := {spec["InnCnt"]},')
            out.append(f'    LeftDeg := {spec["LeftDeg"]},')
            out.append(f'    RghtDeg := {spec["RghtDeg"]} }}')
        except (Untranslatable, ValueError) as e:
            out.append(f'def {name} : String := "UNTRANSLATED: {str(e)}"'.replace('\\', '/'))
            bad.append(f'{name}: {e}')
        out.append('')
    for name in ('PiecewiseConstant', 'PiecewiseLinear'):
        try:
            k = alias(text, name)
            out.append(f'/-- `using {name} = NoConstraints<G, {k}>` -/')
            out.append(f'def {name} : RawSpec := NoConstraints {k}')
        except Untranslatable as e:
            out.append(f'def {name} : String := "UNTRANSLATED: {e}"')
            bad.append(f'{name}: {e}')
        out.append('')
    # default template arguments (FixedDerCubic<G> = <G,2,2>, MinDerivative<G> = <G,6,3,3>)
    for name in ('FixedDerCubic', 'MinDerivative'):
        m = re.search(r'template<LieGroup G((?:,\s*int \w+\s*=\s*\w+)+)>\s*struct ' + name + r'\b', text)
        d = re.findall(r'int (\w+)\s*=\s*(\w+)', m.group(1)) if m else []
        out.append(f'/-- default template arguments of `{name}` -/')
        out.append(f'def {name}_defaults : List (String × String) := [' + ', '.join(f'("{a}", "{b}")' for a, b in d) + ']')
        out.append('')
    try:
        out += translate_fit_impl(repo)
    except OSError as e:
        out += [f'def maxDeriv : String := "UNTRANSLATED: {e}"', '']
    out.append('end FitSpecSrc')
    new = '\n'.join(out) + '\n'
    old = open(path).read() if os.path.exists(path) else None
    if old != new:
        with open(path, 'w') as f:
            f.write(new)
    print(f'gen_fitspec: {5 - len(bad)} of 5 specification types translated' + (': ' + '; '.join(bad) if bad else ''))
    return 0


if __name__ == '__main__':
    sys.exit(main())
