#!/usr/bin/env python3
"""Translator no. 2, second part (run by gen_logic.py on every check): the tie by regeneration from source widened to

  detail/diff_impl.hpp                      ->  SmoothModel/Gen/LogicSrcC08.lean   (model SmoothModel/Diff.lean, property C08)
  optim/tr_solver.hpp                       ->  SmoothModel/Gen/LogicSrcC10.lean   (model SmoothModel/Optim.lean §C10)
  spline/detail/cumulative_spline_impl.hpp  ->  SmoothModel/Gen/LogicSrcC11.lean   (models CSpline.lean, CSplineJac.lean)
  spline/detail/spline_impl.hpp             ->  SmoothModel/Gen/LogicSrcC12.lean   (model SmoothModel/Spline.lean)
  detail/lie_group_sparse_impl.hpp          ->  SmoothModel/Gen/LogicSrcC19.lean   (model SmoothModel/Sparse.lean; generic routines only)

Same rules as gen_logic.py: the CURRENT C++ text is parsed by the small C++-subset parser of gen_logic.py, every statement is
either translated to a Lean `let`, or matches an explicitly listed textual pin (normalised token sequence; the pin list of a
function must be matched completely — a missing, additional or changed pinned statement is a hard error), or is a HARD ERROR
naming the construct.  The tie theorems live in SmoothProps/SrcTieLogicC08|C10|C11|C12|C19.lean.

Meaning of the non-scalar constructs (fixed table, part of the trusted base; repeated in DESIGN.md §8.1):
  diff_impl.hpp   the argument tuple `x_nc` is ONE state `x : X`; a reference `auto & w = std::get<i>(x_nc)` is a
                  `Diff.Slot`; `w = rplus<W>(w, c * Eigen::Vector<Scalar,Nw>::Unit(n, k)[.eval()])` is
                  `x := w.rplus x (Diff.unitVec n k c)`; `std::apply(f, x_nc)` is `f x` and appends `x` to the evaluation
                  trace; `if constexpr (std::is_base_of_v<Eigen::MatrixBase<W>, W>)` is `match w.coord` and inside it `w[k]`
                  is the coordinate read; `J.col(c) = e` / `H(r, c) = e` append to the write logs; Ny-vectors are lists
                  (`a - b` ↦ zipWith, `a / s` ↦ map); `utils::static_for<NumArgs>(λ)` is a fold of λ over the slots,
                  a counting `for` from 0 is a fold over `List.range`.
  tr_solver.hpp   `J.transpose() * J` ↦ left-to-right sums `vsum m (fun k => J k i * J k j)`, `H.coeffRef(i,i) += e` in
                  `for i < H.rows()` ↦ the diagonal update, `ldlt.solve(b)` ↦ a parameter (its contract is `Optim.IsStep`),
                  `cwiseProduct`, unary minus, `normalized()`, `dot` ↦ coefficient-wise / `Lin.dot` / `Optim.normalized`.
  cumulative_spline_impl.hpp   tangents `Vec α G.dof`, group elements `Vec α G.rep`, tangent maps `Mat α G.dof G.dof`;
                  `a * b` by operand types, left to right: scalar·scalar `*`, scalar·vector `vsmul`, scalar·matrix `msmul`,
                  matrix·vector `mulVec`, matrix·matrix `mmul`; `x.noalias() += e` / `x += e` ↦ `vadd x e` (matrices `madd`),
                  `-=` ↦ `vsub`/`msub`; `x.applyOnTheLeft(A)` ↦ `mulVec A x` (block lists: map `mmul A`); a
                  `SplineJacobian` is the list of its Dof×Dof column blocks: `leftCols(n·Dof)` = the first n blocks,
                  `middleCols<Dof>(n·Dof)` = block n; `uvec.dot(Bcum.col(j))` ↦ `CSpline.bdot U0 Bcum j`.
  spline_impl.hpp the five parallel vectors are ONE list of `SplineSM.Seg`; `resize(N1+N2)` ×5 followed by the fill loop
                  `for i < N2 { m_X[N1+i] = e(other.m_X[i]) }` is `segs ++ other.segs.map (fun sg => ⟨…⟩)`;
                  `m_end_g.back() = e` / `m_end_g[N1-1] = e` ↦ `modLast` (guarded by `!empty()`); `t_max() end() size()
                  empty()` are evaluated on the CURRENT state (statement order matters).
"""
import os, re, sys
import gen_logic as G
from gen_logic import (TrErr, Tr, Var, Kont, lex, text, parse_stmts, parse_expr, stmt_text, all_tokens, assigned_names,
                       classify, ser, unparen, par, find_body, find_stmt, decl_named, fn_def, for_header, no_fall,
                       split_top, match_close, strip_comments)

G.LEANTY.update({'X': 'X', 'Y': 'Y', 'ylist': 'List α', 'jlog': 'List (Nat × List α)', 'hlog': 'List ((Nat × Nat) × α)',
                 'xlist': 'List X', 'slot': 'Diff.Slot α X', 'rmfun': 'Y → Y → List α', 'ffun': 'X → Y',
                 'slots': 'List (Diff.Slot α X)'})


# =============================================================================== preprocessing
def preprocess(src, defined=frozenset()):
    """minimal preprocessor: conditional groups `#ifdef X / #ifndef X / #if defined X / #elif defined X / #else / #endif`
       are evaluated with the macros in `defined`; other directives are dropped; any other conditional form is a hard error"""
    out, stack = [], []       # stack of [taken_now, taken_any, parent_active]
    for line in src.split('\n'):
        s = line.strip()
        if not s.startswith('#'):
            if all(fr[0] and fr[2] for fr in stack):
                out.append(line)
            else:
                out.append('')
            continue
        d = re.sub(r'^#\s*', '', s)
        m = re.fullmatch(r'(ifdef|ifndef)\s+(\w+)', d) or re.fullmatch(r'(if|elif)\s+defined\s*\(?\s*(\w+)\s*\)?', d)
        if m and m.group(1) in ('ifdef', 'ifndef', 'if'):
            v = (m.group(2) in defined) != (m.group(1) == 'ifndef')
            stack.append([v, v, all(fr[0] and fr[2] for fr in stack)])
        elif m and m.group(1) == 'elif':
            if not stack:
                raise TrErr('#elif without #if')
            v = (m.group(2) in defined) and not stack[-1][1]
            stack[-1][0] = v
            stack[-1][1] = stack[-1][1] or v
        elif d == 'else':
            if not stack:
                raise TrErr('#else without #if')
            stack[-1][0] = not stack[-1][1]
            stack[-1][1] = True
        elif d == 'endif':
            if not stack:
                raise TrErr('#endif without #if')
            stack.pop()
        elif re.match(r'(if|elif)\b', d):
            raise TrErr('unsupported preprocessor conditional: ' + s)
        out.append('')
    if stack:
        raise TrErr('unterminated preprocessor conditional')
    return '\n'.join(out)


def read_pp(repo, rel, defined=frozenset()):
    p = os.path.join(repo, rel)
    if not os.path.exists(p):
        raise TrErr('source file missing: ' + rel)
    return strip_comments(preprocess(open(p).read(), defined))


# =============================================================================== Tr with statement hooks / pins
class Tr2(Tr):
    """spec keys in addition to Tr's:
         st_hooks  [f(tr, st, env, ind) -> (lines, env) | None]   tried first on every statement
         pins      {name: regex}   statements outside the value-level translation; every pin must match EXACTLY ONE
                                   statement of the function (checked by check_pins) and must not write a translated variable"""

    def __init__(self, fname, spec):
        super().__init__(fname, spec)
        self.pin_hits = {}

    def stmts(self, L, env, ind, K):
        if L:
            st = L[0]
            t = stmt_text(st) if st[0] != 'if' else 'if ( ' + text(st[2]) + ' )'
            for name, pat in self.spec.get('pins', {}).items():
                if (nospace(pat[1]) == nospace(t)) if isinstance(pat, tuple) else re.fullmatch(pat, t):
                    self.pin_hits[name] = self.pin_hits.get(name, 0) + 1
                    self.skipped.append((t, all_tokens(st)))
                    return self.stmts(L[1:], env, ind, K)
            for h in self.spec.get('st_hooks', []):
                r = h(self, st, env, ind)
                if r is not None:
                    lines, env2 = r
                    return lines + self.stmts(L[1:], env2, ind, K)
        return super().stmts(L, env, ind, K)

    def check_pins(self):
        for name in self.spec.get('pins', {}):
            n = self.pin_hits.get(name, 0)
            if n != 1:
                raise TrErr(f'{self.fname}: pinned statement `{name}` found {n} times in the current source (expected once)')
        self.check_skipped()

    def compare(self, op, a, b, env):
        if op == '==':
            ra, rb = self.expr0(a, env), self.expr0(b, env)
            if ra[1] == 'real' and rb in (('nat 0', 'real'),):
                x = par(ra[0])
                return f'{x} ≤ nat 0 ∧ nat 0 ≤ {x}'       # IEEE `x == 0.` / `x == Scalar(0.)`
            if ra[1] == rb[1] and ra[1] in ('drtype',):
                return f'{par(ra[0])} = {par(rb[0])}'
        if op == '!=':
            ra, rb = self.expr0(a, env), self.expr0(b, env)
            if ra[1] == rb[1] and ra[1] in ('drtype',):
                return f'{par(ra[0])} ≠ {par(rb[0])}'
        return super().compare(op, a, b, env)


def nospace(t):
    return re.sub(r'\s+', '', t)


def lit(t):
    """a pin given as literal statement text (compared with all white space removed)"""
    return ('lit', t)


def used_ids(stlist):
    return {t[1] for st in stlist for t in all_tokens(st) if t[0] == 'id'}


def assigned_in(L):
    """names written by a statement list (for-headers split into their three parts: no false `x ++` across parts)"""
    res = set()
    for st in L:
        k = st[0]
        if k in ('simple', 'return'):
            res |= assigned_names(st[1])
        elif k == 'if':
            res |= assigned_names(st[2]) | assigned_in(st[3]) | assigned_in(st[4] or [])
        elif k == 'while':
            res |= assigned_names(st[1]) | assigned_in(st[2])
        elif k == 'for':
            res |= assigned_names(st[1]) | assigned_names(st[2]) | assigned_names(st[3]) | assigned_in(st[4])
        elif k == 'rangefor':
            res |= assigned_names(st[1]) | assigned_in(st[2])
        elif k == 'block':
            res |= assigned_in(st[1])
    return res


def is_call(e, name=None, nargs=None):
    e = unparen(e)
    if e[0] != 'call':
        return False
    f = unparen(e[1])
    if name is not None and (f[0] != 'id' or not re.fullmatch(name, f[1])):
        return False
    return nargs is None or len(e[2]) == nargs


def header(title, imports, variables, doc):
    return (['/- GENERATED by tools/gen_logic.py (gen_logic2.py) from the C++ source of pettni/smooth: ' + title + '.',
             '   Do not edit: regenerated from the repository on every check run.'] + ['   ' + d for d in doc] + [' -/'] +
            ['import ' + i for i in imports] +
            ['set_option linter.unusedVariables false', 'open Scalar Lin', 'namespace LogicSrc', variables, ''])


# =============================================================================== C08: detail/diff_impl.hpp
DIFF_TIDS = ('dof', 'rplus', 'rminus', 'std::get', 'utils::static_for', 'Eigen::Matrix', 'Dof', 'dr', 'detail::dr_numerical',
             'detail::diffable_order1', 'detail::diffable_order2', 'diffable_order1', 'diffable_order2', 'std::is_base_of_v',
             'Eigen::MatrixBase', 'std::forward', 'wrt_Dof', 'std::tuple_size_v', 'std::decay_t', 'Manifold', 'Eigen::NumTraits',
             'dr_autodiff', 'std::min')
G.TYPES.update({'Result': 'Y', 'Eigen::Matrix<Scalar,Ny,1>': 'ylist', 'Eigen::Index': 'nat'})

DIFF_TOP_PINS = {
    'using Wrt': r'using Wrt = decltype \( x \) ;',
    'using Result': r'using Result = decltype \( std::apply \( f , x \) \) ;',
    'using Scalar': r'using Scalar = :: smooth::Scalar < Result > ;',
    'NumArgs': r'static constexpr auto NumArgs = std::tuple_size_v<std::decay_t<Wrt>> ;',
    'static_assert Manifold': r'static_assert \( Manifold<Result> , "[^"]*" \) ;',
    'x_nc': r'auto x_nc = wrt_copy_if_const \( std::forward<Wrt> \( x \) \) ;',
    'Nx': r'static constexpr auto Nx = wrt_Dof<Wrt> \( \) ;',
    'Ny': r'static constexpr auto Ny = Dof<Result> ;',
    'ny': r'const auto ny = dof<Result> \( fval \) ;',
    'J': r'Eigen::Matrix<Scalar,Ny,Nx> J \( ny , nx \) ;',
}
NX_DECL = r'const auto nx = std::apply \( \[ \] \( auto && \. \. \. args \) \{ return \( dof \( args \) \+ \. \. \. \) ; \} , x_nc \) ;'
H_DECL = r'Eigen::Matrix<Scalar,Nx,std::min\(Nx,Ny\)==-1\?-1:Nx\*Ny> H \( nx , nx \* ny \) ;'


class DiffCtx:
    """reference variables of the static_for lambdas: C++ name of the reference -> (type alias, static size name)"""

    def __init__(self):
        self.slot_of_alias = {}     # W -> w
        self.size_of = {}           # Nx_j -> w
        self.defs = []              # emitted auxiliary definitions (inner first)


def diff_state(k2):
    """(state variable names with types, Lean type, pack, unpack-projections) of the loop state"""
    if k2:
        names = [('x', 'X'), ('J', 'jlog'), ('H', 'hlog'), ('trace', 'xlist')]
        return names, 'Diff.St2 α X', '⟨x, J, H, trace⟩', {'x': '.x', 'J': '.J', 'H': '.H', 'trace': '.trace'}
    names = [('x', 'X'), ('J', 'jlog'), ('trace', 'xlist')]
    return names, 'X × List (Nat × List α) × List X', '(x, J, trace)', {'x': '.1', 'J': '.2.1', 'trace': '.2.2'}


def diff_spec(ctx, k2):
    snames, sty, spack, sproj = diff_state(k2)

    def slot_of(tr, env, w):
        if w not in env or env[w].ty != 'slot':
            raise TrErr(f'`{w}` is not a reference to an argument of the tuple x_nc')
        return w

    def hook(tr, e, env):
        k = e[0]
        if k == 'call':
            f = unparen(e[1])
            if f[0] == 'id':
                n, a = f[1], e[2]
                if n == 'std::apply' and len(a) == 2 and ser(a[0]) == 'f' and ser(a[1]) == 'x_nc':
                    return ('f x', 'Y')
                m = re.fullmatch(r'dof<(\w+)>', n)
                if m and len(a) == 1 and unparen(a[0])[0] == 'id':
                    w = slot_of(tr, env, unparen(a[0])[1])
                    if ctx.slot_of_alias.get(m.group(1)) != w:
                        raise TrErr(f'dof<{m.group(1)}>({w}): `{m.group(1)}` is not the type of `{w}`')
                    return (f'{w}.dof x', 'nat')
                if n == 'abs' and len(a) == 1:
                    return (f'Scalar.abs {par(tr.expr(a[0], env, "real")[0])}', 'real')
                if n in ('rminus<Result>', 'rminus') and len(a) == 2:
                    return (f'rm {par(tr.expr(a[0], env, "Y")[0])} {par(tr.expr(a[1], env, "Y")[0])}', 'ylist')
        if k == 'index' and unparen(e[1])[0] == 'id' and unparen(e[1])[1] in env and env[unparen(e[1])[1]].ty == 'slot':
            w = unparen(e[1])[1]
            if getattr(tr, 'coord_of', None) != w:
                raise TrErr(f'coordinate read `{ser(e)}` outside `if constexpr (std::is_base_of_v<Eigen::MatrixBase<W>, W>)` of that argument')
            return (f'_c x {par(tr.expr(e[2], env, "nat")[0])}', 'real')
        if k == 'bin' and e[1] in ('/', '-'):
            ids = {t[1] for t in lex(ser(e), DIFF_TIDS) if t[0] == 'id'}
            if any((n in env and env[n].ty == 'ylist') or n.startswith('rminus') for n in ids):
                a, b = tr.expr0(e[2], env), tr.expr0(e[3], env)
                if e[1] == '/' and a[1] == 'ylist' and b[1] == 'real':
                    return (f'{par(a[0])}.map (fun v => v / {par(b[0])})', 'ylist')
                if e[1] == '-' and a[1] == 'ylist' and b[1] == 'ylist':
                    return (f'List.zipWith (fun a b => a - b) {par(a[0])} {par(b[0])}', 'ylist')
                raise TrErr(f'unsupported operation on Ny-vectors: {ser(e)}')
        return None

    def trace_lines(st, ind):
        n = text(all_tokens(st)).count('std::apply ( f , x_nc )')
        if n > 1:
            raise TrErr('more than one evaluation of f in one statement: ' + stmt_text(st))
        return [f'{ind}let trace : List X := trace ++ [x]'] if n == 1 else []

    def unit_arg(tr, e, env, w):
        """`c * Eigen::Vector<Scalar, Nw>::Unit(n, k)` [`(…).eval()`] -> Lean `Diff.unitVec n k c`"""
        e = unparen(e)
        if e[0] == 'call' and unparen(e[1])[0] == 'member' and unparen(e[1])[2] == 'eval' and not e[2]:
            e = unparen(unparen(e[1])[1])
        if e[0] != 'bin' or e[1] != '*' or not is_call(e[3], r'Eigen::Vector<Scalar,\w+>::Unit', 2):
            raise TrErr('unsupported tangent argument of rplus (expected `c * Eigen::Vector<Scalar,N>::Unit(n, k)`): ' + ser(e))
        u = unparen(e[3])
        nn = re.fullmatch(r'Eigen::Vector<Scalar,(\w+)>::Unit', unparen(u[1])[1]).group(1)
        if ctx.size_of.get(nn) != w:
            raise TrErr(f'{ser(u)}: `{nn}` is not the static size of `{w}`')
        n, k = tr.expr(u[2][0], env, 'nat')[0], tr.expr(u[2][1], env, 'nat')[0]
        c = tr.expr(e[2], env, 'real')[0]
        return f'Diff.unitVec {par(n)} {par(k)} {par(c)}'

    def st_simple(tr, st, env, ind):
        if st[0] != 'simple':
            return None
        pre = trace_lines(st, ind)
        try:
            c = classify(st[1])
        except TrErr:
            return None
        if c[0] == 'assign':
            _, lhs, op, rhs = c
            lhs = unparen(lhs)
            if lhs[0] == 'id' and lhs[1] in env and env[lhs[1]].ty == 'slot' and op == '=':
                w = lhs[1]
                if not is_call(rhs, r'rplus(<\w+>)?', 2):
                    raise TrErr('assignment to an argument that is not `w = rplus<W>(w, …)`: ' + stmt_text(st))
                r = unparen(rhs)
                ta = re.fullmatch(r'rplus(?:<(\w+)>)?', unparen(r[1])[1]).group(1)
                if ta is not None and ctx.slot_of_alias.get(ta) != w:
                    raise TrErr(f'rplus<{ta}>: `{ta}` is not the type of `{w}`: ' + stmt_text(st))
                if ser(r[2][0]) != w:
                    raise TrErr('rplus on a different argument than the one assigned: ' + stmt_text(st))
                return pre + [f'{ind}let x : X := {w}.rplus x ({unit_arg(tr, r[2][1], env, w)})'], env
            if is_call(lhs, None, 1) and ser(unparen(lhs)[1]) == 'J.col' and op == '=':
                idx = tr.expr(lhs[2][0], env, 'nat')[0]
                v = tr.expr(rhs, env, 'ylist')[0]
                return pre + [f'{ind}let J : List (Nat × List α) := J ++ [({idx}, {v})]'], env
        if pre:
            # a declaration / assignment containing `std::apply(f, x_nc)`: trace first, then the generic translation
            lines = Tr.stmts(tr, [st], env, ind, Kont(fall=lambda e_, i_: [('ENV', e_)], ret=None))
            env2 = lines[-1][1]
            return pre + lines[:-1], env2
        return None

    def st_if_eigen(tr, st, env, ind):
        """`if constexpr (std::is_base_of_v<Eigen::MatrixBase<W>, W>) {…}`  ->  `match w.coord with | some _c => … | none => …`"""
        if st[0] != 'if' or not st[1]:
            return None
        m = re.fullmatch(r'std::is_base_of_v<Eigen::MatrixBase<(\w+)>,(\w+)>', text(st[2]))
        if not m:
            return None
        if m.group(1) != m.group(2) or m.group(1) not in ctx.slot_of_alias:
            raise TrErr('unsupported type test: ' + text(st[2]))
        if st[4] is not None:
            raise TrErr('`if constexpr (is_base_of_v<MatrixBase…>)` with an else branch')
        w = ctx.slot_of_alias[m.group(1)]
        M = tr.outer_assigned(st[3], env)
        if not M:
            raise TrErr('type-dependent block without effect on the translated variables: ' + stmt_text(st))
        tup = tr.tuple_of(M, env, 'before ' + stmt_text(st))
        old = getattr(tr, 'coord_of', None)
        tr.coord_of = w
        Km = Kont(fall=lambda e_, i_: [i_ + tr.tuple_of(M, e_, 'after ' + stmt_text(st))], ret=None)
        body = tr.stmts(st[3], env, ind + '    ', Km)
        tr.coord_of = old
        env = dict(env)
        for n in M:
            env[n] = Var(env[n].ty)
        if len(M) != 1:
            raise TrErr('type-dependent block assigning more than one variable: ' + str(M))
        return ([f'{ind}let {M[0]} : {G.LEANTY[env[M[0]].ty]} :=', f'{ind}  match {w}.coord with', f'{ind}  | some _c =>'] + body +
                [f'{ind}  | none => {tup}']), env

    def loop_def(tr, name, params, body, env, doc):
        """auxiliary definition `name free… (_st : state) (p : T) : state` for a loop / static_for body"""
        pn = {p for p, _ in params}
        sn = {n for n, _ in snames}
        used = used_ids(body) | {'x'}
        free = [n for n in env if n not in sn and n not in pn and env[n].defined and not env[n].fun and
                (n in used or (n == 'f' and 'std::apply' in used) or (n == 'rm' and any(u.startswith('rminus') for u in used)) or
                 (n == 'slots' and 'utils::static_for<NumArgs>' in used))]
        return free

    def st_for(tr, st, env, ind):
        if st[0] != 'for':
            return None
        v, lo, hi = for_header(tr, st, dict(env, ny=Var('nat')))
        if lo != '0':
            raise TrErr('loop not starting at 0: ' + stmt_text(st))
        body = st[4]
        # --- the Hessian write loop `for (j < ny) H(r, c) = d2(j);`
        if len(body) == 1 and body[0][0] == 'simple':
            c = classify(body[0][1])
            if c[0] == 'assign' and is_call(c[1], 'H', 2) and c[2] == '=':
                if hi != 'ny':
                    raise TrErr('Hessian write loop whose bound is not ny: ' + stmt_text(st))
                r = unparen(c[3])
                if not (is_call(r, None, 1) and unparen(r[1])[0] == 'id' and unparen(r[1])[1] in env and
                        env[unparen(r[1])[1]].ty == 'ylist' and ser(r[2][0]) == v):
                    raise TrErr('Hessian write loop: value is not `d(j)` of an Ny-vector: ' + stmt_text(body[0]))
                e2 = dict(env)
                e2[v] = Var('nat')
                row, col = tr.expr(unparen(c[1])[2][0], e2, 'nat')[0], tr.expr(unparen(c[1])[2][1], e2, 'nat')[0]
                return [f'{ind}let H : List ((Nat × Nat) × α) := H ++ {unparen(r[1])[1]}.mapIdx (fun {v} v => (({row}, {col}), v))'], env
        # --- a coordinate loop: the body is an auxiliary definition, the loop a fold over List.range
        ctx.nloop = getattr(ctx, 'nloop', 0) + 1
        name = f'{tr.fname}_{v}'
        e2 = dict(env)
        e2[v] = Var('nat')
        free = loop_def(tr, name, [(v, 'nat')], body, env, '')
        sub = Tr2(name, tr.spec)
        sub.coord_of = None
        Kb = Kont(fall=lambda e_, i_: [i_ + spack], ret=None)
        lines = [f'  let {n} : {G.LEANTY[t]} := _st{sproj[n]}' for n, t in snames] + sub.stmts(body, e2, '  ', Kb)
        sub.check_skipped()
        ps = [(n, tr.sig_ty(env[n])) for n in free] + [('_st', sty), (v, 'Nat')]
        ctx.defs.append(fn_def(name, ps, sty, lines, f'one iteration of `{stmt_text(st)}`'))
        call = ' '.join([name] + free)
        out = [f'{ind}let _r : {sty} := (List.range {par(hi)}).foldl ({call}) {spack}']
        out += [f'{ind}let {n} : {G.LEANTY[t]} := _r{sproj[n]}' for n, t in snames]
        return out, env

    def st_static_for(tr, st, env, ind):
        if st[0] != 'simple' or not text(st[1]).startswith('utils::static_for<NumArgs> ('):
            return None
        e = parse_expr(st[1])
        if not (is_call(e, None, 1) and unparen(e[2][0])[0] == 'lambda'):
            raise TrErr('unsupported static_for: ' + stmt_text(st))
        lam = unparen(e[2][0])
        if len(lam[1]) != 1 or lam[1][0][0] != 'auto':
            raise TrErr('static_for lambda must take one `auto` index: ' + stmt_text(st))
        ip = lam[1][0][1]
        body = lam[2]
        want = [r'auto & (?P<w>\w+) = std::get<' + ip + r'> \( x_nc \) ;', r'using (?P<W>\w+) = std::decay_t<decltype\((?P<w2>\w+)\)> ;',
                r'static constexpr auto (?P<N>\w+) = Dof<(?P<W2>\w+)> ;']
        g = {}
        for pat, s_ in zip(want, body[:3]):
            m = re.fullmatch(pat, stmt_text(s_)) if s_[0] == 'simple' else None
            if not m:
                raise TrErr(f'static_for lambda: expected `{pat}`, found: ' + stmt_text(s_))
            g.update(m.groupdict())
        if g['w2'] != g['w'] or g['W2'] != g['W']:
            raise TrErr('static_for lambda: type alias / static size do not belong to the bound argument: ' + stmt_text(st))
        w = g['w']
        ctx.slot_of_alias[g['W']] = w
        ctx.size_of[g['N']] = w
        rest = body[3:]
        offs = [n for n in env if env[n].ty == 'nat' and n in assigned_in(rest)]
        if len(offs) != 1:
            raise TrErr('static_for lambda: expected exactly one running column offset, found ' + str(offs))
        off = offs[0]
        name = f'{tr.fname}_{w}'
        free = [n for n in loop_def(tr, name, [(w, 'slot')], rest, env, '') if n != off]
        e2 = dict(env)
        e2[w] = Var('slot')
        sub = Tr2(name, tr.spec)
        sub.coord_of = None
        if k2:
            pk, osty = f'({spack}, {off})', f'{sty} × Nat'
            un = [f'  let {n} : {G.LEANTY[t]} := _st.1{sproj[n]}' for n, t in snames] + [f'  let {off} : Nat := _st.2']
            unr = [f'{ind}let {n} : {G.LEANTY[t]} := _r.1{sproj[n]}' for n, t in snames] + [f'{ind}let {off} : Nat := _r.2']
        else:
            pk, osty = f'(x, {off}, J, trace)', 'X × Nat × List (Nat × List α) × List X'
            pr = {'x': '.1', 'J': '.2.2.1', 'trace': '.2.2.2'}
            un = [f'  let {n} : {G.LEANTY[t]} := _st{pr[n]}' for n, t in snames] + [f'  let {off} : Nat := _st.2.1']
            unr = [f'{ind}let {n} : {G.LEANTY[t]} := _r{pr[n]}' for n, t in snames] + [f'{ind}let {off} : Nat := _r.2.1']
        Kb = Kont(fall=lambda e_, i_: [i_ + pk], ret=None)
        lines = un + sub.stmts(rest, e2, '  ', Kb)
        sub.check_skipped()
        ps = [(n, tr.sig_ty(env[n])) for n in free] + [('_st', osty), (w, 'Diff.Slot α X')]
        ctx.defs.append(fn_def(name, ps, osty, lines, f'body of `utils::static_for<NumArgs>([&](auto {ip}) {{…}})` for the argument `{w}`'))
        call = ' '.join([name] + free)
        return [f'{ind}let _r : {osty} := slots.foldl ({call}) {pk}'] + unr, env

    return {'hook': hook, 'st_hooks': [st_static_for, st_for, st_if_eigen, st_simple],
            'param_ty': {'slot': 'Diff.Slot α X'}}


def gen_diff(repo):
    rel = 'include/smooth/detail/diff_impl.hpp'
    toks = lex(read_pp(repo, rel), DIFF_TIDS)
    out = [f'/-! ### {rel} : dr_numerical -/', '']
    b, e, m = find_body(toks, r'template < std::size_t K = 1 > requires \( (?P<req>[^)]*) \) auto dr_numerical \( auto && f , auto && x \)', 'dr_numerical<K>(f, x)')
    tr0 = Tr2('Diff', {})
    out += fn_def('Diff_numerical_requires', [('K', 'Nat')], 'Prop', ['  ' + tr0.cond(parse_expr(lex(m.group('req'))), {'K': Var('nat')})],
                  '`requires(' + m.group('req') + ')` of dr_numerical')
    body = parse_stmts(toks, b, e)
    blocks = [st for st in body if st[0] == 'if']
    if [(st[1], text(st[2]), st[4]) for st in blocks] != [(True, 'K == 1', None), (True, 'K == 2', None)] or body[-2:] != blocks:
        raise TrErr('dr_numerical: expected the two trailing blocks `if constexpr (K == 1) {…}` `if constexpr (K == 2) {…}`')
    top = body[:-2]
    # --- eps
    st = find_stmt(top, decl_named('eps'), 'dr_numerical: `eps`', deep=False)
    spec0 = {'subst': {'Eigen::NumTraits<Scalar>::epsilon()': ('Scalar.macheps', 'real')}}
    c = classify(st[1])
    if c[1] != 'Scalar':
        raise TrErr('dr_numerical: type of eps changed: ' + stmt_text(st))
    out += fn_def('Diff_eps', [], 'α', ['  ' + Tr2('Diff_eps', spec0).expr(c[3], {}, 'real')[0]], '`' + stmt_text(st) + '`')
    for k2, blk in ((False, blocks[0]), (True, blocks[1])):
        ctx = DiffCtx()
        spec = diff_spec(ctx, k2)
        pins = dict(DIFF_TOP_PINS)
        pins['nx'] = NX_DECL
        if k2:
            pins['H'] = H_DECL
        spec['pins'] = pins
        name = 'Diff_k2' if k2 else 'Diff_k1'
        tr = Tr2(name, spec)
        tr.coord_of = None
        env = {'eps': Var('real'), 'rm': Var('rmfun'), 'f': Var('ffun'), 'slots': Var('slots'), 'x': Var('X'),
               'nx': Var('nat'), 'J': Var('jlog'), 'trace': Var('xlist')}
        if k2:
            env['H'] = Var('hlog')
        stl = [s_ for s_ in top if s_ is not st] + blk[3]
        # the return statement fixes the result
        ret = stl[-1]
        want = (r'std::make_tuple \( std::move \( fval \) , std::move \( J \) , std::move \( H \) \)' if k2 else
                r'std::make_pair \( std::move \( fval \) , std::move \( J \) \)')
        if ret[0] != 'return' or not re.fullmatch(want, text(ret[1])):
            raise TrErr(f'dr_numerical<{2 if k2 else 1}>: return statement changed: ' + stmt_text(ret))
        res = '⟨fval, J, H, x, nx, trace⟩' if k2 else '⟨fval, J, x, nx, trace⟩'
        lines = (['  let nx : Nat := (slots.map (fun s => s.dof x)).foldl (· + ·) 0', '  let J : List (Nat × List α) := []'] +
                 (['  let H : List ((Nat × Nat) × α) := []'] if k2 else []) + ['  let trace : List X := []'] +
                 tr.stmts(stl[:-1], env, '  ', Kont(fall=lambda e_, i_: [i_ + res], ret=None)))
        tr.check_pins()
        for d in ctx.defs:
            out += d
        rty = 'Diff.R2 α X Y' if k2 else 'Diff.R1 α X Y'
        out += fn_def(name, [('eps', 'α'), ('rm', 'Y → Y → List α'), ('f', 'X → Y'), ('slots', 'List (Diff.Slot α X)'), ('x', 'X')], rty, lines,
                      f'`dr_numerical<{2 if k2 else 1}>(f, x)` with `eps` given; `x` is the tuple `x_nc`, `nx` the pinned fold `(dof(args) + ...)`')
    out += gen_diff_dispatch(repo, toks)
    return out


DR_VALUE = r'std::make_tuple \( std::apply \( f , x \) \)'
DR_MEMBER = (r'std::apply \( \[ & f \] \( auto && \. \. \. args \) -> decltype \( auto \) \{ return f \. (\w+) \( std::forward<decltype\(args\)> '
             r'\( args \) \. \. \. \) ; \} , x \)')
DR_FWD = r'\( std::forward<F> \( f \) , std::forward<Wrt> \( x \) \)'


def gen_diff_dispatch(repo, toks):
    """`dr<K, D>(f, x)`: the `if constexpr` chain as a decision function into `DrRoute`; the concepts diffable_order1/2"""
    out = ['/-! ### diff.hpp / detail/diff_impl.hpp : dispatch of `dr<K, D>` -/', '']
    ht = lex(read_pp(repo, 'include/smooth/diff.hpp'), DIFF_TIDS)
    b, e, _ = find_body(ht, r'enum class Type', 'diff::Type')
    names = [text(p_) for p_ in split_top(ht[b:e], ',') if p_]
    for n in names:
        if not re.fullmatch(r'\w+', n):
            raise TrErr('diff::Type: unsupported enumerator: ' + n)
    out += ['/-- `enum class Type { ' + ', '.join(names) + ' }` (diff.hpp) -/', 'inductive DrType where',
            '  ' + ' '.join('| ' + n for n in names), '  deriving DecidableEq, Repr', '',
            '/-- what a branch of `dr<K, D>` does: returns the value only / calls dr_numerical<K> / returns the member',
            '    jacobian (and hessian) / calls `dr<K, t>` / is ill-formed (static_assert, or no return statement) -/',
            'inductive DrRoute where', '  | value | numerical | analytic1 | analytic2 | redirect (t : DrType) | illformed',
            '  deriving DecidableEq, Repr', '']
    # concepts
    full = text(toks)
    m1 = re.search(r'template < class F , class Wrt > concept diffable_order1 = requires \( F && f , Wrt && wrt \) \{ std::apply \( f , wrt \) ; '
                   r'std::apply \( std::bind_front \( std::mem_fn \( & std::decay_t<decltype\(f\)>::(\w+) \) , f \) , wrt \) ; \} ;', full)
    m2 = re.search(r'template < class F , class Wrt > concept diffable_order2 = diffable_order1<F,Wrt> && requires \( F && f , Wrt && wrt \) \{ '
                   r'std::apply \( std::bind_front \( std::mem_fn \( & std::decay_t<decltype\(f\)>::(\w+) \) , f \) , wrt \) ; \} ;', full)
    if not m1 or not m2:
        raise TrErr('concepts diffable_order1 / diffable_order2: definition changed (pinned textually)')
    mem = {'jacobian': 'hasJacobian', 'hessian': 'hasHessian'}
    if m1.group(1) not in mem or m2.group(1) not in mem:
        raise TrErr(f'concepts diffable_order1/2 require unknown members {m1.group(1)}, {m2.group(1)}')
    out += fn_def('Diff_diffable_order1', [('hasJacobian', 'Bool'), ('hasHessian', 'Bool')], 'Bool', ['  ' + mem[m1.group(1)]],
                  '`concept diffable_order1`: `f(wrt...)` and the member `' + m1.group(1) + '` are callable')
    out += fn_def('Diff_diffable_order2', [('hasJacobian', 'Bool'), ('hasHessian', 'Bool')], 'Bool',
                  ['  Diff_diffable_order1 hasJacobian hasHessian && ' + mem[m2.group(1)]],
                  '`concept diffable_order2 = diffable_order1 && ` the member `' + m2.group(1) + '` is callable')
    b, e, m = find_body(toks, r'template < std::size_t K , Type D > auto dr \( auto && f , auto && x \)', 'dr<K, D>(f, x)')
    body = parse_stmts(toks, b, e)
    pins = [r'using F = decltype \( f \) ;', r'using Wrt = decltype \( x \) ;']
    if len(body) != 3 or [bool(re.fullmatch(p_, stmt_text(s_))) for p_, s_ in zip(pins, body[:2])] != [True, True] or body[2][0] != 'if':
        raise TrErr('dr<K, D>: expected `using F`, `using Wrt` and one if-constexpr chain')
    consts = {'Type::' + n: ('DrType.' + n, 'drtype') for n in names}

    def hook(tr, e_, env):
        if e_[0] == 'id':
            mm = re.fullmatch(r'detail::diffable_order([12])<F,Wrt>', e_[1])
            if mm:
                return (f'o{mm.group(1)} = true', 'prop')
        return None
    tr = Tr2('Diff_dr_route', {'consts': consts, 'hook': hook})
    env0 = {'K': Var('nat'), 'D': Var('drtype')}

    def leaf(L, env, ind, cond_txt):
        """statements of a branch without nested if -> one DrRoute"""
        env = dict(env)
        for s_ in L:
            t = stmt_text(s_)
            if s_[0] == 'simple':
                mm = re.fullmatch(r'static constexpr Type (\w+) = (Type::\w+) ;', t)
                if mm and mm.group(2) in consts:
                    env['__' + mm.group(1)] = Var(consts[mm.group(2)][0])
                    continue
                mm = re.fullmatch(r'static_assert \( (.*) , "[^"]*" \) ;', t)
                if mm:
                    # taken branch with a failing assertion: the condition must be the negation of the branch condition
                    neg = re.sub(r' == ', ' != ', cond_txt)
                    if mm.group(1) != neg:
                        raise TrErr(f'static_assert({mm.group(1)}) in the branch `{cond_txt}`: not the negated branch condition')
                    return [ind + 'DrRoute.illformed']
                raise TrErr('dr<K, D>: unsupported statement: ' + t)
            if s_[0] == 'return':
                rt = text(s_[1])
                if re.fullmatch(DR_VALUE, rt):
                    return [ind + 'DrRoute.value']
                if re.fullmatch(r'detail::dr_numerical<K> ' + DR_FWD, rt):
                    return [ind + 'DrRoute.numerical']
                mm = re.fullmatch(r'std::make_tuple \( std::apply \( f , x \) , ' + DR_MEMBER + r' \)', rt)
                if mm and mm.group(1) == 'jacobian':
                    return [ind + 'DrRoute.analytic1']
                mm = re.fullmatch(r'std::make_tuple \( std::apply \( f , x \) , ' + DR_MEMBER + ' , ' + DR_MEMBER + r' \)', rt)
                if mm and mm.groups() == ('jacobian', 'hessian'):
                    return [ind + 'DrRoute.analytic2']
                mm = re.fullmatch(r'dr<K,(\w+(?:::\w+)?)> ' + DR_FWD, rt)
                if mm:
                    t_ = mm.group(1)
                    if t_ in consts:
                        return [ind + f'DrRoute.redirect {consts[t_][0]}']
                    if '__' + t_ in env:
                        return [ind + f'DrRoute.redirect {env["__" + t_].ty}']
                raise TrErr('dr<K, D>: unsupported return statement: ' + rt)
            raise TrErr('dr<K, D>: unsupported statement: ' + t)
        return [ind + 'DrRoute.illformed']      # no return statement: deduced return type void — not a derivative

    def chain(L, env, ind, cond_txt):
        ifs = [s_ for s_ in L if s_[0] == 'if']
        if not ifs:
            return leaf(L, env, ind, cond_txt)
        if len(L) != 1 or not ifs[0][1]:
            raise TrErr('dr<K, D>: a branch mixes an if-chain with other statements, or uses a run-time `if`')
        _, _, ct, then, els = ifs[0]
        c = tr.cond(parse_expr(ct), env)
        return ([f'{ind}if {c} then'] + chain(then, env, ind + '  ', text(ct)) + [f'{ind}else'] +
                (chain(els, env, ind + '  ', cond_txt) if els is not None else [ind + '  DrRoute.illformed']))
    lines = chain([body[2]], env0, '  ', '')
    out += fn_def('Diff_dr_route', [('K', 'Nat'), ('D', 'DrType'), ('o1', 'Bool'), ('o2', 'Bool')], 'DrRoute', lines,
                  '`dr<K, D>(f, x)`: the branch taken, with `o1 = diffable_order1<F, Wrt>`, `o2 = diffable_order2<F, Wrt>` '
                  '(SMOOTH_DIFF_AUTODIFF / SMOOTH_DIFF_CERES undefined)')
    # the two convenience overloads must forward to Type::Default
    for pat, what in ((r'template < std::size_t K > auto dr \( auto && f , auto && x \)', 'dr<K>(f, x)'),):
        b2, e2, _ = find_body(toks, pat, what)
        if text(toks[b2:e2]) != 'return dr<K,Type::Default> ( std::forward<decltype(f)> ( f ) , std::forward<decltype(x)> ( x ) ) ;':
            raise TrErr(what + ': no longer forwards to dr<K, Type::Default>: ' + text(toks[b2:e2]))
    out += fn_def('Diff_dr_default', [], 'DrType', ['  DrType.Default'], '`dr<K>(f, x)` = `dr<K, Type::Default>(f, x)`')
    return out


def generate_c08(repo):
    L = header('detail/diff_impl.hpp, diff.hpp', ['SmoothModel.Scalar', 'SmoothModel.Diff'],
               'variable {α : Type} [Scalar α] {X Y : Type}', [])
    return '\n'.join(L + gen_diff(repo) + ['end LogicSrc']) + '\n'


# =============================================================================== typed Eigen expressions (C10, C11)
def vec(n):
    t = 'vec:' + n
    G.LEANTY[t] = f'Vec α {par(n)}'
    return t


def mat(r, c):
    t = f'mat:{r}:{c}'
    G.LEANTY[t] = f'Mat α {par(r)} {par(c)}'
    return t


def eig_hook(extra=None):
    """expression hook giving Eigen's dense operations their fixed meaning on `Vec`/`Mat` values (types `vec:n`, `mat:r:c`):
       unary minus, `+ - *` by operand types (left to right), `.transpose() .cwiseProduct(b) .normalized() .dot(b)`, `v(i)`"""
    def isv(t):
        return t.startswith('vec:')

    def ism(t):
        return t.startswith('mat:')

    def hook(tr, e, env):
        if extra:
            r = extra(tr, e, env)
            if r is not None:
                return r
        k = e[0]
        if k == 'un' and e[1] == '-':
            s, t = tr.expr0(e[2], env)
            if isv(t):
                return (f'vneg {par(s)}', t)
            if ism(t):
                return (f'mneg {par(s)}', t)
            return None
        if k == 'bin' and e[1] in ('*', '+', '-'):
            (a, ta), (b, tb) = tr.expr0(e[2], env), tr.expr0(e[3], env)
            if not (isv(ta) or ism(ta) or isv(tb) or ism(tb)):
                return None
            if ta == 'lit':
                a, ta = f'nat {a}', 'real'
            a, b = par(a), par(b)
            if e[1] == '*':
                if ta == 'real' and isv(tb):
                    return (f'vsmul {a} {b}', tb)
                if ta == 'real' and ism(tb):
                    return (f'msmul {a} {b}', tb)
                if ism(ta) and isv(tb) and ta.split(':')[2] == tb.split(':')[1]:
                    return (f'mulVec {a} {b}', vec(ta.split(':')[1]))
                if ism(ta) and ism(tb) and ta.split(':')[2] == tb.split(':')[1]:
                    return (f'mmul {a} {b}', mat(ta.split(':')[1], tb.split(':')[2]))
            elif ta == tb:
                if isv(ta):
                    return (f'{"vadd" if e[1] == "+" else "vsub"} {a} {b}', ta)
                return (f'{"madd" if e[1] == "+" else "msub"} {a} {b}', ta)
            raise TrErr(f'unsupported Eigen operation `{e[1]}` on operands of types {ta}, {tb}: {ser(e)}')
        if k == 'call':
            f = unparen(e[1])
            if f[0] == 'member':
                name, a = f[2], e[2]
                s, t = tr.expr0(f[1], env)
                if name == 'transpose' and not a and ism(t):
                    return (f'transpose {par(s)}', mat(t.split(':')[2], t.split(':')[1]))
                if name == 'cwiseProduct' and len(a) == 1 and isv(t):
                    b = tr.expr(a[0], env, t)[0]
                    return (f'.of (fun i => {par(s)} i * {par(b)} i)', t)
                if name == 'normalized' and not a and isv(t):
                    return (f'LogicSem.normalized {par(s)}', t)
                if name == 'dot' and len(a) == 1 and isv(t):
                    return (f'dot {par(s)} {par(tr.expr(a[0], env, t)[0])}', 'real')
            if f[0] == 'id' and f[1] in env and isv(env[f[1]].ty) and len(e[2]) == 1:
                ix = unparen(e[2][0])
                if ix[0] == 'id' and ix[1] in env and env[ix[1]].ty == 'idx':
                    return (f'{f[1]} {ix[1]}', 'real')
        return None
    return hook


# =============================================================================== C10: optim/tr_solver.hpp
TRS_TIDS = ('Eigen::Vector', 'std::conditional_t', 'std::is_base_of_v', 'Eigen::SparseMatrix', 'Eigen::Matrix', 'std::decay_t', 'std::optional',
            'std::reference_wrapper', 'Eigen::SimplicialLDLT', 'Eigen::LDLT', 'Eigen::SparseMatrixBase', 'Eigen::MatrixBase', 'std::pair')
G.LEANTY['optreal'] = 'Option α'


def gen_trsolver(repo):
    rel = 'include/smooth/optim/tr_solver.hpp'
    toks = lex(G.read(repo, rel), TRS_TIDS)
    out = [f'/-! ### {rel} -/', '']
    G.TYPES.update({'Ht': mat('n', 'n'), 'Eigen::Vector<Scalar,N>': vec('n')})
    b, e, m = find_body(toks, r'template < typename D2 , typename D3 > auto solve_linear_ldlt \( (?P<params>const auto & J , const Eigen::MatrixBase<D2> & d , '
                        r'const Eigen::MatrixBase<D3> & r , const double lambda , std::optional<std::reference_wrapper<double>> dphi = \{ \}) \)',
                        'solve_linear_ldlt(J, d, r, lambda, dphi = {})')
    body = parse_stmts(toks, b, e)

    def extra(tr, e_, env):
        if e_[0] == 'call':
            f = unparen(e_[1])
            if f[0] == 'member' and unparen(f[1])[0] == 'id':
                o, name, a = unparen(f[1])[1], f[2], e_[2]
                if name == 'rows' and not a and o in env and env[o].ty.startswith('mat:'):
                    return (env[o].ty.split(':')[1], 'nat')
                if name == 'solve' and len(a) == 1 and o in env and env[o].ty == 'ldlt':
                    return (f'solve {o} {par(tr.expr(a[0], env, vec("n"))[0])}', vec('n'))
                if name == 'has_value' and not a and o == 'dphi':
                    return ('want_dphi', 'bool')
        return None

    def st_ldlt(tr, st, env, ind):
        if st[0] == 'simple' and re.fullmatch(r'const LDLTt (\w+) \( (\w+) \)', text(st[1])):
            nm, h = re.fullmatch(r'const LDLTt (\w+) \( (\w+) \)', text(st[1])).groups()
            if h not in env or env[h].ty != mat('n', 'n'):
                raise TrErr('LDLT of something that is not the N×N matrix: ' + stmt_text(st))
            env = dict(env)
            env[nm] = Var('ldlt')
            tr.tracked.add(nm)
            return [f'{ind}let {nm} : Mat α n n := {h}'], env
        return None

    def st_diag(tr, st, env, ind):
        if st[0] != 'for':
            return None
        v, lo, hi = for_header(tr, st, env)
        if len(st[4]) != 1 or st[4][0][0] != 'simple':
            raise TrErr('unsupported loop body: ' + stmt_text(st))
        c = classify(st[4][0][1])
        if not (c[0] == 'assign' and c[2] == '+=' and is_call(c[1], None, 2) and unparen(unparen(c[1])[1])[0] == 'member' and
                unparen(unparen(c[1])[1])[2] == 'coeffRef' and [ser(x_) for x_ in unparen(c[1])[2]] == [v, v]):
            raise TrErr('unsupported loop body (expected `H.coeffRef(i, i) += e`): ' + stmt_text(st[4][0]))
        h = ser(unparen(unparen(c[1])[1])[1])
        if h not in env or not env[h].ty.startswith('mat:') or (lo, hi) != ('0', env[h].ty.split(':')[1]):
            raise TrErr('diagonal update does not run over all rows of the matrix: ' + stmt_text(st))
        e2 = dict(env)
        e2[v] = Var('idx')
        val = tr.expr(c[3], e2, 'real')[0]
        return [f'{ind}let {h} : {G.LEANTY[env[h].ty]} := .of (fun {v} _j => if {v} = _j then {h} {v} _j + {par(val)} else {h} {v} _j)'], env

    def ahook(tr, lhs, op, rhs, env, ind):
        if ser(lhs) == 'dphi->get()' and op == '=':
            return [f'{ind}let dphi : Option α := some {par(tr.expr(rhs, env, "real")[0])}'], env
        return None
    pins = {'using JType': lit('using JType = std::decay_t<decltype(J)> ;'), 'using Scalar': lit('using Scalar = typename JType::Scalar ;'),
            'N': lit('static constexpr auto N = JType::ColsAtCompileTime ;'),
            'is_sparse': lit('static constexpr bool is_sparse = std::is_base_of_v<Eigen::SparseMatrixBase<JType>,JType> ;'),
            'using Ht': lit('using Ht = std::conditional_t<is_sparse, Eigen::SparseMatrix<typename JType::Scalar>, Eigen::Matrix<typename JType::Scalar, N, N>> ;'.replace('typename ', 'typename')),
            'using LDLTt': lit('using LDLTt = std::conditional_t<is_sparse,Eigen::SimplicialLDLT<Ht>,Eigen::LDLT<Ht>> ;')}
    spec = {'hook': eig_hook(extra), 'st_hooks': [st_ldlt, st_diag], 'assign_hook': ahook, 'pins': pins,
            'pseudo_writes': {'dphi': r'dphi -> get \( \) ='}}
    tr = Tr2('TrSolver_solve_linear_ldlt', spec)
    env = {'solve': Var('solvefun'), 'J': Var(mat('m', 'n')), 'd': Var(vec('n')), 'r': Var(vec('m')), 'lambda': Var('real'),
           'want_dphi': Var('bool'), 'dphi': Var('optreal')}
    tr.tracked |= {'dphi'}
    K = Kont(fall=no_fall('solve_linear_ldlt'), ret=lambda ex, e_, i_: [f'{i_}({tr.expr(ex, e_, vec("n"))[0]}, dphi)'])
    lines = ['  let dphi : Option α := none'] + tr.stmts(body, env, '  ', K)
    tr.check_pins()
    out += fn_def('TrSolver_solve_linear_ldlt', [('solve', 'Mat α n n → Vec α n → Vec α n'), ('J', 'Mat α m n'), ('d', 'Vec α n'), ('r', 'Vec α m'),
                                                 ('lambda', 'α'), ('want_dphi', 'Bool')], 'Vec α n × Option α', lines,
                  '`solve_linear_ldlt(J, d, r, lambda, dphi)`: the returned `x` and the value written to `dphi` (if requested).  '
                  '`solve H b` stands for `LDLT(H).solve(b)` (dense or simplicial), `want_dphi` for `dphi.has_value()`')
    # --- solve_trust_region
    b, e, m = find_body(toks, r'template < typename D2 , typename D3 > auto solve_trust_region \( (?P<params>const auto & J , const Eigen::MatrixBase<D2> & d , '
                        r'const Eigen::MatrixBase<D3> & r , const double Delta) \)', 'solve_trust_region(J, d, r, Delta)')

    def extra2(tr_, e_, env_):
        if is_call(e_, 'solve_linear_ldlt', 4):
            a = unparen(e_)[2]
            args = [par(tr_.expr(x_, env_, t_)[0]) for x_, t_ in zip(a, (mat('m', 'n'), vec('n'), vec('m'), 'real'))]
            return ('(TrSolver_solve_linear_ldlt solve ' + ' '.join(args) + ' false).1', vec('n'))     # dphi defaults to `{}`
        return None

    def ret2(ex, e_, i_):
        ex = unparen(ex)
        if ex[0] != 'init' or len(ex[1]) != 2:
            raise TrErr('solve_trust_region: return value is not a braced pair: ' + ser(ex))
        return [f'{i_}({tr2.expr(ex[1][0], e_, vec("n"))[0]}, {tr2.expr(ex[1][1], e_, "real")[0]})']
    tr2 = Tr2('TrSolver_solve_trust_region', {'hook': eig_hook(extra2)})
    env2 = {'solve': Var('solvefun'), 'J': Var(mat('m', 'n')), 'd': Var(vec('n')), 'r': Var(vec('m')), 'Delta': Var('real')}
    lines = tr2.stmts(parse_stmts(toks, b, e), env2, '  ', Kont(fall=no_fall('solve_trust_region'), ret=ret2))
    tr2.check_pins()
    out += fn_def('TrSolver_solve_trust_region', [('solve', 'Mat α n n → Vec α n → Vec α n'), ('J', 'Mat α m n'), ('d', 'Vec α n'), ('r', 'Vec α m'),
                                                  ('Delta', 'α')], 'Vec α n × α', lines, '`solve_trust_region(J, d, r, Delta)`: `{dx, lambda}`')
    return out


def generate_c10(repo):
    L = header('optim/tr_solver.hpp', ['SmoothModel.Scalar', 'SmoothModel.Lin', 'SmoothModel.LogicSem'],
               'variable {α : Type} [Scalar α] {m n : Nat}', [])
    return '\n'.join(L + gen_trsolver(repo) + ['end LogicSrc']) + '\n'


# =============================================================================== C11: spline/detail/cumulative_spline_impl.hpp
CS_TIDS = ('Eigen::Vector', 'Eigen::Matrix', 'Eigen::Map', 'monomial_derivatives', 'Scalar', 'Identity', 'smooth::exp', 'exp', 'ad', 'dr_exp',
           'dr_expinv', 'Dof', 'middleCols', 'leftCols', 'TangentMap', 'Tangent', 'OptTangent', 'SplineJacobian', 'OptSplineJacobian',
           'cspline_eval_vs', 'cspline_eval_dg_dvs')
TAN, GRP, TMAP, UVEC, BCUM = 'vec:G.dof', 'vec:G.rep', 'mat:G.dof:G.dof', 'vec:K + 1', 'mat:K + 1:K + 1'
G.LEANTY.update({TAN: 'Vec α G.dof', GRP: 'Vec α G.rep', TMAP: 'Mat α G.dof G.dof', UVEC: 'Vec α (K + 1)', BCUM: 'Mat α (K + 1) (K + 1)',
                 'col': 'Fin (K + 1)', 'blocks': 'List (Mat α G.dof G.dof)', 'model': 'LieModel α'})
ASSERT = r'assert \( .* \) ;'
MAPV = r'Eigen::Map<constEigen::Vector<Scalar<G>,K\+1>> (\w+) \( U \[ (\d+) \] \. data \( \) \) ;'


def drop_global_scope(toks):
    return [t for i, t in enumerate(toks) if not (t == ('op', '::') and i + 1 < len(toks) and toks[i + 1][0] == 'id' and
                                                  (i == 0 or toks[i - 1][0] != 'id'))]


def lie_extra(tr, e, env):
    """the LieGroup free functions used by the spline code, as fields of the model `G : LieModel α`"""
    k = e[0]
    if k == 'call':
        f = unparen(e[1])
        a = e[2]
        if f[0] == 'id':
            n = f[1]
            A = lambda i, t: par(tr.expr(a[i], env, t)[0])
            if n in ('smooth::exp<G>', 'exp<G>') and len(a) == 1:
                return (f'G.exp {A(0, TAN)}', GRP)
            if n == 'composition' and len(a) == 2:
                return (f'G.composition {A(0, GRP)} {A(1, GRP)}', GRP)
            if n == 'inverse' and len(a) == 1:
                return (f'G.inverse {A(0, GRP)}', GRP)
            if n == 'Ad' and len(a) == 1:
                return (f'G.Ad {A(0, GRP)}', TMAP)
            if n in ('ad<G>', 'dr_exp<G>', 'dr_expinv<G>') and len(a) == 1:
                return (f'G.{n[:-3]} {A(0, TAN)}', TMAP)
            if n == 'rminus' and len(a) == 2:
                return (f'G.rminus {A(0, GRP)} {A(1, GRP)}', TAN)
            if n == 'Identity<G>' and (not a or ser(a[0]) == 'dof(*std::ranges::cbegin(vs))'):
                return ('G.identity', GRP)
            if n == 'TangentMap<G>::Identity' and not a:
                return ('ident G.dof', TMAP)
        if f[0] == 'member':
            o = unparen(f[1])
            if f[2] == 'value' and not a and o[0] == 'id' and o[1] in env and env[o[1]].ty == TAN:
                return (o[1], TAN)                     # OptTangent: `vel.value()` is the tangent itself
            if f[2] == 'dot' and len(a) == 1 and o[0] == 'id' and o[1] in env and env[o[1]].ty == UVEC:
                c = unparen(a[0])
                if (c[0] == 'call' and unparen(c[1])[0] == 'member' and unparen(c[1])[2] == 'col' and ser(unparen(c[1])[1]) == 'Bcum' and len(c[2]) == 1):
                    return (f'CSpline.bdot {o[1]} Bcum {par(tr.expr(c[2][0], env, "col")[0])}', 'real')
                raise TrErr('unsupported dot product with a basis row: ' + ser(e))
    return None


def cs_lvalue(tr, e, env):
    """lvalue of a tangent statement: `v`, `v.value()`, `v.value().noalias()`, `v.noalias()` -> variable name (type vec:G.dof) or None"""
    e = unparen(e)
    while e[0] == 'call' and unparen(e[1])[0] == 'member' and unparen(e[1])[2] in ('value', 'noalias') and not e[2]:
        e = unparen(unparen(e[1])[1])
    if e[0] == 'id' and e[1] in env and env[e[1]].ty == TAN:
        return e[1]
    return None


def block_ref(e):
    """`X.leftCols(E * Dof<G>)`, `X->template middleCols<Dof<G>>(E * Dof<G>)`, `X.leftCols<Dof<G>>()` -> (X, 'left'|'middle', index text)"""
    e = unparen(e)
    if e[0] != 'call' or unparen(e[1])[0] != 'member':
        return None
    m = unparen(e[1])
    o = unparen(m[1])
    if o[0] != 'id':
        return None
    if m[2] == 'leftCols<Dof<G>>' and not e[2]:
        return (o[1], 'left', '1')
    kind = {'leftCols': 'left', 'middleCols<Dof<G>>': 'middle'}.get(m[2])
    if kind is None or len(e[2]) != 1:
        return None
    ix = unparen(e[2][0])
    if ix[0] != 'bin' or ix[1] != '*' or unparen(ix[3]) != ('id', 'Dof<G>'):
        raise TrErr('column offset that is not `E * Dof<G>`: ' + ser(e))
    return (o[1], kind, ser(unparen(ix[2])))


def cs_spec(jac, mode, jvar):
    """statement hooks of the spline loops.  `jac`: {Jacobian name: {'new': bool}} (mode 'dvs'), or {name: source name} (mode 'dgs')"""
    def st(tr, s_, env, ind):
        if s_[0] != 'simple':
            return None
        try:
            c = classify(s_[1])
        except TrErr:
            return None
        if c[0] == 'expr':
            e = unparen(c[1])
            if e[0] == 'call' and unparen(e[1])[0] == 'member':
                m = unparen(e[1])
                v = cs_lvalue(tr, m[1], env)
                if v and m[2] == 'applyOnTheLeft' and len(e[2]) == 1:
                    return [f'{ind}let {v} : Vec α G.dof := mulVec {par(tr.expr(e[2][0], env, TMAP)[0])} {v}'], env
                if v and m[2] == 'setZero' and not e[2]:
                    env = dict(env)
                    env[v] = Var(TAN)
                    return [f'{ind}let {v} : Vec α G.dof := vzero G.dof'], env
                o = unparen(m[1])
                if m[2] == 'setZero' and not e[2] and o[0] == 'id' and o[1] in jac:
                    if mode == 'dgs':
                        return [], env          # the blocks of a zeroed SplineJacobian are `mzero` when first touched
                    env = dict(env)
                    env[o[1]] = Var('blocks')
                    return [f'{ind}let {o[1]} : List (Mat α G.dof G.dof) := []'], env
                br = block_ref(m[1])
                if br and br[0] in jac and m[2] == 'applyOnTheLeft' and len(e[2]) == 1 and mode == 'dvs':
                    X, kind, ix = br
                    if kind != 'left' or ix != f'{jvar} - 1' or jac[X]['new']:
                        raise TrErr(f'`{ser(e)}`: only the blocks stored before iteration {jvar} (`leftCols(({jvar} - 1) * Dof<G>)`) can be multiplied')
                    return [f'{ind}let {X} : List (Mat α G.dof G.dof) := {X}.map (fun D => mmul {par(tr.expr(e[2][0], env, TMAP)[0])} D)'], env
            return None
        if c[0] == 'assign':
            _, lhs, op, rhs = c
            v = cs_lvalue(tr, lhs, env)
            if v and unparen(lhs)[0] != 'id' and op in ('+=', '-='):
                r = par(tr.expr(rhs, env, TAN)[0])
                return [f'{ind}let {v} : Vec α G.dof := {"vadd" if op == "+=" else "vsub"} {v} {r}'], env
            br = block_ref(lhs)
            if br and br[0] in jac:
                X, kind, ix = br
                if mode == 'dvs':
                    if kind == 'middle' and ix == f'{jvar} - 1' and op == '+=':
                        r = par(tr.expr(rhs, env, TMAP)[0])
                        base = f'{X}_new' if jac[X]['new'] else '(mzero G.dof G.dof)'
                        jac[X]['new'] = True
                        env = dict(env)
                        env[X + '_new'] = Var(TMAP)
                        return [f'{ind}let {X}_new : Mat α G.dof G.dof := madd {base} {r}'], env
                    if kind == 'left' and ix == jvar and op == '-=':
                        r_ = unparen(rhs)
                        src = block_ref(r_[3]) if r_[0] == 'bin' and r_[1] == '*' else None
                        if not src or src[0] not in jac or src[1:] != ('left', jvar) or jac[X]['new'] or not jac[src[0]]['new']:
                            raise TrErr('unsupported block update (expected `X.leftCols(j * Dof) -= M * Y.leftCols(j * Dof)` with Y complete): ' + stmt_text(s_))
                        M = par(tr.expr(r_[2], env, TMAP)[0])
                        Y = src[0]
                        jac[X]['new'] = True
                        env = dict(env)
                        env[X + '_new'] = Var(TMAP)
                        return [f'{ind}let {X} : List (Mat α G.dof G.dof) := List.zipWith (fun A V => msub A (mmul {M} V)) {X} {Y}',
                                f'{ind}let {X}_new : Mat α G.dof G.dof := msub (mzero G.dof G.dof) (mmul {M} {Y}_new)'], env
                    raise TrErr(f'unsupported block update in iteration {jvar}: ' + stmt_text(s_))
                # mode 'dgs': block j is finished, block j + 1 started
                r_ = unparen(rhs)
                src = block_ref(r_[2]) if r_[0] == 'bin' and r_[1] == '*' else None
                if not src or src[0] != jac[X] or src[1:] != ('middle', jvar):
                    raise TrErr(f'unsupported block update (expected `{X}.middleCols(…) ∓= {jac[X]}.middleCols({jvar} * Dof) * M`): ' + stmt_text(s_))
                M = par(tr.expr(r_[3], env, TMAP)[0])
                if kind == 'middle' and ix == jvar and op == '-=':
                    return [f'{ind}let {X}_cur : Mat α G.dof G.dof := msub {X}_cur (mmul {jac[X]}_j {M})'], env
                if kind == 'middle' and ix == f'{jvar} + 1' and op == '+=':
                    env = dict(env)
                    env[X + '_next'] = Var(TMAP)
                    return [f'{ind}let {X}_next : Mat α G.dof G.dof := madd (mzero G.dof G.dof) (mmul {jac[X]}_j {M})'], env
                raise TrErr(f'unsupported block update in iteration {jvar}: ' + stmt_text(s_))
        return None

    def st_fixed(tr, s_, env, ind):
        """`if (x.has_value() [|| y.has_value()])`: the tie is stated with all optional outputs requested (as the model is)"""
        if s_[0] == 'if' and not s_[1] and re.fullmatch(r'\w+ \. has_value \( \)( \|\| \w+ \. has_value \( \))*', text(s_[2])) and s_[4] is None:
            lines = tr.stmts(s_[3], env, ind, Kont(fall=lambda e_, i_: [('ENV', e_)], ret=None))
            return lines[:-1], tr.forget(lines[-1][1], env) if False else lines[-1][1]
        return None
    return {'hook': eig_hook(lie_extra), 'st_hooks': [st_fixed, st], 'pins': {}, 'skip': [ASSERT]}


def cs_prelude(tr, body, P, env, ind):
    """`const auto U = monomial_derivatives<K,P,Scalar<G>>(u);` and the maps `uvec(U[p].data())` -> rows of the model's table"""
    lines, rest, seenU = [], [], False
    env = dict(env)
    for s_ in body:
        t = stmt_text(s_) if s_[0] == 'simple' else ''
        if t == f'const auto U = monomial_derivatives<K,{P},Scalar<G>> ( u ) ;':
            seenU = True
            continue
        m = re.fullmatch(MAPV, t)
        if m:
            if not seenU or int(m.group(2)) > P:
                raise TrErr('map of a row of U that does not exist: ' + t)
            lines.append(f'{ind}let {m.group(1)} : Vec α (K + 1) := CSpline.monomial_derivative K u {m.group(2)}')
            env[m.group(1)] = Var(UVEC)
            continue
        rest.append(s_)
    if not seenU:
        raise TrErr(f'`const auto U = monomial_derivatives<K,{P},Scalar<G>>(u);` not found')
    return lines, rest, env


def cs_loop(st, start):
    if st[0] != 'rangefor' or text(st[1]) != f'const auto & [ j , vj ] : utils::zip ( std::views::iota ( {start}u ) , vs )':
        raise TrErr(f'expected the loop `for (const auto & [j, vj] : utils::zip(std::views::iota({start}u), vs))`: ' + stmt_text(st))
    return st[2]


def gen_cspline(repo):
    rel = 'include/smooth/spline/detail/cumulative_spline_impl.hpp'
    G.TYPES.update({'Scalar<G>': 'real', 'G': GRP, 'Tangent<G>': TAN, 'TangentMap<G>': TMAP})
    toks = drop_global_scope(lex(G.read(repo, rel), CS_TIDS))
    out = [f'/-! ### {rel} -/', '']
    GP = [('G', 'LieModel α')]
    # ------------------------------------------------------------------ cspline_eval_vs
    b, e, m = find_body(toks, r'template < int K , LieGroup G > requires \( K > 0 \) G cspline_eval_vs \( (?P<params>std::ranges::sized_range auto && vs , '
                        r'const MatrixType auto & Bcum , Scalar<G> u , OptTangent<G> vel , OptTangent<G> acc , OptTangent<G> jer) \) noexcept', 'cspline_eval_vs')
    body = parse_stmts(toks, b, e)
    spec = cs_spec({}, 'vs', 'j')
    tr = Tr2('CSpline_eval_vs', spec)
    env0 = {'G': Var('model'), 'Bcum': Var(BCUM), 'u': Var('real'), 'vel': Var(TAN, defined=False), 'acc': Var(TAN, defined=False),
            'jer': Var(TAN, defined=False)}
    pre, rest, env1 = cs_prelude(tr, body, 3, env0, '  ')
    loops = [s_ for s_ in rest if s_[0] == 'rangefor']
    if len(loops) != 1 or rest[-1][0] != 'return' or text(rest[-1][1]) != 'g' or rest[-2] is not loops[0]:
        raise TrErr('cspline_eval_vs: expected …, the loop over (j, vj), `return g;`')
    lbody = cs_loop(loops[0], 1)
    pack = '⟨g, vel, acc, jer⟩'
    # loop body
    trb = Tr2('CSpline_eval_vs_body', spec)
    envb = dict(env1, j=Var('col'), vj=Var(TAN), g=Var(GRP), vel=Var(TAN), acc=Var(TAN), jer=Var(TAN))
    un = ['  let g : Vec α G.rep := _st.g', '  let vel : Vec α G.dof := _st.vel', '  let acc : Vec α G.dof := _st.acc', '  let jer : Vec α G.dof := _st.jer']
    bl = un + trb.stmts(lbody, envb, '  ', Kont(fall=lambda e_, i_: [i_ + pack], ret=None))
    trb.check_pins()
    maps = [n for n in env1 if env1[n].ty == UVEC]
    ps = GP + [(n, 'Vec α (K + 1)') for n in maps] + [('Bcum', 'Mat α (K + 1) (K + 1)'), ('j', 'Fin (K + 1)'), ('vj', 'Vec α G.dof'), ('_st', 'CSpline.St α G')]
    out += fn_def('CSpline_eval_vs_body', ps, 'CSpline.St α G', bl, 'loop body of `cspline_eval_vs` for the pair `(j, vj)` (all optional outputs requested)')
    lines = pre + tr.stmts(rest[:-2], env1, '  ', Kont(fall=lambda e_, i_: [
        f'{i_}(List.finRange K).foldl (fun _st _j => CSpline_eval_vs_body G {" ".join(maps)} Bcum ⟨_j.val + 1, by omega⟩ (vs _j) _st) {pack}'], ret=None))
    tr.check_pins()
    out += fn_def('CSpline_eval_vs', GP + [('vs', 'Fin K → Vec α G.dof'), ('Bcum', 'Mat α (K + 1) (K + 1)'), ('u', 'α')], 'CSpline.St α G', lines,
                  '`cspline_eval_vs<K, G>(vs, Bcum, u, vel, acc, jer)`: `zip(iota(1u), vs)` pairs `vs[i]` with column `i + 1`; result = final (g, vel, acc, jer)')
    # ------------------------------------------------------------------ cspline_eval_dg_dvs
    b, e, m = find_body(toks, r'template < int K , LieGroup G > requires \( K > 0 \) SplineJacobian<G,K-1> cspline_eval_dg_dvs \( (?P<params>std::ranges::sized_range auto && vs , '
                        r'const MatrixType auto & Bcum , const Scalar<G> & u , OptSplineJacobian<G,K-1> dvel_dvs , OptSplineJacobian<G,K-1> dacc_dvs) \) noexcept',
                        'cspline_eval_dg_dvs')
    body = parse_stmts(toks, b, e)
    jac = {'dg_dvs': {'new': False}, 'dvel_dvs': {'new': False}, 'dacc_dvs': {'new': False}}
    spec = cs_spec(jac, 'dvs', 'j')
    spec['pins'] = {'dg_dvs': lit('Eigen::Matrix<Scalar<G>,Dof<G>,Dof<G>*K> dg_dvs ;'), 'vel, acc': lit('Eigen::Vector<Scalar<G>,Dof<G>> vel , acc ;')}
    tr = Tr2('CSpline_eval_dg_dvs', spec)
    env0 = {'G': Var('model'), 'Bcum': Var(BCUM), 'u': Var('real'), 'vel': Var(TAN, defined=False), 'acc': Var(TAN, defined=False)}
    pre, rest, env1 = cs_prelude(tr, body, 2, env0, '  ')
    loops = [s_ for s_ in rest if s_[0] == 'rangefor']
    if len(loops) != 1 or rest[-1][0] != 'return' or text(rest[-1][1]) != 'dg_dvs' or rest[-2] is not loops[0]:
        raise TrErr('cspline_eval_dg_dvs: expected …, the loop over (j, vj), `return dg_dvs;`')
    lbody = cs_loop(loops[0], 1)
    pack = '⟨dg_dvs, dvel_dvs, dacc_dvs, vel, acc⟩'
    maps = [n for n in env1 if env1[n].ty == UVEC]

    def fall_top(e_, i_):
        for X in jac:
            if X not in e_ or e_[X].ty != 'blocks':
                raise TrErr(f'cspline_eval_dg_dvs: `{X}` is not zeroed before the loop')
        return [f'{i_}(List.finRange K).foldl (fun _st _j => CSpline_eval_dg_dvs_body G {" ".join(maps)} Bcum ⟨_j.val + 1, by omega⟩ (vs _j) _st) {pack}']
    lines = pre + tr.stmts(rest[:-2], env1, '  ', Kont(fall=fall_top, ret=None))
    tr.check_pins()
    # loop body: j is both the column of Bcum and (as a number) one more than the count of stored blocks
    spec_b = dict(spec, pins={})
    trb = Tr2('CSpline_eval_dg_dvs_body', spec_b)
    envb = dict(env1, j=Var('col'), vj=Var(TAN), vel=Var(TAN), acc=Var(TAN), dg_dvs=Var('blocks'), dvel_dvs=Var('blocks'), dacc_dvs=Var('blocks'))
    un = ['  let dg_dvs : List (Mat α G.dof G.dof) := _st.dg', '  let dvel_dvs : List (Mat α G.dof G.dof) := _st.dvel',
          '  let dacc_dvs : List (Mat α G.dof G.dof) := _st.dacc', '  let vel : Vec α G.dof := _st.vel', '  let acc : Vec α G.dof := _st.acc']

    def fall_b(e_, i_):
        for X in jac:
            if not jac[X]['new']:
                raise TrErr(f'cspline_eval_dg_dvs: iteration j writes no block ({"j"} - 1) of `{X}`')
        return [f'{i_}⟨dg_dvs ++ [dg_dvs_new], dvel_dvs ++ [dvel_dvs_new], dacc_dvs ++ [dacc_dvs_new], vel, acc⟩']
    bl = un + trb.stmts(lbody, envb, '  ', Kont(fall=fall_b, ret=None))
    ps = GP + [(n, 'Vec α (K + 1)') for n in maps] + [('Bcum', 'Mat α (K + 1) (K + 1)'), ('j', 'Fin (K + 1)'), ('vj', 'Vec α G.dof'), ('_st', 'CSpline.JSt α G')]
    out += fn_def('CSpline_eval_dg_dvs_body', ps, 'CSpline.JSt α G', bl,
                  'loop body of `cspline_eval_dg_dvs` for `(j, vj)`: a SplineJacobian is the list of its Dof×Dof blocks stored so far (j − 1 before the '
                  'iteration); `leftCols((j-1)·Dof)` = these, `middleCols<Dof>((j-1)·Dof)` = the block created by this iteration')
    out += fn_def('CSpline_eval_dg_dvs', GP + [('vs', 'Fin K → Vec α G.dof'), ('Bcum', 'Mat α (K + 1) (K + 1)'), ('u', 'α')], 'CSpline.JSt α G', lines,
                  '`cspline_eval_dg_dvs<K, G>(vs, Bcum, u, dvel_dvs, dacc_dvs)`: the three Jacobians (as block lists) and the final vel, acc')
    # ------------------------------------------------------------------ cspline_eval_gs
    SUB = lit('static constexpr auto sub = [](const auto & x1, const auto & x2) { return rminus(x2, x1); };')
    VS = lit('const auto vs = gs | utils::views::pairwise_transform(sub);')
    b, e, m = find_body(toks, r'template < int K , std::ranges::sized_range R , LieGroup G > requires \( K > 0 \) G cspline_eval_gs \( (?P<params>R && gs , '
                        r'const MatrixType auto & Bcum , Scalar<G> u , OptTangent<G> vel , OptTangent<G> acc , OptTangent<G> jer) \) noexcept', 'cspline_eval_gs')
    body = [s_ for s_ in parse_stmts(toks, b, e) if not re.fullmatch(ASSERT, stmt_text(s_))]
    SUBRE = r'static constexpr auto sub = \[ \] \( const auto & x1 , const auto & x2 \) \{ return .* ; \} ;'
    if (len(body) != 3 or not re.fullmatch(SUBRE, stmt_text(body[0])) or nospace(stmt_text(body[1])) != nospace(VS[1]) or body[2][0] != 'return'):
        raise TrErr('cspline_eval_gs: statements changed (expected `sub`, `vs = gs | pairwise_transform(sub)`, return): ' + ' | '.join(stmt_text(s_) for s_ in body))
    # value-level part: the lambda `sub` and the final composition
    lam = unparen(classify(body[0][1])[3])
    trs = Tr2('CSpline_sub', {'hook': eig_hook(lie_extra)})
    sl = trs.stmts(lam[2], {'G': Var('model'), 'x1': Var(GRP), 'x2': Var(GRP)}, '  ',
                   Kont(fall=no_fall('sub'), ret=lambda ex, e_, i_: [i_ + trs.expr(ex, e_, TAN)[0]]))
    out += fn_def('CSpline_sub', GP + [('x1', 'Vec α G.rep'), ('x2', 'Vec α G.rep')], 'Vec α G.dof', sl, '`sub = [](x1, x2) { return rminus(x2, x1); }`')

    def gs_extra(tr_, e_, env_):
        if nospace(ser(e_)) == '*std::ranges::begin(gs)':
            return ('gs ⟨0, by omega⟩', GRP)
        if nospace(ser(e_)) == 'cspline_eval_vs<K,G>(vs,Bcum,u,vel,acc,jer)':
            return ('_s.g', GRP)
        return lie_extra(tr_, e_, env_)
    trg = Tr2('CSpline_eval_gs', {'hook': eig_hook(gs_extra)})
    rg = trg.expr(parse_expr(body[2][1]), {'G': Var('model')}, GRP)[0]
    out += fn_def('CSpline_eval_gs', GP + [('gs', 'Fin (K + 1) → Vec α G.rep'), ('Bcum', 'Mat α (K + 1) (K + 1)'), ('u', 'α')], 'CSpline.St α G',
                  ['  let vs : Fin K → Vec α G.dof := fun i => CSpline_sub G (gs ⟨i.val, by omega⟩) (gs ⟨i.val + 1, by omega⟩)',
                   '  let _s : CSpline.St α G := CSpline_eval_vs G vs Bcum u',
                   f'  ⟨{rg}, _s.vel, _s.acc, _s.jer⟩'],
                  '`cspline_eval_gs`: `vs = gs | pairwise_transform(sub)` (`vs[i] = sub(gs[i], gs[i+1])`), result `' + text(body[2][1]) + '` (vel, acc, jer as left by cspline_eval_vs)')
    # ------------------------------------------------------------------ cspline_eval_dg_dgs
    b, e, m = find_body(toks, r'template < int K , std::ranges::sized_range R , LieGroup G > requires \( K > 0 \) SplineJacobian<G,K> cspline_eval_dg_dgs \( (?P<params>R && gs , '
                        r'const MatrixType auto & Bcum , const Scalar<G> & u , OptSplineJacobian<G,K> dvel_dgs , OptSplineJacobian<G,K> dacc_dgs) \) noexcept',
                        'cspline_eval_dg_dgs')
    body = [s_ for s_ in parse_stmts(toks, b, e) if not re.fullmatch(ASSERT, stmt_text(s_))]
    head = [SUB[1], VS[1], 'SplineJacobian<G, K - 1> dvel_dvs;', 'SplineJacobian<G, K - 1> dacc_dvs;',
            'SplineJacobian<G, K - 1> dg_dvs = cspline_eval_dg_dvs<K, G>(vs, Bcum, u, dvel_dvs, dacc_dvs);', 'SplineJacobian<G, K> dg_dgs;',
            'dg_dgs.setZero();', 'if ( dvel_dgs . has_value ( ) ) …', 'if ( dacc_dgs . has_value ( ) ) …',
            'const auto U = monomial_derivatives<K, 0, Scalar<G>>(u);', 'Eigen::Map<const Eigen::Vector<Scalar<G>, K + 1>> uvec(U[0].data());',
            'G exp_series = Identity<G>();']
    if [nospace(stmt_text(s_)) for s_ in body[:len(head)]] != [nospace(w) for w in head] or len(body) != len(head) + 3:
        raise TrErr('cspline_eval_dg_dgs: statements before the loop changed (pinned): ' + ' | '.join(stmt_text(s_) for s_ in body[:len(head)]))
    for s_, X in ((body[7], 'dvel_dgs'), (body[8], 'dacc_dgs')):
        if [stmt_text(x_) for x_ in s_[3]] != [f'{X} -> setZero ( ) ;'] or s_[4] is not None:
            raise TrErr(f'cspline_eval_dg_dgs: `if ({X}.has_value()) {{ {X}->setZero(); }}` changed')
    lbody = cs_loop(body[len(head)], 0)
    jac2 = {'dg_dgs': 'dg_dvs', 'dvel_dgs': 'dvel_dvs', 'dacc_dgs': 'dacc_dvs'}
    spec = cs_spec(jac2, 'dgs', 'j')

    def colhook(tr_, e_, env_):
        if nospace(ser(e_)) == '1+j':
            return ('jcol', 'col')
        return lie_extra(tr_, e_, env_)
    spec['hook'] = eig_hook(colhook)
    trb = Tr2('CSpline_eval_dg_dgs_body', spec)
    envb = {'G': Var('model'), 'uvec': Var(UVEC), 'Bcum': Var(BCUM), 'jcol': Var('col'), 'vj': Var(TAN), 'exp_series': Var(GRP)}
    for X, Y in jac2.items():
        envb[Y + '_j'] = Var(TMAP)
        envb[X + '_cur'] = Var(TMAP)

    def fall_g(e_, i_):
        for X in jac2:
            if X + '_next' not in e_:
                raise TrErr(f'cspline_eval_dg_dgs: iteration j does not start block j + 1 of `{X}`')
        return [i_ + '(' + ', '.join(f'({X}_cur, {X}_next)' for X in jac2) + ', exp_series)']
    bl = trb.stmts(lbody, envb, '  ', Kont(fall=fall_g, ret=None))
    M = 'Mat α G.dof G.dof'
    ps = (GP + [('uvec', 'Vec α (K + 1)'), ('Bcum', 'Mat α (K + 1) (K + 1)'), ('jcol', 'Fin (K + 1)'), ('vj', 'Vec α G.dof')] +
          [(Y + '_j', M) for Y in jac2.values()] + [(X + '_cur', M) for X in jac2] + [('exp_series', 'Vec α G.rep')])
    out += fn_def('CSpline_eval_dg_dgs_body', ps, f'({M} × {M}) × ({M} × {M}) × ({M} × {M}) × Vec α G.rep', bl,
                  'loop body of `cspline_eval_dg_dgs` for `(j, vj)`, `jcol` = column `1 + j`: per Jacobian (finished block j, started block j + 1) from block j '
                  'of the `…_dvs` Jacobian and block j as left by the previous iteration; the running `exp_series`')
    # after the loop
    fin = body[len(head) + 1:]
    c = classify(fin[0][1]) if fin[0][0] == 'simple' else ('?',)
    if (len(fin) != 2 or c[0] != 'assign' or nospace(ser(c[1])) != 'dg_dgs.leftCols<Dof<G>>()' or c[2] != '+=' or
            nospace(stmt_text(fin[1])) != 'returndg_dgs;'):
        raise TrErr('cspline_eval_dg_dgs: statements after the loop changed (expected `dg_dgs.leftCols<Dof<G>>() += …; return dg_dgs;`): ' +
                    ' | '.join(stmt_text(s_) for s_ in fin))
    trf = Tr2('CSpline_eval_dg_dgs_first', {'hook': eig_hook(lie_extra)})
    out += fn_def('CSpline_eval_dg_dgs_first', GP + [('first', M), ('exp_series', 'Vec α G.rep')], M,
                  ['  madd first ' + par(trf.expr(c[3], {'G': Var('model'), 'exp_series': Var(GRP)}, TMAP)[0])],
                  '`dg_dgs.leftCols<Dof<G>>() += Ad(inverse(exp_series));` on the first block')
    return out


def generate_c11(repo):
    L = header('spline/detail/cumulative_spline_impl.hpp', ['SmoothModel.Scalar', 'SmoothModel.Lin', 'SmoothModel.Group', 'SmoothModel.CSpline',
                                                            'SmoothModel.CSplineJac'],
               'variable {α : Type} [Scalar α] {K : Nat}', [])
    return '\n'.join(L + gen_cspline(repo) + ['end LogicSrc']) + '\n'


# =============================================================================== C12: spline/detail/spline_impl.hpp
SPL_TIDS = ('Spline', 'std::max', 'std::min', 'std::clamp', 'Identity', 'cspline_eval_vs', 'kMappedBasisFunction', 'CastT', 'OptTangent', 'Tangent',
            'Dof', 'Eigen::Matrix', 'std::vector', 'cast', 'static_cast')
G.LEANTY.update({'sgrp': 'G', 'stan': 'W', 'spline': 'Spline α G W', 'seg': G.LEANTY.get('seg', 'Dubins.Seg'), 'sseg': 'Seg α G W', 'svel': 'List W'})
FIELDS = {'m_end_t': ('tEnd', 'real'), 'm_end_g': ('gEnd', 'sgrp'), 'm_Vs': ('V', 'svel'), 'm_seg_T0': ('T0', 'real'), 'm_seg_Del': ('Del', 'real')}
SPL = 'Spline α G W'


class Tr3(Tr2):
    """scalars are the model's time type (`[TimeOps α]`): literals are `zero`, `one`, `ofNat n`; `a == b` on doubles is `teq`"""

    def coerce(self, r, want, ctx=''):
        s, ty = r
        if ty == 'lit' and want == 'real':
            return ({'0': 'zero', '1': 'one'}.get(s, f'ofNat {s}'), 'real')
        if ty == 'nat' and want == 'real':
            raise TrErr(f'conversion of an index to a time value: {s} {ctx}')
        return super().coerce(r, want, ctx)

    def compare(self, op, a, b, env):
        if op == '==':
            ra, rb = self.expr0(a, env), self.expr0(b, env)
            if ra[1] == 'real' and rb[1] == 'real':
                return f'teq {par(ra[0])} {par(rb[0])} = true'
        return super().compare(op, a, b, env)


def spl_hook(ctx):
    """ctx: {'subst': {source text without spaces: (lean, type)}}; `*this` is the Lean variable `s`, `other` is `o`"""
    def hook(tr, e, env):
        key = nospace(ser(e))
        if key in ctx['subst']:
            return ctx['subst'][key]
        k = e[0]
        if k == 'num' and not re.fullmatch(r'\d+u?', e[1]):
            from fractions import Fraction
            q = Fraction(e[1].rstrip('fFlL') + ('0' if e[1].endswith('.') else ''))
            if q.denominator != 1:
                raise TrErr('non-integer time literal: ' + e[1])
            return (str(q.numerator), 'lit')
        if k == 'id' and e[1] == 'm_g0':
            return ('s.g0', 'sgrp')
        if k == 'member' and ser(e) == 'other.m_g0':
            return ('o.g0', 'sgrp')
        if k == 'call':
            f, a = unparen(e[1]), e[2]
            if f[0] == 'id':
                n = f[1]
                A = lambda i, t: par(tr.expr(a[i], env, t)[0])
                if n == 'size' and not a:
                    return ('size s', 'nat')
                if n == 'empty' and not a:
                    return ('size s = 0', 'prop')
                if n == 't_max' and not a:
                    return ('tMax s', 'real')
                if n == 'end' and not a:
                    return ('endG s', 'sgrp')
                if n == 'composition' and len(a) == 2:
                    return (f'C.mul {A(0, "sgrp")} {A(1, "sgrp")}', 'sgrp')
                if n == 'inverse' and len(a) == 1:
                    return (f'C.inv {A(0, "sgrp")}', 'sgrp')
                if n == 'Identity<G>' and not a:
                    return ('C.one', 'sgrp')
                if n in ('cast<S>', 'std::move') and len(a) == 1:
                    return tr.expr0(a[0], env)
                if n == 'std::max<double>' and len(a) == 2:
                    return (f'tmax {A(0, "real")} {A(1, "real")}', 'real')
                if n == 'std::min<double>' and len(a) == 2:
                    return (f'tmin {A(0, "real")} {A(1, "real")}', 'real')
                if n == 'std::clamp<S>' and len(a) == 3:
                    if (tr.expr(a[1], env, 'real')[0], tr.expr(a[2], env, 'real')[0]) != ('zero', 'one'):
                        raise TrErr('clamp to an interval other than [0, 1]: ' + ser(e))
                    return (f'clamp01 {A(0, "real")}', 'real')
            if f[0] == 'member':
                o = unparen(f[1])
                if f[2] == 'size' and not a and ser(o) == 'other':
                    return ('size o', 'nat')
                if f[2] == 'size' and not a and ser(o) in FIELDS:
                    return ('size s', 'nat')
                if f[2] == 'value' and not a and o[0] == 'id' and o[1] in env and env[o[1]].ty == 'stan':
                    return (o[1], 'stan')
        return None
    return hook


def gen_spline(repo):
    rel = 'include/smooth/spline/detail/spline_impl.hpp'
    G.TYPES.update({'G': 'sgrp', 'CastT<S,G>': 'sgrp', 'Tangent<G>': 'stan'})
    toks = lex(G.read(repo, rel), SPL_TIDS)
    out = [f'/-! ### {rel} -/', '']
    CP = [('C', 'Ker α G W')]

    def member(header_re, what):
        b, e, m = find_body(toks, r'template < int K , LieGroup G > ' + header_re, what)
        return parse_stmts(toks, b, e), m

    def simple_fn(name, header_re, what, rty, lty, doc, params=(('s', SPL),)):
        body, _ = member(header_re, what)
        ctx = {'subst': {}}
        tr = Tr3(name, {'hook': spl_hook(ctx)})
        lines = tr.stmts(body, {}, '  ', Kont(fall=no_fall(what), ret=lambda ex, e_, i_: [i_ + tr.expr(ex, e_, rty)[0]]))
        return fn_def(name, list(params), lty, lines, doc)
    # ------------------------------------------------------------------ accessors
    ctxs = {'subst': {'m_end_t.size()': ('s.segs.length', 'nat')}}
    body, _ = member(r'std::size_t Spline<K,G>::size \( \) const', 'Spline::size')
    tr = Tr3('Spline_size', {'hook': spl_hook(ctxs)})
    out += fn_def('Spline_size', [('s', SPL)], 'Nat', tr.stmts(body, {}, '  ', Kont(fall=no_fall('size'), ret=lambda ex, e_, i_: [i_ + tr.expr(ex, e_, 'nat')[0]])),
                  '`size()`: `m_end_t.size()` = number of segments')
    body, _ = member(r'bool Spline<K,G>::empty \( \) const', 'Spline::empty')
    tr = Tr3('Spline_empty', {'hook': spl_hook({'subst': {}})})
    out += fn_def('Spline_empty', [('s', SPL)], 'Prop', tr.stmts(body, {}, '  ', Kont(fall=no_fall('empty'), ret=lambda ex, e_, i_: [i_ + tr.cond(ex, e_)])),
                  '`empty()`')
    back = {'m_end_t.back()': ('_last.tEnd', 'real'), 'm_end_g.back()': ('_last.gEnd', 'sgrp')}
    for fn, hre, rty, lty in (('t_min', r'double Spline<K,G>::t_min \( \) const', 'real', 'α'), ('t_max', r'double Spline<K,G>::t_max \( \) const', 'real', 'α'),
                              ('start', r'G Spline<K,G>::start \( \) const', 'sgrp', 'G'), ('end', r'G Spline<K,G>::end \( \) const', 'sgrp', 'G')):
        body, _ = member(hre, 'Spline::' + fn)
        tr = Tr3('Spline_' + fn, {'hook': spl_hook({'subst': back})})
        lines = tr.stmts(body, {}, '  ', Kont(fall=no_fall(fn), ret=lambda ex, e_, i_, tr=tr, rty=rty: [i_ + tr.expr(ex, e_, rty)[0]]))
        out += fn_def('Spline_' + fn, [('s', SPL), ('_last', 'Seg α G W')], lty, lines,
                      f'`{fn}()`; `_last` stands for the last segment (`m_end_t.back()`, `m_end_g.back()`), read only when `!empty()`')
    # ------------------------------------------------------------------ make_local, concat_global, concat_local, operator+=
    def state_fn(name, header_re, what, doc):
        body, m = member(header_re, what)
        ctx = {'subst': {}}
        # the unit `m_X.resize(N1 + N2)` ×5 followed by the fill loop
        rs = [i for i, s_ in enumerate(body) if s_[0] == 'simple' and re.fullmatch(r'(\w+) \. resize \( N1 \+ N2 \)', text(s_[1]))]
        if rs:
            if (rs != list(range(rs[0], rs[0] + 5)) or sorted(text(body[i][1]).split()[0] for i in rs) != sorted(FIELDS) or
                    len(body) <= rs[-1] + 1 or body[rs[-1] + 1][0] != 'for'):
                raise TrErr(f'{what}: expected the five `m_X.resize(N1 + N2);` followed by the fill loop')
            decl = {text(s_[1]) for s_ in body[:rs[0]] if s_[0] == 'simple'}
            if not ({'const std::size_t N1 = size ( )', 'std::size_t N1 = size ( )'} & decl) or not ({'const std::size_t N2 = other . size ( )', 'std::size_t N2 = other . size ( )'} & decl):
                raise TrErr(f'{what}: N1 / N2 are no longer `size()` / `other.size()`')
            body = body[:rs[0]] + [('fill', body[rs[-1] + 1])] + body[rs[-1] + 2:]

        def st_fill(tr, st, env, ind):
            if st[0] != 'fill':
                return None
            loop = st[1]
            v, lo, hi = for_header(tr, loop, env)
            if (lo, hi) != ('0', 'N2'):
                raise TrErr(f'{what}: the fill loop does not run over `0 .. N2`: ' + stmt_text(loop))
            vals = {}
            old = dict(ctx['subst'])
            for X, (fld, ty) in FIELDS.items():
                ctx['subst'][f'other.{X}[{v}]'] = (f'sg.{fld}', ty)
            for s_ in loop[4]:
                c = classify(s_[1]) if s_[0] == 'simple' else ('?',)
                if c[0] != 'assign' or c[2] != '=' or unparen(c[1])[0] != 'index' or ser(unparen(c[1])[1]) not in FIELDS or nospace(ser(unparen(c[1])[2])) != f'N1+{v}':
                    raise TrErr(f'{what}: fill loop statement that is not `m_X[N1 + {v}] = …`: ' + stmt_text(s_))
                X = ser(unparen(c[1])[1])
                if X in vals:
                    raise TrErr(f'{what}: `{X}[N1 + {v}]` assigned twice')
                vals[X] = tr.expr(c[3], env, FIELDS[X][1])[0]
            ctx['subst'] = old
            if set(vals) != set(FIELDS):
                raise TrErr(f'{what}: the fill loop does not assign all five vectors')
            elem = '⟨' + ', '.join(vals[X] for X in FIELDS) + '⟩'
            return [f'{ind}let s : {SPL} := {{ s with segs := s.segs ++ o.segs.map (fun sg => {elem}) }}'], env

        def ahook(tr, lhs, op, rhs, env, ind):
            if op != '=':
                return None
            t = nospace(ser(lhs))
            if t == 'm_g0':
                return [f'{ind}let s : {SPL} := {{ s with g0 := {tr.expr(rhs, env, "sgrp")[0]} }}'], env
            if t == 'm_end_g.back()':
                old = dict(ctx['subst'])
                ctx['subst']['m_end_g.back()'] = ('sg.gEnd', 'sgrp')
                v = tr.expr(rhs, env, 'sgrp')[0]
                ctx['subst'] = old
                return [f'{ind}let s : {SPL} := {{ s with segs := modLast (fun sg => {{ sg with gEnd := {v} }}) s.segs }}'], env
            if lhs[0] == 'index' and ser(unparen(lhs[1])) == 'm_end_g':
                ix = tr.expr(lhs[2], env, 'nat')[0]
                v = tr.expr(rhs, env, 'sgrp')[0]
                return [f'{ind}let s : {SPL} := {{ s with segs := modAt (fun sg => {{ sg with gEnd := {v} }}) {par(ix)} s.segs }}'], env
            return None

        def ret(ex, e_, i_):
            t = nospace(ser(ex)) if ex is not None else ''
            if t == '*this':
                return [i_ + 's']
            if t == '*this=other':
                return [i_ + 'o']
            if t == 'concat_local(other)':
                return [i_ + 'Spline_concat_local C s o']
            raise TrErr(f'{what}: unsupported return value: ' + t)
        tr = Tr3(name, {'hook': spl_hook(ctx), 'assign_hook': ahook, 'st_hooks': [st_fill],
                        'pseudo_writes': {'s': r'\b(m_g0|m_end_g) (\. back \( \) |\[ [^\]]* \] )?='}})
        env = {'s': Var('spline'), 'o': Var('spline')}
        lines = tr.stmts(body, env, '  ', Kont(fall=lambda e_, i_: [i_ + 's'], ret=ret))
        return fn_def(name, CP + [('s', SPL), ('o', SPL)], SPL, lines, doc)
    out += state_fn('Spline_make_local', r'void Spline<K,G>::make_local \( \)', 'Spline::make_local', '`make_local()` (the argument `o` is unused)')
    out += state_fn('Spline_concat_global', r'Spline<K,G> & Spline<K,G>::concat_global \( const Spline & other \)', 'Spline::concat_global',
                    '`concat_global(other)`: `*this` is `s`, `other` is `o`; statements in source order on the current state')
    out += state_fn('Spline_concat_local', r'Spline<K,G> & Spline<K,G>::concat_local \( const Spline & other \)', 'Spline::concat_local', '`concat_local(other)`')
    out += state_fn('Spline_op_plus_assign', r'Spline<K,G> & Spline<K,G>::operator \+= \( const Spline & other \)', 'Spline::operator+=', '`operator+=(other)`')
    # ------------------------------------------------------------------ operator()
    body, m = member(r'template < typename S > CastT<S,G> Spline<K,G>::operator \( \) \( (?P<params>const S & t , OptTangent<CastT<S,G>> vel , OptTangent<CastT<S,G>> acc) \) const',
                     'Spline::operator()')
    sub_i = {'m_end_t[istar-1]': ('end_t_prev', 'real'), 'm_end_g[istar-1]': ('end_g_prev', 'sgrp'), 'm_end_g.back()': ('endG s', 'sgrp')}
    for X, (fld, ty) in FIELDS.items():
        sub_i[f'{X}[istar]'] = (f'sg.{fld}', ty)
    sub_i['cspline_eval_vs<K,G>(m_Vs[istar].colwise(),kMappedBasisFunction<K>,m_seg_T0[istar])'] = ('C.c sg.V sg.T0', 'sgrp')
    ctx = {'subst': sub_i}

    def st_eval(tr, st, env, ind):
        t = stmt_text(st) if st[0] == 'simple' else ''
        for v in ('vel', 'acc'):
            if t == f'{v} . value ( ) . setZero ( ) ;':
                return [f'{ind}let {v} : W := C.wzero'], dict(env, **{v: Var('stan')})
        if nospace(t) == nospace('const CastT<S, G> add = cspline_eval_vs<K, CastT<S, G>>(m_Vs[istar].template cast<S>().colwise(), '
                                 'kMappedBasisFunction<K>.template cast<S>(), u, vel, acc);'):
            e2 = dict(env, add=Var('sgrp'), vel=Var('stan'), acc=Var('stan'))
            return [f'{ind}let _r : G × W × W := C.cev sg.V u', f'{ind}let add : G := _r.1', f'{ind}let vel : W := _r.2.1', f'{ind}let acc : W := _r.2.2'], e2
        if st[0] == 'if' and not st[1] and re.fullmatch(r'(vel|acc) \. has_value \( \)', text(st[2])) and st[4] is None:
            lines = tr.stmts(st[3], env, ind, Kont(fall=lambda e_, i_: [('ENV', e_)], ret=None))    # all optional outputs requested
            return lines[:-1], lines[-1][1]
        return None

    def ah_eval(tr, lhs, op, rhs, env, ind):
        t = nospace(ser(lhs))
        if t in ('vel.value()', 'acc.value()') and op == '*=':
            v = t[:3]
            return [f'{ind}let {v} : W := C.wsmul {par(tr.expr(rhs, env, "real")[0])} {v}'], env
        return None
    tr = Tr3('Spline_eval', {'hook': spl_hook(ctx), 'st_hooks': [st_eval], 'assign_hook': ah_eval, 'cx': {'K == 0': False},
                             'pins': {'istar': lit('const auto istar = find_idx(static_cast<double>(t));')}})
    env = {'s': Var('spline'), 't': Var('real'), 'istar': Var('nat'), 'sg': Var('sseg'), 'vel': Var('stan', defined=False), 'acc': Var('stan', defined=False)}
    lines = tr.stmts(body, env, '  ', Kont(fall=no_fall('operator()'), ret=lambda ex, e_, i_: [f'{i_}({tr.expr(ex, e_, "sgrp")[0]}, vel, acc)']))
    tr.check_pins()
    out += fn_def('Spline_eval', CP + [('s', SPL), ('t', 'α'), ('istar', 'Nat'), ('end_t_prev', 'α'), ('end_g_prev', 'G'), ('sg', 'Seg α G W')], 'G × W × W', lines,
                  '`operator()(t, vel, acc)` for K > 0, all outputs requested: `istar` stands for `find_idx(t)`, `sg` for segment `istar` '
                  '(`m_end_t[istar]`, `m_Vs[istar]`, …), `end_t_prev`/`end_g_prev` for `m_end_t[istar-1]`/`m_end_g[istar-1]`; `cspline_eval_vs` is the kernel `C.cev`')
    # ------------------------------------------------------------------ find_idx
    body, m = member(r'std::size_t Spline<K,G>::find_idx \( (?P<params>double t) \) const', 'Spline::find_idx')
    ctxf = {'subst': {'it!=m_end_t.end()': ('it.isSome = true', 'prop'),
                      'static_cast<std::size_t>(std::distance(m_end_t.begin(),it))': ('it.getD 0', 'nat'), 'm_end_t.size()': ('n', 'nat')}}

    def fhook(tr_, e_, env_):
        if is_call(e_, 'std::min', 2):
            a = unparen(e_)[2]
            return (f'min {par(tr_.expr(a[0], env_, "nat")[0])} {par(tr_.expr(a[1], env_, "nat")[0])}', 'nat')
        return spl_hook(ctxf)(tr_, e_, env_)
    tr = Tr3('Spline_find_idx', {'hook': fhook, 'pins': {'search': lit('auto it = utils::binary_interval_search(m_end_t, t);')}})
    lines = tr.stmts(body, {'n': Var('nat')}, '  ', Kont(fall=no_fall('find_idx'), ret=lambda ex, e_, i_: [i_ + tr.expr(ex, e_, 'nat')[0]]))
    tr.check_pins()
    out += fn_def('Spline_find_idx', [('n', 'Nat'), ('it', 'Option Nat')], 'Nat', lines,
                  '`find_idx(t)`: `it` = position returned by `binary_interval_search(m_end_t, t)` (none = `end()`), `n = m_end_t.size()`')
    # ------------------------------------------------------------------ arclength
    body, m = member(r'Tangent<G> Spline<K,G>::arclength \( (?P<params>double t) \) const requires \( K == 3 \)', 'Spline::arclength')
    if [s_[0] for s_ in body] != ['simple', 'simple', 'for', 'return'] or text(body[3][1]) != 'ret':
        raise TrErr('arclength: statement structure changed')
    tr = Tr3('Spline_arclength_init', {'hook': spl_hook({'subst': {'Tangent<G>::Zero()': ('C.wzero', 'stan')}})})
    lines = tr.stmts(body[:2], {'t': Var('real')}, '  ', Kont(fall=lambda e_, i_: [i_ + '(ret, t)'], ret=None))
    out += fn_def('Spline_arclength_init', CP + [('t', 'α')], 'W × α', lines, '`Tangent<G> ret = Tangent<G>::Zero(); t = std::max<double>(t, 0);`')
    loop = body[2]
    tr = Tr3('Spline_arclength_step', {})
    v, lo, hi = for_header(tr, loop, {'__n': Var('nat')}) if False else (None, None, None)
    if text(loop[1]) != 'auto i = 0u' or text(loop[2]) != 'i < m_end_t . size ( )' or text(loop[3]) != '++ i':
        raise TrErr('arclength: loop header changed: ' + stmt_text(loop))
    sub_a = {'m_end_t[i-1]': ('end_t_prev', 'real')}
    for X, (fld, ty) in FIELDS.items():
        sub_a[f'{X}[i]'] = (f'sg.{fld}', ty)
    INNER = 'for ( auto k = 0u ; k < Dof<G> ; ++ k ) …'

    def st_arc(tr_, st, env_, ind):
        if st[0] == 'for' and stmt_text(st) == INNER:
            if [nospace(stmt_text(x_)) for x_ in st[4]] != [nospace('ret(k) += integrate_absolute_polynomial(ua, ub, 3 * coefs(3, k), 2 * coefs(2, k), coefs(1, k));')]:
                raise TrErr('arclength: the per-coordinate integral changed: ' + ' '.join(stmt_text(x_) for x_ in st[4]))
            return [f'{ind}let ret : W := C.wadd ret (C.absint sg.V ua ub)'], env_
        return None
    tr = Tr3('Spline_arclength_step', {'hook': spl_hook({'subst': sub_a}), 'st_hooks': [st_arc],
                                       'pins': {'coefs': lit('const Eigen::Matrix<double, K + 1, Dof<G>> coefs = kMappedBasisFunction<K>.rightCols(K) * m_Vs[i].transpose();')}})
    env = {'t': Var('real'), 'i': Var('nat'), 'sg': Var('sseg'), 'ret': Var('stan')}
    lines = tr.stmts(loop[4], env, '  ', Kont(fall=lambda e_, i_: [i_ + 'some ret'], ret=None, brk=lambda e_, i_: [i_ + 'none']))
    tr.check_pins()
    out += fn_def('Spline_arclength_step', CP + [('t', 'α'), ('i', 'Nat'), ('end_t_prev', 'α'), ('sg', 'Seg α G W'), ('ret', 'W')], 'Option W', lines,
                  'loop body of `arclength(t)` at index i (`none` = break): `sg` is segment i, `end_t_prev` is `m_end_t[i-1]`; the per-coordinate sum of '
                  '`integrate_absolute_polynomial(ua, ub, 3·coefs(3,k), 2·coefs(2,k), coefs(1,k))` is the kernel `C.absint V ua ub`')
    # ------------------------------------------------------------------ crop
    body, m = member(r'Spline<K,G> Spline<K,G>::crop \( (?P<params>double ta , double tb , bool localize) \) const', 'Spline::crop')
    shape = [s_[0] for s_ in body]
    if shape != ['simple', 'simple', 'if', 'simple', 'simple', 'if', 'if', 'simple'] + ['simple'] * 4 + ['for', 'block', 'block'] + ['simple'] * 7 + ['return']:
        raise TrErr('crop: statement structure changed: ' + ' | '.join(stmt_text(s_) for s_ in body))
    EMPTY = lambda ex, e_, i_: ([i_ + 'none'] if nospace(ser(ex)) == 'Spline()' else (_ for _ in ()).throw(TrErr('crop: unsupported early return: ' + ser(ex))))
    # 1. clamping of the interval and the empty-interval return
    tr = Tr3('Spline_crop_interval', {'hook': spl_hook({'subst': {}})})
    lines = tr.stmts(body[:3], {'s': Var('spline'), 'ta': Var('real'), 'tb': Var('real')}, '  ', Kont(fall=lambda e_, i_: [i_ + 'some (ta, tb)'], ret=EMPTY))
    out += fn_def('Spline_crop_interval', [('s', SPL), ('ta', 'α'), ('tb', 'α')], 'Option (α × α)', lines, '`crop`: clamped `(ta, tb)`, `none` = `return Spline();`')
    # 2. first index and number of segments
    def chook(tr_, e_, env_):
        if e_[0] == 'index' and ser(unparen(e_[1])) == 'm_end_t':
            return (f'end_t {par(tr_.expr(e_[2], env_, "nat")[0])}', 'real')
        return spl_hook({'subst': {'find_idx(ta)': ('fa', 'nat'), 'find_idx(tb)': ('fb', 'nat')}})(tr_, e_, env_)
    tr = Tr3('Spline_crop_range', {'hook': chook})
    lines = tr.stmts(body[3:7], {'tb': Var('real')}, '  ', Kont(fall=lambda e_, i_: [i_ + 'some (i0, Nseg)'], ret=EMPTY))
    out += fn_def('Spline_crop_range', [('end_t', 'Nat → α'), ('fa', 'Nat'), ('fb', 'Nat'), ('tb', 'α')], 'Option (Nat × Nat)', lines,
                  '`crop`: `(i0, Nseg)` with `fa = find_idx(ta)`, `fb = find_idx(tb)`, `end_t k = m_end_t[k]`; `none` = `return Spline();`')
    # 3. pinned declarations
    pins = ['G ga = operator()(ta);', 'std::vector<double> end_t(Nseg);', 'std::vector<G> end_g(Nseg);', 'std::vector<Eigen::Matrix<double, Dof<G>, K>> vs(Nseg);',
            'std::vector<double> seg_T0(Nseg), seg_Del(Nseg);']
    for w, s_ in zip(pins, body[7:12]):
        if nospace(stmt_text(s_)) != nospace(w):
            raise TrErr(f'crop: pinned declaration `{w}` changed: ' + stmt_text(s_))
    # 4. the copy loop: element i of the five new vectors
    loop = body[12]
    tr = Tr3('Spline_crop_copy', {})
    v, lo, hi = for_header(tr, loop, {'Nseg': Var('nat')})
    if (v, lo, hi) != ('i', '0', 'Nseg'):
        raise TrErr('crop: the copy loop does not run over `0 .. Nseg`: ' + stmt_text(loop))
    NEW = {'end_t': ('tEnd', 'real'), 'end_g': ('gEnd', 'sgrp'), 'vs': ('V', 'svel'), 'seg_T0': ('T0', 'real'), 'seg_Del': ('Del', 'real')}
    sub_c = {'operator()(tb)': ('gb', 'sgrp')}
    for X, (fld, ty) in FIELDS.items():
        sub_c[f'{X}[i0+i]'] = (f'sg.{fld}', ty)

    def ah_copy(tr_, lhs, op, rhs, env_, ind):
        if lhs[0] == 'index' and ser(unparen(lhs[1])) in NEW and ser(unparen(lhs[2])) == 'i' and op == '=':
            X = ser(unparen(lhs[1]))
            fld, ty = NEW[X]
            e2 = dict(env_)
            e2['_' + fld] = Var(ty)
            return [f'{ind}let _{fld} : {G.LEANTY[ty]} := {tr_.expr(rhs, env_, ty)[0]}'], e2
        return None

    def fall_copy(e_, i_):
        for fld, ty in NEW.values():
            if '_' + fld not in e_ or not e_['_' + fld].defined:
                raise TrErr(f'crop: the copy loop does not assign element i of every new vector (missing {fld})')
        return [i_ + '⟨_tEnd, _gEnd, _V, _T0, _Del⟩']
    tr = Tr3('Spline_crop_copy', {'hook': spl_hook({'subst': sub_c}), 'assign_hook': ah_copy,
                                  'pseudo_writes': {'_' + fld: r'\b' + X + r' \[ i \] =' for X, (fld, ty) in NEW.items()}})
    env = {'i': Var('nat'), 'Nseg': Var('nat'), 'sg': Var('sseg'), 'ta': Var('real'), 'tb': Var('real'), 'ga': Var('sgrp'), 'localize': Var('bool')}
    for fld, ty in NEW.values():
        env['_' + fld] = Var(ty, defined=False)
    lines = tr.stmts(loop[4], env, '  ', Kont(fall=fall_copy, ret=None))
    out += fn_def('Spline_crop_copy', CP + [('i', 'Nat'), ('Nseg', 'Nat'), ('sg', 'Seg α G W'), ('ta', 'α'), ('tb', 'α'), ('ga', 'G'), ('gb', 'G'), ('localize', 'Bool')],
                  'Seg α G W', lines, '`crop`: element i of (end_t, end_g, vs, seg_T0, seg_Del) written by the copy loop; `sg` is source segment `i0 + i`, `gb = operator()(tb)`')
    # 5. re-parameterisation of the first / last new segment
    for blk, nm, idx in ((body[13], 'first', '0'), (body[14], 'last', 'Nseg-1')):
        def hk(tr_, e_, env_, idx=idx):
            if e_[0] == 'index' and ser(unparen(e_[1])) in ('seg_T0', 'seg_Del'):
                if nospace(ser(unparen(e_[2]))) != idx:
                    raise TrErr(f'crop ({nm} segment): `{ser(e_)}` is not element {idx}')
                return ('T0' if ser(unparen(e_[1])) == 'seg_T0' else 'Del', 'real')
            if e_[0] == 'index' and ser(unparen(e_[1])) == 'm_end_t':
                return (f'end_t {par(tr_.expr(e_[2], env_, "nat")[0])}', 'real')
            return spl_hook({'subst': {}})(tr_, e_, env_)

        def ah(tr_, lhs, op, rhs, env_, ind, idx=idx):
            if lhs[0] == 'index' and ser(unparen(lhs[1])) in ('seg_T0', 'seg_Del') and op in ('+=', '*='):
                if nospace(ser(unparen(lhs[2]))) != idx:
                    raise TrErr(f'crop ({nm} segment): `{ser(lhs)}` is not element {idx}')
                x = 'T0' if ser(unparen(lhs[1])) == 'seg_T0' else 'Del'
                return [f'{ind}let {x} : α := {x} {op[0]} {par(tr_.expr(rhs, env_, "real")[0])}'], env_
            return None
        tr = Tr3('Spline_crop_' + nm, {'hook': hk, 'assign_hook': ah})
        env = {'i0': Var('nat'), 'Nseg': Var('nat'), 'ta': Var('real'), 'tb': Var('real'), 'T0': Var('real'), 'Del': Var('real')}
        lines = tr.stmts(blk[1], env, '  ', Kont(fall=lambda e_, i_: [i_ + '(T0, Del)'], ret=None))
        out += fn_def('Spline_crop_' + nm, [('end_t', 'Nat → α'), ('i0', 'Nat'), ('Nseg', 'Nat'), ('ta', 'α'), ('tb', 'α'), ('T0', 'α'), ('Del', 'α')], 'α × α', lines,
                      f'`crop`: the block re-parameterising the {nm} new segment: new `(seg_T0[{idx}], seg_Del[{idx}])` from the copied `(T0, Del)`')
    # 6. result
    pins = ['Spline<K, G> ret;', None, 'ret.m_end_t = std::move(end_t);', 'ret.m_end_g = std::move(end_g);', 'ret.m_Vs = std::move(vs);',
            'ret.m_seg_T0 = std::move(seg_T0);', 'ret.m_seg_Del = std::move(seg_Del);', 'return ret;']
    for w, s_ in zip(pins, body[15:]):
        if w is not None and nospace(stmt_text(s_)) != nospace(w):
            raise TrErr(f'crop: pinned statement `{w}` changed: ' + stmt_text(s_))
    c = classify(body[16][1])
    if c[0] != 'assign' or nospace(ser(c[1])) != 'ret.m_g0' or c[2] != '=':
        raise TrErr('crop: assignment of ret.m_g0 changed: ' + stmt_text(body[16]))
    tr = Tr3('Spline_crop_g0', {'hook': spl_hook({'subst': {}})})
    out += fn_def('Spline_crop_g0', CP + [('ga', 'G'), ('localize', 'Bool')], 'G', ['  ' + tr.expr(c[3], {'ga': Var('sgrp'), 'localize': Var('bool')}, 'sgrp')[0]],
                  '`ret.m_g0 = ' + text(body[16][1]).split('=', 1)[1].strip() + '`')
    return out


def generate_c12(repo):
    L = header('spline/detail/spline_impl.hpp', ['SmoothModel.Spline'],
               'variable {α G W : Type} [TimeOps α]', [])
    L = [l if l != 'open Scalar Lin' else 'open SplineSM SplineSM.TimeOps' for l in L]
    return '\n'.join(L + gen_spline(repo) + ['end LogicSrc']) + '\n'


# =============================================================================== C19: detail/lie_group_sparse_impl.hpp
SP_TIDS = ('Scalar', 'Tangent', 'TangentMap', 'Hessian', 'Dof', 'IsCommutative', 'traits::lie_sparse', 'dr_exp', 'dr_expinv', 'd2r_exp', 'd2r_expinv',
           'd_exp_sparse_pattern', 'd2_exp_sparse_pattern', 'Eigen::SparseMatrix', 'dr_exp_sparse', 'd2r_exp_sparse', 'generators_sparse')


def gen_sparse(repo):
    """dr_exp_sparse<G, Inv> / d2r_exp_sparse<G, Inv>: the `if constexpr` dispatch chain as a decision function, the identity writes,
       the dense-fallback selection `Inv ? …inv : …` and the index shifts of the `coeffRef` writes"""
    rel = 'include/smooth/detail/lie_group_sparse_impl.hpp'
    toks = lex(G.read(repo, rel), SP_TIDS)
    out = [f'/-! ### {rel} -/', '',
           '/-- what a branch of `dr_exp_sparse<G, Inv>` / `d2r_exp_sparse<G, Inv>` does -/',
           'inductive SparseRoute where', '  | identity | nothing | special | specialInv | dense', '  deriving DecidableEq, Repr', '']

    def nat_hook(tr, e, env):
        if e[0] == 'bin' and e[1] == '%':
            return (f'{par(tr.expr(e[2], env, "nat")[0])} % {par(tr.expr(e[3], env, "nat")[0])}', 'nat')
        t = nospace(ser(e))
        sub = {'it.row()': ('r', 'nat'), 'it.col()': ('c', 'nat'), 'Dof<G>': ('n', 'nat'), 'sp.rows()': ('rows', 'nat'), 'a.size()': ('n', 'nat')}
        return sub.get(t)
    for fn, order, pat, dense, densei, hi_outer in (('dr_exp_sparse', 1, 'd_exp_sparse_pattern<G>', 'dr_exp<G>', 'dr_expinv<G>', 'n'),
                                                    ('d2r_exp_sparse', 2, 'd2_exp_sparse_pattern<G>', 'd2r_exp<G>', 'd2r_expinv<G>', 'n * n')):
        P = 'Sparse_d' if order == 1 else 'Sparse_d2'
        b, e, m = find_body(toks, r'template < LieGroup G , bool Inv > (inline )?void ' + fn + r' \( (?P<params>Eigen::SparseMatrix<Scalar<G>> & sp , const Tangent<G> & a , Eigen::Index i0) \)', fn)
        body = [s_ for s_ in parse_stmts(toks, b, e) if not re.fullmatch(ASSERT, stmt_text(s_))]
        if len(body) != 2 or stmt_text(body[0]) != 'using T = traits::lie_sparse<G> ;' or body[1][0] != 'if':
            raise TrErr(f'{fn}: expected `using T = traits::lie_sparse<G>;` and one if-constexpr chain (plus asserts)')
        inv_name = fn.replace('exp_sparse', 'expinv_sparse')
        conds = {'IsCommutative<G>': 'comm = true',
                 f'! Inv && requires {{ T::{fn} ( sp , a , i0 ) ; }}': '(inv = false) ∧ (hasSpec = true)',
                 f'Inv && requires {{ T::{inv_name} ( sp , a , i0 ) ; }}': '(inv = true) ∧ (hasSpecInv = true)'}
        found = {}

        def chain(st, ind):
            if st[0] != 'if' or not st[1]:
                raise TrErr(f'{fn}: a run-time `if` (or another statement) inside the dispatch chain: ' + stmt_text(st))
            ct = text(st[2])
            if ct not in conds:
                raise TrErr(f'{fn}: unsupported dispatch condition: ' + ct)
            return ([f'{ind}if {conds[ct]} then'] + leaf(st[3], ind + '  ') + [f'{ind}else'] +
                    (chain(st[4][0], ind + '  ') if st[4] is not None and len(st[4]) == 1 and st[4][0][0] == 'if' else leaf(st[4] or [], ind + '  ')))

        def leaf(L, ind):
            t = [stmt_text(s_) for s_ in L]
            if not L:
                return [ind + 'SparseRoute.nothing']
            if t == [f'T::{fn} ( sp , a , i0 ) ;']:
                return [ind + 'SparseRoute.special']
            if t == [f'T::{inv_name} ( sp , a , i0 ) ;']:
                return [ind + 'SparseRoute.specialInv']
            if len(L) == 1 and L[0][0] == 'for':
                found['ident'] = L[0]
                return [ind + 'SparseRoute.identity']
            if len(L) == 2 and L[0][0] == 'simple' and L[1][0] == 'for':
                found['dense'] = L
                return [ind + 'SparseRoute.dense']
            raise TrErr(f'{fn}: unsupported branch: ' + ' '.join(t))
        lines = chain(body[1], '  ')
        out += fn_def(P + '_route', [('comm', 'Bool'), ('inv', 'Bool'), ('hasSpec', 'Bool'), ('hasSpecInv', 'Bool')], 'SparseRoute', lines,
                      f'`{fn}<G, Inv>`: the branch taken (`comm = IsCommutative<G>`, `hasSpec`/`hasSpecInv` = the `requires` tests for a specialised method of `lie_sparse<G>`)')
        tr = Tr2(P, {'hook': nat_hook})
        if 'ident' in found:
            lp = found['ident']
            v, lo, hi = for_header(tr, lp, {'n': Var('nat')})
            c = classify(lp[4][0][1]) if len(lp[4]) == 1 and lp[4][0][0] == 'simple' else ('?',)
            if (lo, hi) != ('0', 'n') or c[0] != 'assign' or c[2] != '=' or not is_call(c[1], None, 2) or nospace(ser(unparen(c[1])[1])) != 'sp.coeffRef':
                raise TrErr(f'{fn}: identity branch changed: ' + stmt_text(lp))
            env = {'i0': Var('nat'), v: Var('nat')}
            a_ = unparen(c[1])[2]
            out += fn_def(P + '_ident', [('i0', 'Nat'), (v, 'Nat')], 'Nat × Nat × α',
                          [f'  ({tr.expr(a_[0], env, "nat")[0]}, {tr.expr(a_[1], env, "nat")[0]}, {tr.expr(c[3], env, "real")[0]})'],
                          f'`{fn}`, commutative branch: the write `{stmt_text(lp[4][0])}` for `i = 0 .. a.size() - 1`')
        if 'dense' not in found:
            raise TrErr(f'{fn}: dense fallback branch not found')
        dcl, lp = found['dense']
        want = (f'const {"TangentMap" if order == 1 else "Hessian"}<G> D = [ & ] {{ if constexpr ( Inv ) return {densei} ( a ) ; else return {dense} ( a ) ; }} ( ) ;')
        if stmt_text(dcl) != want:
            raise TrErr(f'{fn}: selection of the dense matrix changed (pinned): ' + stmt_text(dcl))
        out += [l.replace(f'def {P}_select ', f'def {P}_select {{T : Type}} ') for l in
                fn_def(P + '_select', [('inv', 'Bool'), ('direct', 'T'), ('inverse', 'T')], 'T', ['  if inv = true then inverse else direct'],
                       f'`D = Inv ? {densei}(a) : {dense}(a)` (pinned lambda)')]
        v, lo, hi = for_header(tr, lp, {'n': Var('nat')})
        inner = lp[4][0] if len(lp[4]) == 1 else None
        if (lo, hi) != ('0', hi_outer) or inner is None or inner[0] != 'for' or \
                (text(inner[1]), text(inner[2]), text(inner[3])) != (f'Eigen::InnerIterator it ( {pat} , {v} )', 'it', '++ it'):
            raise TrErr(f'{fn}: the sweep over `{pat}` changed: ' + stmt_text(lp))
        wr = {}

        def ah(tr_, lhs, op, rhs, env_, ind):
            if is_call(lhs, None, 2) and nospace(ser(unparen(lhs)[1])) == 'sp.coeffRef' and op == '=' and is_call(rhs, 'D', 2):
                wr['key'] = [tr_.expr(x_, env_, 'nat')[0] for x_ in unparen(lhs)[2]]
                wr['src'] = [tr_.expr(x_, env_, 'nat')[0] for x_ in unparen(rhs)[2]]
                return [], env_
            return None
        trw = Tr2(P + '_write', {'hook': nat_hook, 'assign_hook': ah})
        lines = trw.stmts(inner[4], {'i0': Var('nat'), 'rows': Var('nat'), 'n': Var('nat'), 'r': Var('nat'), 'c': Var('nat')}, '  ',
                          Kont(fall=lambda e_, i_: [f'{i_}(({wr["key"][0]}, {wr["key"][1]}), ({wr["src"][0]}, {wr["src"][1]}))'] if wr else
                               (_ for _ in ()).throw(TrErr(f'{fn}: no `sp.coeffRef(…) = D(…)` in the sweep')), ret=None))
        out += fn_def(P + '_write', [('rows', 'Nat'), ('n', 'Nat'), ('i0', 'Nat'), ('r', 'Nat'), ('c', 'Nat')], '(Nat × Nat) × (Nat × Nat)', lines,
                      f'`{fn}`, dense fallback, for the pattern entry `(r, c) = (it.row(), it.col())` (outer loop over all {hi_outer} columns × '
                      'InnerIterator = all stored entries, column-major): ((row, column) written in `sp`, (row, column) read from `D`); `rows = sp.rows()`, `n = Dof<G>`')
    return out


def generate_c19(repo):
    L = header('detail/lie_group_sparse_impl.hpp', ['SmoothModel.Scalar', 'SmoothModel.Lin'], 'variable {α : Type} [Scalar α]', [])
    return '\n'.join(L + gen_sparse(repo) + ['end LogicSrc']) + '\n'


# =============================================================================== driver
FILES = [('LogicSrcC08.lean', 'diff_impl.hpp', generate_c08), ('LogicSrcC10.lean', 'tr_solver.hpp', generate_c10),
         ('LogicSrcC11.lean', 'cumulative_spline_impl.hpp', generate_c11), ('LogicSrcC12.lean', 'spline_impl.hpp', generate_c12),
         ('LogicSrcC19.lean', 'lie_group_sparse_impl.hpp', generate_c19)]


def generate_all(repo):
    """-> {file name: text}"""
    res = {}
    for fn, what, g in FILES:
        try:
            res[fn] = g(repo)
        except TrErr as ex:
            raise TrErr(f'{what}: {ex}')
    return res


if __name__ == '__main__':
    repo = sys.argv[1] if len(sys.argv) > 1 else '/repo'
    try:
        for fn, txt in generate_all(repo).items():
            sys.stdout.write(f'----- {fn}\n{txt}')
    except TrErr as ex:
        print('gen_logic2: cannot translate the current source:', ex)
        sys.exit(1)
