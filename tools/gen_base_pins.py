"""expected normalised token sequences of the textually pinned parts of the generic layer (see tools/gen_base.py).
Regenerate with `python3 tools/gen_base.py --pins /repo > tools/gen_base_pins.py` AFTER reviewing the change."""
PINS = {
    'lie_group_base.hpp: outside of class LieGroupBase':
        'SMOOTH_BEGIN_NAMESPACE template < typename T > struct liebase_info { } ; template < typename Derived > class LieGroupBase { } ; template < typename Stream , typename Derived > Stream & operator << ( Stream & s , const LieGroupBase < Derived > & g ) { s << static_cast < const Derived & > ( g ) . coeffs ( ) . transpose ( ) ; return s ; } template < typename T > class Map ; template < typename T > using MapDispatch = std :: conditional_t < std :: is_base_of_v < Eigen :: MatrixBase < std :: remove_const_t < T > > , std :: remove_const_t < T > > , :: Eigen :: Map < T > , :: smooth :: Map < T > > ; SMOOTH_END_NAMESPACE',
    'lie_group_base.hpp: preprocessor lines':
        '#pragma once | #include <Eigen/Core> | #include "smooth/version.hpp"',
    'derivatives.hpp: preprocessor lines':
        '#pragma once | #include <Eigen/Core> | #include "lie_groups.hpp" | #include "detail/derivatives_impl.hpp"',
    'derivatives_impl.hpp: preprocessor lines':
        '#pragma once | #include "../derivatives.hpp"',
    'LieGroupBase: members':
        'private derived | private cderived | protected LieGroupBase | protected using traits | protected using Impl | protected constexpr is_mutable | public constexpr RepSize | public constexpr Dof | public constexpr Dim | public constexpr IsCommutative | public using Scalar | public using Matrix | public using Tangent | public using TangentMap | public using Hessian | public using CastT | public using PlainObject | public coeffs | public coeffs#2 | public data | public data#2 | public operator= | public dof | public setIdentity | public setRandom | public Identity | public Random | public matrix | public isApprox | public cast | public operator* | public operator*= | public inverse | public log | public Ad | public operator+ | public operator+= | public operator- | public exp | public hat | public vee | public ad | public lie_bracket | public dr_exp | public dr_expinv | public dl_exp | public dl_expinv | public d2r_exp | public d2r_expinv | public d2l_exp | public d2l_expinv',
    'derivatives.hpp':
        'SMOOTH_BEGIN_NAMESPACE template < typename At , typename dAt , typename Bt , typename dBt > auto d_matrix_product ( const At & A , const dAt & dA , const Bt & B , const dBt & dB ) ; template < typename JfT , typename HfT , typename JgT , typename HgT > auto d2_fog ( const JfT & Jf , const HfT & Hf , const JgT & Jg , const HgT & Hg ) ; template < LieGroup G > TangentMap < G > dr_rminus ( const Tangent < G > & e ) ; template < LieGroup G > Hessian < G > d2r_rminus ( const Tangent < G > & e ) ; template < LieGroup G > Eigen :: RowVector < Scalar < G > , Dof < G > > dr_rminus_squarednorm ( const Tangent < G > & e ) ; template < LieGroup G > Eigen :: Matrix < Scalar < G > , Dof < G > , Dof < G > > d2r_rminus_squarednorm ( const Tangent < G > & e ) ; SMOOTH_END_NAMESPACE',
    'derivatives_impl.hpp: functions':
        'd_matrix_product | d2_fog | dr_rminus | d2r_rminus | dr_rminus_squarednorm | d2r_rminus_squarednorm',
    'concepts/lie_group.hpp: dr_expinv<G>':
        'inline TangentMap < G > dr_expinv ( Arg && a ) { return traits :: lie < G > :: dr_expinv ( std :: forward < Arg > ( a ) ) ; }',
    'lie_groups/native.hpp: traits::lie<G>::dr_expinv':
        'static inline typename G :: TangentMap dr_expinv ( const Eigen :: MatrixBase < Derived > & a ) { return G :: dr_expinv ( a ) ; }',
    'concepts/lie_group.hpp: d2r_expinv<G>':
        'inline Hessian < G > d2r_expinv ( Arg && a ) { return traits :: lie < G > :: d2r_expinv ( std :: forward < Arg > ( a ) ) ; }',
    'lie_groups/native.hpp: traits::lie<G>::d2r_expinv':
        'static inline typename G :: Hessian d2r_expinv ( const Eigen :: MatrixBase < Derived > & a ) { return G :: d2r_expinv ( a ) ; }',
    'LieGroupBase::derived [signature]':
        'Derived & derived ( ) noexcept',
    'LieGroupBase::derived [body]':
        'return static_cast < Derived & > ( * this ) ;',
    'LieGroupBase::cderived [signature]':
        'const Derived & cderived ( ) const noexcept',
    'LieGroupBase::cderived [body]':
        'return static_cast < const Derived & > ( * this ) ;',
    'LieGroupBase::LieGroupBase [signature]':
        'LieGroupBase ( ) = default',
    'LieGroupBase::LieGroupBase [body]':
        '<no body>',
    'LieGroupBase::using traits [signature]':
        'using traits = liebase_info < Derived >',
    'LieGroupBase::using traits [body]':
        '<no body>',
    'LieGroupBase::using Impl [signature]':
        'using Impl = typename traits :: Impl',
    'LieGroupBase::using Impl [body]':
        '<no body>',
    'LieGroupBase::constexpr is_mutable [signature]':
        'static constexpr bool is_mutable = traits :: is_mutable',
    'LieGroupBase::constexpr is_mutable [body]':
        '<no body>',
    'LieGroupBase::constexpr RepSize [signature]':
        'static constexpr int RepSize = Impl :: RepSize',
    'LieGroupBase::constexpr RepSize [body]':
        '<no body>',
    'LieGroupBase::constexpr Dof [signature]':
        'static constexpr int Dof = Impl :: Dof',
    'LieGroupBase::constexpr Dof [body]':
        '<no body>',
    'LieGroupBase::constexpr Dim [signature]':
        'static constexpr int Dim = Impl :: Dim',
    'LieGroupBase::constexpr Dim [body]':
        '<no body>',
    'LieGroupBase::constexpr IsCommutative [signature]':
        'static constexpr bool IsCommutative = Impl :: IsCommutative',
    'LieGroupBase::constexpr IsCommutative [body]':
        '<no body>',
    'LieGroupBase::using Scalar [signature]':
        'using Scalar = typename traits :: Scalar',
    'LieGroupBase::using Scalar [body]':
        '<no body>',
    'LieGroupBase::using Matrix [signature]':
        'using Matrix = Eigen :: Matrix < Scalar , Dim , Dim >',
    'LieGroupBase::using Matrix [body]':
        '<no body>',
    'LieGroupBase::using Tangent [signature]':
        'using Tangent = Eigen :: Matrix < Scalar , Dof , 1 >',
    'LieGroupBase::using Tangent [body]':
        '<no body>',
    'LieGroupBase::using TangentMap [signature]':
        'using TangentMap = Eigen :: Matrix < Scalar , Dof , Dof >',
    'LieGroupBase::using TangentMap [body]':
        '<no body>',
    'LieGroupBase::using Hessian [signature]':
        'using Hessian = Eigen :: Matrix < Scalar , Dof , Dof * Dof >',
    'LieGroupBase::using Hessian [body]':
        '<no body>',
    'LieGroupBase::using CastT [signature]':
        'template < typename NewScalar > using CastT = typename traits :: template PlainObject < NewScalar >',
    'LieGroupBase::using CastT [body]':
        '<no body>',
    'LieGroupBase::using PlainObject [signature]':
        'using PlainObject = CastT < Scalar >',
    'LieGroupBase::using PlainObject [body]':
        '<no body>',
    'LieGroupBase::coeffs [signature]':
        'template < bool = true > requires ( is_mutable ) auto & coeffs ( ) const',
    'LieGroupBase::coeffs [body]':
        'return derived ( ) . coeffs ( ) ;',
    'LieGroupBase::coeffs#2 [signature]':
        'const auto & coeffs ( ) const',
    'LieGroupBase::coeffs#2 [body]':
        'return cderived ( ) . coeffs ( ) ;',
    'LieGroupBase::data [signature]':
        'template < bool = true > requires ( is_mutable ) auto * data ( ) const',
    'LieGroupBase::data [body]':
        'return derived ( ) . data ( ) ;',
    'LieGroupBase::data#2 [signature]':
        'const auto * data ( ) const',
    'LieGroupBase::data#2 [body]':
        'return cderived ( ) . data ( ) ;',
    'LieGroupBase::operator= [signature]':
        'template < typename OtherDerived > requires ( is_mutable && std :: is_same_v < Impl , typename liebase_info < OtherDerived > :: Impl > ) Derived & operator = ( const LieGroupBase < OtherDerived > & o ) noexcept',
    'LieGroupBase::operator= [body]':
        'derived ( ) . coeffs ( ) = static_cast < const OtherDerived & > ( o ) . coeffs ( ) ; return derived ( ) ;',
    'LieGroupBase::dof [signature]':
        'Eigen :: Index dof ( ) const noexcept',
    'LieGroupBase::dof [body]':
        'return Dof ;',
    'LieGroupBase::setIdentity [signature]':
        'void setIdentity ( ) noexcept',
    'LieGroupBase::setIdentity [body]':
        'Impl :: setIdentity ( derived ( ) . coeffs ( ) ) ;',
    'LieGroupBase::setRandom [signature]':
        'void setRandom ( ) noexcept',
    'LieGroupBase::setRandom [body]':
        'Impl :: setRandom ( derived ( ) . coeffs ( ) ) ;',
    'LieGroupBase::Identity [signature]':
        '[ [ nodiscard ] ] static PlainObject Identity ( ) noexcept',
    'LieGroupBase::Random [signature]':
        '[ [ nodiscard ] ] static PlainObject Random ( ) noexcept',
    'LieGroupBase::Random [body]':
        'PlainObject ret ; ret . setRandom ( ) ; return ret ;',
    'LieGroupBase::matrix [signature]':
        'Matrix matrix ( ) const noexcept',
    'LieGroupBase::isApprox [signature]':
        'template < typename OtherDerived > requires ( std :: is_same_v < Impl , typename liebase_info < OtherDerived > :: Impl > ) bool isApprox ( const LieGroupBase < OtherDerived > & o , const Scalar & eps = Eigen :: NumTraits < Scalar > :: dummy_precision ( ) ) const noexcept',
    'LieGroupBase::isApprox [body]':
        'return cderived ( ) . coeffs ( ) . isApprox ( static_cast < const OtherDerived & > ( o ) . coeffs ( ) , eps ) ;',
    'LieGroupBase::cast [signature]':
        'template < typename NewScalar > [ [ nodiscard ] ] CastT < NewScalar > cast ( ) const noexcept',
    'LieGroupBase::cast [body]':
        'CastT < NewScalar > ret ; ret . coeffs ( ) = cderived ( ) . coeffs ( ) . template cast < NewScalar > ( ) ; return ret ;',
    'LieGroupBase::operator* [signature]':
        'template < typename OtherDerived > requires ( std :: is_same_v < Impl , typename liebase_info < OtherDerived > :: Impl > ) PlainObject operator * ( const LieGroupBase < OtherDerived > & o ) const noexcept',
    'LieGroupBase::operator*= [signature]':
        'template < typename OtherDerived > requires ( is_mutable && std :: is_same_v < Impl , typename liebase_info < OtherDerived > :: Impl > ) Derived & operator *= ( const LieGroupBase < OtherDerived > & o ) noexcept',
    'LieGroupBase::operator*= [body]':
        'derived ( ) . coeffs ( ) = ( * this * o ) . coeffs ( ) ; return derived ( ) ;',
    'LieGroupBase::inverse [signature]':
        '[ [ nodiscard ] ] PlainObject inverse ( ) const noexcept',
    'LieGroupBase::log [signature]':
        '[ [ nodiscard ] ] Tangent log ( ) const noexcept',
    'LieGroupBase::Ad [signature]':
        'TangentMap Ad ( ) const noexcept',
    'LieGroupBase::operator+ [signature]':
        'template < typename TangentDerived > PlainObject operator + ( const Eigen :: MatrixBase < TangentDerived > & a ) const noexcept',
    'LieGroupBase::operator+= [signature]':
        'template < typename TangentDerived > requires ( is_mutable ) Derived & operator += ( const Eigen :: MatrixBase < TangentDerived > & a ) noexcept',
    'LieGroupBase::operator+= [body]':
        '* this *= exp ( a ) ; return derived ( ) ;',
    'LieGroupBase::operator- [signature]':
        'template < typename OtherDerived > requires ( std :: is_same_v < Impl , typename liebase_info < OtherDerived > :: Impl > ) Tangent operator - ( const LieGroupBase < OtherDerived > & xo ) const noexcept',
    'LieGroupBase::exp [signature]':
        'template < typename TangentDerived > static PlainObject exp ( const Eigen :: MatrixBase < TangentDerived > & a ) noexcept',
    'LieGroupBase::hat [signature]':
        'template < typename TangentDerived > static Matrix hat ( const Eigen :: MatrixBase < TangentDerived > & a ) noexcept',
    'LieGroupBase::vee [signature]':
        'template < typename MatrixDerived > static Tangent vee ( const Eigen :: MatrixBase < MatrixDerived > & A ) noexcept',
    'LieGroupBase::ad [signature]':
        'template < typename TangentDerived > static TangentMap ad ( const Eigen :: MatrixBase < TangentDerived > & a ) noexcept',
    'LieGroupBase::lie_bracket [signature]':
        'template < typename TangentDerived1 , typename TangentDerived2 > static Tangent lie_bracket ( const Eigen :: MatrixBase < TangentDerived1 > & a , const Eigen :: MatrixBase < TangentDerived2 > & b ) noexcept',
    'LieGroupBase::dr_exp [signature]':
        'template < typename TangentDerived > static TangentMap dr_exp ( const Eigen :: MatrixBase < TangentDerived > & a ) noexcept',
    'LieGroupBase::dr_expinv [signature]':
        'template < typename TangentDerived > static TangentMap dr_expinv ( const Eigen :: MatrixBase < TangentDerived > & a ) noexcept',
    'LieGroupBase::dl_exp [signature]':
        'template < typename TangentDerived > static TangentMap dl_exp ( const Eigen :: MatrixBase < TangentDerived > & a ) noexcept',
    'LieGroupBase::dl_expinv [signature]':
        'template < typename TangentDerived > static TangentMap dl_expinv ( const Eigen :: MatrixBase < TangentDerived > & a ) noexcept',
    'LieGroupBase::d2r_exp [signature]':
        'template < typename TangentDerived > static Hessian d2r_exp ( const Eigen :: MatrixBase < TangentDerived > & a ) noexcept',
    'LieGroupBase::d2r_expinv [signature]':
        'template < typename TangentDerived > static Hessian d2r_expinv ( const Eigen :: MatrixBase < TangentDerived > & a ) noexcept',
    'LieGroupBase::d2l_exp [signature]':
        'template < typename TangentDerived > static Hessian d2l_exp ( const Eigen :: MatrixBase < TangentDerived > & a ) noexcept',
    'LieGroupBase::d2l_expinv [signature]':
        'template < typename TangentDerived > static Hessian d2l_expinv ( const Eigen :: MatrixBase < TangentDerived > & a ) noexcept',
    'derivatives_impl.hpp::d_matrix_product [signature]':
        'template < typename At , typename dAt , typename Bt , typename dBt > auto d_matrix_product ( const At & A , const dAt & dA , const Bt & B , const dBt & dB )',
    'derivatives_impl.hpp::d_matrix_product [body]':
        'using Scalar = std :: common_type_t < typename At :: Scalar , typename dAt :: Scalar , typename Bt :: Scalar , typename dBt :: Scalar > ; static constexpr int N = At :: ColsAtCompileTime ; static constexpr int M = Bt :: RowsAtCompileTime ; static constexpr int Nvar = [ ] ( ) -> int { if constexpr ( dAt :: ColsAtCompileTime > 0 && N > 0 ) { return dAt :: ColsAtCompileTime / N ; } else if ( dBt :: ColsAtCompileTime > 0 && M > 0 ) { return dBt :: ColsAtCompileTime / M ; } else { return - 1 ; } } ( ) ; const auto n = A . cols ( ) ; [ [ maybe_unused ] ] const auto k = A . rows ( ) ; const auto m = B . rows ( ) ; const auto nvar = dA . cols ( ) / ( n ) ; assert ( k == B . cols ( ) ) ; assert ( nvar == dB . size ( ) / ( m * k ) ) ; static constexpr int dAB_cols = ( M > 0 && Nvar > 0 ) ? M * Nvar : - 1 ; Eigen :: Matrix < Scalar , N , dAB_cols > dAB = B . transpose ( ) * dA ; for ( auto i = 0 ; i < n ; ++ i ) { for ( auto j = 0 ; j < m ; ++ j ) { dAB . template middleCols < Nvar > ( i * nvar , nvar ) += A ( i , j ) * dB . template middleCols < Nvar > ( j * nvar , nvar ) ; } } return dAB ;',
    'derivatives_impl.hpp::d2_fog [signature]':
        'template < typename JfT , typename HfT , typename JgT , typename HgT > auto d2_fog ( const JfT & Jf , const HfT & Hf , const JgT & Jg , const HgT & Hg )',
    'derivatives_impl.hpp::d2_fog [body]':
        'using Scalar = std :: common_type_t < typename JfT :: Scalar , typename HfT :: Scalar , typename JgT :: Scalar , typename HgT :: Scalar > ; static constexpr int No = JfT :: RowsAtCompileTime ; static constexpr int Ny = JfT :: ColsAtCompileTime ; static constexpr int Nx = JgT :: ColsAtCompileTime ; const auto no = Jf . rows ( ) ; const auto ny = Jf . cols ( ) ; [ [ maybe_unused ] ] const auto ni = Jg . rows ( ) ; const auto nx = Jg . cols ( ) ; assert ( ny == ni ) ; assert ( Hf . rows ( ) == ny ) ; assert ( Hf . cols ( ) == no * ny ) ; assert ( Hg . rows ( ) == nx ) ; assert ( Hg . cols ( ) == ni * nx ) ; Eigen :: Matrix < Scalar , Nx , ( No == - 1 || Nx == - 1 ) ? - 1 : No * Nx > ret ( nx , no * nx ) ; ret . setZero ( ) ; for ( auto i = 0 ; i < no ; ++ i ) { ret . template block < Nx , Nx > ( 0 , i * nx , nx , nx ) += Jg . transpose ( ) * Hf . template middleCols < Ny > ( i * ny , ny ) * Jg ; } for ( auto i = 0 ; i < Jf . outerSize ( ) ; ++ i ) { for ( Eigen :: InnerIterator it ( Jf , i ) ; it ; ++ it ) { ret . template block < Nx , Nx > ( 0 , it . row ( ) * nx , nx , nx ) += it . value ( ) * Hg . template middleCols < Nx > ( it . col ( ) * nx , nx ) ; } } return ret ;',
    'derivatives_impl.hpp::dr_rminus [signature]':
        'template < LieGroup G > TangentMap < G > dr_rminus ( const Tangent < G > & e )',
    'derivatives_impl.hpp::d2r_rminus [signature]':
        'template < LieGroup G > Hessian < G > d2r_rminus ( const Tangent < G > & e )',
    'derivatives_impl.hpp::dr_rminus_squarednorm [signature]':
        'template < LieGroup G > Eigen :: RowVector < Scalar < G > , Dof < G > > dr_rminus_squarednorm ( const Tangent < G > & e )',
    'derivatives_impl.hpp::d2r_rminus_squarednorm [signature]':
        'template < LieGroup G > Eigen :: Matrix < Scalar < G > , Dof < G > , Dof < G > > d2r_rminus_squarednorm ( const Tangent < G > & e )',
}
