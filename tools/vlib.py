#!/usr/bin/env python3
"""vlib.py — shared machinery of the checks: paths, builds (lake, harness with content-hash cache),
driver invocation, T1 comparison with a sensitivity second pass, axiom audit, evidence, replays,
known findings."""
import fcntl, hashlib, json, math, os, re, struct, subprocess, sys, time
from concurrent.futures import ThreadPoolExecutor

ROOT = os.path.abspath(os.path.join(os.path.dirname(__file__), '..'))
REPO = os.environ.get('VERIF_REPO', '/repo')
BUILD = os.path.join(ROOT, 'build')
LEAN = os.path.join(ROOT, 'lean')
DRV = os.path.join(LEAN, '.lake', 'build', 'bin', 'smoothdrv')
EVID = os.path.join(ROOT, 'evidence')
REPLAYS = os.path.join(ROOT, 'replays')
ALLOWED_AXIOMS = {'propext', 'Classical.choice', 'Quot.sound'}
FORBIDDEN = re.compile(r'\b(sorry|admit|native_decide|bv_decide|implemented_by|unsafe)\b|^\s*axiom\s|maxHeartbeats\s+0\b')

for d in (BUILD, EVID, REPLAYS, os.path.join(BUILD, 'bin'), os.path.join(BUILD, 'gen', 'smooth')):
    os.makedirs(d, exist_ok=True)


class MachineryError(Exception):
    pass


def log(*a):
    print('[check]', *a, file=sys.stderr, flush=True)


# ----------------------------------------------------------------------------- hashing / builds
def file_sha(path):
    h = hashlib.sha256()
    with open(path, 'rb') as f:
        h.update(f.read())
    return h.hexdigest()


_repo_hash = None


def repo_include_hash():
    """content hash of every file under /repo/include and config/version.hpp.in + CMakeLists version"""
    global _repo_hash
    if _repo_hash is None:
        h = hashlib.sha256()
        for base in (os.path.join(REPO, 'include'),):
            for dp, dn, fn in sorted(os.walk(base)):
                dn.sort()
                for f in sorted(fn):
                    p = os.path.join(dp, f)
                    h.update(p.encode())
                    h.update(file_sha(p).encode())
        for p in (os.path.join(REPO, 'config', 'version.hpp.in'), os.path.join(REPO, 'CMakeLists.txt')):
            if os.path.exists(p):
                h.update(file_sha(p).encode())
        _repo_hash = h.hexdigest()
    return _repo_hash


def gen_version_header():
    src = open(os.path.join(REPO, 'config', 'version.hpp.in')).read()
    cm = open(os.path.join(REPO, 'CMakeLists.txt')).read()
    m = re.search(r'project\(\s*smooth\s+VERSION\s+(\d+)\.(\d+)\.(\d+)', cm)
    ver = m.groups() if m else ('1', '1', '0')
    out = (src.replace('@CMAKE_PROJECT_VERSION_MAJOR@', ver[0]).replace('@CMAKE_PROJECT_VERSION_MINOR@', ver[1])
           .replace('@CMAKE_PROJECT_VERSION_PATCH@', ver[2]).replace('@CMAKE_PROJECT_VERSION@', '.'.join(ver)))
    p = os.path.join(BUILD, 'gen', 'smooth', 'version.hpp')
    if not os.path.exists(p) or open(p).read() != out:
        open(p, 'w').write(out)


CXX = ['g++', '-std=c++20', '-O0', '-w', '-I' + os.path.join(REPO, 'include'), '-I' + os.path.join(BUILD, 'gen'),
       '-I/usr/include/eigen3', '-I' + os.path.join(ROOT, 'harness')]


def build_harness(name, src, flags=(), extra_deps=()):
    """compile harness/<src> against the CURRENT /repo/include; cached by content hash of
    (repo include tree, harness sources, flags).  Returns path of the binary."""
    gen_version_header()
    srcp = os.path.join(ROOT, 'harness', src)
    h = hashlib.sha256()
    h.update(repo_include_hash().encode())
    h.update(file_sha(srcp).encode())
    for d in ('common.hpp',) + tuple(extra_deps):
        h.update(file_sha(os.path.join(ROOT, 'harness', d)).encode())
    h.update(' '.join(flags).encode())
    h.update(' '.join(CXX).encode())
    key = h.hexdigest()[:20]
    # one cache directory per state of /repo/include (so that a scratch tree or a temporarily
    # patched /repo does not evict the binaries of the unchanged tree); oldest directories are pruned
    rdir = os.path.join(BUILD, 'bin', 'r-' + repo_include_hash()[:12])
    os.makedirs(rdir, exist_ok=True)
    out = os.path.join(rdir, f'{name}-{key}')
    if os.path.exists(out):
        return out
    lock = open(os.path.join(BUILD, 'bin', f'.{name}.lock'), 'w')
    fcntl.flock(lock, fcntl.LOCK_EX)
    try:
        if os.path.exists(out):
            return out
        # drop stale binaries of the same name in this directory, and old directories
        for f in os.listdir(rdir):
            if f.startswith(name + '-'):
                try:
                    os.remove(os.path.join(rdir, f))
                except OSError:
                    pass
        try:
            dirs = sorted((d for d in os.listdir(os.path.join(BUILD, 'bin')) if d.startswith('r-')),
                          key=lambda d: os.path.getmtime(os.path.join(BUILD, 'bin', d)))
            for d in dirs[:-6]:
                # never prune a directory that was touched recently: another process may be
                # compiling into it
                if time.time() - os.path.getmtime(os.path.join(BUILD, 'bin', d)) > 3 * 3600:
                    import shutil
                    shutil.rmtree(os.path.join(BUILD, 'bin', d), ignore_errors=True)
        except OSError:
            pass
        tmp = out + '.tmp'
        cmd = CXX + list(flags) + [srcp, '-o', tmp]
        t0 = time.time()
        r = subprocess.run(cmd, capture_output=True, text=True)
        if r.returncode != 0:
            raise HarnessCompileError(name, r.stderr[-4000:])
        os.replace(tmp, out)
        log(f'built harness {name} in {time.time() - t0:.0f}s')
        return out
    finally:
        fcntl.flock(lock, fcntl.LOCK_UN)


class HarnessCompileError(Exception):
    def __init__(self, name, err):
        super().__init__(f'harness {name} does not compile against the current /repo')
        self.name, self.err = name, err


def build_harnesses(specs):
    """specs: list of (name, src, flags).  Parallel.  Returns dict name -> path."""
    with ThreadPoolExecutor(max_workers=8) as ex:
        futs = {s[0]: ex.submit(build_harness, *s) for s in specs}
        return {k: f.result() for k, f in futs.items()}


class build_lock:
    """re-entrant (per process) exclusive lock on the Lean tree: translators → lake build → axiom audit of one
    check must see one consistent set of Gen/*.lean and .olean files even when several checks run at once
    (possibly against different trees through VERIF_REPO)."""
    _depth = 0
    _fh = None

    def __enter__(self):
        cls = build_lock
        if cls._depth == 0:
            os.makedirs(BUILD, exist_ok=True)
            cls._fh = open(os.path.join(BUILD, '.lake.lock'), 'w')
            fcntl.flock(cls._fh, fcntl.LOCK_EX)
        cls._depth += 1
        return self

    def __exit__(self, *a):
        cls = build_lock
        cls._depth -= 1
        if cls._depth == 0:
            fcntl.flock(cls._fh, fcntl.LOCK_UN)
            cls._fh.close()
            cls._fh = None
        return False


def lake_build(targets):
    """lake build under the build lock.  Returns (ok, output)."""
    with build_lock():
        r = subprocess.run(['lake', 'build'] + list(targets), cwd=LEAN, capture_output=True, text=True)
        return r.returncode == 0, r.stdout + r.stderr


def run_translators():
    """regenerate every Gen/*.lean from the current /repo (tie T2-src).  Every translator is run even when an earlier one
    fails; returns (all ok, combined output, [(tool, its output)] for the tools that failed)."""
    out = ''
    failed = []
    for tool in ('gen_dq.py', 'gen_src.py', 'gen_logic.py', 'gen_bundle.py', 'gen_conv.py', 'gen_fitspec.py'):
        if not os.path.exists(os.path.join(ROOT, 'tools', tool)):
            continue
        r = subprocess.run([sys.executable, os.path.join(ROOT, 'tools', tool), REPO], capture_output=True, text=True)
        out += r.stdout + r.stderr
        if r.returncode != 0:
            failed.append((tool, r.stdout + r.stderr))
    return not failed, out, failed


# namespaces of the generated modules each translator writes (SmoothModel/Gen/*.lean)
TRANSLATOR_NS = {'gen_dq.py': ['SE3Gen'], 'gen_src.py': ['CoefSrc', 'ImplSrc', 'BaseSrc'], 'gen_logic.py': ['LogicSrc'],
                 'gen_bundle.py': ['BundleSrc', 'BundlePubSrc', 'ManifSrc', 'RnSrc'], 'gen_conv.py': ['ConvSrc'],
                 'gen_fitspec.py': ['FitSpecSrc']}


def props_closure(props_files):
    """the SmoothProps files a property's theorem files consist of (closure over `import SmoothProps.X`)"""
    seen, todo = [], list(props_files)
    while todo:
        f = todo.pop()
        if f in seen or not os.path.exists(os.path.join(LEAN, f)):
            continue
        seen.append(f)
        for m in re.findall(r'^import SmoothProps\.(\w+)', open(os.path.join(LEAN, f)).read(), re.M):
            todo.append(f'SmoothProps/{m}.lean')
    return seen


def translator_concerns(P, tool, output):
    """does a hard failure of translator `tool` leave an obligation of property P undischarged?
    Yes iff (a) P's theorem files refer to a module that tool generates, and (b) the header the failure names (when it names
    one) is among the code anchors of P in properties.jsonl.  A failure that names no header concerns every property under (a)."""
    ns = TRANSLATOR_NS.get(tool, [])
    txt = ''.join(open(os.path.join(LEAN, f)).read() for f in props_closure(P.props_files))
    if not any(re.search(r'\b' + n + r'\b', txt) for n in ns):
        return False
    lines = [l for l in output.splitlines() if 'cannot translate' in l or 'Error' in l or 'error' in l] or output.splitlines()[-3:]
    hdrs = set(re.findall(r'([A-Za-z_0-9]+\.hpp)', ' '.join(l[:400] for l in lines)))
    if not hdrs:
        return True
    try:
        anchors = []
        for l in open(os.path.join(ROOT, 'properties.jsonl')):
            d = json.loads(l)
            if d['id'] == P.id:
                anchors = [os.path.basename(a) for a in d['anchors']['files']]
    except (OSError, ValueError, KeyError):
        return True
    return bool(hdrs & set(anchors)) or not anchors


# ----------------------------------------------------------------------------- driver
def run_driver(lines, timeout=3600):
    if not lines:
        return []
    if not os.path.exists(DRV):
        raise MachineryError('driver not built: ' + DRV)
    r = subprocess.run([DRV], input='\n'.join(lines) + '\n', capture_output=True, text=True, timeout=timeout)
    out = r.stdout.splitlines()
    if len(out) != len(lines):
        raise MachineryError(f'driver returned {len(out)} replies for {len(lines)} requests: {r.stderr[-500:]}')
    return out


def run_harness(binary, args=(), stdin=None, env=None, timeout=3600):
    e = dict(os.environ)
    if env:
        e.update(env)
    r = subprocess.run([binary] + [str(a) for a in args], input=stdin, capture_output=True, text=True, env=e, timeout=timeout)
    if r.returncode != 0:
        e = HarnessRunError(binary, r.returncode, r.stderr[-2000:], r.stdout[-500:])
        e.out_lines = r.stdout.splitlines()
        if e.out_lines and not r.stdout.endswith('\n'):
            e.out_lines = e.out_lines[:-1]   # drop a partially written last line
        raise e
    return r.stdout.splitlines()


class HarnessRunError(Exception):
    def __init__(self, binary, rc, err, out):
        super().__init__(f'harness {os.path.basename(binary)} exited with {rc}')
        self.rc, self.err, self.out = rc, err, out


# ----------------------------------------------------------------------------- words
EPS = {'f64': 2.0 ** -52, 'f32': 2.0 ** -23}


def dec(w, prec):
    if prec.startswith('f64'):
        return struct.unpack('>d', bytes.fromhex(w))[0]
    return struct.unpack('>f', bytes.fromhex(w))[0]


def enc(x, prec):
    if prec.startswith('f64'):
        return struct.pack('>d', x).hex()
    return struct.pack('>f', x).hex()


def nudge(w, prec, k):
    """move a finite non-zero word by k units in the last place"""
    n = int(w, 16)
    width = 16 if prec.startswith('f64') else 8
    expmask = 0x7FF0000000000000 if width == 16 else 0x7F800000
    signbit = 1 << (4 * width - 1)
    mag = n & (signbit - 1)
    if mag == 0 or (mag & expmask) == expmask:
        return w
    mag2 = max(1, mag + k)
    if (mag2 & expmask) == expmask:
        return w
    return format((n & signbit) | mag2, f'0{width}x')


class Line:
    """one protocol line: op grp prec in… | out… # tag"""
    __slots__ = ('op', 'grp', 'prec', 'ins', 'outs', 'tag', 'raw')

    def __init__(self, raw):
        self.raw = raw
        body, _, tag = raw.partition(' # ')
        req, _, out = body.partition(' |')
        t = req.split()
        self.op, self.grp, self.prec = t[0], t[1], t[2]
        self.ins = t[3:]
        self.outs = out.split()
        self.tag = tag.strip()

    def request(self):
        return ' '.join([self.op, self.grp, self.prec] + self.ins)

    def in_vals(self):
        return [dec(w, self.prec) for w in self.ins]

    def out_vals(self):
        return [dec(w, self.prec) for w in self.outs]


def parse_lines(raw):
    return [Line(l) for l in raw if l.strip() and not l.startswith('SKIP')]


# ops whose result is a product of two input-sized factors (gradient aᵀ·J(a), Hessian JᵀJ + …): the
# intermediate products have magnitude |a|², so rounding-order differences between Eigen and the model
# are of order eps·|a|² even where the exact result cancels to something small (DESIGN §8.6)
QUADRATIC_OPS = ('dr_rminus_sqn', 'd2r_rminus_sqn')


def diff_ulp(impl_words, model_words, prec, in_words=(), quadratic=False):
    """max |impl − model| in eps units of the largest finite entry among outputs (and inputs; for
    `quadratic` ops also the square of the largest input).  Returns (err, detail)."""
    if len(impl_words) != len(model_words):
        return float('inf'), f'length impl={len(impl_words)} model={len(model_words)}'
    iv = [dec(w, prec) for w in impl_words]
    mv = [dec(w, prec) for w in model_words]
    scale = 0.0
    for a in iv + mv + [dec(w, prec) for w in in_words]:
        if math.isfinite(a):
            scale = max(scale, abs(a))
    if quadratic:
        for w in in_words:
            a = dec(w, prec)
            if math.isfinite(a):
                scale = max(scale, a * a)
    worst = 0.0
    for a, b in zip(iv, mv):
        if math.isnan(a) or math.isnan(b):
            if math.isnan(a) != math.isnan(b):
                return float('inf'), 'nan-class'
            continue
        if math.isinf(a) or math.isinf(b):
            if a != b:
                return float('inf'), 'inf-class'
            continue
        d = abs(a - b)
        if d:
            worst = max(worst, d / (scale * EPS[prec]) if scale > 0 else float('inf'))
    return worst, ''


def t1_compare(lines, tol_ulp=64.0, exact_ops=(), rng_seed=1, sens_variants=6, sens_factor=8.0):
    """Correspondence check.  For every line compare implementation output with the model's.
    Lines over tolerance get a second pass: the model is re-evaluated on inputs nudged by ±1 ulp;
    a disagreement within `sens_factor` × the model's own sensitivity to such nudges is attributed
    to conditioning (summation order upstream), anything else is a correspondence break.
    Returns dict(stats=…, breaks=[…])."""
    import random
    rnd = random.Random(rng_seed)
    replies = run_driver([l.request() for l in lines])
    stats = {}
    suspects = []
    breaks = []
    for l, rep in zip(lines, replies):
        key = f'{l.op}|{l.grp}|{l.prec}'
        st = stats.setdefault(key, {'n': 0, 'worst_ulp': 0.0, 'excused_by_sensitivity': 0})
        st['n'] += 1
        if rep.startswith('ERR'):
            breaks.append({'line': l.raw, 'model': rep, 'err_ulp': None, 'why': 'model-error'})
            continue
        mw = rep.split()
        tol = 0.0 if l.op in exact_ops else tol_ulp
        err, det = diff_ulp(l.outs, mw, l.prec, l.ins, l.op in QUADRATIC_OPS)
        if err <= tol:
            st['worst_ulp'] = max(st['worst_ulp'], err)
        else:
            suspects.append((l, mw, err, det, key, tol))
    if suspects:
        reqs = []
        nvar = []
        for (l, mw, err, det, key, tol) in suspects:
            variants = []
            n_in = len(l.ins)
            # every single coordinate by ±1, ±2 ulp (branch boundaries such as th2 < eps2 are crossed by
            # one of them), plus random combinations
            for i in range(n_in):
                for k in (-2, -1, 1, 2):
                    v = list(l.ins); v[i] = nudge(v[i], l.prec, k); variants.append(v)
            for v in range(sens_variants):
                variants.append([nudge(w, l.prec, rnd.choice((-2, -1, 0, 1, 2))) for w in l.ins])
            nvar.append(len(variants))
            for ins in variants:
                reqs.append(' '.join([l.op, l.grp, l.prec] + ins))
        reps = run_driver(reqs)
        pos = 0
        for si, (l, mw, err, det, key, tol) in enumerate(suspects):
            mine = reps[pos:pos + nvar[si]]
            pos += nvar[si]
            if det or l.op in exact_ops:
                breaks.append({'line': l.raw, 'model': ' '.join(mw), 'err_ulp': err, 'why': det or 'exact-op'})
                continue
            sens = 0.0
            for r in mine:
                if r.startswith('ERR'):
                    continue
                e2, d2 = diff_ulp(mw, r.split(), l.prec, l.ins, l.op in QUADRATIC_OPS)
                if not d2:
                    sens = max(sens, e2)
            if err <= tol + sens_factor * sens:
                stats[key]['excused_by_sensitivity'] += 1
            else:
                breaks.append({'line': l.raw, 'model': ' '.join(mw), 'err_ulp': err, 'sensitivity_ulp': sens,
                               'why': 'disagreement'})
    return {'stats': stats, 'breaks': breaks}


# ----------------------------------------------------------------------------- proofs audit
def strip_comments(src):
    # remove /- … -/ (nested) and -- … comments
    out, i, depth = [], 0, 0
    while i < len(src):
        if src.startswith('/-', i):
            depth += 1; i += 2; continue
        if src.startswith('-/', i) and depth > 0:
            depth -= 1; i += 2; continue
        if depth == 0:
            if src.startswith('--', i):
                j = src.find('\n', i)
                i = len(src) if j < 0 else j
                continue
            out.append(src[i])
        elif src[i] == '\n':
            out.append('\n')
        i += 1
    return ''.join(out)


def grep_forbidden():
    hits = []
    for sub in ('SmoothModel', 'SmoothProofs', 'SmoothProps', 'Driver'):
        for dp, dn, fn in os.walk(os.path.join(LEAN, sub)):
            for f in fn:
                if f.endswith('.lean'):
                    p = os.path.join(dp, f)
                    txt = strip_comments(open(p).read())
                    for ln, line in enumerate(txt.split('\n'), 1):
                        if FORBIDDEN.search(line):
                            hits.append(f'{os.path.relpath(p, LEAN)}:{ln}: {line.strip()[:120]}')
    return hits


def axioms_audit(module, theorems):
    """`#print axioms` on every theorem; returns dict name -> list of axioms (or None if missing)."""
    src = f'import {module}\n' + '\n'.join(f'#print axioms {t}' for t in theorems) + '\n'
    p = os.path.join(BUILD, f'audit_{module.replace(".", "_")}.lean')
    open(p, 'w').write(src)
    r = subprocess.run(['lake', 'env', 'lean', p], cwd=LEAN, capture_output=True, text=True)
    txt = r.stdout + r.stderr
    res = {}
    for t in theorems:
        m = re.search(r"'" + re.escape(t) + r"' depends on axioms: \[([^\]]*)\]", txt, re.S)
        if m:
            res[t] = [a.strip() for a in m.group(1).replace('\n', ' ').split(',') if a.strip()]
        elif re.search(r"'" + re.escape(t) + r"' does not depend on any axioms", txt):
            res[t] = []
        else:
            res[t] = None
    return res, txt


def list_theorems(lean_file):
    """names of theorems declared in a SmoothProps file (namespace-qualified)."""
    txt = strip_comments(open(lean_file).read())
    ns = []
    names = []
    for line in txt.split('\n'):
        m = re.match(r'^\s*namespace\s+(\S+)', line)
        if m:
            ns.append(m.group(1)); continue
        m = re.match(r'^\s*end\s+(\S+)', line)
        if m and ns and ns[-1] == m.group(1):
            ns.pop(); continue
        m = re.match(r'^\s*(?:@\[[^\]]*\]\s*)?(?:private\s+|protected\s+)?theorem\s+(\S+)', line)
        if m:
            names.append('.'.join(ns + [m.group(1)]))
    return names


# ----------------------------------------------------------------------------- findings
def load_known():
    p = os.path.join(ROOT, 'known_findings.jsonl')
    res = []
    if os.path.exists(p):
        for l in open(p):
            l = l.strip()
            if l and not l.startswith('#'):
                res.append(json.loads(l))
    return res


def write_replay(prop, payload):
    h = hashlib.sha256(json.dumps(payload, sort_keys=True).encode()).hexdigest()[:12]
    p = os.path.join(REPLAYS, f'{prop}-{h}.json')
    json.dump(payload, open(p, 'w'), indent=1)
    return p


def write_evidence(prop, ev):
    json.dump(ev, open(os.path.join(EVID, f'{prop}.json'), 'w'), indent=1)
