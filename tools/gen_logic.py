#!/usr/bin/env python3
"""Translator no. 2 (tie by regeneration from source): the NON-Lie scalar / integer decision logic of
pettni/smooth is parsed from the CURRENT C++ source and re-emitted as Lean definitions in
`SmoothModel/Gen/LogicSrc.lean`; `SmoothProps/SrcTieLogic.lean` proves, on every run, that each generated
definition equals the hand-written model function the property theorems are about (over an arbitrary
`[Scalar α]`).  A changed constant, comparison, sign, branch or operand order in the C++ changes the
generated definition and the tie theorem stops checking.

Translated (see the gen_* functions at the bottom):
  optim/tr_strategy.hpp           CeresStrategy / DisneyStrategy: member initialisers, get_delta, step_and_update
  optim.hpp                       minimize: Status enumerators, loop guard, loop body from `r_n` on (actu_red, pred_red,
                                  rho, accept condition, status chain), returned status, diagonal-scaling clamp
  detail/utils.hpp                binary_interval_search (early returns, while loop -> fuel recursion, pivot)
  spline/detail/bspline_impl.hpp  t_min, t_max, dt, index/clamp arithmetic of operator() (istar, u), vel/acc scaling;
                                  the remaining statements of operator() are pinned textually (drop(istar), take(K+1))
  polynomial/basis.hpp            integrate_absolute_polynomial (whole function); monomial_derivative(s): guard, loop
                                  ranges, P1/P2 recurrences, values written (slices)
  spline/detail/dubins_impl.hpp   dubins_angle, dubins_ccc, dubins_csc (whole functions; SO2/SE2/Vector2d operations are
                                  mapped to the model primitives), the six candidate blocks and accept test of dubins,
                                  the segments emitted by dubins_curve
  spline/detail/reparameterize_impl.hpp   eps, lp2d status indices, per-coordinate steps of v2max(N) and ai, LP rows
                                  and their indices, status chain of the backward pass, v2m initialisation, forward
                                  loop body (si, dt, emitted segment, v2m update)

Widened (same rules, same entry point — `main()` below also writes these files): tools/gen_logic2.py translates
detail/diff_impl.hpp, optim/tr_solver.hpp, spline/detail/cumulative_spline_impl.hpp, spline/detail/spline_impl.hpp and the generic
routines of detail/lie_group_sparse_impl.hpp into SmoothModel/Gen/LogicSrcC08|C10|C11|C12|C19.lean (ties: SmoothProps/SrcTieLogicC*.lean).

Supported C++ subset — everything else is a HARD ERROR naming the construct (never silently skipped):
  statements:  [static|constexpr|const] T x = e; | T x{e}; | T x;   x = e; x op= e; ++x;   using …;
               if / else if / else (also `if constexpr` when the spec fixes the condition), while (→ a recursive
               auxiliary definition with fuel given by the spec), break, return e;,
               `const auto f = [&](double u) { return e; };` (local scalar lambda),
               canonical counting loops `for (auto i = lo; i <|<=|!= hi; ++i)` as (range, one-iteration step) slices
  expressions: + - * / unary -, ! && ||, < > <= >= (== / != on integers, `== 0` on scalars), ?:, parentheses,
               integer / decimal / exponent literals (rendered as exact quotients `nat p / nat q`),
               static_cast / functional casts between double, S, size_t, int64_t,
               std::abs max min sqrt clamp, fpow<2>, and the per-function substitutions of opaque
               sub-expressions (`r.stableNorm()` ↦ a parameter, `*it` ↦ `r it`, …) listed in the spec.
  Statements of a function that are outside the scalar logic (Eigen calls, callbacks, printing) must match an
  explicit skip pattern of the spec AND must not assign to any translated variable; otherwise hard error.
Integer conventions: size_t / iterator arithmetic ↦ Nat (truncated subtraction: the models assume no
underflow as well), int64_t ↦ Int.
"""
import os, re, sys
from fractions import Fraction


class TrErr(Exception):
    pass


# =============================================================================== lexer
TEMPLATE_IDS = {'static_cast', 'std::clamp', 'std::min', 'std::max', 'fpow', 'std::numeric_limits',
                'std::is_convertible_v', 'std::optional', 'StaticMatrix', 'std::array', 'Eigen::Vector',
                'monomial_derivative', 'Spline', 'Dof'}
NUM = re.compile(r'(\d+\.\d*(?:[eE][-+]?\d+)?|\.\d+(?:[eE][-+]?\d+)?|\d+[eE][-+]?\d+|\d+)([uUlLfF]*)')
IDENT = re.compile(r'[A-Za-z_]\w*(?:::[A-Za-z_]\w*)*')
OPS = ['<=>', '<<=', '>>=', '<=', '>=', '==', '!=', '&&', '||', '++', '--', '+=', '-=', '*=', '/=', '->', '<<', '::']


def strip_comments(s):
    s = re.sub(r'//[^\n]*', '', s)
    s = re.sub(r'/\*.*?\*/', '', s, flags=re.S)
    return '\n'.join(l for l in s.split('\n') if not l.lstrip().startswith('#'))


def lex(s, extra=()):
    """-> list of (kind, val); kinds: num id str op.  `extra`: further identifiers whose `<…>` is a template argument list"""
    TEMPLATE_IDS = globals()['TEMPLATE_IDS'] | set(extra)
    out, i, n = [], 0, len(s)
    while i < n:
        c = s[i]
        if c.isspace():
            i += 1
            continue
        if c == '"' or c == "'":
            j = i + 1
            while s[j] != c:
                j += 2 if s[j] == '\\' else 1
            out.append(('str', s[i:j + 1]))
            i = j + 1
            continue
        m = NUM.match(s, i)
        if m and (c.isdigit() or c == '.' and i + 1 < n and s[i + 1].isdigit()):
            out.append(('num', m.group(1) + ('u' if 'u' in m.group(2).lower() else '')))
            i = m.end()
            continue
        m = IDENT.match(s, i)
        if m:
            name, i = m.group(0), m.end()
            while name in TEMPLATE_IDS and i < n and s[i] == '<':
                d, j = 0, i
                while True:
                    if s[j] == '<':
                        d += 1
                    elif s[j] == '>':
                        d -= 1
                        if d == 0:
                            break
                    j += 1
                name += re.sub(r'\s+', '', s[i:j + 1])
                i = j + 1
                m2 = re.compile(r'::[A-Za-z_]\w*').match(s, i)
                if m2:
                    name += m2.group(0)
                    i = m2.end()
            out.append(('id', name))
            continue
        for op in OPS:
            if s.startswith(op, i):
                out.append(('op', op))
                i += len(op)
                break
        else:
            if c in '+-*/%(){}[],;<>=!?:.&|~^':
                out.append(('op', c))
                i += 1
            else:
                raise TrErr('cannot tokenize at: ' + s[i:i + 30])
    return out


def text(toks):
    return ' '.join(t[1] for t in toks)


# =============================================================================== statement structure
OPEN, CLOSE = {'(': ')', '{': '}', '[': ']'}, {')', '}', ']'}


def match_close(toks, i):
    """toks[i] is an opening bracket; index of its partner"""
    d = 0
    for j in range(i, len(toks)):
        if toks[j][0] == 'op' and toks[j][1] in OPEN:
            d += 1
        elif toks[j][0] == 'op' and toks[j][1] in CLOSE:
            d -= 1
            if d == 0:
                return j
    raise TrErr('unbalanced brackets after: ' + text(toks[i:i + 8]))


def split_top(toks, sep):
    parts, cur, d = [], [], 0
    for t in toks:
        if t[0] == 'op' and t[1] in OPEN:
            d += 1
        elif t[0] == 'op' and t[1] in CLOSE:
            d -= 1
        if d == 0 and t == ('op', sep):
            parts.append(cur)
            cur = []
        else:
            cur.append(t)
    parts.append(cur)
    return parts


def parse_stmts(toks, i, end):
    L = []
    while i < end:
        st, i = parse_stmt(toks, i)
        L.append(st)
    return L


def parse_stmt(toks, i):
    """-> (stmt, next index).  stmt forms:
       ('if', is_constexpr, condtoks, then_list, else_list|None)   ('while', condtoks, body_list)
       ('for', inittoks, condtoks, inctoks, body_list)   ('rangefor', headertoks, body_list)
       ('return', toks)  ('break',)  ('continue',)  ('block', list)  ('simple', toks)"""
    k, v = toks[i]

    def sub(j):
        if toks[j] == ('op', '{'):
            e = match_close(toks, j)
            return parse_stmts(toks, j + 1, e), e + 1
        st, e = parse_stmt(toks, j)
        return [st], e
    if (k, v) == ('op', '{'):
        e = match_close(toks, i)
        return ('block', parse_stmts(toks, i + 1, e)), e + 1
    if (k, v) == ('id', 'if'):
        j = i + 1
        cx = toks[j] == ('id', 'constexpr')
        if cx:
            j += 1
        e = match_close(toks, j)
        cond = toks[j + 1:e]
        then, j = sub(e + 1)
        els = None
        if j < len(toks) and toks[j] == ('id', 'else'):
            els, j = sub(j + 1)
        return ('if', cx, cond, then, els), j
    if (k, v) == ('id', 'while'):
        e = match_close(toks, i + 1)
        body, j = sub(e + 1)
        return ('while', toks[i + 2:e], body), j
    if (k, v) == ('id', 'for'):
        e = match_close(toks, i + 1)
        hdr = split_top(toks[i + 2:e], ';')
        body, j = sub(e + 1)
        if len(hdr) == 3:
            return ('for', hdr[0], hdr[1], hdr[2], body), j
        return ('rangefor', toks[i + 2:e], body), j
    if (k, v) == ('id', 'return'):
        j = i + 1
        d = 0
        while not (d == 0 and toks[j] == ('op', ';')):
            if toks[j][0] == 'op' and toks[j][1] in OPEN:
                d += 1
            elif toks[j][0] == 'op' and toks[j][1] in CLOSE:
                d -= 1
            j += 1
        return ('return', toks[i + 1:j]), j + 1
    if (k, v) in (('id', 'break'), ('id', 'continue')):
        if toks[i + 1] != ('op', ';'):
            raise TrErr('malformed ' + v)
        return (v,), i + 2
    j, d = i, 0
    while not (d == 0 and toks[j] == ('op', ';')):
        if toks[j][0] == 'op' and toks[j][1] in OPEN:
            d += 1
        elif toks[j][0] == 'op' and toks[j][1] in CLOSE:
            d -= 1
        j += 1
        if j >= len(toks):
            raise TrErr('statement without terminating ";": ' + text(toks[i:i + 12]))
    return ('simple', toks[i:j]), j + 1


def stmt_text(st):
    if st[0] == 'simple':
        return text(st[1]) + ' ;'
    if st[0] == 'return':
        return 'return ' + text(st[1]) + ' ;'
    if st[0] == 'if':
        return 'if ( ' + text(st[2]) + ' ) …'
    if st[0] == 'while':
        return 'while ( ' + text(st[1]) + ' ) …'
    if st[0] == 'for':
        return 'for ( ' + text(st[1]) + ' ; ' + text(st[2]) + ' ; ' + text(st[3]) + ' ) …'
    if st[0] == 'rangefor':
        return 'for ( ' + text(st[1]) + ' ) …'
    return st[0]


def all_tokens(st):
    """every token of a statement, nested ones included"""
    if st[0] in ('simple', 'return'):
        return list(st[1])
    if st[0] == 'if':
        r = list(st[2])
        for s in st[3] + (st[4] or []):
            r += all_tokens(s)
        return r
    if st[0] == 'while':
        return list(st[1]) + [t for s in st[2] for t in all_tokens(s)]
    if st[0] == 'for':
        return list(st[1]) + list(st[2]) + list(st[3]) + [t for s in st[4] for t in all_tokens(s)]
    if st[0] == 'rangefor':
        return list(st[1]) + [t for s in st[2] for t in all_tokens(s)]
    if st[0] == 'block':
        return [t for s in st[1] for t in all_tokens(s)]
    return []


ASSIGN_OPS = {'=', '+=', '-=', '*=', '/=', '<<=', '>>='}


def assigned_names(toks):
    """identifiers that are (possibly) written by the token sequence: `x =`, `x op=`, `++x`, `x++`, `x[..] =`, `x.f(..) op=`"""
    res = set()
    for i, t in enumerate(toks):
        if t[0] != 'op':
            continue
        if t[1] in ASSIGN_OPS:
            # walk back over a postfix chain to its head identifier
            j = i - 1
            while j >= 0:
                if toks[j][0] == 'op' and toks[j][1] in (')', ']'):
                    d = 0
                    while True:
                        if toks[j][0] == 'op' and toks[j][1] in CLOSE:
                            d += 1
                        elif toks[j][0] == 'op' and toks[j][1] in OPEN:
                            d -= 1
                            if d == 0:
                                break
                        j -= 1
                    j -= 1
                    continue
                if toks[j][0] == 'id':
                    if j > 0 and toks[j - 1][0] == 'op' and toks[j - 1][1] in ('.', '->'):
                        j -= 2
                        continue
                    res.add(toks[j][1])
                break
        elif t[1] in ('++', '--'):
            if i + 1 < len(toks) and toks[i + 1][0] == 'id':
                res.add(toks[i + 1][1])
            if i > 0 and toks[i - 1][0] == 'id':
                res.add(toks[i - 1][1])
    return res


# =============================================================================== expression parser
BINPREC = {'||': 1, '&&': 2, '==': 4, '!=': 4, '<': 5, '>': 5, '<=': 5, '>=': 5, '<=>': 6, '<<': 7,
           '+': 8, '-': 8, '*': 9, '/': 9, '%': 9}


class EP:
    def __init__(self, toks):
        self.t, self.i = toks, 0

    def peek(self, o=0):
        return self.t[self.i + o] if self.i + o < len(self.t) else ('eof', '')

    def take(self, kind=None, val=None):
        k, v = self.peek()
        if (kind and k != kind) or (val is not None and v != val):
            raise TrErr(f'expected {val or kind}, got "{v}" in: {text(self.t)}')
        self.i += 1
        return v

    def full(self):
        e = self.expr()
        if self.i != len(self.t):
            raise TrErr(f'unsupported expression syntax at "{self.peek()[1]}" in: {text(self.t)}')
        return e

    def expr(self):
        c = self.binary(1)
        if self.peek() == ('op', '?'):
            self.take()
            a = self.expr()
            self.take('op', ':')
            b = self.expr()
            return ('tern', c, a, b)
        return c

    def binary(self, minp):
        e = self.unary()
        while True:
            k, v = self.peek()
            if k != 'op' or v not in BINPREC or BINPREC[v] < minp:
                return e
            self.take()
            r = self.binary(BINPREC[v] + 1)
            e = ('bin', v, e, r)

    def unary(self):
        k, v = self.peek()
        if k == 'op' and v in ('-', '+', '!', '*', '&', '++', '--'):
            self.take()
            return ('un', v, self.unary())
        return self.postfix()

    def args(self, close):
        a = []
        if self.peek() != ('op', close):
            a.append(self.expr())
            while self.peek() == ('op', ','):
                self.take()
                if self.peek() == ('op', close):
                    break          # trailing comma of a braced list
                a.append(self.expr())
        self.take('op', close)
        return a

    def postfix(self):
        e = self.primary()
        while True:
            k, v = self.peek()
            if (k, v) == ('op', '('):
                self.take()
                e = ('call', e, self.args(')'))
            elif (k, v) == ('op', '['):
                self.take()
                ix = self.expr()
                self.take('op', ']')
                e = ('index', e, ix)
            elif k == 'op' and v in ('.', '->'):
                self.take()
                if self.peek() == ('id', 'template'):
                    self.take()
                e = ('member', e, self.take('id'), v)
            elif k == 'op' and v in ('++', '--'):
                self.take()
                e = ('post', v, e)
            else:
                return e

    def primary(self):
        k, v = self.peek()
        if k == 'num':
            self.take()
            return ('num', v)
        if k == 'str':
            self.take()
            return ('str', v)
        if k == 'id':
            self.take()
            if self.peek() == ('op', '{') and (v[0].isupper() or '::' in v):
                self.take()
                return ('call', ('id', v), self.args('}'))
            return ('id', v)
        if (k, v) == ('op', '('):
            self.take()
            e = self.expr()
            self.take('op', ')')
            return ('paren', e)
        if (k, v) == ('op', '{'):
            self.take()
            return ('init', self.args('}'))
        if (k, v) == ('op', '['):
            # lambda: [capture] (params) [-> type] { body }
            e = match_close(self.t, self.i)
            self.i = e + 1
            params = []
            if self.peek() == ('op', '('):
                e = match_close(self.t, self.i)
                for p in split_top(self.t[self.i + 1:e], ','):
                    if p:
                        params.append((text(p[:-1]), p[-1][1]))
                self.i = e + 1
            while self.peek() != ('op', '{'):
                if self.peek()[0] == 'eof':
                    raise TrErr('lambda without body: ' + text(self.t))
                self.take()
            e = match_close(self.t, self.i)
            body = parse_stmts(self.t, self.i + 1, e)
            self.i = e + 1
            return ('lambda', params, body)
        raise TrErr(f'unexpected token "{v}" in: {text(self.t)}')


def parse_expr(toks):
    if not toks:
        raise TrErr('empty expression')
    return EP(toks).full()


def ser(e):
    """canonical source text of an expression node (used for substitution keys and messages)"""
    k = e[0]
    if k in ('num', 'id', 'str'):
        return e[1]
    if k == 'paren':
        return '(' + ser(e[1]) + ')'
    if k == 'bin':
        return ser(e[2]) + ' ' + e[1] + ' ' + ser(e[3])
    if k == 'un':
        return e[1] + ser(e[2])
    if k == 'post':
        return ser(e[2]) + e[1]
    if k == 'tern':
        return ser(e[1]) + ' ? ' + ser(e[2]) + ' : ' + ser(e[3])
    if k == 'call':
        return ser(e[1]) + '(' + ', '.join(ser(a) for a in e[2]) + ')'
    if k == 'index':
        return ser(e[1]) + '[' + ser(e[2]) + ']'
    if k == 'member':
        return ser(e[1]) + e[3] + e[2]
    if k == 'init':
        return '{' + ', '.join(ser(a) for a in e[1]) + '}'
    if k == 'lambda':
        return '[lambda]'
    raise TrErr('ser: ' + k)


def unparen(e):
    while e[0] == 'paren':
        e = e[1]
    return e


# =============================================================================== simple statements
QUALS = {'static', 'constexpr', 'const', 'inline', 'mutable'}
TYPES = {'double': 'real', 'S': 'real', 'Scalar': 'real', 'float': 'real', 'int64_t': 'int', 'std::int64_t': 'int',
         'std::size_t': 'nat', 'size_t': 'nat', 'unsigned': 'nat', 'bool': 'bool', 'auto': None,
         'std::optional<SolveResult::Status>': 'optstatus', 'Eigen::Vector2d': 'v2', 'smooth::SO2d': 'so2'}


def classify(toks):
    """simple statement -> ('using',) | ('decl', ctype, name, init_node|None) | ('assign', lhs_node, op, rhs_node)
       | ('expr', node)"""
    if toks and toks[0] == ('id', 'using'):
        return ('using',)
    i = 0
    while i < len(toks) and toks[i][0] == 'id' and toks[i][1] in QUALS:
        i += 1
    r = toks[i:]
    if len(r) >= 2 and r[0][0] == 'id' and r[0][1] in TYPES:
        j = 1
        while r[j] in (('op', '&'), ('id', 'const')):
            j += 1
        if r[j][0] == 'id':
            name, rest = r[j][1], r[j + 1:]
            if not rest:
                return ('decl', r[0][1], name, None)
            if rest[0] == ('op', '='):
                return ('decl', r[0][1], name, parse_expr(rest[1:]))
            if rest[0] == ('op', '{') and match_close(rest, 0) == len(rest) - 1:
                node = parse_expr(rest)          # ('init', [...])
                if len(node[1]) == 0:
                    return ('decl', r[0][1], name, ('num', '0'))
                return ('decl', r[0][1], name, node[1][0] if len(node[1]) == 1 else node)
            if rest[0] == ('op', '(') and match_close(rest, 0) == len(rest) - 1:
                return ('decl', r[0][1], name, parse_expr([r[0]] + rest))     # T name(args)  ==  T(args)
            if rest[0] == ('op', ','):
                names = [name]
                for part in split_top(rest[1:], ','):
                    if len(part) != 1 or part[0][0] != 'id':
                        raise TrErr('unsupported declaration: ' + text(toks))
                    names.append(part[0][1])
                return ('decls', r[0][1], names)
            raise TrErr('unsupported declaration: ' + text(toks))
    # assignment: first top-level assignment operator
    d = 0
    for j, t in enumerate(toks):
        if t[0] == 'op' and t[1] in OPEN:
            d += 1
        elif t[0] == 'op' and t[1] in CLOSE:
            d -= 1
        elif d == 0 and t[0] == 'op' and t[1] in ASSIGN_OPS:
            return ('assign', parse_expr(toks[:j]), t[1], parse_expr(toks[j + 1:]))
    e = parse_expr(toks)
    if e[0] == 'un' and e[1] in ('++', '--'):
        return ('assign', e[2], '+=' if e[1] == '++' else '-=', ('num', '1'))
    if e[0] == 'post':
        return ('assign', e[2], '+=' if e[1] == '++' else '-=', ('num', '1'))
    return ('expr', e)


# =============================================================================== translation
LEANTY = {'real': 'α', 'nat': 'Nat', 'int': 'Int', 'bool': 'Bool', 'optstatus': 'Option Optim.Status', 'seg': 'Dubins.Seg',
          'optseg': 'Option (Reparam.SegOut α)', 'v2': 'Vec α 2', 'so2': 'Vec α 2', 'se2': 'Vec α 4'}


def real_lit(txt):
    t = txt.rstrip('uUlLfF')
    if t.endswith('.'):
        t += '0'
    if t.startswith('.'):
        t = '0' + t
    q = Fraction(t)
    p, d = q.numerator, q.denominator
    if d == 1:
        return f'nat {p}'
    if p >= 2 ** 53 or d >= 2 ** 53:
        raise TrErr(f'literal {txt}: not an exact quotient of two binary64 integers')
    return f'nat {p} / nat {d}'


def par(s):
    """parenthesise a Lean term unless it is atomic"""
    if re.fullmatch(r"[\w.']+", s) or (s.startswith('(') and s.endswith(')') and _balanced(s[1:-1])):
        return s
    return '(' + s + ')'


def _balanced(s):
    d = 0
    for c in s:
        if c == '(':
            d += 1
        elif c == ')':
            d -= 1
            if d < 0:
                return False
    return d == 0


class Var:
    def __init__(self, ty, defined=True, nonneg=False, fun=None):
        self.ty, self.defined, self.nonneg, self.fun = ty, defined, nonneg, fun


class Kont:
    def __init__(self, fall, ret, brk=None):
        self.fall, self.ret, self.brk = fall, ret, brk


class Tr:
    """translator for one function / slice.  spec keys used here:
       subst   {canonical C++ text: (lean, type)}        opaque sub-expressions
       hook    f(tr, node, env) -> (lean, type) | None   structural rules of the function (iterators …)
       clamp   Lean name of the std::clamp model to use
       skip    [regex] statements outside the scalar logic
       cx      {canonical condition text: True|False}    fixed `if constexpr` conditions
       fuel    [lean expr] per while loop"""

    def __init__(self, fname, spec):
        self.fname, self.spec = fname, spec
        self.aux = []       # auxiliary (loop) definitions, lines
        self.nloop = 0
        self.ntmp = 0
        self.skipped = []   # tokens of skipped statements (checked against the assigned variables at the end)
        self.tracked = set()

    # ------------------------------------------------------------------ expressions
    def coerce(self, r, want, ctx=''):
        s, ty = r
        if want is None or ty == want:
            if ty == 'lit' and want is None:
                return r
            return r
        if ty == 'lit':
            if want == 'real':
                return (f'nat {s}', 'real')
            if want == 'nat':
                return (s, 'nat')
            if want == 'int':
                return (f'({s} : Int)', 'int')
        if ty == 'nat' and want == 'real':
            return (f'nat {par(s)}', 'real')
        if ty == 'nat' and want == 'int':
            return (f'(({s} : Nat) : Int)', 'int')
        if ty == 'bool' and want == 'prop':
            return (f'{par(s)} = true', 'prop')
        if ty == 'prop' and want == 'bool':
            return (f'decide {par(s)}', 'bool')
        raise TrErr(f'type mismatch: {s} : {ty}, wanted {want} {ctx}')

    def expr(self, e, env, want=None):
        return self.coerce(self.expr0(e, env, want), want, 'in ' + ser(e))

    def expr0(self, e, env, want=None):
        e0 = e
        e = unparen(e)
        key = ser(e)
        if key in self.spec.get('subst', {}):
            return self.spec['subst'][key]
        hook = self.spec.get('hook')
        if hook:
            r = hook(self, e, env)
            if r is not None:
                return r
        k = e[0]
        if k == 'num':
            v = e[1]
            if re.fullmatch(r'\d+u?', v):
                if v.endswith('u'):
                    return (v[:-1], 'nat')
                return (v, 'lit')
            return (real_lit(v), 'real')
        if k == 'id':
            n = e[1]
            if n in env:
                if not env[n].defined:
                    raise TrErr(f'variable {n} may be used uninitialised')
                return (n, env[n].ty)
            if n == 'true':
                return ('true', 'bool')
            if n == 'false':
                return ('false', 'bool')
            if n in self.spec.get('consts', {}):
                return self.spec['consts'][n]
            raise TrErr(f'unknown identifier {n} (no substitution given)')
        if k == 'un':
            op = e[1]
            if op == '-':
                s, ty = self.expr0(e[2], env, want)
                if ty == 'lit':
                    if want in (None, 'real'):
                        return (f'-(nat {s})', 'real')
                    if want == 'int':
                        return (f'(-{s} : Int)', 'int')
                    raise TrErr('negative literal in an unsigned context: ' + ser(e))
                if ty not in ('real', 'int'):
                    raise TrErr(f'unary minus on {ty}: ' + ser(e))
                return (f'-{par(s)}', ty)
            if op == '+':
                return self.expr0(e[2], env, want)
            if op == '!':
                return (f'¬ {par(self.cond(e[2], env))}', 'prop')
            raise TrErr(f'unsupported unary operator {op} in: ' + ser(e))
        if k == 'bin':
            op = e[1]
            if op in ('&&', '||'):
                a, b = self.cond(e[2], env), self.cond(e[3], env)
                return (f'{par(a)} {"∧" if op == "&&" else "∨"} {par(b)}', 'prop')
            if op in ('<', '>', '<=', '>=', '==', '!='):
                return (self.compare(op, e[2], e[3], env), 'prop')
            if op in ('+', '-', '*', '/'):
                a, b = self.expr0(e[2], env), self.expr0(e[3], env)
                ty = self.join(a[1], b[1], ser(e))
                if ty == 'lit':
                    if want in ('real', 'nat', 'int'):
                        ty = want
                    else:
                        raise TrErr('arithmetic on two integer literals without a typed context: ' + ser(e))
                a, b = self.coerce(a, ty, ser(e)), self.coerce(b, ty, ser(e))
                return (f'{par(a[0])} {op} {par(b[0])}', ty)
            raise TrErr(f'unsupported binary operator {op} in: ' + ser(e))
        if k == 'tern':
            c = self.cond(e[1], env)
            a, b = self.expr0(e[2], env, want), self.expr0(e[3], env, want)
            ty = self.join(a[1], b[1], ser(e))
            if ty == 'lit':
                ty = want or 'real'
            a, b = self.coerce(a, ty), self.coerce(b, ty)
            return (f'if {c} then {a[0]} else {b[0]}', ty)
        if k == 'call':
            return self.call(e, env, want)
        raise TrErr(f'unsupported expression ({k}): ' + ser(e0))

    def join(self, ta, tb, ctx):
        if ta == tb:
            return ta
        for x, y in ((ta, tb), (tb, ta)):
            if x == 'lit':
                if y in ('real', 'nat', 'int'):
                    return y
            if x == 'nat' and y == 'real':
                return 'real'
        raise TrErr(f'operands of types {ta} and {tb} in: {ctx}')

    def compare(self, op, a, b, env):
        ra, rb = self.expr0(a, env), self.expr0(b, env)
        ty = self.join(ra[1], rb[1], ser(a) + ' ' + op + ' ' + ser(b))
        if ty == 'lit':
            ty = 'nat'
        x, y = self.coerce(ra, ty)[0], self.coerce(rb, ty)[0]
        x, y = par(x), par(y)
        if ty == 'real':
            if op == '<':
                return f'{x} < {y}'
            if op == '>':
                return f'{y} < {x}'
            if op == '<=':
                return f'{x} ≤ {y}'
            if op == '>=':
                return f'{y} ≤ {x}'
            if op == '==' and rb == ('0', 'lit'):
                # IEEE `x == 0` (true for ±0, false for NaN); over ℝ it is x = 0   (Optim.IsZero)
                return f'{x} ≤ nat 0 ∧ nat 0 ≤ {x}'
            raise TrErr(f'unsupported scalar comparison {op} in: {ser(a)} {op} {ser(b)}')
        if ty in ('nat', 'int'):
            sym = {'<': '<', '>': '>', '<=': '≤', '>=': '≥', '==': '=', '!=': '≠'}[op]
            return f'{x} {sym} {y}'
        if ty == 'seg' and op in ('==', '!='):
            return f'{x} {"=" if op == "==" else "≠"} {y}'
        raise TrErr(f'comparison of {ty} values: {ser(a)} {op} {ser(b)}')

    def cond(self, e, env):
        return self.expr(e, env, 'prop')[0]

    def cast(self, target, arg, env, src):
        r = self.expr0(arg, env, target if target != 'real' else None)
        s, ty = r
        if target == 'real':
            if ty == 'real':
                return r
            if ty in ('lit', 'nat'):
                return self.coerce(r, 'real')
            if ty == 'int':
                a = unparen(arg)
                if a[0] == 'id' and a[1] in env and env[a[1]].nonneg:
                    # Scalar has no IntCast: admissible only where the source guarantees `!(x < 0)`
                    return (f'nat {s}.toNat', 'real')
                raise TrErr(f'cast of a possibly negative int64 to the scalar type: {src}')
        if target == 'int':
            if ty == 'real':
                return (f'ScalarTrunc.trunc {par(s)}', 'int')
            if ty in ('lit', 'nat', 'int'):
                return self.coerce(r, 'int')
        if target == 'nat':
            if ty in ('lit', 'nat'):
                return self.coerce(r, 'nat')
        raise TrErr(f'unsupported cast {src}')

    def call(self, e, env, want):
        f, args = unparen(e[1]), e[2]
        src = ser(e)
        if f[0] == 'id':
            n = f[1]
            if n in env and env[n].fun:
                ptys, rty = env[n].fun
                if len(args) != len(ptys):
                    raise TrErr('arity of ' + src)
                a = [par(self.expr(x, env, t)[0]) for x, t in zip(args, ptys)]
                return (f'{n} ' + ' '.join(a), rty)
            m = re.fullmatch(r'static_cast<(.+)>', n)
            if m or n in ('S', 'Scalar', 'double', 'int64_t'):
                tn = m.group(1) if m else n
                if tn.replace('std::', '') not in ('double', 'S', 'Scalar', 'int64_t', 'size_t') or len(args) != 1:
                    raise TrErr('unsupported cast ' + src)
                return self.cast(TYPES[tn if tn in TYPES else tn.replace('std::', '')], args[0], env, src)
            base = re.sub(r'<.*>$', '', n)
            if base in ('std::abs', 'std::sqrt') and len(args) == 1:
                return (f'Scalar.{base[5:]} {par(self.expr(args[0], env, "real")[0])}', 'real')
            if base in ('std::max', 'std::min') and len(args) == 2:
                a = [par(self.expr(x, env, 'real')[0]) for x in args]
                return (f'Scalar.{base[5:]} {a[0]} {a[1]}', 'real')
            if base == 'std::clamp' and len(args) == 3:
                if 'clamp' not in self.spec:
                    raise TrErr('std::clamp without a clamp model in the spec: ' + src)
                a = [par(self.expr(x, env, 'real')[0]) for x in args]
                return (f'{self.spec["clamp"]} {a[0]} {a[1]} {a[2]}', 'real')
            if n == 'fpow<2>' and len(args) == 1:
                return (f'Optim.sq {par(self.expr(args[0], env, "real")[0])}', 'real')
        raise TrErr('unsupported call: ' + src)

    # ------------------------------------------------------------------ statements
    def tuple_of(self, names, env, ctx):
        for n in names:
            if not env[n].defined:
                raise TrErr(f'variable {n} may be uninitialised {ctx}')
        return names[0] if len(names) == 1 else '(' + ', '.join(names) + ')'

    def tuple_ty(self, names, env):
        return ' × '.join(LEANTY[env[n].ty] for n in names)

    def unpack(self, tmp, names, env, ind):
        """`let a := tmp.1; let b := tmp.2.1 …` (projections, so that definitional unfolding is not blocked)"""
        L = []
        if len(names) == 1:
            return L
        for i, n in enumerate(names):
            proj = '.2' * i + ('.1' if i < len(names) - 1 else '')
            L.append(f'{ind}let {n} : {LEANTY[env[n].ty]} := {tmp}{proj}')
        return L

    def is_skipped(self, st):
        t = stmt_text(st) if st[0] != 'if' else 'if ( ' + text(st[2]) + ' )'
        for pat in self.spec.get('skip', []):
            if re.fullmatch(pat, t):
                self.skipped.append((t, all_tokens(st)))
                return True
        return False

    def exits(self, L):
        """does the statement list contain return / break (outside nested loops for break)?"""
        for st in L:
            if st[0] in ('return', 'break', 'continue'):
                return True
            if st[0] == 'if' and (self.exits(st[3]) or self.exits(st[4] or [])):
                return True
            if st[0] == 'block' and self.exits(st[1]):
                return True
            if st[0] in ('while', 'for') and any(t == ('id', 'return') for t in all_tokens(st)):
                return True
        return False

    def outer_assigned(self, L, env):
        toks = [t for st in L for t in all_tokens(st)]
        names = assigned_names(toks)
        for n, pat in self.spec.get('pseudo_writes', {}).items():
            if re.search(pat, text(toks)):
                names.add(n)
        return [n for n in env if n in names and not env[n].fun]

    def stmts(self, L, env, ind, K):
        if not L:
            return K.fall(env, ind)
        st, rest = L[0], L[1:]
        kind = st[0]
        if self.is_skipped(st):
            return self.stmts(rest, env, ind, K)
        if kind == 'block':
            return self.stmts(st[1] + rest, env, ind, K)   # names of the subset are not re-declared in inner scopes
        if kind == 'return':
            if rest:
                raise TrErr('statements after return')
            return K.ret(parse_expr(st[1]) if st[1] else None, env, ind)
        if kind == 'break':
            if K.brk is None:
                raise TrErr('break outside a loop')
            return K.brk(env, ind)
        if kind == 'simple':
            c = classify(st[1])
            if c[0] == 'using':
                return self.stmts(rest, env, ind, K)
            if c[0] == 'decls':
                env = dict(env)
                for nm in c[2]:
                    env[nm] = Var(TYPES[c[1]], defined=False)
                    self.tracked.add(nm)
                return self.stmts(rest, env, ind, K)
            if c[0] == 'decl':
                _, cty, name, init = c
                env = dict(env)
                self.tracked.add(name)
                if init is not None and unparen(init)[0] == 'lambda':
                    lam = unparen(init)
                    ptys = []
                    e2 = dict(env)
                    for pt, pn in lam[1]:
                        if pt.replace('const ', '').strip() not in ('double', 'S', 'Scalar'):
                            raise TrErr(f'lambda parameter type {pt} in: {stmt_text(st)}')
                        e2[pn] = Var('real')
                        ptys.append('real')
                    Kl = Kont(fall=lambda e_, i_: (_ for _ in ()).throw(TrErr('lambda without return')),
                              ret=lambda ex, e_, i_: [i_ + self.expr(ex, e_, 'real')[0]])
                    body = self.stmts(lam[2], e2, ind + '  ', Kl)
                    env[name] = Var('fun', fun=(ptys, 'real'))
                    sig = ' → '.join(['α'] * (len(ptys) + 1))
                    head = f'{ind}let {name} : {sig} := fun ' + ' '.join(f'({pn} : α)' for _, pn in lam[1]) + ' =>'
                    return [head] + body + self.stmts(rest, env, ind, K)
                ty = TYPES[cty]
                if init is None:
                    if ty is None:
                        raise TrErr('auto declaration without initialiser: ' + stmt_text(st))
                    env[name] = Var(ty, defined=False)
                    return self.stmts(rest, env, ind, K)
                s, t2 = self.expr0(init, env, ty)
                if ty is None:
                    ty = 'nat' if t2 == 'lit' else t2
                s = self.coerce((s, t2), ty, 'in ' + stmt_text(st))[0]
                env[name] = Var(ty)
                return [f'{ind}let {name} : {LEANTY[ty]} := {s}'] + self.stmts(rest, env, ind, K)
            if c[0] == 'assign':
                _, lhs, op, rhs = c
                lhs = unparen(lhs)
                h = self.spec.get('assign_hook')
                if h:
                    r = h(self, lhs, op, rhs, env, ind)
                    if r is not None:
                        lines, env = r
                        return lines + self.stmts(rest, env, ind, K)
                if lhs[0] != 'id' or lhs[1] not in env or env[lhs[1]].fun:
                    raise TrErr('assignment to something that is not a translated scalar variable: ' + stmt_text(st))
                name = lhs[1]
                ty = env[name].ty
                if op == '=':
                    s = self.expr(rhs, env, ty)[0]
                elif op in ('+=', '-=', '*=', '/='):
                    s = self.expr(('bin', op[0], ('id', name), ('paren', rhs)), env, ty)[0]
                else:
                    raise TrErr('unsupported assignment operator: ' + stmt_text(st))
                env = dict(env)
                env[name] = Var(ty)
                return [f'{ind}let {name} : {LEANTY[ty]} := {s}'] + self.stmts(rest, env, ind, K)
            h = self.spec.get('stmt_hook')
            if h:
                r = h(self, c[1], env, ind)
                if r is not None:
                    lines, env = r
                    return lines + self.stmts(rest, env, ind, K)
            raise TrErr('unsupported statement (not part of the scalar subset and not in the skip list): ' + stmt_text(st))
        if kind == 'if':
            return self.tr_if(st, rest, env, ind, K)
        if kind == 'while':
            return self.tr_while(st, rest, env, ind, K)
        raise TrErr('unsupported statement: ' + stmt_text(st))

    def tr_if(self, st, rest, env, ind, K):
        _, cx, condtoks, then, els = st
        cnode = parse_expr(condtoks)
        if cx:
            key = ser(cnode)
            if key not in self.spec.get('cx', {}):
                raise TrErr('if constexpr with a condition the spec does not fix: ' + key)
            chosen = then if self.spec['cx'][key] else (els or [])
            return self.stmts(chosen + rest, env, ind, K)
        c = self.cond(cnode, env)
        els = els or []
        env_t, env_e = env, env
        cn = unparen(cnode)
        if cn[0] == 'bin' and cn[1] == '<' and unparen(cn[2])[0] == 'id' and unparen(cn[3]) == ('num', '0'):
            v = unparen(cn[2])[1]
            if v in env and env[v].ty == 'int':
                env_e = dict(env)
                env_e[v] = Var('int', nonneg=True)
        if not rest or self.exits(then) or self.exits(els):
            K2 = K if not rest else Kont(fall=lambda e_, i_: self.stmts(rest, self.forget(e_, env), i_, K), ret=K.ret, brk=K.brk)
            return ([f'{ind}if {c} then'] + self.stmts(then, env_t, ind + '  ', K2) +
                    [f'{ind}else'] + self.stmts(els, env_e, ind + '  ', K2))
        M = self.outer_assigned(then + els, env)
        if not M:
            raise TrErr('if statement without effect on the translated variables: ' + stmt_text(st))
        Km = Kont(fall=lambda e_, i_: [i_ + self.tuple_of(M, e_, 'after ' + stmt_text(st))],
                  ret=K.ret, brk=K.brk)
        body = ([f'{ind}  if {c} then'] + self.stmts(then, env_t, ind + '    ', Km) +
                [f'{ind}  else'] + self.stmts(els, env_e, ind + '    ', Km))
        env = dict(env)
        for n in M:
            env[n] = Var(env[n].ty)
        if len(M) == 1:
            head = [f'{ind}let {M[0]} : {LEANTY[env[M[0]].ty]} :=']
            return head + body + self.stmts(rest, env, ind, K)
        self.ntmp += 1
        tmp = f'_s{self.ntmp}'
        head = [f'{ind}let {tmp} : {self.tuple_ty(M, env)} :=']
        return head + body + self.unpack(tmp, M, env, ind) + self.stmts(rest, env, ind, K)

    def forget(self, e_inner, e_outer):
        """environment after a nested scope: only the outer names survive (with their inner definedness)"""
        return {n: (e_inner[n] if n in e_inner else v) for n, v in e_outer.items()}

    def tr_while(self, st, rest, env, ind, K):
        _, condtoks, body = st
        fuels = self.spec.get('fuel', [])
        if self.nloop >= len(fuels):
            raise TrErr('while loop without a fuel expression in the spec: ' + stmt_text(st))
        fuel = fuels[self.nloop]
        self.nloop += 1
        name = f'{self.fname}_loop{self.nloop if self.nloop > 1 else ""}'
        S = self.outer_assigned(body, env)
        if not S:
            raise TrErr('while loop that changes no translated variable: ' + stmt_text(st))
        used = {t[1] for t in all_tokens(st) if t[0] == 'id'} | set(self.spec.get('loop_free', []))
        free = [n for n in env if n not in S and n in used and env[n].defined]
        fsig = ' '.join(f'({n} : {self.sig_ty(env[n])})' for n in free)
        sty = self.tuple_ty(S, env)
        pat = self.tuple_of(S, env, 'at loop entry')
        call = f'{name} ' + ' '.join(free)
        Kl = Kont(fall=lambda e_, i_: [f'{i_}{call} _fuel {self.tuple_of(S, e_, "at loop end")}'],
                  ret=lambda ex, e_, i_: (_ for _ in ()).throw(TrErr('return inside a loop')),
                  brk=lambda e_, i_: [i_ + self.tuple_of(S, e_, 'at break')])
        c = self.cond(parse_expr(condtoks), env)
        aux = [f'def {name} {fsig} : Nat → {sty} → {sty}',
               f'  | 0, _s => _s',
               f'  | _fuel + 1, {pat} =>',
               f'    if {c} then'] + self.stmts(body, env, '      ', Kl) + [f'    else', f'      {pat}', '']
        self.aux.append(aux)
        env = dict(env)
        for n in S:
            env[n] = Var(env[n].ty)
        self.ntmp += 1
        tmp = f'_s{self.ntmp}'
        if len(S) == 1:
            return [f'{ind}let {S[0]} : {sty} := {call} {par(fuel)} {pat}'] + self.stmts(rest, env, ind, K)
        return ([f'{ind}let {tmp} : {sty} := {call} {par(fuel)} {pat}'] + self.unpack(tmp, S, env, ind) +
                self.stmts(rest, env, ind, K))

    def sig_ty(self, v):
        if v.fun:
            return ' → '.join([LEANTY[t] for t in v.fun[0]] + [LEANTY[v.fun[1]]])
        return self.spec.get('param_ty', {}).get(v.ty, LEANTY.get(v.ty, v.ty))

    def check_skipped(self):
        for t, toks in self.skipped:
            bad = assigned_names(toks) & self.tracked
            if bad:
                raise TrErr(f'statement outside the translated subset writes translated variable(s) {sorted(bad)}: {t}')


# =============================================================================== source access
def read(repo, rel):
    p = os.path.join(repo, rel)
    if not os.path.exists(p):
        raise TrErr('source file missing: ' + rel)
    return strip_comments(open(p).read())


def find_body(toks, header_re, what):
    """token index range (after `{`, at `}`) of the first function whose header text matches; headers are matched on
       the token text up to the opening brace"""
    txt_pos, parts = [], []
    pos = 0
    for t in toks:
        txt_pos.append(pos)
        parts.append(t[1])
        pos += len(t[1]) + 1
    full = ' '.join(parts)
    m = re.search(header_re, full)
    if not m:
        raise TrErr(f'{what}: not found in the current source (pattern {header_re})')
    # first '{' token at or after the end of the match
    import bisect
    i = bisect.bisect_left(txt_pos, m.end() - 1)
    while toks[i] != ('op', '{'):
        i += 1
        if i >= len(toks):
            raise TrErr(f'{what}: no body')
    return i + 1, match_close(toks, i), m


def params_of(m):
    """names of the parameters in the regex group 'params' of a header match"""
    ps = [p.strip() for p in m.group('params').split(',') if p.strip()]
    return [re.sub(r'=.*$', '', p).strip().split()[-1] for p in ps]


def expect_params(m, expected, what):
    got = params_of(m)
    if got != expected:
        raise TrErr(f'{what}: parameter list changed: {got} (translator expects {expected})')


def find_stmt(L, pred, what, deep=True):
    hits = []

    def walk(L):
        for st in L:
            if pred(st):
                hits.append(st)
            if not deep:
                continue
            if st[0] == 'if':
                walk(st[3])
                walk(st[4] or [])
            elif st[0] == 'block':
                walk(st[1])
            elif st[0] == 'while':
                walk(st[2])
            elif st[0] == 'for':
                walk(st[4])
            elif st[0] == 'rangefor':
                walk(st[2])
    walk(L)
    if len(hits) != 1:
        raise TrErr(f'{what}: expected exactly one such statement in the current source, found {len(hits)}')
    return hits[0]


def decl_named(name):
    def pred(st):
        if st[0] != 'simple':
            return False
        try:
            c = classify(st[1])
        except TrErr:
            return False
        return c[0] == 'decl' and c[2] == name
    return pred


def fn_def(name, params, rty, lines, doc=None):
    sig = ' '.join(f'({n} : {t})' for n, t in params)
    out = []
    if doc:
        out.append(f'/-- {doc} -/')
    out.append(f'def {name} {sig} : {rty} :=')
    return out + lines + ['']


def ret_plain(tr, ty):
    return lambda ex, env, ind: [ind + tr.expr(ex, env, ty)[0]]


def no_fall(what):
    def f(env, ind):
        raise TrErr(what + ': control reaches the end without a value')
    return f


# =============================================================================== SPECS
def gen_strategy(repo):
    """optim/tr_strategy.hpp: member initialisers and step_and_update of CeresStrategy and DisneyStrategy"""
    rel = 'include/smooth/optim/tr_strategy.hpp'
    toks = lex(read(repo, rel))
    out = [f'/-! ### {rel} -/', '']
    for cls, members in (('CeresStrategy', ['m_delta', 'm_reduce']), ('DisneyStrategy', ['m_delta'])):
        b, e, _ = find_body(toks, r'class ' + cls + r' : public TrustRegionStrategy', 'class ' + cls)
        ctoks = toks[b:e]
        # data members: `double name{init};` at class level
        found = {}
        for st in _class_level(ctoks):
            if st[0] == 'simple':
                c = None
                try:
                    c = classify(st[1])
                except TrErr:
                    pass
                if c and c[0] == 'decl':
                    if c[1] != 'double' or c[3] is None:
                        raise TrErr(f'{cls}: unsupported data member: ' + stmt_text(st))
                    found[c[2]] = c[3]
        if list(found) != members:
            raise TrErr(f'{cls}: data members changed: {list(found)} (translator expects {members})')
        tr0 = Tr(cls, {})
        for mname, init in found.items():
            out += fn_def(f'{cls}_init_{mname}', [], 'α', ['  ' + tr0.expr(init, {}, 'real')[0]],
                          f'`double {mname}{{{ser(init)}}};`')
        # get_delta
        gb, ge, _ = find_body(ctoks, r'double get_delta \( \) const override', cls + '::get_delta')
        g = parse_stmts(ctoks, gb, ge)
        if len(g) != 1 or g[0][0] != 'return' or text(g[0][1]) != 'm_delta':
            raise TrErr(f'{cls}::get_delta is no longer `return m_delta;`')
        # step_and_update
        sb, se, m = find_body(ctoks, r'bool step_and_update \( (?P<params>[^)]*) \) override', cls + '::step_and_update')
        expect_params(m, ['rho'], cls + '::step_and_update')
        tr = Tr(cls + '_step_and_update', {})
        env = {n: Var('real') for n in members}
        env['rho'] = Var('real')
        tup = lambda env: members[0] if len(members) == 1 else '(' + ', '.join(members) + ')'
        K = Kont(fall=no_fall(cls + '::step_and_update'),
                 ret=lambda ex, env, ind: [f'{ind}({tup(env)}, {tr.expr(ex, env, "bool")[0]})'])
        lines = tr.stmts(parse_stmts(ctoks, sb, se), env, '  ', K)
        tr.check_skipped()
        sty = 'α' if len(members) == 1 else '(' + ' × '.join(['α'] * len(members)) + ')'
        out += fn_def(f'{cls}_step_and_update', [(n, 'α') for n in members] + [('rho', 'α')], f'{sty} × Bool', lines,
                      f'`{cls}::step_and_update(rho)`: new member values ({", ".join(members)}) and the returned `take_step`')
    return out


def _class_level(ctoks):
    """statements of a class body, member-function bodies and access labels skipped"""
    L, i = [], 0
    while i < len(ctoks):
        if ctoks[i][0] == 'id' and ctoks[i][1] in ('public', 'private', 'protected') and ctoks[i + 1] == ('op', ':'):
            i += 2
            continue
        # a member function: tokens up to a '{' at depth 0 that is preceded by ')' / const / override / noexcept
        j, d = i, 0
        while j < len(ctoks):
            t = ctoks[j]
            if d == 0 and t == ('op', ';'):
                L.append(('simple', ctoks[i:j]))
                j += 1
                break
            if d == 0 and t == ('op', '{') and ctoks[j - 1] in (('op', ')'), ('id', 'const'), ('id', 'override'), ('id', 'noexcept')):
                j = match_close(ctoks, j) + 1
                L.append(('method', ctoks[i:j]))
                break
            if t[0] == 'op' and t[1] in OPEN:
                d += 1
            elif t[0] == 'op' and t[1] in CLOSE:
                d -= 1
            j += 1
        i = j
    return L


MIN_SKIP = [
    r'std::apply \( cb , x \) ;',
    r'const auto \[ r , J \] = diff::dr < 1 , D > \( f , x \) ;',
    r'static constexpr auto N = JType::ColsAtCompileTime ;',
    r'if \( opts \. verbose( && iter == 0)? \)',
    r'const Eigen::Vector<double,N> d = colwise_norm \( J \) \. unaryExpr \( clamper \) ;',
    r'const double Delta = opts \. strat -> get_delta \( \) ;',
    r'const auto \[ dx , lambda \] = solve_trust_region \( J , d , r , Delta \) ;',
    r'const auto xp = wrt_rplus \( x , dx \) ;',
    r'x = xp ;',
]


def gen_minimize(repo):
    """optim.hpp `minimize`: the scalar decisions of the loop"""
    rel = 'include/smooth/optim.hpp'
    toks = lex(read(repo, rel))
    out = [f'/-! ### {rel} : minimize -/', '']
    # enum order of SolveResult::Status (the model's `Optim.Status` has the same constructors)
    b, e, _ = find_body(toks, r'enum class Status', 'SolveResult::Status')
    names = [text(p) for p in split_top(toks[b:e], ',') if p]
    if names != ['Ftol', 'Ptol', 'MaxIters']:
        raise TrErr(f'SolveResult::Status enumerators changed: {names}')
    out += ['/-- `enum class Status { ' + ', '.join(names) + ' }` -/',
            'def Minimize_statusOfIndex : Nat → Option Optim.Status',
            ] + [f'  | {i} => some .{n}' for i, n in enumerate(names)] + ['  | _ => none', '']
    b, e, m = find_body(toks, r'SolveResult minimize \( (?P<params>auto && f , auto && x , auto && cb , [^)]*) \) requires', 'minimize<D>(f, x, cb, opts)')
    body = parse_stmts(toks, b, e)
    subst = {
        'r.stableNorm()': ('rn', 'real'),
        'std::apply(f, xp).stableNorm()': ('fxpn', 'real'),
        '(r + J * dx).stableNorm()': ('linn', 'real'),
        'd.cwiseProduct(dx).stableNorm()': ('ddxn', 'real'),
        'dx.size()': ('n', 'nat'),
        'opts.strat->step_and_update(rho)': ('take', 'bool'),
        'opts.ftol': ('ftol', 'real'), 'opts.ptol': ('ptol', 'real'), 'opts.max_iter': ('max_iter', 'nat'),
        'status.has_value()': ('status.isSome', 'bool'),
        'SolveResult::Status::Ftol': ('some Optim.Status.Ftol', 'optstatus'),
        'SolveResult::Status::Ptol': ('some Optim.Status.Ptol', 'optstatus'),
    }
    spec = {'subst': subst, 'skip': MIN_SKIP}
    # --- top level: status / iter declarations, the loop, the return
    top_ok = [r'std::optional<SolveResult::Status> status = \{ \} ;', r'const auto t0 = std::chrono::high_resolution_clock::now \( \) ;',
              r'auto iter = 0u ;', r'std::apply \( cb , x \) ;', r'if \( opts \. verbose \)']
    loop = None
    ret = None
    for st in body:
        t = stmt_text(st) if st[0] != 'if' else 'if ( ' + text(st[2]) + ' )'
        if st[0] == 'for':
            if loop is not None:
                raise TrErr('minimize: more than one loop')
            loop = st
        elif st[0] == 'return':
            ret = st
        elif not any(re.fullmatch(p, t) for p in top_ok):
            raise TrErr('minimize: unexpected top-level statement: ' + t)
        elif assigned_names(all_tokens(st)) & {'status', 'iter'} and st[0] != 'simple':
            raise TrErr('minimize: a skipped block writes status/iter: ' + t)
    if loop is None or ret is None:
        raise TrErr('minimize: loop or return statement not found')
    if text(loop[1]) != '' or text(loop[3]) != '++ iter':
        raise TrErr('minimize: loop header changed: ' + stmt_text(loop))
    tr = Tr('Minimize', spec)
    env0 = {'iter': Var('nat'), 'max_iter': Var('nat'), 'status': Var('optstatus')}
    out += fn_def('Minimize_guard', [('iter', 'Nat'), ('max_iter', 'Nat'), ('status', 'Option Optim.Status')], 'Prop',
                  ['  ' + tr.cond(parse_expr(loop[2]), env0)], 'loop guard `' + text(loop[2]) + '`')
    # --- returned status: `.status = status.value_or(SolveResult::Status::MaxIters)`
    rt = text(ret[1])
    mm = re.search(r'\. status = status \. value_or \( SolveResult::Status::(\w+) \) ,', rt)
    if not mm or not re.search(r'\. iter = iter ,', rt):
        raise TrErr('minimize: return statement changed: ' + rt)
    out += fn_def('Minimize_result', [('status', 'Option Optim.Status'), ('iter', 'Nat')], 'Optim.Status × Nat',
                  [f'  (status.getD Optim.Status.{mm.group(1)}, iter)'], '`return {.status = status.value_or(…), .iter = iter, …}`')
    # --- loop body: every statement is translated or explicitly skipped; the body is emitted as ONE function
    lb = loop[4]
    # the diagonal-scaling clamp (a lambda of one double)
    clampst = find_stmt(lb, decl_named('clamper'), 'minimize: `clamper`', deep=False)
    lam = unparen(classify(clampst[1])[3])
    if lam[0] != 'lambda' or [p[1] for p in lam[1]] != ['el']:
        raise TrErr('minimize: clamper is no longer a lambda of `el`')
    trc = Tr('Minimize_clamper', {'clamp': 'BSpline.clamp'})
    lines = trc.stmts(lam[2], {'el': Var('real')}, '  ', Kont(fall=no_fall('clamper'), ret=ret_plain(trc, 'real')))
    out += fn_def('Minimize_clamper', [('el', 'α')], 'α', lines, '`clamper`: ' + text(clampst[1]))
    lb2 = [st for st in lb if st is not clampst]
    lb2 = [st for st in lb2 if not (st[0] == 'simple' and text(st[1]).startswith('using JType ='))]
    # accepted branch: then-block of the `if (… take_step)` statement
    params = [('ftol', 'α'), ('ptol', 'α'), ('rn', 'α'), ('fxpn', 'α'), ('linn', 'α'), ('ddxn', 'α'), ('n', 'Nat'),
              ('take', 'Bool'), ('status', 'Option Optim.Status')]
    env = {'ftol': Var('real'), 'ptol': Var('real'), 'rn': Var('real'), 'fxpn': Var('real'), 'linn': Var('real'),
           'ddxn': Var('real'), 'n': Var('nat'), 'take': Var('bool'), 'status': Var('optstatus')}
    tr = Tr('Minimize_body', spec)
    tr.tracked |= {'status', 'iter'}
    # result of the body: (rho, accepted?, status)
    accept = find_stmt(lb2, lambda st: st[0] == 'if' and any(s[0] == 'simple' and text(s[1]) == 'x = xp' for s in st[3]),
                       'minimize: the accept block `if (…) { x = xp; … }`', deep=False)
    if accept is not lb2[-1] or accept[4] is not None:
        raise TrErr('minimize: the accept block is no longer the last statement of the loop body / has an else branch')
    Kacc = Kont(fall=lambda e_, i_: [f'{i_}(actu_red, pred_red, rho, true, status)'], ret=None)
    Krej = Kont(fall=lambda e_, i_: [f'{i_}(actu_red, pred_red, rho, false, status)'], ret=None)

    def fall_main(e_, i_):
        c = tr.cond(parse_expr(accept[2]), e_)
        return ([f'{i_}if {c} then'] + tr.stmts(accept[3], e_, i_ + '  ', Kacc) + [f'{i_}else'] + Krej.fall(e_, i_ + '  '))
    lines = tr.stmts(lb2[:-1], env, '  ', Kont(fall=fall_main, ret=None))
    tr.check_skipped()
    out += fn_def('Minimize_body', params, 'α × α × α × Bool × Option Optim.Status', lines,
                  'loop body of `minimize` from `r_n` on: (actu_red, pred_red, rho, step accepted?, status).  Inputs: the norms the '
                  'loop computes, `take` = result of `strat->step_and_update(rho)`')
    return out


def search_hook(tr, e, env):
    k = e[0]
    if k == 'bin' and e[1] in ('>', '<=') and unparen(e[3]) == ('num', '0'):
        c = unparen(e[2])
        if c[0] == 'call' and unparen(c[1]) == ('id', 'wo') and len(c[2]) == 2:
            a, t = tr.expr(c[2][0], env, 'real')[0], tr.expr(c[2][1], env, 'real')[0]
            # wo(a, t) > 0  ⇔  t < a ;  wo(a, t) <= 0  ⇔  a ≤ t   (weak_ordering of the default `<=>`)
            return (f'{par(t)} < {par(a)}', 'prop') if e[1] == '>' else (f'{par(a)} ≤ {par(t)}', 'prop')
    if k == 'un' and e[1] == '*':
        return (f'r {par(tr.expr(e[2], env, "nat")[0])}', 'real')
    if k == 'call':
        f = unparen(e[1])
        if f[0] == 'id':
            n, a = f[1], e[2]
            if n == 'std::ranges::cbegin' and ser(a[0]) == 'r':
                return ('0', 'nat')
            if n == 'std::ranges::cend' and ser(a[0]) == 'r':
                return ('n', 'nat')
            if n == 'std::ranges::empty' and ser(a[0]) == 'r':
                return ('n = 0', 'prop')
            if n == 'next' and len(a) == 1:
                return (f'{par(tr.expr(a[0], env, "nat")[0])} + 1', 'nat')
            if n == 'std::distance' and len(a) == 2:
                return (f'{par(tr.expr(a[1], env, "nat")[0])} - {par(tr.expr(a[0], env, "nat")[0])}', 'nat')
            if n == 'std::ranges::next' and len(a) == 3:
                c = unparen(a[1])
                if c[0] == 'call' and unparen(c[1]) == ('id', 'static_cast<std::intptr_t>'):
                    lo, hi = tr.expr(a[0], env, 'nat')[0], tr.expr(a[2], env, 'nat')[0]
                    x = tr.expr(c[2][0], env, 'real')[0]
                    # next(it, n, bound) for n ≥ 0 advances by min(n, bound − it); the cast truncates
                    return (f'{par(lo)} + Search.floorNat {par(x)} ({par(hi)} - {par(lo)})', 'nat')
            if n == 'static_cast<double>' and len(a) == 1:
                r = tr.expr0(a[0], env)
                if r[1] == 'real':
                    return r
    return None


def gen_search(repo):
    rel = 'include/smooth/detail/utils.hpp'
    toks = lex(read(repo, rel))
    b, e, m = find_body(toks, r'constexpr auto binary_interval_search \( (?P<params>std::ranges::random_access_range auto && r , auto && t , auto && wo) \) noexcept',
                        'binary_interval_search(r, t, wo)')
    body = parse_stmts(toks, b, e)
    # the default comparison of the two-argument overload must still be `<=>`
    b2, e2, _ = find_body(toks, r'constexpr auto binary_interval_search \( std::ranges::random_access_range auto && r , auto && t \) noexcept',
                          'binary_interval_search(r, t)')
    t2 = text(toks[b2:e2])
    if not re.search(r'\[ \] \( const auto & _s , const auto & _t \) \{ return _s <=> _t ; \}', t2):
        raise TrErr('binary_interval_search(r, t): default comparison is no longer `_s <=> _t`')
    spec = {'hook': search_hook, 'fuel': ['n'],
            'cx': {'std::is_convertible_v<Rv,double> && std::is_convertible_v<T,double>': True},
            'param_ty': {}, 'loop_free': ['r']}
    tr = Tr('Search_binary_interval_search', spec)
    env = {'r': Var('fun', fun=(['nat'], 'real')), 'n': Var('nat'), 't': Var('real')}
    lines = tr.stmts(body, env, '  ', Kont(fall=no_fall('binary_interval_search'), ret=ret_plain(tr, 'nat')))
    tr.check_skipped()
    out = [f'/-! ### {rel} : binary_interval_search -/', '']
    for aux in tr.aux:
        out += ['/-- the `while (left + 1 < rght)` loop; state (left, rght, pivot) -/'] + aux
    out += fn_def('Search_binary_interval_search', [('r', 'Nat → α'), ('n', 'Nat'), ('t', 'α')], 'Nat', lines,
                  '`binary_interval_search(r, t, <=>)` on a range of doubles; iterators are indices, `end = n`')
    return out


def gen_bspline(repo):
    rel = 'include/smooth/spline/detail/bspline_impl.hpp'
    toks = lex(read(repo, rel))
    out = [f'/-! ### {rel} -/', '']
    subst = {'m_ctrl_pts.size()': ('N', 'nat')}
    base_env = lambda: {'K': Var('nat'), 'N': Var('nat'), 'm_t0': Var('real'), 'm_dt': Var('real')}
    for fn in ('t_min', 't_max', 'dt'):
        b, e, _ = find_body(toks, r'double BSpline<K,G>::' + fn + r' \( \) const' if False else r'double BSpline < K , G > :: ' + fn + r' \( \) const', 'BSpline::' + fn)
        tr = Tr('BSpline_' + fn, {'subst': subst})
        lines = tr.stmts(parse_stmts(toks, b, e), base_env(), '  ', Kont(fall=no_fall(fn), ret=ret_plain(tr, 'real')))
        out += fn_def('BSpline_' + fn, [('K', 'Nat'), ('N', 'Nat'), ('m_t0', 'α'), ('m_dt', 'α')], 'α', lines, f'`BSpline<K,G>::{fn}()`')
    b, e, m = find_body(toks, r'BSpline < K , G > :: operator \( \) \( (?P<params>const S & t , OptTangent < CastT < S , G > > vel , OptTangent < CastT < S , G > > acc) \) const',
                        'BSpline::operator()')
    body = parse_stmts(toks, b, e)
    # part 1: everything before `static constexpr auto pcb = …` is the index / clamp arithmetic
    idx = [i for i, st in enumerate(body) if st[0] == 'simple' and text(st[1]).startswith('static constexpr auto pcb =')]
    if len(idx) != 1:
        raise TrErr('BSpline::operator(): anchor `static constexpr auto pcb = …` not found')
    head, tail = body[:idx[0]], body[idx[0]:]
    tr = Tr('BSpline_select', {'subst': subst, 'clamp': 'BSpline.clamp'})
    env = base_env()
    env['t'] = Var('real')
    lines = tr.stmts(head, env, '  ', Kont(fall=lambda e_, i_: [i_ + tr.tuple_of(['istar', 'u'], e_, 'at the spline evaluation')], ret=None))
    tr.check_skipped()
    out += fn_def('BSpline_select', [('K', 'Nat'), ('N', 'Nat'), ('m_t0', 'α'), ('m_dt', 'α'), ('t', 'α')], 'Int × α', lines,
                  '`BSpline<K,G>::operator()`: interval index `istar` and local parameter `u` handed to `cspline_eval_gs`')
    # part 2: the tail must be: pcb, Bum, the cspline_eval_gs call using drop(istar)/take(K+1)/u, the two scalings, return g
    tt = [stmt_text(st) if st[0] != 'if' else 'if ( ' + text(st[2]) + ' ) { ' + ' '.join(stmt_text(s) for s in st[3]) + ' }' for st in tail]
    want = [r'static constexpr auto pcb = polynomial_cumulative_basis < PolynomialBasis::Bspline , K , double > \( \) ;',
            r'static const Eigen::Map < .* > Bum = Eigen::Map < .* > \( pcb \[ 0 \] \. data \( \) \) ;',
            r'CastT < S , G > g = cspline_eval_gs < K > \( m_ctrl_pts \| std::views::drop \( istar \) \| std::views::take \( int64_t \( K \+ 1 \) \) \| std::views::transform \( \[ \] \( const auto & glocal \) \{ return cast < S > \( glocal \) ; \} \) , Bum \. template cast < S > \( \) , u , vel , acc \) ;',
            r'if \( vel \. has_value \( \) \) \{ vel \. value \( \) /= (?P<vel>.*) ; \}',
            r'if \( acc \. has_value \( \) \) \{ acc \. value \( \) /= (?P<acc>.*) ; \}',
            r'return g ;']
    if len(tt) != len(want):
        raise TrErr('BSpline::operator(): statements after the index computation changed: ' + ' || '.join(tt))
    scal = {}
    for t, w in zip(tt, want):
        mm = re.fullmatch(w, t)
        if not mm:
            raise TrErr('BSpline::operator(): statement changed: ' + t)
        scal.update(mm.groupdict())
    for nm in ('vel', 'acc'):
        tr = Tr('BSpline_' + nm + '_div', {})
        s = tr.expr(parse_expr(lex(scal[nm])), base_env(), 'real')[0]
        out += fn_def(f'BSpline_{nm}_div', [('m_dt', 'α')], 'α', ['  ' + s], f'`{nm}.value() /= {scal[nm]}`')
    return out


def gen_intabs(repo):
    rel = 'include/smooth/polynomial/basis.hpp'
    toks = lex(read(repo, rel))
    b, e, m = find_body(toks, r'inline constexpr double integrate_absolute_polynomial \( (?P<params>[^)]*) \)', 'integrate_absolute_polynomial')
    expect_params(m, ['t0', 't1', 'A', 'B', 'C'], 'integrate_absolute_polynomial')
    spec = {'clamp': 'Poly.clamp', 'subst': {'std::numeric_limits<double>::infinity()': ('inf', 'real')}}
    tr = Tr('Poly_integrate_absolute_polynomial', spec)
    names = ['inf', 't0', 't1', 'A', 'B', 'C']
    env = {n: Var('real') for n in names}
    lines = tr.stmts(parse_stmts(toks, b, e), env, '  ', Kont(fall=no_fall('integrate_absolute_polynomial'), ret=ret_plain(tr, 'real')))
    tr.check_skipped()
    out = [f'/-! ### {rel} : integrate_absolute_polynomial -/', '']
    out += fn_def('Poly_integrate_absolute_polynomial', [(n, 'α') for n in names], 'α', lines,
                  '`integrate_absolute_polynomial(t0, t1, A, B, C)`; `inf` stands for `std::numeric_limits<double>::infinity()`')
    return out


def for_header(tr, st, env):
    """canonical counting loop `for (auto v = LO; v <|<=|!= HI; ++v)` -> (v, lo, hi_exclusive) as Lean Nat terms"""
    if st[0] != 'for':
        raise TrErr('expected a for loop: ' + stmt_text(st))
    c = classify(st[1])
    if c[0] != 'decl' or c[1] not in ('auto', 'std::size_t', 'unsigned') or c[3] is None:
        raise TrErr('unsupported loop initialisation: ' + stmt_text(st))
    v = c[2]
    lo = tr.expr(c[3], env, 'nat')[0]
    cond = unparen(parse_expr(st[2]))
    if cond[0] != 'bin' or cond[1] not in ('<', '<=', '!=') or unparen(cond[2]) != ('id', v):
        raise TrErr('unsupported loop condition: ' + stmt_text(st))
    hi = tr.expr(cond[3], env, 'nat')[0]
    if cond[1] == '<=':
        hi = f'{par(hi)} + 1'
    if text(st[3]) not in (f'++ {v}', f'{v} ++'):
        raise TrErr('unsupported loop increment: ' + stmt_text(st))
    if v in assigned_names([t for s_ in st[4] for t in all_tokens(s_)]):
        raise TrErr('loop counter written in the loop body: ' + stmt_text(st))
    return v, lo, hi


def gen_monoderiv(repo):
    """polynomial/basis.hpp monomial_derivative: guard, loop ranges, the P1/P2 recurrences and the values written"""
    rel = 'include/smooth/polynomial/basis.hpp'
    toks = lex(read(repo, rel))
    b, e, m = find_body(toks, r'constexpr StaticMatrix<Scalar,1,K\+1> monomial_derivative \( (?P<params>Scalar u , std::size_t p = 0) \)', 'monomial_derivative')
    body = parse_stmts(toks, b, e)
    shape = [st[0] for st in body]
    if shape != ['simple', 'if', 'for', 'simple', 'simple', 'for', 'simple', 'for', 'return']:
        raise TrErr('monomial_derivative: statement structure changed: ' + ' | '.join(stmt_text(s_) for s_ in body))
    if text(body[0][1]) != 'StaticMatrix<Scalar,1,K+1> ret' or text(body[8][1]) != 'ret':
        raise TrErr('monomial_derivative: declaration / return of `ret` changed')
    out = [f'/-! ### {rel} : monomial_derivative -/', '']
    written = []

    def ahook(tr, lhs, op, rhs, env, ind):
        # ret[0][IDX] = VALUE  ->  recorded as (index, value)
        if lhs[0] == 'index' and unparen(lhs[1])[0] == 'index' and ser(unparen(lhs[1])) == 'ret[0]' and op == '=':
            written.append((tr.expr(lhs[2], env, 'nat')[0], tr.expr(rhs, env, 'real')[0]))
            return [], env
        return None
    spec = {'assign_hook': ahook}
    base = {'K': Var('nat'), 'p': Var('nat'), 'u': Var('real')}
    # 1. `if (p > K) { return ret; }`
    g = body[1]
    if g[1] or g[4] is not None or [stmt_text(s_) for s_ in g[3]] != ['return ret ;']:
        raise TrErr('monomial_derivative: the early return changed')
    tr = Tr('Poly_monoderiv', spec)
    out += fn_def('Poly_monoderiv_zero_guard', [('K', 'Nat'), ('p', 'Nat')], 'Prop', ['  ' + tr.cond(parse_expr(g[2]), base)],
                  '`if (' + text(g[2]) + ') { return ret; }` (ret is all zeros)')

    def loop_slice(st, env, state, name, doc):
        """a counting loop whose body updates `state` and writes at most one entry of ret:
           emits name_range : Nat × Nat and name_step : state' × (index, value)"""
        tr = Tr(name, spec)
        v, lo, hi = for_header(tr, st, env)
        ps = [(n, LEANTY[env[n].ty]) for n in env if n not in state] + [(v, 'Nat')] + [(n, LEANTY[env[n].ty]) for n in state]
        rng_ps = [(n, 'Nat') for n in ('K', 'p')]
        res = fn_def(name + '_range', rng_ps, 'Nat × Nat', [f'  ({lo}, {hi})'], doc + ': index range [lo, hi) of `' + stmt_text(st) + '`')
        e2 = dict(env)
        e2[v] = Var('nat')
        del written[:]

        def fall(e_, i_):
            parts = []
            if state:
                parts.append(tr.tuple_of(state, e_, ''))
            if written:
                if len(written) != 1:
                    raise TrErr(name + ': more than one write to ret per iteration')
                parts.append(f'({written[0][0]}, {written[0][1]})')
            return [i_ + ('(' + ', '.join(parts) + ')' if len(parts) > 1 else parts[0])]
        lines = tr.stmts(st[4], e2, '  ', Kont(fall=fall, ret=None))
        tys = []
        if state:
            tys.append('(' + tr.tuple_ty(state, env) + ')' if len(state) > 1 else tr.tuple_ty(state, env))
        if written:
            tys.append('(Nat × α)')
        res += fn_def(name + '_step', ps, ' × '.join(tys), lines, doc + ': one iteration (new state' + (', (index, value) written to ret[0]' if written else '') + ')')
        return res
    out += loop_slice(body[2], base, [], 'Poly_monoderiv_head', 'leading zeros')
    # P1, P2 initial values
    env = dict(base)
    tr = Tr('Poly_monoderiv_init', spec)
    c1, c2 = classify(body[3][1]), classify(body[4][1])
    if c1[:3] != ('decl', 'Scalar', 'P1') or c2[:3] != ('decl', 'std::size_t', 'P2'):
        raise TrErr('monomial_derivative: declarations of P1 / P2 changed')
    out += fn_def('Poly_monoderiv_init', [], 'α × Nat', [f'  ({tr.expr(c1[3], env, "real")[0]}, {tr.expr(c2[3], env, "nat")[0]})'], '`Scalar P1 = …; std::size_t P2 = …;`')
    env['P1'], env['P2'] = Var('real'), Var('nat')
    out += loop_slice(body[5], env, ['P2'], 'Poly_monoderiv_fact', 'factorial loop')
    # ret[0][p] = P1 * static_cast<Scalar>(P2);
    tr = Tr('Poly_monoderiv_at_p', spec)
    del written[:]
    tr.stmts([body[6]], env, '  ', Kont(fall=lambda e_, i_: [], ret=None))
    if len(written) != 1:
        raise TrErr('monomial_derivative: the write of entry p changed: ' + stmt_text(body[6]))
    out += fn_def('Poly_monoderiv_at_p', [('p', 'Nat'), ('P1', 'α'), ('P2', 'Nat')], 'Nat × α', [f'  ({written[0][0]}, {written[0][1]})'], '`' + stmt_text(body[6]) + '`')
    out += loop_slice(body[7], env, ['P1', 'P2'], 'Poly_monoderiv_tail', 'main loop')
    # monomial_derivatives: rows p = 0..P of monomial_derivative<K>(u, p)
    b, e, m = find_body(toks, r'constexpr StaticMatrix<Scalar,P\+1,K\+1> monomial_derivatives \( (?P<params>Scalar u) \)', 'monomial_derivatives')
    body = parse_stmts(toks, b, e)
    if [st[0] for st in body] != ['simple', 'for', 'return'] or [stmt_text(s_) for s_ in body[1][4]] != ['ret [ p ] = monomial_derivative<K,Scalar> ( u , p ) [ 0 ] ;']:
        raise TrErr('monomial_derivatives: structure changed')
    tr = Tr('Poly_monoderivs', {})
    v, lo, hi = for_header(tr, body[1], {'K': Var('nat'), 'P': Var('nat')})
    out += fn_def('Poly_monoderivs_range', [('P', 'Nat')], 'Nat × Nat', [f'  ({lo}, {hi})'], 'rows written by `monomial_derivatives<K,P>`: `' + stmt_text(body[1]) + '`')
    return out


SEGS = {'DubinsSegment::Left': ('Dubins.Seg.L', 'seg'), 'DubinsSegment::Straight': ('Dubins.Seg.S', 'seg'),
        'DubinsSegment::Right': ('Dubins.Seg.R', 'seg'),
        'detail::DubinsSegment::Left': ('Dubins.Seg.L', 'seg'), 'detail::DubinsSegment::Straight': ('Dubins.Seg.S', 'seg'),
        'detail::DubinsSegment::Right': ('Dubins.Seg.R', 'seg')}


def gen_dubins(repo):
    """spline/detail/dubins_impl.hpp: dubins_angle, the candidate scan of dubins(), the segments emitted by dubins_curve"""
    rel = 'include/smooth/spline/detail/dubins_impl.hpp'
    toks = lex(read(repo, rel))
    out = [f'/-! ### {rel} -/', '']
    b, e, _ = find_body(toks, r'enum class DubinsSegment', 'DubinsSegment')
    if text(toks[b:e]) != 'Left , Straight , Right':
        raise TrErr('DubinsSegment enumerators changed: ' + text(toks[b:e]))
    # --- dubins_angle
    b, e, m = find_body(toks, r'inline double dubins_angle \( (?P<params>const smooth::SO2d & x1 , const smooth::SO2d & x2 , DubinsSegment s) \)', 'dubins_angle')
    spec = {'consts': dict(SEGS, pi=('Scalar.pi', 'real')), 'subst': {'(x2 - x1).x()': ('d0', 'real')}}
    tr = Tr('Dubins_angle', spec)
    lines = tr.stmts(parse_stmts(toks, b, e), {'d0': Var('real'), 's': Var('seg')}, '  ', Kont(fall=no_fall('dubins_angle'), ret=ret_plain(tr, 'real')))
    out += fn_def('Dubins_angle', [('d0', 'α'), ('s', 'Dubins.Seg')], 'α', lines, '`dubins_angle(x1, x2, s)` with `d0 = (x2 - x1).x()`')
    # --- dubins(): min_length, six candidate blocks, return ret
    b, e, m = find_body(toks, r'inline DubinsDescription dubins \( (?P<params>const smooth::SE2d & target , double R) \)', 'dubins')
    body = parse_stmts(toks, b, e)
    if [st[0] for st in body] != ['simple', 'simple'] + ['block'] * 6 + ['return'] or text(body[-1][1]) != 'ret' or text(body[1][1]) != 'DubinsDescription ret':
        raise TrErr('dubins: statement structure changed (expected min_length, ret, six candidate blocks, return ret)')
    spec = {'consts': SEGS, 'subst': {'std::numeric_limits<double>::infinity()': ('Dubins.inf', 'real')}}
    tr = Tr('Dubins', spec)
    c = classify(body[0][1])
    if c[:3] != ('decl', 'double', 'min_length'):
        raise TrErr('dubins: declaration of min_length changed')
    out += fn_def('Dubins_min_length_init', [], 'α', ['  ' + tr.expr(c[3], {}, 'real')[0]], '`' + stmt_text(body[0]) + '`')
    accepts = set()
    for k, blk in enumerate(body[2:8], 1):
        L = blk[1]
        if len(L) != 3 or L[0][0] != 'simple' or L[1][0] != 'simple' or L[2][0] != 'if':
            raise TrErr(f'dubins: candidate block {k} changed shape')
        mm = re.fullmatch(r'auto \[ (\w+) , (\w+) , (\w+) \] = detail::dubins_(csc|ccc) \( target , R , (DubinsSegment::\w+) , (DubinsSegment::\w+) \)', text(L[0][1]))
        if not mm:
            raise TrErr(f'dubins: candidate block {k}: call changed: ' + stmt_text(L[0]))
        n1, n2, n3, fn, sa, sb = mm.groups()
        env = {'target': Var('opaque'), 'R': Var('real'), n1: Var('real'), n2: Var('real'), n3: Var('real'), 'min_length': Var('real')}
        tr = Tr(f'Dubins_cand{k}', spec)
        lines = [f'  let _r : α × α × α := Dubins.{fn} target R {SEGS[sa][0]} {SEGS[sb][0]}',
                 f'  let {n1} : α := _r.1', f'  let {n2} : α := _r.2.1', f'  let {n3} : α := _r.2.2']
        c = classify(L[1][1])
        if c[:3] != ('decl', 'double', 'len'):
            raise TrErr(f'dubins: candidate block {k}: declaration of len changed')
        lines.append('  let len : α := ' + tr.expr(c[3], env, 'real')[0])
        env['len'] = Var('real')
        iff = L[2]
        accepts.add(tr.cond(parse_expr(iff[2]), env))
        if iff[4] is not None or len(iff[3]) != 2 or stmt_text(iff[3][0]) != 'min_length = len ;':
            raise TrErr(f'dubins: candidate block {k}: accept block changed')
        mm = re.fullmatch(r'ret = \{ std::pair < DubinsSegment , double > \{ (DubinsSegment::\w+) , (\w+) \} , '
                          r'std::pair < DubinsSegment , double > \{ (DubinsSegment::\w+) , (\w+) \} , '
                          r'std::pair < DubinsSegment , double > \{ (DubinsSegment::\w+) , (\w+) \} , \}', text(iff[3][1][1]))
        if not mm:
            raise TrErr(f'dubins: candidate block {k}: assignment of ret changed: ' + stmt_text(iff[3][1]))
        w1, l1, w2, l2, w3, l3 = mm.groups()
        for l_ in (l1, l2, l3):
            if l_ not in (n1, n2, n3):
                raise TrErr(f'dubins: candidate block {k}: unknown length {l_}')
        lines.append(f'  ⟨({SEGS[w1][0]}, {SEGS[w2][0]}, {SEGS[w3][0]}), ({l1}, {l2}, {l3}), len⟩')
        out += fn_def(f'Dubins_cand{k}', [('target', 'Vec α 4'), ('R', 'α')], 'Dubins.Cand α', lines,
                      f'candidate block {k} of `dubins`: the call, `len`, and the description stored when accepted')
    if len(accepts) != 1:
        raise TrErr('dubins: the six accept conditions differ: ' + ' / '.join(sorted(accepts)))
    out += fn_def('Dubins_accept', [('len', 'α'), ('min_length', 'α')], 'Prop', ['  ' + accepts.pop()], 'accept condition of every candidate block')
    # --- dubins_curve: the three `ret += ConstantVelocity(Vector3d(vx, vy, kappa), T)` branches
    b, e, m = find_body(toks, r'Spline<K,smooth::SE2d> dubins_curve \( (?P<params>const smooth::SE2d & gb , double R) \)', 'dubins_curve')
    body = parse_stmts(toks, b, e)
    if [stmt_text(s_) for s_ in body if s_[0] != 'for'] != ['const auto desc = detail::dubins ( gb , R ) ;', 'Spline<K,smooth::SE2d> ret ;', 'return ret ;']:
        raise TrErr('dubins_curve: statement structure changed')
    loop = find_stmt(body, lambda st: st[0] == 'for', 'dubins_curve: the loop over the three segments', deep=False)
    tr = Tr('Dubins_emit', {})
    v, lo, hi = for_header(tr, loop, {})
    if (lo, hi) != ('0', '3') or stmt_text(loop[4][0]) != 'const auto & [ c , l ] = desc [ i ] ;' or len(loop[4]) != 2:
        raise TrErr('dubins_curve: loop changed: ' + stmt_text(loop))
    emitted = []

    def ahook(tr, lhs, op, rhs, env, ind):
        r = unparen(rhs)
        if lhs == ('id', 'ret') and op == '+=' and r[0] == 'call' and ser(r[1]) == 'Spline<K,smooth::SE2d>::ConstantVelocity':
            v3, T = unparen(r[2][0]), r[2][1]
            if v3[0] != 'call' or ser(v3[1]) != 'Eigen::Vector3d' or len(v3[2]) != 3:
                raise TrErr('dubins_curve: velocity argument changed: ' + ser(rhs))
            vals = [tr.expr(x, env, 'real')[0] for x in v3[2]] + [tr.expr(T, env, 'real')[0]]
            return [f'{ind}⟨' + ', '.join(vals) + '⟩'], env
        return None
    spec = {'consts': SEGS, 'assign_hook': ahook}
    tr = Tr('Dubins_emit', spec)
    lines = tr.stmts([loop[4][1]], {'R': Var('real'), 'l': Var('real'), 'c': Var('seg')}, '  ', Kont(fall=lambda e_, i_: [], ret=None))
    out += fn_def('Dubins_emit', [('R', 'α'), ('c', 'Dubins.Seg'), ('l', 'α')], 'Dubins.Emit α', lines,
                  'the segment appended by `dubins_curve` for a description entry `(c, l)`: `ConstantVelocity((vx, vy, κ), T)`')
    return out


VEC = {'vel': 'vel', 'acc': 'acc', 'vel_max': 'vmax', 'vel_min': 'vmin', 'acc_max': 'amax', 'acc_min': 'amin'}
VECP = [(v, 'α') for v in ('vel', 'acc', 'vmax', 'vmin', 'amax', 'amin')]


def gen_reparam(repo):
    """spline/detail/reparameterize_impl.hpp: constants, per-coordinate steps of the three bound loops, LP rows,
       the status chain of the backward pass, and the tail of the forward loop body (dt, segment, v2m)"""
    rel = 'include/smooth/spline/detail/reparameterize_impl.hpp'
    toks = lex(read(repo, rel))
    out = [f'/-! ### {rel} -/', '']
    b, e, m = find_body(toks, r'Spline<2,double> reparameterize_spline \( (?P<params>[^)]*) \)', 'reparameterize_spline')
    expect_params(m, ['spline', 'vel_min', 'vel_max', 'acc_min', 'acc_max', 'start_vel', 'end_vel', 'N'], 'reparameterize_spline')
    body = parse_stmts(toks, b, e)
    # lp2d::Status enumerators (the model stores the status as its index)
    lt = lex(read(repo, 'include/smooth/external/lp2d.hpp'))
    b2, e2, _ = find_body(lt, r'enum class Status', 'lp2d::Status')
    stat = [text(p_) for p_ in split_top(lt[b2:e2], ',') if p_]
    consts = {'lp2d::Status::' + n: (str(i), 'nat') for i, n in enumerate(stat)}
    vdefs = {}

    def hook(tr, e, env):
        if e[0] == 'call' and unparen(e[1])[0] == 'id' and len(e[2]) == 1 and ser(e[2][0]) == 'j':
            n = unparen(e[1])[1]
            if n in VEC:
                return (VEC[n], 'real')
            if n in vdefs:
                tr.comp = True
                try:
                    return (par(tr.expr(vdefs[n], env, 'real')[0]), 'real')
                finally:
                    tr.comp = False
        if e[0] == 'id' and e[1] in VEC and getattr(tr, 'comp', False):
            return (VEC[e[1]], 'real')
        if e[0] == 'call' and ser(e) == 'v2max(i + 1)':
            return ('v2next', 'real')
        if e[0] == 'call' and ser(e) == 'v2max(0)':
            return ('v2max0', 'real')
        if e[0] == 'bin' and e[1] in ('!=', '==') and unparen(e[3]) == ('id', 'inf'):
            x = tr.expr(e[2], env, 'real')[0]
            # +inf is the largest value: `x == inf` ⇔ `inf ≤ x`
            return (f'Reparam.inf ≤ {par(x)}' if e[1] == '==' else f'¬ (Reparam.inf ≤ {par(x)})', 'prop')
        if e == ('id', 'inf'):
            return ('Reparam.inf', 'real')
        if e[0] == 'id' and e[1] == 'Dof<G>':
            return ('dof', 'nat')
        return None
    consts['eps'] = ('Reparam_eps', 'real')
    spec = {'hook': hook, 'consts': consts}
    # --- constants
    st = find_stmt(body, decl_named('eps'), 'reparameterize_spline: `eps`', deep=False)
    tr = Tr('Reparam', {})
    out += fn_def('Reparam_eps', [], 'α', ['  ' + tr.expr(classify(st[1])[3], {}, 'real')[0]], '`' + stmt_text(st) + '`')
    st = find_stmt(body, decl_named('inf'), 'reparameterize_spline: `inf`', deep=False)
    if ser(classify(st[1])[3]) != 'std::numeric_limits<double>::infinity()':
        raise TrErr('reparameterize_spline: `inf` is no longer +infinity')
    out += ['/-- `enum class Status { ' + ', '.join(stat) + ' }` of lp2d.hpp as indices -/',
            'def Reparam_lp_status_index : List (String × Nat) :=',
            '  [' + ', '.join(f'("{n}", {i})' for i, n in enumerate(stat)) + ']', '']

    def lambda_of(name):
        """`T name = [&]() { … }();` (also `v2max(idx) = [&]() {…}();`) -> body statements of the lambda"""
        def pred(st):
            return st[0] == 'simple' and re.match(name + r' = \[ & \] \( \) \{', text(st[1])) and text(st[1]).endswith('} ( )')
        st = find_stmt(body, pred, f'reparameterize_spline: the lambda initialising `{name}`')
        j = [i for i, t in enumerate(st[1]) if t == ('op', '{')][0]
        return parse_stmts(st[1], j + 1, match_close(st[1], j))

    def step_of(L, var, fname, initparams, doc, skip=()):
        """lambda body = `double var = INIT; [skipped…] [vector defs] for (j …) { if-chain on var } return var;`"""
        L = [s_ for s_ in L if stmt_text(s_) not in skip]
        c = classify(L[0][1])
        if c[0] != 'decl' or c[2] != var or L[-1][0] != 'return' or text(L[-1][1]) != var:
            raise TrErr(f'{fname}: shape of the lambda changed')
        tr = Tr(fname, spec)
        env0 = {n: Var('real') for n, _ in initparams}
        res = fn_def(fname + '_init', initparams, 'α', ['  ' + tr.expr(c[3], env0, 'real')[0]], doc + ': initial value `' + stmt_text(L[0]) + '`')
        vdefs.clear()
        loop = None
        for s_ in L[1:-1]:
            mm = re.fullmatch(r'const Tangent < G > (\w+) = (.*) ;', stmt_text(s_)) if s_[0] == 'simple' else None
            if mm:
                vdefs[mm.group(1)] = parse_expr(lex(mm.group(2)))
            elif s_[0] in ('for', 'rangefor') and loop is None:
                loop = s_
            else:
                raise TrErr(f'{fname}: unexpected statement: ' + stmt_text(s_))
        hdr = text(loop[1]) if loop[0] == 'rangefor' else text(loop[1]) + ' ; ' + text(loop[2]) + ' ; ' + text(loop[3])
        if hdr not in ('auto j = 0u ; j < Dof<G> ; ++ j', 'const auto j : std::views::iota ( 0 , Dof<G> )'):
            raise TrErr(f'{fname}: the loop over the coordinates changed: ' + hdr)
        env = {n: Var('real') for n in [var] + [v for v, _ in VECP] + ['vi2']}
        tr = Tr(fname, spec)
        lbody = loop[4] if loop[0] == 'for' else loop[2]
        lines = tr.stmts(lbody, env, '  ', Kont(fall=lambda e_, i_: [i_ + var], ret=None))
        res += fn_def(fname + '_step', [(var, 'α')] + VECP + [('vi2', 'α')], 'α', lines, doc + ': update for one coordinate j (vel = vel(j), vmax = vel_max(j), …)')
        return res
    out += step_of(lambda_of(r'v2max \( static_cast<Eigen::Index> \( N \) \)'), 'ret', 'Reparam_endV2', [('end_vel', 'α')],
                   'v2max(N)', skip=('Tangent < G > vel , acc ;', 'spline ( sf , vel , acc ) ;'))
    out += step_of(lambda_of('const double ai'), 'local_ret', 'Reparam_maxAcc', [('v2next', 'α'), ('vi2', 'α'), ('ds', 'α')], 'ai')
    # --- backward pass: LP rows and the status chain
    bw = find_stmt(body, lambda st: st[0] == 'rangefor' and text(st[1]) == 'const auto i : std::views::iota ( 0u , N ) | std::views::reverse',
                   'reparameterize_spline: the backward loop', deep=False)
    rows = {}

    def ahook(tr, lhs, op, rhs, env, ind):
        if lhs[0] == 'index' and unparen(lhs[1]) == ('id', 'ineq') and op == '=' and unparen(rhs)[0] == 'init' and len(unparen(rhs)[1]) == 3:
            rows.setdefault(tr.expr(lhs[2], env, 'nat')[0], []).append(
                '(' + ', '.join(tr.expr(x, env, 'real')[0] for x in unparen(rhs)[1]) + ')')
            return [], env
        if lhs[0] == 'call' and ser(lhs) == 'v2max(i)' and op == '=':
            return [f'{ind}{tr.expr(rhs, env, "real")[0]}'], env
        return None

    def shook(tr, e, env, ind):
        e = unparen(e)
        if e[0] == 'call' and e[1][0] == 'member' and e[1][2] == 'fill' and unparen(e[1][1])[0] == 'index' and ser(unparen(e[1][1])[1]) == 'ineq':
            z = tr.expr(e[2][0], env, 'real')[0]
            rows.setdefault(tr.expr(unparen(e[1][1])[2], env, 'nat')[0], []).append(f'({z}, {z}, {z})')
            return [], env
        return None
    spec_b = dict(spec, assign_hook=ahook, stmt_hook=shook)
    bskip = {'const double si = s0 + ds * i ;', 'Tangent < G > vel , acc ;', 'spline ( si , vel , acc ) ;',
             'std::array<std::array<double,3>,1+3*Dof<G>> ineq ;', 'const auto [ v2opt , aopt , status ] = lp2d::solve ( - 1 , 0 , ineq ) ;'}
    lb = [s_ for s_ in bw[2] if stmt_text(s_) not in bskip]
    if [s_[0] for s_ in lb] != ['simple', 'for', 'for', 'if']:
        raise TrErr('reparameterize_spline: statements of the backward loop changed: ' + ' | '.join(stmt_text(s_) for s_ in lb))
    if not any(stmt_text(s_) == 'const auto [ v2opt , aopt , status ] = lp2d::solve ( - 1 , 0 , ineq ) ;' for s_ in bw[2]):
        raise TrErr('reparameterize_spline: the call of lp2d::solve(-1, 0, ineq) changed')
    envr = {n: Var('real') for n in ['ds', 'v2next'] + [v for v, _ in VECP]}
    envr['j'], envr['dof'] = Var('nat'), Var('nat')
    tr = Tr('Reparam_lp', spec_b)
    tr.stmts([lb[0]], envr, '  ', Kont(fall=lambda e_, i_: [], ret=None))
    if list(rows) != ['0'] or len(rows['0']) != 1:
        raise TrErr('reparameterize_spline: constraint [1] changed')
    out += fn_def('Reparam_lp_row0', [('ds', 'α'), ('v2next', 'α')], 'α × α × α', ['  ' + rows['0'][0]], 'constraint [1]: `' + stmt_text(lb[0]) + '`')
    for k, (loop, nm, doc) in enumerate(((lb[1], 'vel', 'constraints [2]'), (lb[2], 'acc', 'constraints [3]'))):
        rows.clear()
        tr = Tr('Reparam_lp_' + nm, spec_b)
        v, lo, hi = for_header(tr, loop, {'dof': Var('nat')})
        if (v, lo, hi) != ('j', '0', 'dof'):
            raise TrErr('reparameterize_spline: loop over the coordinates changed: ' + stmt_text(loop))
        if nm == 'vel':
            # one row per coordinate, chosen by an if-chain: emit the chain with the row as value
            idxs = set()

            def ah2(tr, lhs, op, rhs, env, ind):
                r_ = ahook(tr, lhs, op, rhs, env, ind)
                if r_ is not None and rows:
                    (ix, vals), = rows.items()
                    idxs.add(ix)
                    row = vals[-1]
                    rows.clear()
                    return [ind + row], env
                return r_

            def sh2(tr, e, env, ind):
                r_ = shook(tr, e, env, ind)
                if r_ is not None and rows:
                    (ix, vals), = rows.items()
                    idxs.add(ix)
                    row = vals[-1]
                    rows.clear()
                    return [ind + row], env
                return r_
            tr = Tr('Reparam_lp_vel', dict(spec, assign_hook=ah2, stmt_hook=sh2))
            lines = tr.stmts(loop[4], envr, '  ', Kont(fall=lambda e_, i_: [], ret=None))
            if len(idxs) != 1:
                raise TrErr('reparameterize_spline: constraints [2] write different rows: ' + str(idxs))
            out += fn_def('Reparam_lp_row_vel', VECP, 'α × α × α', lines, doc + ' for one coordinate j')
            out += fn_def('Reparam_lp_idx_vel', [('dof', 'Nat'), ('j', 'Nat')], 'Nat', ['  ' + idxs.pop()], doc + ': row index')
        else:
            tr.stmts(loop[4], envr, '  ', Kont(fall=lambda e_, i_: [], ret=None))
            if len(rows) != 2 or any(len(v_) != 1 for v_ in rows.values()):
                raise TrErr('reparameterize_spline: constraints [3] changed')
            for (ix, vals), suffix in zip(rows.items(), ('hi', 'lo')):
                out += fn_def('Reparam_lp_row_acc_' + suffix, VECP, 'α × α × α', ['  ' + vals[0]], doc + f' ({suffix}) for one coordinate j')
                out += fn_def('Reparam_lp_idx_acc_' + suffix, [('dof', 'Nat'), ('j', 'Nat')], 'Nat', ['  ' + ix], doc + f' ({suffix}): row index')
    tr = Tr('Reparam_backward', spec_b)
    lines = tr.stmts([lb[3]], {'status': Var('nat'), 'v2opt': Var('real')}, '  ', Kont(fall=lambda e_, i_: [], ret=None))
    out += fn_def('Reparam_backward_value', [('v2opt', 'α'), ('status', 'Nat')], 'α', lines, '`v2max(i)` from the LP result (status as enumerator index)')
    # --- forward pass
    st = find_stmt(body, decl_named('v2m'), 'reparameterize_spline: `v2m`', deep=False)
    tr = Tr('Reparam_v2m_init', spec)
    out += fn_def('Reparam_v2m_init', [('start_vel', 'α'), ('v2max0', 'α')], 'α',
                  ['  ' + tr.expr(classify(st[1])[3], {'start_vel': Var('real')}, 'real')[0]], '`' + stmt_text(st) + '`')
    fw = find_stmt(body, lambda st: st[0] == 'rangefor' and text(st[1]) == 'const auto i : std::views::iota ( 0u , N )',
                   'reparameterize_spline: the forward loop', deep=False)
    fskip = {'Tangent < G > vel , acc ;', 'spline ( si , vel , acc ) ;'}
    lf = [s_ for s_ in fw[2] if stmt_text(s_) not in fskip]
    if [s_[0] for s_ in lf] != ['simple'] * 4 + ['if'] or not text(lf[3][1]).startswith('const double ai = [ & ] ( ) {'):
        raise TrErr('reparameterize_spline: statements of the forward loop changed: ' + ' | '.join(stmt_text(s_) for s_ in lf))

    def shook_f(tr, e, env, ind):
        e = unparen(e)
        if e[0] == 'call' and ser(e[1]) == 'ret.concat_global' and len(e[2]) == 1:
            a = unparen(e[2][0])
            if a[0] == 'call' and ser(a[1]) == 'Spline<2,double>' and len(a[2]) == 3:
                v2 = unparen(a[2][1])
                if v2[0] == 'call' and ser(v2[1]) == 'Eigen::Vector2d' and len(v2[2]) == 2:
                    vals = [tr.expr(x, env, 'real')[0] for x in (a[2][0], v2[2][0], v2[2][1], a[2][2])]
                    env = dict(env)
                    env['seg'] = Var('optseg')
                    return [f'{ind}let seg : Option (Reparam.SegOut α) := some ⟨' + ', '.join(vals) + '⟩'], env
        return None
    spec_f = dict(spec, stmt_hook=shook_f, pseudo_writes={'seg': r'ret \. concat_global'})
    tr = Tr('Reparam_forward', spec_f)
    env = {'s0': Var('real'), 'ds': Var('real'), 'i': Var('nat'), 'ai': Var('real'), 'v2m': Var('real'), 'seg': Var('optseg')}
    Kf = Kont(fall=lambda e_, i_: [f'{i_}(v2m, seg)'], ret=None)
    lines = ['  let seg : Option (Reparam.SegOut α) := none'] + tr.stmts(lf[:3] + [lf[4]], env, '  ', Kf)
    out += fn_def('Reparam_forward_step', [('s0', 'α'), ('ds', 'α'), ('i', 'Nat'), ('ai', 'α'), ('v2m', 'α')], 'α × Option (Reparam.SegOut α)', lines,
                  'forward loop body at grid index i with the maximal acceleration `ai` given: new `v2m` and the segment appended (if any)')
    return out


def dub_hook(tr, e, env):
    """the SO2 / SE2 / Vector2d operations used by dubins_csc / dubins_ccc, mapped to the model's primitives"""
    k = e[0]
    R_ = lambda x: par(tr.expr(x, env, 'real')[0])
    if k == 'init' and len(e[1]) == 2:
        return (f'mk2 {R_(e[1][0])} {R_(e[1][1])}', 'v2')
    if k == 'call':
        f, a = unparen(e[1]), e[2]
        if f[0] == 'id':
            n = f[1]
            if n == 'smooth::SO2d' and len(a) == 2:
                return (f'Dubins.so2norm {R_(a[0])} {R_(a[1])}', 'so2')      # SO2d(qz, qw): normalising constructor
            if n == 'smooth::SO2d' and len(a) == 1:
                return (f'SO2.exp (mk1 {R_(a[0])})', 'so2')                   # SO2d(angle)
            if n == 'smooth::SO2d::Identity' and not a:
                return ('SO2.identity', 'so2')
            if n == 'Eigen::Vector2d' and len(a) == 2:
                return (f'mk2 {R_(a[0])} {R_(a[1])}', 'v2')
            if n == 'dubins_angle' and len(a) == 3:
                x1, x2 = par(tr.expr(a[0], env, 'so2')[0]), par(tr.expr(a[1], env, 'so2')[0])
                return (f'Dubins.angle {x1} {x2} {par(tr.expr(a[2], env, "seg")[0])}', 'real')
        if f[0] == 'member':
            obj, name = f[1], f[2]
            if name in ('real', 'imag') and not a:
                o = unparen(obj)
                if o[0] == 'call' and unparen(o[1])[0] == 'member' and unparen(o[1])[2] == 'u1' and not o[2]:
                    s_, t_ = tr.expr0(unparen(o[1])[1], env)
                    if t_ == 'so2':
                        return (f'{par(s_)} {1 if name == "real" else 0}', 'real')   # u1 = qw + i qz
            s_, t_ = tr.expr0(obj, env)
            if name == 'inverse' and not a and t_ == 'so2':
                return (f'SO2.inverse {par(s_)}', 'so2')
            if name == 'so2' and not a and t_ == 'se2':
                return (f'SE2.so2 {par(s_)}', 'so2')
            if name in ('x', 'y') and not a and t_ == 'v2':
                return (f'{par(s_)} {0 if name == "x" else 1}', 'real')
            if name == 'norm' and not a and t_ == 'v2':
                return (f'Dubins.norm2 {par(s_)}', 'real')
            if name == 'normalized' and not a and t_ == 'v2':
                return (f'Dubins.normalized {par(s_)}', 'v2')
            if name == 'dot' and len(a) == 1 and t_ == 'v2':
                b = unparen(a[0])
                if b[0] == 'call' and unparen(b[1]) == ('id', 'Eigen::Vector2d') and len(b[2]) == 2:
                    return (f'({par(s_)} 0 * {R_(b[2][0])}) + ({par(s_)} 1 * {R_(b[2][1])})', 'real')
    if k == 'bin' and e[1] in ('*', '-'):
        ids = {t[1] for t in lex(ser(e)) if t[0] == 'id'}
        if any(n in env and env[n].ty in ('so2', 'se2', 'v2') for n in ids) or 'smooth::SO2d' in ids or 'Eigen::Vector2d' in ids:
            a, b = tr.expr0(e[2], env), tr.expr0(e[3], env)
            if e[1] == '*' and a[1] == 'so2' and b[1] == 'so2':
                return (f'SO2.composition {par(a[0])} {par(b[0])}', 'so2')
            if e[1] == '*' and a[1] == 'se2' and b[1] == 'v2':
                return (f'SE2.act {par(a[0])} {par(b[0])}', 'v2')
            if e[1] == '-' and a[1] == 'v2' and b[1] == 'v2':
                return (f'vsub {par(a[0])} {par(b[0])}', 'v2')
    return None


def gen_dubins_words(repo):
    """dubins_csc / dubins_ccc: whole functions (thresholds, infeasibility tests, all angle formulas)"""
    rel = 'include/smooth/spline/detail/dubins_impl.hpp'
    toks = lex(read(repo, rel))
    out = []
    for fn, segs in (('dubins_ccc', ['c13', 'c2']), ('dubins_csc', ['c1', 'c3'])):
        b, e, m = find_body(toks, r'inline std::array<double,3> ' + fn + r' \( (?P<params>const smooth::SE2d & target , double R , DubinsSegment \w+ , DubinsSegment \w+) \)', fn)
        expect_params(m, ['target', 'R'] + segs, fn)
        spec = {'hook': dub_hook, 'consts': dict(SEGS, pi=('Scalar.pi', 'real')),
                'subst': {'std::numeric_limits<double>::infinity()': ('Dubins.inf', 'real'),
                          'std::numeric_limits<double>::epsilon()': ('Scalar.macheps', 'real')}}
        tr = Tr('Dubins_' + fn[7:], spec)
        env = {'target': Var('se2'), 'R': Var('real'), segs[0]: Var('seg'), segs[1]: Var('seg')}

        def ret(ex, env_, ind, tr=tr):
            ex = unparen(ex)
            if ex[0] != 'init' or len(ex[1]) != 3:
                raise TrErr(fn + ': return value is not a braced triple: ' + ser(ex))
            return [ind + '(' + ', '.join(tr.expr(x, env_, 'real')[0] for x in ex[1]) + ')']
        lines = tr.stmts(parse_stmts(toks, b, e), env, '  ', Kont(fall=no_fall(fn), ret=ret))
        tr.check_skipped()
        out += fn_def('Dubins_' + fn[7:], [('target', 'Vec α 4'), ('R', 'α'), (segs[0], 'Dubins.Seg'), (segs[1], 'Dubins.Seg')], 'α × α × α', lines,
                      f'`{fn}(target, R, {segs[0]}, {segs[1]})`; SO2/SE2/Vector2d operations are the model primitives')
    return out


def generate(repo):
    L = ['/- GENERATED by tools/gen_logic.py from the C++ source of pettni/smooth (optim/tr_strategy.hpp, optim.hpp,',
         '   detail/utils.hpp, spline/detail/bspline_impl.hpp, polynomial/basis.hpp).',
         '   Do not edit: regenerated from the repository on every check run. -/',
         'import SmoothModel.Scalar',
         'import SmoothModel.Optim',
         'import SmoothModel.Search',
         'import SmoothModel.BSpline',
         'import SmoothModel.Poly',
         'import SmoothModel.Dubins',
         'import SmoothModel.Reparam',
         'set_option linter.unusedVariables false',
         'open Scalar Lin',
         'namespace LogicSrc',
         'variable {α : Type} [Scalar α] [ScalarTrunc α]', '']
    for name, g in (('tr_strategy.hpp', gen_strategy), ('optim.hpp', gen_minimize), ('utils.hpp', gen_search),
                    ('bspline_impl.hpp', gen_bspline), ('basis.hpp', gen_intabs), ('basis.hpp', gen_monoderiv), ('dubins_impl.hpp', gen_dubins), ('dubins_impl.hpp', gen_dubins_words), ('reparameterize_impl.hpp', gen_reparam)):
        try:
            L += g(repo)
        except TrErr as ex:
            raise TrErr(f'{name}: {ex}')
    L.append('end LogicSrc')
    return '\n'.join(L) + '\n'


def main():
    repo = sys.argv[1] if len(sys.argv) > 1 else '/repo'
    outp = sys.argv[2] if len(sys.argv) > 2 else os.path.join(os.path.dirname(os.path.abspath(__file__)), '..', 'lean', 'SmoothModel', 'Gen', 'LogicSrc.lean')
    import gen_logic as GL          # one module object for the classes shared with gen_logic2 (this file may run as __main__)
    import gen_logic2
    try:
        files = {os.path.basename(outp): GL.generate(repo)}
        files.update(gen_logic2.generate_all(repo))      # LogicSrcC08.lean, … next to LogicSrc.lean
    except GL.TrErr as ex:
        print('gen_logic: cannot translate the current source:', ex)
        sys.exit(1)
    for fn, txt in files.items():
        p = os.path.join(os.path.dirname(outp), fn)
        old = open(p).read() if os.path.exists(p) else None
        if old != txt:
            open(p, 'w').write(txt)
            print('gen_logic: wrote', os.path.normpath(p))
        else:
            print('gen_logic: unchanged', fn)


if __name__ == '__main__':
    sys.path.insert(0, os.path.dirname(os.path.abspath(__file__)))
    main()
