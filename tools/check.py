#!/usr/bin/env python3
"""check.py — one entry point for every property.

  python3 tools/check.py C07 --tier quick|thorough
  python3 tools/check.py C07 --replay replays/C07-xxxx.json

Pipeline (DESIGN.md §1.6):
  translators (Gen/*.lean from /repo)  →  lake build (model, driver, proofs of this property)
  →  forbidden-token grep + `#print axioms` on every property theorem
  →  harness built against the current /repo/include  →  T1 correspondence (implementation vs
  executable Lean model, bit level)  →  audit with the exact oracle at the property's tolerance
  →  verdict, evidence/<id>.json, replay file for every alarm.

Exit 0: held (KNOWN-FINDING lines allowed).  Exit 1: `VIOLATION property=<id> replay=<path>`.
Exit 2: the machinery itself failed (never a verdict).
"""
import argparse, importlib, json, os, sys, time, traceback

sys.path.insert(0, os.path.dirname(__file__))
import vlib
from vlib import log


def failing_theorems(out):
    """names of the declarations in which `lake build` reported errors (error: <file>:<line>:<col>: …):
    the nearest `theorem|lemma|def|example|instance` above the reported line"""
    import re
    names = []
    for m in re.finditer(r'error: ([^\s:]+\.lean):(\d+):\d+', out):
        path, line = m.group(1), int(m.group(2))
        full = path if os.path.isabs(path) else os.path.join(vlib.LEAN, path)
        try:
            src = open(full).read().splitlines()
        except OSError:
            continue
        name = None
        for k in range(min(line, len(src)) - 1, -1, -1):
            mm = re.match(r'\s*(?:@\[[^\]]*\]\s*)?(?:private\s+|protected\s+|noncomputable\s+)*(theorem|lemma|def|example|instance|abbrev)\s+([^\s:({\[]+)?', src[k])
            if mm:
                name = f"{mm.group(1)} {mm.group(2) or '(anonymous)'}"
                break
        ent = f'{os.path.relpath(full, vlib.LEAN)}:{line} in {name}' if name else f'{os.path.relpath(full, vlib.LEAN)}:{line}'
        if ent not in names:
            names.append(ent)
    return names[:40]


def load_plugin(pid):
    return importlib.import_module('props.' + pid.lower()).make()


def finding_matches(known, f):
    """a known entry covers a finding when every key it specifies matches and the observed error
    does not exceed its recorded bound"""
    if known.get('status') != 'known' or known.get('property') != f['property']:
        return False
    k = known.get('match', {})
    for key, val in k.items():
        fv = f.get('key', {}).get(key)
        if isinstance(val, list):
            if fv not in val:
                return False
        elif fv != val:
            return False
    bound = known.get('max_err')
    if bound is not None and f.get('err') is not None and not (f['err'] <= bound):
        return False
    return True


def main():
    ap = argparse.ArgumentParser()
    ap.add_argument('prop')
    ap.add_argument('--tier', default=os.environ.get('VERIF_TIER', 'quick'), choices=['quick', 'thorough'])
    ap.add_argument('--replay')
    args = ap.parse_args()
    pid = args.prop.upper()
    seed = int(os.environ.get('VERIF_SEED', '1'))
    t0 = time.time()
    try:
        rc = run(pid, args.tier, seed, args.replay, t0)
    except vlib.MachineryError as e:
        log('MACHINERY ERROR:', e)
        rc = 2
    except Exception:
        traceback.print_exc()
        rc = 2
    sys.exit(rc)


def run(pid, tier, seed, replay, t0):
    P = load_plugin(pid)
    ctx = {'tier': tier, 'seed': seed, 'prop': pid, 'budget': 1}
    broken = []      # obligations / correspondences that no longer check: dicts {what, name, detail}
    findings = []    # property-level failures with a concrete input

    # ---- 1+2 run under the build lock: one consistent set of Gen/*.lean and .olean files
    lock = vlib.build_lock()
    lock.__enter__()
    try:
        # ---- 1. translators + lake build
        ok, out, failed_tools = vlib.run_translators()
        for tool, tout in failed_tools:
            # a translator that cannot read the current source leaves the ties it feeds undischarged — for the properties
            # that use them and whose code anchors contain the header it stopped at (vlib.translator_concerns)
            if vlib.translator_concerns(P, tool, tout):
                broken.append({'what': 'obligation', 'name': f'translator tools/{tool} (source → Lean)', 'detail': tout[-2000:]})
            else:
                log(f'translator {tool} failed on a header outside the anchors/ties of {pid}: not an obligation of this property')
        for gen in getattr(P, 'translators', []):
            ok, out = gen(ctx)
            if not ok:
                broken.append({'what': 'obligation', 'name': f'translator {gen.__name__}', 'detail': out[-2000:]})
        targets = ['smoothdrv'] + list(P.lean_targets)
        ok, out = vlib.lake_build(targets)
        proofs_ok = ok
        if not ok:
            # which module failed?
            failed = [l for l in out.splitlines() if l.startswith('✖') or 'error:' in l][:20]
            log('lake build failed:', *failed[:6])
            ok2, out2 = vlib.lake_build(['smoothdrv'])
            if not ok2:
                # the executable model itself does not build (e.g. a generated table changed shape)
                broken.append({'what': 'obligation', 'name': 'lake build smoothdrv', 'theorems': failing_theorems(out + out2),
                               'detail': '\n'.join(failed)})
                return verdict(P, ctx, broken, findings, {}, t0, proofs=None, fatal_model=True)
            thms = failing_theorems(out)
            broken.append({'what': 'obligation', 'name': 'lake build ' + ' '.join(P.lean_targets) +
                           (' — no longer checks: ' + '; '.join(thms[:6]) if thms else ''),
                           'theorems': thms, 'detail': '\n'.join(failed)})

        # ---- 2. proofs audit
        proofs = {'obligations': 0, 'discharged': 0, 'theorems': [], 'axioms_seen': []}
        if proofs_ok:
            hits = vlib.grep_forbidden()
            if hits:
                raise vlib.MachineryError('forbidden tokens in Lean sources: ' + '; '.join(hits[:5]))
            thms = []
            for f in P.props_files:
                thms += vlib.list_theorems(os.path.join(vlib.LEAN, f))
            if not thms:
                raise vlib.MachineryError('no property theorems found for ' + pid)
            res, txt = vlib.axioms_audit(P.props_module, thms)
            bad = []
            axs = set()
            for t in thms:
                if res[t] is None:
                    bad.append(f'{t}: not found')
                else:
                    axs.update(res[t])
                    extra = set(res[t]) - vlib.ALLOWED_AXIOMS
                    if extra:
                        bad.append(f'{t}: axioms {sorted(extra)}')
            if bad:
                raise vlib.MachineryError('axiom audit failed: ' + '; '.join(bad[:5]) + '\n' + txt[-1500:])
            proofs = {'obligations': len(thms), 'discharged': len(thms), 'theorems': thms, 'axioms_seen': sorted(axs)}
            if tier == 'thorough':
                # independent re-check of the compiled proofs by the toolchain's leanchecker
                import subprocess
                r = subprocess.run(['lake', 'env', 'leanchecker', P.props_module], cwd=vlib.LEAN, capture_output=True, text=True)
                proofs['leanchecker'] = 'ok' if r.returncode == 0 else 'FAILED: ' + (r.stdout + r.stderr)[-500:]
                if r.returncode != 0:
                    raise vlib.MachineryError('leanchecker rejected ' + P.props_module + ': ' + (r.stdout + r.stderr)[-800:])

    finally:
        lock.__exit__(None, None, None)

    # ---- 3. replay mode: re-execute exactly the stored case
    if replay:
        payload = json.load(open(replay))
        res = P.replay(ctx, payload)
        for f in res.get('findings', []):
            findings.append(f)
        for b in res.get('broken', []):
            broken.append(b)
        return verdict(P, ctx, broken, findings, res.get('coverage', {}), t0, proofs, replay_mode=True)

    # ---- 4. harness, T1, audit
    try:
        res = P.explore(ctx)
    except vlib.HarnessCompileError as e:
        broken.append({'what': 'correspondence', 'name': f'harness {e.name} (does not compile against the current tree)',
                       'detail': e.err})
        res = {'coverage': {}, 'findings': [], 'broken': []}
    except vlib.HarnessRunError as e:
        # the implementation crashed (assert / sanitizer / signal) on a generated input
        findings.append({'property': pid, 'key': {'kind': 'crash'}, 'err': None,
                         'what': f'implementation harness exited with {e.rc}', 'detail': e.err[-1500:], 'input': e.out})
        res = {'coverage': {}, 'findings': [], 'broken': []}
    findings += res.get('findings', [])
    broken += res.get('broken', [])
    cov = res.get('coverage', {})

    # ---- 5. an obligation or correspondence broke and no failing input yet: search harder
    if broken and not findings and hasattr(P, 'search'):
        log('searching for a failing input (obligation/correspondence broke)…')
        ctx2 = dict(ctx); ctx2['budget'] = 20
        try:
            res2 = P.search(ctx2, broken)
            findings += res2.get('findings', [])
            cov['search'] = res2.get('coverage', {})
        except Exception as e:
            log('search failed:', e)

    return verdict(P, ctx, broken, findings, cov, t0, proofs)


def verdict(P, ctx, broken, findings, cov, t0, proofs, replay_mode=False, fatal_model=False):
    pid = ctx['prop']
    known = vlib.load_known()
    new, seen_known = [], []
    for f in findings:
        f.setdefault('property', pid)
        m = [k for k in known if finding_matches(k, f)]
        if m:
            seen_known.append((m[0], f))
        else:
            new.append(f)
    printed = set()
    for k, f in seen_known:
        if k['id'] not in printed:
            printed.add(k['id'])
            print(f"KNOWN-FINDING: property={pid} {k['what']}")
    rc = 0
    replay_paths = []
    if new:
        # group by key, keep the worst of each group
        groups = {}
        for f in new:
            gk = json.dumps(f.get('key', {}), sort_keys=True)
            if gk not in groups or (f.get('err') or 0) > (groups[gk].get('err') or 0):
                groups[gk] = f
        payload = {'property': pid, 'seed': ctx['seed'], 'tier': ctx['tier'], 'kind': 'failing-input',
                   'cases': list(groups.values())[:50],
                   'broken': broken}
        p = vlib.write_replay(pid, payload)
        replay_paths.append(p)
        print(f'VIOLATION property={pid} replay={os.path.relpath(p, vlib.ROOT)}')
        rc = 1
    elif broken:
        payload = {'property': pid, 'seed': ctx['seed'], 'tier': ctx['tier'], 'kind': 'no-failing-input',
                   'no_longer_checks': broken}
        p = vlib.write_replay(pid, payload)
        replay_paths.append(p)
        print(f'VIOLATION property={pid} replay={os.path.relpath(p, vlib.ROOT)} no-failing-input-found')
        rc = 1
    coverage = dict(cov)
    pr = proofs or {'obligations': 0, 'discharged': 0, 'theorems': [], 'axioms_seen': []}
    n_obl = pr['obligations'] + coverage.get('gen_obligations', 0)
    n_dis = pr['discharged'] + coverage.get('gen_obligations_discharged', 0)
    coverage.update({
        'obligations': n_obl, 'discharged': n_dis,
        'checker_cmd': f"cd lean && lake build {' '.join(P.lean_targets)} && lake env lean <#print axioms on each theorem of {', '.join(P.props_files)}>",
        'trusted_base': ['Lean 4.33.0 kernel', 'Mathlib v4.33.0 (compiled on the image)',
                         'axioms: ' + ', '.join(pr['axioms_seen'] or ['none']),
                         'tools/check.py, tools/vlib.py comparator', 'harness/*.cpp (calls the implementation in-process)',
                         'Lean compiler+runtime and libm for the executable model and the oracle',
                         'g++ 12.2 / Eigen 3.4.0 as the platform executing the implementation'],
        'theorems': pr['theorems'],
        'leanchecker': pr.get('leanchecker', 'not run (thorough tier only)'),
        'known_findings_seen': sorted(printed),
        'no_longer_checks': [b['name'] for b in broken],
    })
    coverage.setdefault('evaluations', 0)
    coverage.setdefault('distinct_nontrivial', 0)
    coverage.setdefault('rule', getattr(P, 'rule', ''))
    coverage.setdefault('samples', [])
    ev = {'property_id': pid, 'tier': ctx['tier'], 'seed': ctx['seed'], 'level': 'proof', 'coverage': coverage,
          'assumptions': getattr(P, 'assumptions', []), 'wall_s': round(time.time() - t0, 2),
          'violations': 0 if rc == 0 else max(1, len(new))}
    if not replay_mode:
        vlib.write_evidence(pid, ev)
    log(f'{pid} {ctx["tier"]} seed={ctx["seed"]} rc={rc} wall={ev["wall_s"]}s obligations={n_dis}/{n_obl} '
        f'evaluations={coverage.get("evaluations")} known={sorted(printed)}')
    return rc


if __name__ == '__main__':
    main()
