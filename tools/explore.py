#!/usr/bin/env python3
"""developer helper: run a plugin's explore() only (no lake build, no proofs audit) and summarise"""
import sys, os, json, collections
sys.path.insert(0, os.path.dirname(__file__))
import vlib, check
pid = sys.argv[1]; tier = sys.argv[2] if len(sys.argv) > 2 else 'quick'
P = check.load_plugin(pid)
ctx = {'tier': tier, 'seed': int(os.environ.get('VERIF_SEED', '1')), 'prop': pid, 'budget': 1}
try:
    res = P.explore(ctx)
except vlib.HarnessRunError as e:
    # same treatment as check.py: the implementation crashed on a generated input -> crash finding
    res = {'coverage': {}, 'broken': [], 'findings': [{'property': pid, 'key': {'kind': 'crash'}, 'err': None,
           'what': f'implementation harness exited with {e.rc}', 'detail': e.err[-1500:]}]}
    print('CRASH', e.rc, e.err[-600:].replace('\n', ' | '))
print('evaluations', res['coverage'].get('evaluations'), 'audit', res['coverage'].get('audit_samples'), 't1_breaks', res['coverage'].get('t1_breaks'))
for b in res['broken'][:30]:
    print('BROKEN', b['name'], b.get('count'), json.dumps(b.get('first'))[:300])
known = vlib.load_known()
c = collections.defaultdict(list)
unm = 0
for f in res['findings']:
    f.setdefault('property', pid)
    if any(check.finding_matches(k, f) for k in known):
        continue
    unm += 1
    k = f['key']
    c[(k.get('op'), k.get('prec'), k.get('culprit'), k.get('theta_band'))].append((f['err'], k.get('theta'), k.get('group')))
for k, v in sorted(c.items(), key=lambda kv: str(kv[0])):
    print('FINDING', k, len(v), 'max=%.3g' % max(x[0] or 0 for x in v), 'theta %.3g..%.3g' % (min(x[1] or 0 for x in v), max(x[1] or 0 for x in v)), sorted(set(x[2] for x in v))[:4])

print('UNMATCHED findings:', unm, 'of', len(res['findings']))
