#!/usr/bin/env python3
"""gen_impl.py — source-to-Lean translator for WHOLE implementation functions of pettni/smooth
(called by tools/gen_src.py; see the doc-comment there for the list of translated functions and
the trusted tables).  Output: lean/SmoothModel/Gen/ImplSrc.lean."""
import os, sys
sys.path.insert(0, os.path.dirname(os.path.abspath(__file__)))
from gen_impl_parse import (TrErr, tokenize, strip_comments, show, match_close, match_angle, split_commas,
                            parse_class, EP)

# ---------------------------------------------------------------------------------------------
# TRUSTED TABLES (C++/Eigen construct -> Lean definition).  Lin = SmoothModel/Lin.lean,
# EigenSem = SmoothModel/EigenSem.lean (which documents the Eigen 3.4 source lines).
# ---------------------------------------------------------------------------------------------
SCALAR_FUNS = {'sin': 'Scalar.sin', 'cos': 'Scalar.cos', 'tan': 'Scalar.tan', 'sqrt': 'Scalar.sqrt',
               'atan2': 'Scalar.atan2', 'exp': 'Scalar.exp', 'log': 'Scalar.log'}
TRIG_FUNS = {f: 'CoefSrc.Trig_' + f for f in ('cos_2', 'sin_3', 'cos_4', 'sin_5', 'cos_6')}
COEFF_NAMES = {'x': 0, 'y': 1, 'z': 2, 'w': 3}
# classes: (header, C++ class, Lean namespace); order = dependency order
CLASSES = [('so2.hpp', 'SO2Impl', 'SO2'), ('c1.hpp', 'C1Impl', 'C1'), ('tn.hpp', 'TnImpl', 'Tn'),
           ('se2.hpp', 'SE2Impl', 'SE2'), ('so3.hpp', 'SO3Impl', 'SO3'), ('se3.hpp', 'SE3Impl', 'SE3'),
           ('galilei.hpp', 'GalileiImpl', 'Galilei'), ('se_k_3.hpp', 'SE_K_3Impl', 'SEK3')]
# template parameters that stay symbolic: C++ name -> Lean binder
SYMBOLIC = {'Tn': ('N', 'n'), 'SEK3': ('_K', 'k')}
# functions that are deliberately NOT translated, with the reason (anything else that cannot be
# translated is a hard error)
EXCLUDED = {
    ('*', 'setRandom'): "draws from Eigen's random number generator; not a function of its arguments",
}
REF_TYPES = {'GRefIn': ('in', 'V', 'RepSize'), 'GRefOut': ('out', 'V', 'RepSize'),
             'TRefIn': ('in', 'V', 'Dof'), 'TRefOut': ('out', 'V', 'Dof'),
             'TMapRefIn': ('in', 'M', 'Dof', 'Dof'), 'TMapRefOut': ('out', 'M', 'Dof', 'Dof'),
             'THessRefOut': ('out', 'M', 'Dof', 'Dof*Dof'),
             'MRefIn': ('in', 'M', 'Dim', 'Dim'), 'MRefOut': ('out', 'M', 'Dim', 'Dim')}
LEAN_KEYWORDS = {'at', 'from', 'by', 'do', 'in', 'fun', 'let', 'have', 'show', 'then', 'else', 'if', 'match',
                 'with', 'end', 'open', 'def', 'theorem', 'where', 'instance', 'structure', 'class', 'Type',
                 'Prop', 'Sort', 'local', 'private', 'mutual', 'namespace', 'section', 'variable', 'import'}


# ------------------------------------------------------------------ symbolic dimensions and indices
class Sym:
    """integer linear form  b + Σ c_s·s  over symbols: the class dimension (`n` of TnImpl<N>, `k` of
    SE_K_3Impl<K>) and the counters of loops with a symbolic bound"""

    def __init__(self, terms, b=0):
        self.t = {s: c for s, c in terms.items() if c != 0}
        self.b = b

    @staticmethod
    def var(name):
        return Sym({name: 1}, 0)

    @staticmethod
    def of(x):
        return x if isinstance(x, Sym) else Sym({}, x)

    def __add__(self, o):
        o = Sym.of(o)
        t = dict(self.t)
        for s, c in o.t.items():
            t[s] = t.get(s, 0) + c
        return norm(Sym(t, self.b + o.b))
    __radd__ = __add__

    def __neg__(self):
        return norm(Sym({s: -c for s, c in self.t.items()}, -self.b))

    def __sub__(self, o):
        return self + (-Sym.of(o))

    def __rsub__(self, o):
        return Sym.of(o) - self

    def __mul__(self, o):
        if isinstance(o, Sym):
            if not o.t:
                o = o.b
            elif not self.t:
                return o * self.b
            else:
                raise TrErr('non-linear symbolic dimension')
        return norm(Sym({s: c * o for s, c in self.t.items()}, self.b * o))
    __rmul__ = __mul__

    def __eq__(self, o):
        o = Sym.of(o)
        return self.t == o.t and self.b == o.b

    def __hash__(self):
        return hash((tuple(sorted(self.t.items())), self.b))

    def subst(self, name, val):
        """replace symbol `name` by the linear form `val`"""
        c = self.t.get(name, 0)
        rest = Sym({s: k for s, k in self.t.items() if s != name}, self.b)
        return Sym.of(rest + Sym.of(val) * c)

    def __str__(self):
        if self.b < 0 or any(c < 0 for c in self.t.values()):
            raise TrErr('negative symbolic dimension / index')
        if not self.t:
            return str(self.b)
        if list(self.t) == ['n']:
            # TnImpl<N>: `n`, `a * n`, `(n + b)` — the forms the hand model SmoothModel/Tn.lean uses
            a = self.t['n']
            s = 'n' if a == 1 else f'{a} * n'
            return s if self.b == 0 else f'({s} + {self.b})'
        # SE_K_3Impl<K> and loop counters: constant first, as the source and SmoothModel/SEK3.lean write them
        parts = ([str(self.b)] if self.b else []) + [s if c == 1 else f'{c} * {s}' for s, c in self.t.items()]
        if len(parts) == 1 and self.b == 0 and list(self.t.values()) == [1]:
            return parts[0]
        return '(' + ' + '.join(parts) + ')'


def norm(s):
    return s.b if isinstance(s, Sym) and not s.t else s


def nonneg(f, bounds):
    """is the linear form f ≥ 0 for all values of its symbols?  `bounds`: list of (counter, K) innermost last,
    meaning 0 ≤ counter ≤ K − 1; every remaining (dimension) symbol ranges over the naturals."""
    f = Sym.of(f)
    for name, K in reversed(bounds):
        c = f.t.get(name, 0)
        if c > 0:
            f = f.subst(name, 0)
        elif c < 0:
            f = f.subst(name, Sym.of(K) - 1)
    f = Sym.of(f)
    return f.b >= 0 and all(c >= 0 for c in f.t.values())


def merge_intervals(iv):
    """join half-open intervals whose end points coincide syntactically (as linear forms)"""
    iv = list(iv)
    again = True
    while again:
        again = False
        for x in range(len(iv)):
            for y in range(len(iv)):
                if x != y and iv[x][1] == iv[y][0]:
                    m = (iv[x][0], iv[y][1])
                    iv = [z for q, z in enumerate(iv) if q not in (x, y)] + [m]
                    again = True
                    break
            if again:
                break
    return iv


def dstr(d):
    return str(d)


def istr(d):
    """text of an integer-valued intermediate (never used in the output when it is negative)"""
    try:
        return str(d)
    except TrErr:
        return '<negative index>'


def is_int(d):
    return isinstance(d, int)


def const_eval(toks, consts):
    """constant integer expression over literals and class constants: + - * and parentheses"""
    def is_var(n):
        return True
    e = EP(list(toks), is_var, 'constant expression').full()

    def ev(n):
        if n[0] == 'int':
            return n[1]
        if n[0] == 'var':
            if n[1] not in consts:
                raise TrErr('unknown constant ' + n[1])
            return consts[n[1]]
        if n[0] == 'neg':
            return -ev(n[1])
        if n[0] == 'bin' and n[1] in '+-*':
            a, b = ev(n[2]), ev(n[3])
            return a + b if n[1] == '+' else a - b if n[1] == '-' else a * b
        raise TrErr('unsupported constant expression: ' + show(toks))
    return norm(ev(e))


def lit(txt):
    """floating literal (or quotient of literals inside a cast) -> Lean; same rules as gen_src.lit"""
    import re
    t = txt.strip()
    if re.fullmatch(r'\d+', t):
        return f'(nat {t})'
    if re.fullmatch(r'\d+\.', t):
        return f'(nat {t[:-1]})'
    if t == '0.5':
        return '(nat 1 / nat 2)'
    m = re.fullmatch(r'(\d+)\.?\s*/\s*(\d+)\.?', t)
    if m:
        return f'(nat {m.group(1)} / nat {m.group(2)})'
    raise TrErr('unsupported literal: ' + txt)


def nat_lit(k):
    return f'(nat {k})' if k >= 0 else f'(-(nat {-k}))'


def lean_ty(ty):
    if ty[0] == 'S':
        return 'α'
    if ty[0] == 'V':
        return f'Vec α {dstr(ty[1])}'
    if ty[0] == 'M':
        return f'Mat α {dstr(ty[1])} {dstr(ty[2])}'
    if ty[0] == 'T':
        return ' × '.join(['α'] * ty[1])
    if ty[0] == 'P':
        return f'{lean_ty(ty[1])} × {lean_ty(ty[2])}'
    raise TrErr('no Lean type for ' + str(ty))


def shape(ty):
    if ty[0] == 'V':
        return (ty[1], 1)
    if ty[0] == 'M':
        return (ty[1], ty[2])
    raise TrErr('not a vector/matrix type: ' + str(ty))


class Val:
    def __init__(self, lean, ty, src=None):
        self.lean, self.ty, self.src = lean, ty, src   # src = (var, r0, c0, nr, nc, vecshaped)


class Var:
    def __init__(self, name, ty, kind, written=None):
        self.name, self.ty, self.kind = name, ty, kind   # kind: in | out | local | const | int
        # definite-assignment state of V/M variables: 'all', a set of cells (static sizes), or a list of
        # half-open row intervals (lo, hi) of linear forms (vectors of symbolic size)
        if written is not None and written != 'all' and ty[0] == 'V' and not is_int(ty[1]):
            written = list(written)
        self.written = written
        self.in_lean = kind in ('in', 'const')
        self.alias = None            # for Q maps: Val of the mapped vector
        self.value = None            # for kind 'int'
        self.view = None             # for kind 'alias' (Eigen::Ref): the viewed block (var, r0, c0, nr, nc, vec)


# ------------------------------------------------------------------ one function
class FnTr:
    def __init__(self, gen, cls, fn):
        self.gen, self.cls, self.fn = gen, cls, fn
        self.where = f'{cls.name}::{fn.name}'
        self.env, self.aliases, self.calls = {}, {}, []
        self.lines, self.ind = [], '  '
        self.branch_depth = 0
        self.branch_assigned = None
        self.tmp = 0
        self.loops = []              # active loops with a symbolic bound: dicts (var, K, pre, assigned)

    def bounds(self):
        return [(l['var'], l['K']) for l in self.loops]

    def le(self, a, b):
        return nonneg(Sym.of(b) - Sym.of(a), self.bounds())

    def err(self, msg):
        return TrErr(f'{self.where}: {msg}')

    # ---------------------------------------------------------------- types
    def cint(self, toks):
        consts = dict(self.cls.consts)
        for v in self.env.values():
            if v.kind == 'int':
                consts[v.name] = v.value
        return const_eval(toks, consts)

    def parse_type(self, toks):
        t = [x for x in toks if x not in (('id', 'const'), ('op', '&'), ('id', 'typename'))]
        if not t:
            raise self.err('empty type')
        if len(t) == 1 and t[0][0] == 'id':
            n = t[0][1]
            if n == 'Scalar':
                return ('S',)
            if n == 'auto':
                return ('AUTO',)
            if n == 'double':
                return ('DBL',)
            if n == 'void':
                return None
            if n in self.aliases:
                return self.aliases[n]
            if n in REF_TYPES:
                return self.ref_type(n)[1]
            raise self.err('unsupported type ' + n)
        if t[0] == ('id', 'std') and t[2] == ('id', 'pair'):
            e = match_angle(t, 3)
            a = split_commas(t[4:e])
            if e != len(t) - 1 or len(a) != 2:
                raise self.err('unsupported std::pair type: ' + show(t))
            return ('P', self.parse_type(a[0]), self.parse_type(a[1]))
        if t[0] == ('id', 'std') and t[2] == ('id', 'array'):
            e = match_angle(t, 3)
            a = split_commas(t[4:e])
            if e != len(t) - 1 or a[0] != [('id', 'Scalar')]:
                raise self.err('unsupported std::array type: ' + show(t))
            return ('T', self.cint(a[1]))
        if t[0] == ('id', 'Eigen') and t[1] == ('op', '::') and len(t) > 3 and t[3] == ('op', '<'):
            name = t[2][1]
            e = match_angle(t, 3)
            if e != len(t) - 1:
                raise self.err('unsupported type: ' + show(t))
            if name in ('Map', 'Ref'):
                return self.parse_type(t[4:e])
            a = split_commas(t[4:e])
            if a[0] != [('id', 'Scalar')]:
                raise self.err('Eigen type over a scalar other than Scalar: ' + show(t))
            if name == 'Matrix' and len(a) == 3:
                r, c = self.cint(a[1]), self.cint(a[2])
                return ('V', r) if c == 1 else ('M', r, c)
            if name == 'Matrix3' and len(a) == 1:
                return ('M', 3, 3)
            if name == 'Vector3' and len(a) == 1:
                return ('V', 3)
            if name == 'Quaternion' and len(a) == 1:
                return ('Q',)
        raise self.err('unsupported type: ' + show(t))

    def ref_type(self, n):
        r = REF_TYPES[n]
        c = self.cls.consts

        def d(k):
            if k == 'Dof*Dof':
                return norm(c['Dof'] * c['Dof'])
            return c[k]
        return r[0], (('V', d(r[2])) if r[1] == 'V' else ('M', d(r[2]), d(r[3])))

    def signature(self):
        """[(name, kind, ty)], return type"""
        sig = []
        for k, p in enumerate(self.fn.params):
            if p[-1][0] == 'id' and len(p) > 1 and p[-2] != ('op', '::'):
                name, tt = p[-1][1], p[:-1]
            else:
                name, tt = f'_a{k}', p
            if len(tt) == 1 and tt[0][1] in REF_TYPES:
                kind, ty = self.ref_type(tt[0][1])
            else:
                if ('id', 'const') not in tt:
                    raise self.err('non-const Eigen::Ref parameter: ' + show(p))
                kind, ty = 'in', self.parse_type(tt)
            if ty is None or ty[0] not in ('V', 'M', 'S'):
                raise self.err('unsupported parameter type: ' + show(p))
            sig.append((name, kind, ty))
        return sig, self.parse_type(self.fn.ret_toks)

    # ---------------------------------------------------------------- emission helpers
    def emit(self, s):
        self.lines.append(self.ind + s)

    def fresh(self, base):
        self.tmp += 1
        return f'{base}_{self.tmp}'

    def cells(self, r0, c0, nr, nc):
        if not all(is_int(x) for x in (r0, c0, nr, nc)):
            return None
        return {(i, j) for i in range(r0, r0 + nr) for j in range(c0, c0 + nc)}

    def check_read(self, src):
        v = self.env[src[0]]
        if v.written == 'all':
            return
        if isinstance(v.written, list):
            lo, hi = src[1], src[1] + src[3]
            if any(self.le(a, lo) and self.le(hi, b) for a, b in v.written):
                return
            raise self.err(f'read of entries [{Sym.of(lo)}, {Sym.of(hi)}) of `{src[0]}` which are not (provably) assigned yet')
        need = self.cells(*src[1:5])
        if need is None:
            raise self.err(f'cannot analyse a read of `{src[0]}` (symbolic size) before it is fully assigned')
        if not need <= v.written:
            raise self.err(f'read of unassigned entries of `{src[0]}`: {sorted(need - v.written)[:4]}')

    def mark_written(self, src):
        v = self.env[src[0]]
        if v.written == 'all':
            return
        nr, nc = shape(v.ty)
        if (src[1], src[2]) == (0, 0) and src[3] == nr and src[4] == nc:
            v.written = 'all'
            return
        if isinstance(v.written, list):
            v.written = merge_intervals(v.written + [(src[1], src[1] + src[3])])
            if any(a == 0 and b == nr for a, b in v.written):
                v.written = 'all'
            return
        w = self.cells(*src[1:5])
        if w is None:
            raise self.err(f'cannot analyse a partial write to `{src[0]}` (symbolic size) before it is fully assigned')
        v.written = v.written | w
        if self.cells(0, 0, nr, nc) == v.written:
            v.written = 'all'

    def render(self, src):
        name, r0, c0, nr, nc, vec = src
        v = self.env[name]
        fr, fc = shape(v.ty)
        if (r0, c0) == (0, 0) and nr == fr and nc == fc:
            return name
        if v.ty[0] == 'V':
            if r0 == 0:
                return f'(head {dstr(nr)} {name})'
            if r0 + nr == fr and is_int(fr):
                return f'(tail {dstr(nr)} {name})'
            return f'(segment {dstr(nr)} {dstr(r0)} {name})'
        if vec:
            return f'(blockCol {dstr(nr)} {dstr(r0)} {dstr(c0)} {name})'
        return f'(blockM {dstr(nr)} {dstr(nc)} {dstr(r0)} {dstr(c0)} {name})'

    def coeff(self, src, i, j):
        """Val of the coefficient (i,j) relative to the view"""
        name, r0, c0, nr, nc, vec = src
        if not all(self.le(0, x) and self.le(x + 1, m) for x, m in ((i, nr), (j, nc))):
            raise self.err(f'coefficient ({i},{j}) out of range of `{name}` view {nr}x{nc}')
        v = self.env[name]
        a, b = r0 + i, c0 + j

        def ix(x):
            return dstr(x) if is_int(x) else f'⟨{Sym.of(x)}, by omega⟩'
        lean = f'({name} {ix(a)})' if v.ty[0] == 'V' else f'({name} {ix(a)} {ix(b)})'
        return Val(lean, ('S',), (name, a, b, 1, 1, False))

    # ---------------------------------------------------------------- expressions
    def is_var(self, n):
        return n in self.env

    def parse(self, toks):
        return EP(list(toks), self.is_var, self.where).full()

    def ev(self, node):
        v = self.ev_view(node)
        if v.src is not None:
            self.check_read(v.src)
        return v

    def scalar(self, v, what='operand'):
        if v.ty[0] == 'S':
            return v.lean
        if v.ty[0] == 'I':
            if not is_int(v.ty[1]):
                raise self.err(f'{what}: a symbolic dimension / loop counter used as a scalar value')
            return nat_lit(v.ty[1])
        if v.ty[0] == 'D':
            raise self.err(f'bare floating literal `{v.ty[1]}` in arithmetic (only Scalar(…) casts and whole '
                           'initialiser entries are supported: the C++ would compute in double)')
        raise self.err(f'{what} is not a scalar: {v.lean[:60]}')

    def entry(self, node):
        """a whole initialiser entry: scalar expression, or (negated) floating literal"""
        if node[0] == 'flt':
            return lit(node[1])
        if node[0] == 'neg' and node[1][0] == 'flt':
            return f'(-{lit(node[1][1])})'
        return self.scalar(self.ev(node), 'initialiser entry')

    def ints(self, nodes, what):
        out = []
        for n in nodes:
            v = self.ev(n)
            if v.ty[0] != 'I':
                raise self.err(f'{what}: non-constant index')
            out.append(v.ty[1])
        return out

    def narrow(self, src, name, ta, args):
        var, r0, c0, nr, nc, vec = src
        base_is_vec = self.env[var].ty[0] == 'V' or vec

        def need(n_t, n_a):
            if len(ta) != n_t or len(args) != n_a:
                raise self.err(f'.{name}: expected {n_t} template and {n_a} call arguments')

        def chk(cond):
            if isinstance(cond, bool) and not cond:
                raise self.err(f'.{name}: block outside of `{var}`')
        if name in ('head', 'tail', 'segment'):
            if not base_is_vec:
                raise self.err(f'.{name} on a matrix')
            need(1, 1 if name == 'segment' else 0)
            k = ta[0]
            off = 0 if name == 'head' else (nr - k if name == 'tail' else args[0])
            chk(self.le(0, off) and self.le(off + k, nr))
            return (var, r0 + off, c0, k, 1, True)
        if base_is_vec:
            raise self.err(f'.{name} on a vector')
        if name in ('topLeftCorner', 'topRightCorner', 'bottomLeftCorner', 'bottomRightCorner', 'block'):
            need(2, 2 if name == 'block' else 0)
            r, c = ta
            i = args[0] if name == 'block' else (0 if name.startswith('top') else nr - r)
            j = args[1] if name == 'block' else (0 if 'Left' in name else nc - c)
        elif name == 'middleCols':
            need(1, 1)
            r, c, i, j = nr, ta[0], 0, args[0]
        elif name == 'col':
            need(0, 1)
            r, c, i, j = nr, 1, 0, args[0]
        else:
            raise self.err('unsupported block method .' + name)
        chk(self.le(0, i) and self.le(0, j) and self.le(i + r, nr) and self.le(j + c, nc))
        return (var, r0 + i, c0 + j, r, c, c == 1)

    def ev_view(self, node):
        k = node[0]
        if k == 'int':
            return Val(str(node[1]), ('I', node[1]))
        if k == 'flt':
            return Val(node[1], ('D', node[1]))
        if k == 'var':
            n = node[1]
            if n == 'eps2':
                raise self.err('bare `eps2` (double) outside of a Scalar(…) cast')
            if n not in self.env and n in self.cls.consts:
                return Val(istr(self.cls.consts[n]), ('I', self.cls.consts[n]))
            if n not in self.env:
                raise self.err('unknown identifier ' + n)
            v = self.env[n]
            if v.kind == 'int':
                return Val(istr(v.value), ('I', v.value))
            if v.kind == 'alias':
                return Val(self.render(v.view), v.ty, v.view)
            if v.ty[0] == 'Q':
                return Val(v.alias.lean, ('Q',))
            if v.ty[0] in ('S', 'T'):
                return Val(n, v.ty)
            nr, nc = shape(v.ty)
            return Val(n, v.ty, (n, 0, 0, nr, nc, v.ty[0] == 'V'))
        if k == 'neg':
            a = self.ev(node[1])
            if a.ty[0] == 'I':
                return Val(istr(-a.ty[1]), ('I', -a.ty[1]))
            if a.ty[0] == 'S':
                return Val(f'(-{a.lean})', ('S',))
            if a.ty[0] == 'V':
                return Val(f'(vneg {a.lean})', a.ty)
            if a.ty[0] == 'M':
                return Val(f'(mneg {a.lean})', a.ty)
            if a.ty[0] == 'D':
                self.scalar(a)      # raises: bare floating literal in arithmetic
            raise self.err('unary minus on ' + str(a.ty))
        if k == 'bin':
            return self.binop(node[1], self.ev(node[2]), self.ev(node[3]))
        if k == 'cmp':
            a, b = self.scalar(self.ev(node[2])), self.scalar(self.ev(node[3]))
            return Val(f'{a} < {b}' if node[1] == '<' else f'{b} < {a}', ('B',))
        if k == 'cast':
            return self.cast(node[1])
        if k == 'static':
            ty = self.parse_type(node[1])
            if node[2] == 'Identity' and ty[0] == 'M' and ty[1] == ty[2]:
                return Val(f'(ident {dstr(ty[1])})', ty)
            if node[2] == 'Zero' and ty[0] == 'M':
                return Val(f'(mzero {dstr(ty[1])} {dstr(ty[2])})', ty)
            if node[2] == 'Zero' and ty[0] == 'V':
                return Val(f'(vzero {dstr(ty[1])})', ty)
            raise self.err(f'unsupported static Eigen function ::{node[2]}() on {ty}')
        if k == 'lambda':
            return self.lambda_(node)
        if k == 'call':
            return self.call_value(node)
        if k == 'index':
            base = self.ev_view(node[1])
            idx = self.ints(node[2], 'coefficient access')
            if base.ty[0] == 'V' and len(idx) == 1:
                idx = [idx[0], 0]
            elif not (base.ty[0] == 'M' and len(idx) == 2):
                raise self.err(f'coefficient access with {len(idx)} indices on {base.ty}')
            if base.src is None:
                raise self.err('coefficient access on a temporary expression')
            return self.coeff(base.src, idx[0], idx[1])
        if k == 'member':
            return self.member(node)
        raise self.err('unsupported expression node ' + k)

    def cast(self, inner):
        if inner == [('id', 'eps2')]:
            return Val('Scalar.eps2', ('S',))
        if all(t[0] == 'int' or (t[0] == 'op' and t[1] in '+-*()') for t in inner):
            return Val(nat_lit(const_eval(inner, {})), ('S',))
        if all(t[0] in ('int', 'flt') or t == ('op', '/') for t in inner):
            return Val(lit(' '.join(str(t[1]) for t in inner)), ('S',))
        raise self.err('unsupported Scalar(…) cast of: ' + show(inner))

    def binop(self, op, a, b):
        ta, tb = a.ty[0], b.ty[0]
        if ta == 'I' and tb == 'I':
            if op == '/':
                raise self.err(f'integer division {a.lean} / {b.lean}')
            x, y = a.ty[1], b.ty[1]
            r = x + y if op == '+' else x - y if op == '-' else x * y
            return Val(istr(r), ('I', r))
        sc = ('S', 'I', 'D')
        if ta in sc and tb in sc:
            return Val(f'({self.scalar(a)} {op} {self.scalar(b)})', ('S',))
        if op in '+-':
            if ta == tb == 'V' and a.ty == b.ty:
                return Val(f'({"vadd" if op == "+" else "vsub"} {a.lean} {b.lean})', a.ty)
            if ta == tb == 'M' and a.ty == b.ty:
                return Val(f'({"madd" if op == "+" else "msub"} {a.lean} {b.lean})', a.ty)
            raise self.err(f'`{op}` on {a.ty} and {b.ty}')
        if op == '*':
            if ta in sc and tb == 'M':
                return Val(f'(msmul {self.scalar(a)} {b.lean})', b.ty)
            if ta in sc and tb == 'V':
                return Val(f'(vsmul {self.scalar(a)} {b.lean})', b.ty)
            if ta == 'M' and tb in sc:
                return Val(f'(msmulR {a.lean} {self.scalar(b)})', a.ty)
            if ta == 'V' and tb in sc:
                return Val(f'(vsmulR {a.lean} {self.scalar(b)})', a.ty)
            if ta == 'M' and tb == 'M' and a.ty[2] == b.ty[1]:
                return Val(f'(mmul {a.lean} {b.lean})', ('M', a.ty[1], b.ty[2]))
            if ta == 'M' and tb == 'V' and a.ty[2] == b.ty[1]:
                return Val(f'(mulVec {a.lean} {b.lean})', ('V', a.ty[1]))
            if ta == 'Q' and tb == 'Q':
                return Val(f'(quatMul {a.lean} {b.lean})', ('Q',))
            raise self.err(f'`*` on {a.ty} and {b.ty}')
        if op == '/':
            if ta == 'M' and tb in sc:
                return Val(f'(mdivs {a.lean} {self.scalar(b)})', a.ty)
            if ta == 'V' and tb in sc:
                return Val(f'(vdivs {a.lean} {self.scalar(b)})', a.ty)
            raise self.err(f'`/` on {a.ty} and {b.ty}')
        raise self.err('unsupported operator ' + op)

    def member(self, node):
        _, bnode, name, ta, args = node
        if name in COEFF_NAMES and not ta and not args:
            base = self.ev_view(bnode)
            if base.ty[0] != 'V' or base.src is None:
                raise self.err(f'.{name}() on {base.ty}')
            return self.coeff(base.src, COEFF_NAMES[name], 0)
        if name in ('head', 'tail', 'segment', 'topLeftCorner', 'topRightCorner', 'bottomLeftCorner',
                    'bottomRightCorner', 'block', 'middleCols', 'col', 'row'):
            base = self.ev_view(bnode)
            if base.src is None or base.ty[0] not in ('V', 'M'):
                raise self.err(f'.{name} on a temporary expression')
            tav = [self.cint(t) for t in ta]
            av = self.ints(args, '.' + name)
            if name == 'row':
                var, r0, c0, nr, nc, vec = base.src
                fr, fc = shape(self.env[var].ty)
                if len(av) != 1 or vec or c0 != 0 or nc != fc:
                    raise self.err('.row(i) is supported on whole-width matrices only')
                return Val('', ('ROW', nc), (var, r0 + av[0], 0, 1, nc, False))
            src = self.narrow(base.src, name, tav, av)
            ty = ('V', src[3]) if src[5] else ('M', src[3], src[4])
            return Val(self.render(src), ty, src)
        if name == 'transpose' and not args:
            base = self.ev_view(bnode)
            if base.ty[0] == 'ROW':
                self.check_read(base.src)
                return Val(f'(rowT {dstr(base.src[1])} {base.src[0]})', ('V', base.ty[1]))
            base = self.ev(bnode)
            if base.ty[0] == 'M':
                return Val(f'(transpose {base.lean})', ('M', base.ty[2], base.ty[1]))
            raise self.err('.transpose() on ' + str(base.ty))
        base = self.ev(bnode)
        t = base.ty[0]
        if name == 'squaredNorm' and t == 'V' and not args:
            return Val(f'(sqNorm {base.lean})', ('S',))
        if name == 'dot' and t == 'V' and len(args) == 1:
            o = self.ev(args[0])
            if o.ty != base.ty:
                raise self.err('.dot on different sizes')
            return Val(f'(dot {base.lean} {o.lean})', ('S',))
        if t == 'Q' and not args:
            if name == 'toRotationMatrix':
                return Val(f'(quatToRot {base.lean})', ('M', 3, 3))
            if name == 'inverse':
                return Val(f'(quatInverse {base.lean})', ('Q',))
            if name == 'conjugate':
                return Val(f'(quatConj {base.lean})', ('Q',))
            if name == 'coeffs':
                return Val(base.lean, ('V', 4))
        raise self.err(f'unsupported member function .{name}() on {base.ty}')

    def resolve_callee(self, quals, name):
        if quals == [] and name == 'd_matrix_product':
            return ('dmp',)
        if quals in ([], ['std']) and name in SCALAR_FUNS:
            return ('scalar', SCALAR_FUNS[name])
        if quals in ([], ['detail']) and name in TRIG_FUNS:
            return ('scalar', TRIG_FUNS[name])
        if quals == []:
            c = self.cls
        elif len(quals) == 1 and quals[0] in self.gen.by_cname:
            c = self.gen.by_cname[quals[0]]
        else:
            raise self.err(f'unsupported call `{"::".join(quals + [name])}`')
        if name not in c.funcs:
            raise self.err(f'call of unknown function {c.name}::{name}')
        return ('impl', c, name)

    def call_value(self, node):
        _, quals, name, args = node
        r = self.resolve_callee(quals, name)
        if r[0] == 'dmp':
            # the free template d_matrix_product of detail/derivatives_impl.hpp: NOT translated (its text is pinned by
            # tools/gen_base.py); mapped to the hand model Derivs.d_matrix_product (square n×n factors, nvar variables)
            a = [self.ev(x) for x in args]
            if len(a) != 4 or any(x.ty[0] != 'M' for x in a):
                raise self.err('d_matrix_product: expected four matrix arguments')
            n = a[0].ty[1]
            if not (is_int(n) and a[0].ty == ('M', n, n) and a[2].ty == ('M', n, n) and a[1].ty == a[3].ty
                    and a[1].ty[1] == n and is_int(a[1].ty[2]) and a[1].ty[2] % n == 0):
                raise self.err('d_matrix_product: unsupported shapes ' + str([x.ty for x in a]))
            nvar = a[1].ty[2] // n
            self.gen.opaque.add('d_matrix_product')
            return Val(f'(Derivs.d_matrix_product (n := {n}) (nvar := {nvar}) ' + ' '.join(x.lean for x in a) + ')', a[1].ty)
        if r[0] == 'scalar':
            a = [self.scalar(self.ev(x), f'argument of {name}') for x in args]
            return Val('(' + r[1] + ' ' + ' '.join(a) + ')', ('S',))
        c, fname = r[1], r[2]
        sig, ret = self.gen.sig(c, fname)
        if ret is None or any(k != 'in' for _, k, _ in sig):
            raise self.err(f'{c.name}::{fname} used as a value but it has output parameters')
        return Val(self.apply(c, fname, sig, args), ret)

    def apply(self, c, fname, in_sig, args):
        if len(args) != len(in_sig):
            raise self.err(f'call of {c.name}::{fname} with {len(args)} input arguments, expected {len(in_sig)}')
        a = []
        for x, (pn, _, pty) in zip(args, in_sig):
            v = self.ev(x)
            if v.ty != pty:
                raise self.err(f'argument `{pn}` of {c.name}::{fname}: type {v.ty}, expected {pty}')
            a.append(v.lean)
        self.calls.append((c.key, fname))
        return '(' + f'ImplSrc.{c.key}.{fname}' + ''.join(' ' + s for s in a) + ')'

    def lambda_(self, node):
        _, ret, body = node
        rty = self.parse_type(ret)
        if rty is None or rty[0] not in ('S', 'T'):
            raise self.err('lambda with unsupported return type: ' + show(ret))
        saved = (self.lines, self.ind, dict(self.env))
        self.lines, self.ind = [], self.ind + '    '
        self.run_block(body, 'lambda', rty)
        txt = '\n'.join(self.lines)
        self.lines, self.ind, self.env = saved
        return Val('(\n' + txt + ')', rty)

    # ---------------------------------------------------------------- lvalues
    def lvalue(self, node):
        """-> (src, kind) with kind 'S' (one coefficient), 'V' (vector shaped) or 'M'"""
        while node[0] == 'member' and node[2] == 'noalias' and not node[4]:
            node = node[1]
        if node[0] == 'index' or (node[0] == 'member' and node[2] in COEFF_NAMES):
            v = self.ev_view(node)
            return v.src, 'S'
        v = self.ev_view(node)
        if v.src is None or v.ty[0] not in ('V', 'M'):
            raise self.err('unsupported assignment target')
        if self.env[v.src[0]].kind not in ('out', 'local'):
            raise self.err(f'assignment to `{v.src[0]}` which is not an output or a mutable local')
        return v.src, v.ty[0]

    def read_lv(self, src, kind):
        self.check_read(src)
        if kind == 'S':
            return self.coeff((src[0], src[1], src[2], 1, 1, False), 0, 0)
        ty = ('V', src[3]) if kind == 'V' else ('M', src[3], src[4])
        return Val(self.render(src), ty, src)

    def assign(self, src, kind, val):
        name, r0, c0, nr, nc, vec = src
        v = self.env[name]
        if v.kind not in ('out', 'local'):
            raise self.err(f'assignment to `{name}` which is not an output or a mutable local')
        if kind == 'S':
            lean = self.scalar(val, 'assigned value')
        else:
            want = ('V', nr) if kind == 'V' else ('M', nr, nc)
            if val.ty != want:
                raise self.err(f'assignment to `{name}`: value of type {val.ty}, target {want}')
            lean = val.lean
        fr, fc = shape(v.ty)
        whole = (r0, c0) == (0, 0) and nr == fr and nc == fc and kind != 'S'
        if self.branch_depth and not v.in_lean:
            raise self.err(f'first assignment to `{name}` inside a conditional')
        if whole:
            self.emit(f'let {name} : {lean_ty(v.ty)} := {lean}')
        else:
            if not v.in_lean:
                u = f'uninitV {dstr(fr)}' if v.ty[0] == 'V' else f'uninitM {dstr(fr)} {dstr(fc)}'
                outer = [l for l in self.loops if name in l['outer']]
                if outer:
                    outer[0]['pre'].append(f'let {name} : {lean_ty(v.ty)} := {u}')
                else:
                    self.emit(f'let {name} : {lean_ty(v.ty)} := {u}')
            if v.ty[0] == 'V':
                f = f'setCoeffV {name} {dstr(r0)}' if kind == 'S' else f'setSegment {name} {dstr(r0)}'
            elif kind == 'S':
                f = f'setCoeffM {name} {dstr(r0)} {dstr(c0)}'
            elif kind == 'V':
                f = f'setBlockCol {name} {dstr(r0)} {dstr(c0)}'
            else:
                f = f'setBlock {name} {dstr(r0)} {dstr(c0)}'
            self.emit(f'let {name} : {lean_ty(v.ty)} := {f} {lean}')
        if whole and not v.in_lean and any(name in l['outer'] for l in self.loops):
            raise self.err(f'first (whole) assignment to `{name}` inside a loop with a symbolic bound')
        v.in_lean = True
        self.mark_written(src)
        if self.branch_assigned is not None:
            self.branch_assigned.add(name)
        for l in self.loops:
            if name in l['outer']:
                l['assigned'].add(name)

    # ---------------------------------------------------------------- statements
    def stmt_end(self, toks, i):
        d = 0
        for j in range(i, len(toks)):
            t = toks[j]
            if t[0] == 'op' and t[1] in '({[':
                d += 1
            elif t[0] == 'op' and t[1] in ')}]':
                d -= 1
            elif t == ('op', ';') and d == 0:
                return j
        raise self.err('statement without `;`: ' + show(toks[i:]))

    def declare(self, name, ty, kind, written=None):
        if name in LEAN_KEYWORDS:
            raise self.err(f'identifier `{name}` is a Lean keyword')
        self.env[name] = Var(name, ty, kind, written)
        return self.env[name]

    def is_decl_start(self, toks, i):
        t = toks[i]
        if t == ('id', 'const'):
            return True
        if t[0] != 'id':
            return False
        if t[1] in ('auto',) or t[1] in self.aliases:
            return True
        if t[1] == 'Scalar' and toks[i + 1][0] == 'id':
            return True
        if t[1] == 'Eigen' and toks[i + 1] == ('op', '::') and toks[i + 3] == ('op', '<'):
            # a declaration iff the closing > is followed by an identifier
            e = match_angle(toks, i + 3)
            return toks[e + 1][0] == 'id'
        return False

    def run_block(self, toks, mode, rty=None):
        """mode 'fn' (function body / loop body / conditional branch) or 'lambda' (must end in return)"""
        i = 0
        n = len(toks)
        while i < n:
            t = toks[i]
            if t == ('id', 'using'):
                j = self.stmt_end(toks, i)
                if toks[i + 2] == ('op', '='):
                    self.aliases[toks[i + 1][1]] = self.parse_type(toks[i + 3:j])
                else:
                    for part in split_commas(toks[i + 1:j]):
                        nm = [x[1] for x in part]
                        if not (len(nm) == 3 and nm[0] in ('std', 'detail') and nm[1] == '::'
                                and (nm[2] in SCALAR_FUNS or nm[2] in TRIG_FUNS)):
                            raise self.err('unsupported using-declaration: ' + show(part))
                i = j + 1
                continue
            if t == ('id', 'if'):
                ce = match_close(toks, i + 1)
                cond = self.ev(self.parse(toks[i + 2:ce]))
                if cond.ty != ('B',):
                    raise self.err('condition is not a comparison: ' + show(toks[i + 2:ce]))
                if toks[ce + 1] != ('op', '{'):
                    raise self.err('if without braces')
                be = match_close(toks, ce + 1)
                b1 = toks[ce + 2:be]
                b2 = None
                nxt = be + 1
                if nxt < n and toks[nxt] == ('id', 'else'):
                    if toks[nxt + 1] != ('op', '{'):
                        raise self.err('else without braces (else-if chains are not supported)')
                    ee = match_close(toks, nxt + 1)
                    b2 = toks[nxt + 2:ee]
                    nxt = ee + 1
                if mode == 'lambda':
                    if b2 is None:
                        raise self.err('if without else inside a lambda')
                    if nxt != n:
                        raise self.err('statements after if/else inside a lambda: ' + show(toks[nxt:]))
                    ind, env0 = self.ind, dict(self.env)
                    self.emit(f'if {cond.lean} then')
                    self.ind = ind + '  '
                    self.run_block(b1, 'lambda', rty)
                    self.ind, self.env = ind, dict(env0)
                    self.emit('else')
                    self.ind = ind + '  '
                    self.run_block(b2, 'lambda', rty)
                    self.ind, self.env = ind, env0
                    return
                if b2 is not None:
                    raise self.err('if/else at statement level is not supported (only `if (c) { x op= …; }`)')
                self.cond_update(cond, b1)
                i = nxt
                continue
            if t == ('id', 'for'):
                he = match_close(toks, i + 1)
                h = toks[i + 2:he]
                # auto NAME = INT ; NAME < BOUND ; ++ NAME     (BOUND: literal or class constant)
                ok = (len(h) == 11 and h[0] == ('id', 'auto') and h[1][0] == 'id' and h[2] == ('op', '=')
                      and h[3][0] == 'int' and h[4] == ('op', ';') and h[5] == h[1] and h[6] == ('op', '<')
                      and h[7][0] in ('int', 'id') and h[8] == ('op', ';') and h[9] == ('op', '++') and h[10] == h[1])
                if not ok:
                    raise self.err('unsupported for-loop header: ' + show(h, 20))
                if mode == 'lambda':
                    raise self.err('for-loop inside a lambda')
                if toks[he + 1] != ('op', '{'):
                    raise self.err('for-loop without braces')
                be = match_close(toks, he + 1)
                body = toks[he + 2:be]
                lv = h[1][1]
                bound = self.cint([h[7]])
                if not is_int(bound):
                    if h[3][1] != 0:
                        raise self.err('loop with a symbolic bound must start at 0')
                    self.sym_loop(lv, bound, body)
                    i = be + 1
                    continue
                outer = dict(self.env)
                for kk in range(h[3][1], bound):
                    scope = dict(self.env)
                    v = self.declare(lv, ('I', kk), 'int')
                    v.value = kk
                    self.run_block(body, 'fn')
                    # locals of the iteration go out of scope; assignments to outer variables persist
                    self.env = {k2: v2 for k2, v2 in self.env.items() if k2 in scope}
                self.env = {k2: v2 for k2, v2 in self.env.items() if k2 in outer}
                i = be + 1
                continue
            if t == ('id', 'return'):
                j = self.stmt_end(toks, i)
                if j != n - 1:
                    raise self.err('statements after return')
                r = toks[i + 1:j]
                if mode == 'lambda':
                    if rty[0] == 'T':
                        if not r or r[0] != ('op', '{') or match_close(r, 0) != len(r) - 1:
                            raise self.err('lambda returning std::array must `return {…};`')
                        parts = split_commas(r[1:-1])
                        if len(parts) != rty[1]:
                            raise self.err(f'return of {len(parts)} values, expected {rty[1]}')
                        self.emit('(' + ', '.join(self.entry(self.parse(p)) for p in parts) + ')')
                    else:
                        self.emit(self.scalar(self.ev(self.parse(r)), 'returned value'))
                    return
                if self.ret_ty is None or self.branch_depth:
                    raise self.err('return in a void function or inside a conditional')
                if self.ret_ty[0] == 'P':
                    if not r or r[0] != ('op', '{') or match_close(r, 0) != len(r) - 1:
                        raise self.err('a function returning std::pair must `return {a, b};`')
                    parts = split_commas(r[1:-1])
                    if len(parts) != 2:
                        raise self.err(f'return of {len(parts)} values, expected 2')
                    vals = [self.ev(self.parse(p)) for p in parts]
                    for v, want in zip(vals, self.ret_ty[1:]):
                        if v.ty != want:
                            raise self.err(f'returned component has type {v.ty}, declared {want}')
                    self.result = '(' + vals[0].lean + ', ' + vals[1].lean + ')'
                    return
                v = self.ev(self.parse(r))
                if v.ty != self.ret_ty:
                    raise self.err(f'returned value has type {v.ty}, declared {self.ret_ty}')
                self.result = v.lean
                return
            if self.is_decl_start(toks, i):
                j = self.stmt_end(toks, i)
                self.decl(toks[i:j], mode)
                i = j + 1
                continue
            j = self.stmt_end(toks, i)
            if mode == 'lambda':
                raise self.err('unsupported statement inside a lambda: ' + show(toks[i:j]))
            self.expr_stmt(toks[i:j])
            i = j + 1
        if mode == 'lambda':
            raise self.err('lambda body without return')

    def sym_loop(self, lv, K, body):
        """`for (auto lv = 0u; lv < K; ++lv) { body }` with a symbolic bound K: emitted as
        `forLoop K (fun lv h_lv x => body; x) x` (EigenSem.forLoop: iterations 0, 1, …, K−1 in this order) where x
        is the one outer variable the body assigns."""
        hyp = 'h' + lv
        if lv in self.env or hyp in self.env or lv in LEAN_KEYWORDS:
            raise self.err(f'loop counter `{lv}` (or `{hyp}`) clashes with another identifier')
        if self.branch_depth:
            raise self.err('loop inside a conditional')
        outer = dict(self.env)
        loop = {'var': lv, 'K': K, 'pre': [], 'assigned': set(), 'outer': set(outer)}
        before = {k: (list(v.written) if isinstance(v.written, list) else None) for k, v in outer.items()}
        lines, ind = self.lines, self.ind
        self.lines, self.ind = [], ind + '    '
        self.loops.append(loop)
        v = self.declare(lv, ('I', Sym.var(lv)), 'int')
        v.value = Sym.var(lv)
        self.run_block(body, 'fn')
        self.loops.pop()
        sub = self.lines
        self.lines, self.ind = lines, ind
        self.env = {k2: v2 for k2, v2 in self.env.items() if k2 in outer}
        if len(loop['assigned']) != 1:
            raise self.err(f'a loop with a symbolic bound must assign exactly one outer variable, assigns {sorted(loop["assigned"])}')
        x = next(iter(loop['assigned']))
        xv = self.env[x]
        # entries written by iteration lv: [p·lv + q, p·lv + q + p)  ->  after the loop [q, q + p·K)
        if isinstance(xv.written, list):
            res = []
            for lo, hi in xv.written:
                lo, hi = Sym.of(lo), Sym.of(hi)
                p = lo.t.get(lv, 0)
                if p == 0 and hi.t.get(lv, 0) == 0:
                    res.append((norm(lo), norm(hi)))
                    continue
                if (lo, hi) in [(Sym.of(a), Sym.of(b)) for a, b in (before[x] or [])]:
                    continue
                if not (p > 0 and Sym.of(hi - lo) == Sym.of(p)):
                    raise self.err(f'cannot analyse the entries of `{x}` written by the loop over `{lv}`: [{lo}, {hi})')
                q = lo.subst(lv, 0)
                res.append((norm(q), norm(q + Sym.of(K) * p)))
            xv.written = merge_intervals(res)
            if any(a == 0 and b == xv.ty[1] for a, b in xv.written):
                xv.written = 'all'
        for other, w in before.items():
            if other != x and isinstance(self.env[other].written, list) and self.env[other].written != w:
                raise self.err(f'loop over `{lv}` changes the assignment state of `{other}`')
        for l in self.loops:
            if x in l['outer']:
                l['assigned'].add(x)
        if self.loops and loop['pre']:
            self.loops[0]['pre'] += loop['pre']
        else:
            for ln in loop['pre']:
                self.emit(ln)
        self.emit(f'let {x} : {lean_ty(xv.ty)} := forLoop {dstr(K)} (fun {lv} {hyp} {x} =>')
        self.lines += sub
        self.emit(f'    {x}) {x}')
        if self.branch_assigned is not None:
            self.branch_assigned.add(x)

    def cond_update(self, cond, body):
        saved_w = {k: (v.written if v.written == 'all' or v.written is None else type(v.written)(v.written))
                   for k, v in self.env.items()}
        lines, ind, env0 = self.lines, self.ind, dict(self.env)
        outer_assigned = self.branch_assigned
        self.lines, self.ind, self.branch_assigned = [], ind + '    ', set()
        self.branch_depth += 1
        self.run_block(body, 'fn')
        self.branch_depth -= 1
        assigned, sub = self.branch_assigned, self.lines
        self.lines, self.ind, self.branch_assigned = lines, ind, outer_assigned
        self.env = env0
        for k, w in saved_w.items():
            self.env[k].written = w
        if len(assigned) != 1:
            raise self.err(f'conditional must assign exactly one variable, assigns {sorted(assigned)}')
        x = next(iter(assigned))
        self.emit(f'let {x} : {lean_ty(self.env[x].ty)} := (if {cond.lean} then (')
        self.lines += sub
        self.emit(f'    {x}) else {x})')
        if outer_assigned is not None:
            outer_assigned.add(x)

    def decl(self, toks, mode):
        is_const = toks[0] == ('id', 'const')
        t = toks[1:] if is_const else toks
        # structured binding
        if t[0] == ('id', 'auto') and t[1] == ('op', '['):
            e = match_close(t, 1)
            names = [p[0][1] for p in split_commas(t[2:e])]
            if t[e + 1] != ('op', '='):
                raise self.err('structured binding without initialiser')
            v = self.ev(self.parse(t[e + 2:]))
            if v.ty[0] == 'P' and len(names) == 2 and mode != 'lambda':
                # [const] auto [A, B] = f(x);  with f returning std::pair: two locals (copies)
                tup = '_' + '_'.join(names)
                self.emit(f'let {tup} : {lean_ty(v.ty)} := {v.lean}')
                for nm, cty, proj in zip(names, v.ty[1:], ('.1', '.2')):
                    if cty[0] not in ('V', 'M'):
                        raise self.err('structured binding of a pair with a non-matrix component')
                    var = self.declare(nm, cty, 'const' if is_const else 'local', 'all')
                    var.in_lean = True
                    self.emit(f'let {nm} : {lean_ty(cty)} := {tup}{proj}')
                return
            if v.ty[0] != 'T' or v.ty[1] != len(names):
                raise self.err(f'structured binding of {len(names)} names to a value of type {v.ty}')
            tup = '_' + '_'.join(names)
            self.emit(f'let {tup} : {lean_ty(v.ty)} := {v.lean}')
            k = len(names)
            for idx, nm in enumerate(names):
                proj = '.2' * idx + ('.1' if idx < k - 1 else '')
                self.declare(nm, ('S',), 'const')
                self.emit(f'let {nm} : α := {tup}{proj}')
            return
        # type
        is_ref = False
        if t[0] == ('id', 'Eigen'):
            e = match_angle(t, 3)
            ty = self.parse_type(t[:e + 1])
            is_ref = t[2] == ('id', 'Ref')
            rest = t[e + 1:]
        else:
            ty = self.parse_type(t[:1])
            rest = t[1:]
        for d in split_commas(rest):
            name = d[0][1]
            if d[0][0] != 'id':
                raise self.err('unsupported declarator: ' + show(d))
            if is_ref:
                # Eigen::Ref<[const] T> x = <block of a variable>;  a VIEW (no copy): reads see later writes
                # to the viewed variable, writes through a non-const Ref go to it
                if mode == 'lambda' or is_const or len(d) < 3 or d[1] != ('op', '='):
                    raise self.err('unsupported Eigen::Ref declaration: ' + show(toks))
                v = self.ev_view(self.parse(d[2:]))
                if v.src is None or v.ty != ty:
                    raise self.err(f'Eigen::Ref `{name}` must be bound to a block of a variable of type {ty} '
                                   '(binding to an expression would create a temporary)')
                const_ref = ('id', 'const') in t[:e + 1]
                if not const_ref and self.env[v.src[0]].kind not in ('out', 'local'):
                    raise self.err(f'non-const Eigen::Ref `{name}` to `{v.src[0]}`, which is not an output or a mutable local')
                if name in LEAN_KEYWORDS:
                    raise self.err(f'identifier `{name}` is a Lean keyword')
                a = self.declare(name, ty, 'alias')
                a.view, a.in_lean = v.src, True
                continue
            if ty == ('DBL',):
                # `const double t = <Scalar coefficient>;` — the value round-trips exactly through double for
                # Scalar ∈ {float, double} (Eigen converts it back to Scalar in `M * t`); recorded as a note
                if not (is_const and len(d) > 2 and d[1] == ('op', '=')):
                    raise self.err('unsupported declaration of a double: ' + show(toks))
                v = self.ev(self.parse(d[2:]))
                if v.ty != ('S',) or v.src is None:
                    raise self.err('a local `double` must be initialised from one Scalar coefficient: ' + show(toks))
                self.gen.notes.append(f'{self.where}: local `{name}` is declared `double`, not `Scalar` (initialised from the '
                                      f'coefficient {v.lean}); translated as a Scalar — exact for Scalar ∈ {{float, double}}')
                self.bind(name, ('S',), v, True)
                continue
            if mode == 'lambda' and ty not in (('S',), ('AUTO',)):
                raise self.err('non-scalar declaration inside a lambda: ' + show(toks))
            if len(d) == 1:
                if ty is None or ty[0] not in ('V', 'M'):
                    raise self.err('uninitialised declaration of a non-matrix: ' + show(d))
                self.declare(name, ty, 'local', set())
                continue
            if d[1] == ('op', '='):
                v = self.ev(self.parse(d[2:]))
                self.bind(name, ty, v, is_const)
                continue
            if d[1] == ('op', '(') and ty == ('Q',):
                # Eigen::Map<const Eigen::Quaternion<Scalar>> q(g_in.data());
                node = self.parse(d[2:match_close(d, 1)])
                if not (node[0] == 'member' and node[2] == 'data' and node[1][0] == 'var'):
                    raise self.err('quaternion map of something other than `x.data()`')
                base = self.ev(node[1])
                bv = self.env[node[1][1]]
                if bv.kind != 'in' or base.ty != ('V', 4):
                    raise self.err('quaternion map must view a 4-vector input parameter')
                q = self.declare(name, ('Q',), 'const')
                q.alias = base
                continue
            if d[1] == ('op', '{') and ty is not None and ty[0] == 'M':
                e = match_close(d, 1)
                rows = split_commas(d[2:e])
                ents = []
                for r in rows:
                    if r[0] != ('op', '{') or match_close(r, 0) != len(r) - 1:
                        raise self.err('brace initialiser must be a list of rows')
                    cols = split_commas(r[1:-1])
                    if len(cols) != ty[2]:
                        raise self.err('brace initialiser row of wrong length')
                    ents += [self.entry(self.parse(c)) for c in cols]
                if len(rows) != ty[1]:
                    raise self.err('brace initialiser with wrong number of rows')
                self.bind(name, ty, Val(self.mat_lit(ty, ents), ty), is_const)
                continue
            raise self.err('unsupported declarator: ' + show(d))

    def bind(self, name, ty, v, is_const):
        if ty == ('AUTO',):
            ty = ('S',) if v.ty[0] in ('I', 'D') else v.ty
        if ty == ('S',):
            lean = self.scalar(v, 'initialiser')
            self.declare(name, ty, 'const')
            self.emit(f'let {name} : α := {lean}')
            return
        if ty is None or ty[0] not in ('V', 'M') or v.ty != ty:
            raise self.err(f'declaration of `{name}` of type {ty} from a value of type {v.ty}')
        var = self.declare(name, ty, 'const' if is_const else 'local', 'all')
        var.in_lean = True
        self.emit(f'let {name} : {lean_ty(ty)} := {v.lean}')

    def mat_lit(self, ty, ents):
        if ty[0] == 'V':
            n = ty[1]
            if n in (1, 2, 3, 4):
                return f'(mk{n} ' + ' '.join(ents) + ')'
            return f'(vecLit {n} [' + ', '.join(ents) + '])'
        r, c = ty[1], ty[2]
        if (r, c) == (2, 2):
            return '(mat2 ' + ' '.join(ents) + ')'
        if (r, c) == (3, 3):
            return '(mat3 ' + ' '.join(ents) + ')'
        rows = [', '.join(ents[k * c:(k + 1) * c]) for k in range(r)]
        return f'(matLit {r} {c} [\n{self.ind}    ' + f',\n{self.ind}    '.join(rows) + '])'

    def expr_stmt(self, toks):
        d = 0
        pos = None
        for k, t in enumerate(toks):
            if t[0] == 'op' and t[1] in '({[':
                d += 1
            elif t[0] == 'op' and t[1] in ')}]':
                d -= 1
            elif d == 0 and t[0] == 'op' and t[1] in ('<<', '=', '+=', '-=', '*=', '/='):
                pos = k
                break
        if pos is None:
            node = self.parse(toks)
            if node[0] == 'member' and node[2] in ('setZero', 'setIdentity') and not node[4]:
                src, kind = self.lvalue(node[1])
                if kind == 'S':
                    raise self.err(f'.{node[2]}() on a coefficient')
                nr, nc = src[3], src[4]
                if node[2] == 'setIdentity' and (nr, nc) == (1, 1):
                    # a 1x1 block: Identity is the scalar 1
                    self.assign((src[0], src[1], src[2], 1, 1, False), 'S', Val('(nat 1)', ('S',)))
                    return
                if node[2] == 'setZero':
                    val = Val(f'(vzero {dstr(nr)})', ('V', nr)) if kind == 'V' else Val(f'(mzero {dstr(nr)} {dstr(nc)})', ('M', nr, nc))
                else:
                    if kind != 'M' or nr != nc:
                        raise self.err('.setIdentity() on a non-square object')
                    val = Val(f'(ident {dstr(nr)})', ('M', nr, nc))
                self.assign(src, kind, val)
                return
            if node[0] == 'call':
                self.call_stmt(node)
                return
            raise self.err('unsupported statement: ' + show(toks))
        op = toks[pos][1]
        lhs = self.parse(toks[:pos])
        if op == '<<':
            src, kind = self.lvalue(lhs)
            v = self.env[src[0]]
            fr, fc = shape(v.ty)
            if kind == 'S' or (src[1], src[2]) != (0, 0) or src[3] != fr or src[4] != fc:
                raise self.err('comma initialiser on a block')
            parts = split_commas(toks[pos + 1:])
            if not (is_int(fr) and is_int(fc)) or len(parts) != fr * fc:
                raise self.err(f'comma initialiser with {len(parts)} entries for a {fr}x{fc} object')
            ents = [self.entry(self.parse(p)) for p in parts]
            self.assign(src, kind, Val(self.mat_lit(v.ty, ents), v.ty))
            return
        rhs = self.ev(self.parse(toks[pos + 1:]))
        src, kind = self.lvalue(lhs)
        if op == '=':
            self.assign(src, kind, rhs)
            return
        cur = self.read_lv(src, kind)
        if op == '/=':
            raise self.err('unsupported operator /=')
        if op == '*=' and kind in ('V', 'M') and rhs.ty[0] in ('S', 'I'):
            f = 'vscaleR' if kind == 'V' else 'mscaleR'
            new = Val(f'({f} {cur.lean} {self.scalar(rhs)})', cur.ty)
        elif op == '*=':
            new = self.binop('*', cur, rhs)
            if kind == 'S' and new.ty != ('S',) or kind != 'S' and new.ty != cur.ty:
                raise self.err('*= changes the shape of its target')
        else:
            new = self.binop(op[0], cur, rhs)
        self.assign(src, kind, new)

    def call_stmt(self, node):
        _, quals, name, args = node
        r = self.resolve_callee(quals, name)
        if r[0] != 'impl':
            raise self.err('scalar function call as a statement')
        c, fname = r[1], r[2]
        sig, ret = self.gen.sig(c, fname)
        outs = [k for k, (_, kd, _) in enumerate(sig) if kd == 'out']
        if ret is not None or len(outs) != 1 or len(args) != len(sig):
            raise self.err(f'call statement of {c.name}::{fname}: need a void function with exactly one output')
        o = outs[0]
        in_args = [a for k, a in enumerate(args) if k != o]
        in_sig = [s for k, s in enumerate(sig) if k != o]
        src, kind = self.lvalue(args[o])
        # the inputs must not alias the output object
        lean = self.apply(c, fname, in_sig, in_args)
        oty = sig[o][2]
        self.assign(src, kind, Val(lean, oty))

    # ---------------------------------------------------------------- whole function
    def translate(self):
        sig, ret = self.signature()
        self.ret_ty, self.result = ret, None
        outs = [s for s in sig if s[1] == 'out']
        if ret is None and len(outs) != 1:
            raise self.err('void function must have exactly one output parameter')
        if ret is not None and (outs or ret[0] not in ('V', 'M', 'S', 'P')):
            raise self.err('unsupported return type / output parameters')
        for name, kind, ty in sig:
            self.declare(name, ty, kind, 'all' if kind == 'in' else set())
        self.run_block(self.fn.body, 'fn')
        if ret is None:
            o = outs[0]
            v = self.env[o[0]]
            if v.written != 'all':
                if isinstance(v.written, list):
                    got = ', '.join(f'[{Sym.of(a)}, {Sym.of(b)})' for a, b in v.written) or 'nothing'
                    raise self.err(f'output `{o[0]}` is not fully assigned: rows {got} of {Sym.of(v.ty[1])} are written')
                full = self.cells(0, 0, *shape(v.ty))
                raise self.err(f'output `{o[0]}` is not fully assigned: missing {sorted(full - v.written)[:4] if full else "?"}')
            self.result, rty = o[0], o[2]
        else:
            if self.result is None:
                raise self.err('missing return')
            rty = ret
        ins = [(n, t) for n, k, t in sig if k == 'in']
        sym = any(isinstance(x, Sym) for _, t in ins for x in t[1:]) or any(isinstance(x, Sym) for x in rty[1:] if not isinstance(x, tuple))
        hdr = f'def {self.fn.name}' + (' {%s : Nat}' % SYMBOLIC[self.cls.key][1] if sym else '') + \
              ''.join(f' ({n} : {lean_ty(t)})' for n, t in ins) + f' : {lean_ty(rty)} :='
        return hdr + '\n' + '\n'.join(self.lines + ['  ' + self.result]) + '\n', ins, rty


# ------------------------------------------------------------------ all classes
class Gen:
    def __init__(self, repo):
        self.repo = repo
        self.classes, self.by_cname, self._sig = [], {}, {}
        self.notes = []
        self.opaque = set()
        d = os.path.join(repo, 'include/smooth/detail')
        for hdr, cname, key in CLASSES:
            p = os.path.join(d, hdr)
            if not os.path.exists(p):
                raise TrErr('missing header ' + p)
            src = strip_comments(open(p).read())
            pre = {SYMBOLIC[key][0]: Sym.var(SYMBOLIC[key][1])} if key in SYMBOLIC else {}

            def ce(toks, consts, pre=pre):
                return const_eval(toks, dict(pre, **consts))
            c = parse_class(src, cname, key, ce)
            c.consts = dict(pre, **c.consts)
            for k in ('RepSize', 'Dim', 'Dof'):
                if k not in c.consts:
                    raise TrErr(f'{cname}: constant {k} not found')
            c.hdr = hdr
            self.classes.append(c)
            self.by_cname[cname] = c

    def excluded(self, c, fname):
        return EXCLUDED.get((c.key, fname)) or EXCLUDED.get(('*', fname))

    def sig(self, c, fname):
        k = (c.key, fname)
        if k not in self._sig:
            if self.excluded(c, fname):
                raise TrErr(f'call of {c.name}::{fname}, which is excluded from translation')
            self._sig[k] = FnTr(self, c, c.funcs[fname]).signature()
        return self._sig[k]

    def run(self):
        done, order, texts, info = set(), [], {}, {}
        visiting = []

        def visit(c, fname):
            k = (c.key, fname)
            if k in done:
                return
            if k in visiting:
                raise TrErr(f'recursive call cycle through {c.name}::{fname}')
            visiting.append(k)
            tr = FnTr(self, c, c.funcs[fname])
            txt, ins, rty = tr.translate()
            for (ck, fn) in tr.calls:
                cc = next(x for x in self.classes if x.key == ck)
                visit(cc, fn)
            visiting.pop()
            done.add(k)
            order.append(k)
            texts[k], info[k] = txt, (ins, rty)
        skipped = []
        for c in self.classes:
            for fname in c.funcs:
                why = self.excluded(c, fname)
                if why:
                    skipped.append((c, fname, why))
                    continue
                visit(c, fname)
        for (ck, fn) in EXCLUDED:
            if ck != '*' and not any(c.key == ck and fn in c.funcs for c in self.classes):
                raise TrErr(f'exclusion table names {ck}::{fn}, which no longer exists in the source')
        return order, texts, info, skipped


def generate(repo):
    g = Gen(repo)
    order, texts, info, skipped = g.run()
    L = ['/- GENERATED by tools/gen_src.py (tools/gen_impl.py) from include/smooth/detail/',
         '   {so2,c1,tn,se2,so3,se3,galilei,se_k_3}.hpp.  Do not edit: regenerated from the repository on every check run.',
         '   Every static function of the Impl classes is transliterated statement by statement; Eigen constructs',
         '   are mapped through the fixed table of SmoothModel/EigenSem.lean (+ Lin.lean).',
         '', '   TRANSLATED']
    for c in g.classes:
        fs = [fn for (ck, fn) in order if ck == c.key]
        L.append(f'     {c.hdr} {c.name} ({len(fs)}): ' + ' '.join(sorted(fs, key=list(c.funcs).index)))
    L.append('   NOT TRANSLATED')
    for c, fn, why in skipped:
        L.append(f'     {c.name}::{fn} — {why}')
    if g.notes:
        L.append('   NOTES')
        L += ['     ' + n for n in g.notes]
    if g.opaque:
        L.append('   OPAQUE CALLEES (not translated; text pinned by tools/gen_base.py, mapped to the hand model): '
                 + ', '.join(f'{x} ↦ Derivs.{x}' for x in sorted(g.opaque)))
    L += ['-/', 'import SmoothModel.Lin', 'import SmoothModel.Derivs', 'import SmoothModel.EigenSem', 'import SmoothModel.Gen.CoefSrc',
          'set_option linter.unusedVariables false', 'open Scalar Lin EigenSem', 'namespace ImplSrc',
          'variable {α : Type} [Scalar α]', '']
    cur = None
    for k in order:
        if k[0] != cur:
            if cur is not None:
                L.append(f'end {cur}\n')
            cur = k[0]
            L.append(f'namespace {cur}')
        L.append(texts[k])
    if cur is not None:
        L.append(f'end {cur}\n')
    L.append('/-- the functions translated above, in source order (tied by `SrcTieImpl.manifest_eq`) -/')
    names = [f'{c.key}.{fn}' for c in g.classes for fn in c.funcs if (c.key, fn) in texts]
    L.append('def manifest : List String := [' + ', '.join(f'"{n}"' for n in names) + ']')
    L.append('/-- static functions of the Impl classes that are NOT translated -/')
    L.append('def notTranslated : List String := [' + ', '.join(f'"{c.key}.{fn}"' for c, fn, _ in skipped) + ']')
    L.append('/-- `(RepSize, Dim, Dof, IsCommutative)` of each Impl class, as declared in the source (tied by `SrcTieImpl.consts_*`) -/')
    for c in g.classes:
        if 'IsCommutative' not in c.bools:
            raise TrErr(f'{c.name}: constant IsCommutative not found')
        b = SYMBOLIC[c.key][1] if c.key in SYMBOLIC else None
        vals = ', '.join(dstr(c.consts[k2]) for k2 in ('RepSize', 'Dim', 'Dof')) + ', ' + ('true' if c.bools['IsCommutative'] else 'false')
        L.append(f'def consts_{c.key}' + (f' ({b} : Nat)' if b else '') + f' : Nat × Nat × Nat × Bool := ({vals})')
    L.append('')
    L.append('end ImplSrc')
    return '\n'.join(L) + '\n'


if __name__ == '__main__':
    try:
        sys.stdout.write(generate(sys.argv[1] if len(sys.argv) > 1 else '/repo'))
    except TrErr as e:
        print('gen_impl: cannot translate the current source:', e, file=sys.stderr)
        sys.exit(1)
