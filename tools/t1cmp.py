#!/usr/bin/env python3
"""Compare harness lines (op grp prec in | out # tag) with driver replies.
Error measure: |impl - model| relative to max(|entries of the object|), in units of the
scalar type's epsilon ("ulp of the largest entry")."""
import struct, sys, math, collections

def dec(w, prec):
    if prec == 'f64':
        return struct.unpack('>d', bytes.fromhex(w))[0]
    return struct.unpack('>f', bytes.fromhex(w))[0]

EPS = {'f64': 2.0**-52, 'f32': 2.0**-23}

def compare(hline, dline):
    """returns (op, grp, prec, tag, err_ulp or None, detail)"""
    body, _, tag = hline.partition(' # ')
    req, _, impl = body.partition(' | ')
    toks = req.split()
    op, grp, prec = toks[0], toks[1], toks[2]
    tag = tag.strip()
    if dline.startswith('ERR'):
        return op, grp, prec, tag, None, dline
    iw = impl.split()
    mw = dline.split()
    if len(iw) != len(mw):
        return op, grp, prec, tag, float('inf'), f'length impl={len(iw)} model={len(mw)}'
    iv = [dec(w, prec) for w in iw]
    mv = [dec(w, prec) for w in mw]
    scale = 0.0
    for a in iv + mv:
        if math.isfinite(a):
            scale = max(scale, abs(a))
    worst = 0.0
    for a, b in zip(iv, mv):
        if math.isnan(a) or math.isnan(b):
            if math.isnan(a) != math.isnan(b):
                return op, grp, prec, tag, float('inf'), 'nan-class'
            continue
        if math.isinf(a) or math.isinf(b):
            if a != b:
                return op, grp, prec, tag, float('inf'), 'inf-class'
            continue
        d = abs(a - b)
        if d == 0:
            continue
        worst = max(worst, d / (scale * EPS[prec]) if scale > 0 else float('inf'))
    return op, grp, prec, tag, worst, ''

if __name__ == '__main__':
    h = open(sys.argv[1]).read().splitlines()
    d = open(sys.argv[2]).read().splitlines()
    assert len(h) == len(d), (len(h), len(d))
    worst = collections.defaultdict(float)
    cnt = collections.Counter()
    ex = {}
    for hl, dl in zip(h, d):
        op, grp, prec, tag, err, det = compare(hl, dl)
        k = (op, grp, prec)
        cnt[k] += 1
        e = float('inf') if err is None else err
        if e >= worst[k]:
            worst[k] = e; ex[k] = (tag, det, hl[:150])
    for k in sorted(worst, key=lambda k: -worst[k])[:int(sys.argv[3]) if len(sys.argv) > 3 else 40]:
        print(f"{worst[k]:12.3g} {k} n={cnt[k]} {ex[k][0]} {ex[k][1]}")
