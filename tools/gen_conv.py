#!/usr/bin/env python3
"""gen_conv.py <repo> — source → Lean translator for the CONVERSION members of the public group classes
(property C17): so2.hpp (angle, angle_cw, angle_ccw, u1, unit_complex, lift_so3, the three value constructors),
so3.hpp (quaternion constructor, rot_x/y/z, project_so2), c1.hpp (angle, scaling, c1, so2, C1(scaling, angle)),
se2.hpp (lift_se3), se3.hpp (project_se2).

Output: lean/SmoothModel/Gen/ConvSrc.lean (namespace ConvSrc; NOT imported by the root SmoothModel.lean, so a change in
these members touches only C17's target).  The hand-written model (SmoothModel/Convert.lean, SO3.lean, C1.lean) is tied to
it by `rfl` in SmoothProps/SrcTieConv.lean.

The translator is a recursive-descent parser for the scalar C++ subset these members use.  Anything outside the subset
makes the member UNTRANSLATED: its definition becomes a `String` carrying the reason, so exactly the tie theorem of that
member stops elaborating (reported as a broken obligation of C17) and nothing else.  The script itself always exits 0.

Fixed meaning table (trusted, pinned textually where the meaning is an accessor of the library):
  static_cast<const _Derived &>(*this).coeffs()  = the coefficient vector `g` (x,y,z,w = index 0,1,2,3)
  quat()                 (SO3Base)  = `g` read as Eigen quaternion (coefficient order x y z w)      [pinned]
  eulerAngles(i1,i2,i3)  (SO3Base)  = Eigen's `eulerAngles` of `quat().toRotationMatrix()`, nothing else: the model takes Eigen's
                                      routine as a parameter (`Conv.eulerAngles`), so the forwarding body is                      [pinned]
  Base::log()            (SO2Base)  = `SO2.log g`   (detail/so2.hpp, tied by gen_impl)
  so2(), r2()            (SE2Base)  = `SE2.so2 g`, `SE2.r2 g`                                       [pinned]
  so3(), r3()            (SE3Base)  = `SE3.so3 g`, `SE3.r3 g`                                       [pinned]
  SE3<Scalar>(so3, r3), SE2<Scalar>(so2, r2) = coefficient placement (`SE3.mk7`, `mk4`)             [pinned]
  Eigen::Quaternion<Scalar>(w, x, y, z) = coefficients (x, y, z, w);  q.normalized() = q / sqrt(sqNorm q)
  Scalar(k) = `nat k`, M_PI = `Scalar.pi`, sin/cos/sqrt/atan2 = the `Scalar` class operations.
"""
import os, re, sys

ROOT = os.path.dirname(os.path.dirname(os.path.abspath(__file__)))


class Untranslatable(Exception):
    pass


# ----------------------------------------------------------------------------- lexer
TOK = re.compile(r'\s*(?:(//[^\n]*|/\*.*?\*/)|([A-Za-z_][A-Za-z_0-9]*(?:::[A-Za-z_][A-Za-z_0-9]*)*)|(\d+\.\d*|\d+)|(<<|\*=|==|!=|<=|>=|&&|\|\||[-+*/<>=?:;,.(){}&!\[\]]))', re.S)


def lex(src):
    out, i = [], 0
    while i < len(src):
        m = TOK.match(src, i)
        if not m:
            if src[i:].strip() == '':
                break
            raise Untranslatable('cannot tokenise at: ' + src[i:i + 30].strip())
        i = m.end()
        if m.group(1):
            continue
        out.append(m.group(2) or m.group(3) or m.group(4))
    return out


def strip_comments(s):
    s = re.sub(r'/\*.*?\*/', ' ', s, flags=re.S)
    return re.sub(r'//[^\n]*', ' ', s)


def find_member(text, sig_re):
    """(signature text, init-list text or None, body text) of the unique member whose signature matches sig_re"""
    ms = list(re.finditer(sig_re, text))
    if len(ms) != 1:
        raise Untranslatable(f'signature /{sig_re}/ matches {len(ms)} times')
    m = ms[0]
    j = m.end()
    k = text.index('{', j)
    init = text[j:k].strip()
    depth, e = 0, k
    while True:
        if text[e] == '{':
            depth += 1
        elif text[e] == '}':
            depth -= 1
            if depth == 0:
                break
        e += 1
    return m.group(0), (init or None), text[k + 1:e]


# ----------------------------------------------------------------------------- values
class S:   # scalar
    def __init__(self, e): self.e = e


class V:   # vector: either a whole Lean expression of type Vec α n, or explicit components
    def __init__(self, n, whole=None, comps=None):
        self.n, self.whole, self._c = n, whole, comps

    def comp(self, i):
        if i >= self.n:
            raise Untranslatable('component out of range')
        return self._c[i] if self._c else f'({self.whole} {i})'

    def lean(self):
        if self.whole:
            return self.whole
        return f'(mk{self.n} ' + ' '.join(par(c) for c in self._c) + ')'


class C:   # std::complex
    def __init__(self, re_, im): self.re, self.im = re_, im


class Q(V):   # Eigen::Quaternion value (coefficient order x y z w)
    pass


class G:   # group element
    def __init__(self, kind, v): self.kind, self.v = kind, v


def par(e):
    return e if re.fullmatch(r'[A-Za-z_.0-9]+|\(.*\)', e) and balanced(e) else f'({e})'


def balanced(e):
    if not e.startswith('('):
        return True
    d = 0
    for i, ch in enumerate(e):
        d += ch == '('
        d -= ch == ')'
        if d == 0 and i < len(e) - 1:
            return False
    return True


TEMPLATED = {'static_cast', 'SO2', 'SO3', 'SE2', 'SE3', 'smooth::SO3', 'Eigen::Quaternion', 'Eigen::Vector2', 'Eigen::Vector3',
             'std::complex', 'head'}
FUNS = {'sin': 'Scalar.sin', 'cos': 'Scalar.cos', 'sqrt': 'Scalar.sqrt', 'atan2': 'Scalar.atan2',
        'std::sin': 'Scalar.sin', 'std::cos': 'Scalar.cos', 'std::sqrt': 'Scalar.sqrt', 'std::atan2': 'Scalar.atan2'}


class Parser:
    def __init__(self, toks, env, cls):
        self.t, self.i, self.env, self.cls = toks, 0, env, cls

    def peek(self, k=0):
        return self.t[self.i + k] if self.i + k < len(self.t) else None

    def eat(self, x=None):
        tok = self.peek()
        if tok is None or (x is not None and tok != x):
            raise Untranslatable(f'expected {x!r}, found {tok!r}')
        self.i += 1
        return tok

    def skip_template(self):
        if self.peek() != '<':
            return ''
        d, out = 0, []
        while True:
            tok = self.eat()
            out.append(tok)
            d += tok == '<'
            d -= tok == '>'
            if d == 0:
                return ' '.join(out)

    # expr := ternary
    def expr(self):
        c = self.cmp()
        if self.peek() == '?':
            self.eat()
            a = self.expr()
            self.eat(':')
            b = self.expr()
            if not (isinstance(a, S) and isinstance(b, S) and isinstance(c, S)):
                raise Untranslatable('non-scalar conditional')
            return S(f'if {c.e} then {a.e} else {b.e}')
        return c

    def cmp(self):
        a = self.add()
        if self.peek() in ('<', '>'):
            op = self.eat()
            b = self.add()
            a, b = self.sc(a), self.sc(b)
            return S(f'{a.e} < {b.e}' if op == '<' else f'{b.e} < {a.e}')
        return a

    def sc(self, v):
        if not isinstance(v, S):
            raise Untranslatable('scalar expected')
        return v

    def add(self):
        a = self.mul()
        while self.peek() in ('+', '-'):
            op = self.eat()
            b = self.mul()
            a = S(f'{self.sc(a).e} {op} {self.sc(b).e}')
        return a

    def mul(self):
        a = self.unary()
        while self.peek() in ('*', '/'):
            op = self.eat()
            b = self.unary()
            a = S(f'{par_mul(self.sc(a).e)} {op} {par(self.sc(b).e)}')
        return a

    def unary(self):
        if self.peek() == '-':
            self.eat()
            v = self.sc(self.unary())
            return S(f'-({v.e})' if not re.fullmatch(r'\(.*\)', v.e) else f'-{v.e}')
        return self.postfix(self.primary())

    def args(self):
        self.eat('(')
        out = []
        if self.peek() != ')':
            out.append(self.expr())
            while self.peek() == ',':
                self.eat()
                out.append(self.expr())
        self.eat(')')
        return out

    def primary(self):
        tok = self.eat()
        if tok == '(':
            v = self.expr()
            self.eat(')')
            if isinstance(v, S):
                return S(f'({v.e})')
            return v
        if re.fullmatch(r'\d+', tok):
            return S(f'nat {tok}')
        if tok == 'M_PI':
            return S('Scalar.pi')
        if tok == 'static_cast':
            targ = self.skip_template()
            if targ.replace(' ', '') != '<const_Derived&>':
                raise Untranslatable('static_cast to ' + targ)
            self.eat('('); self.eat('*'); self.eat('this'); self.eat(')')
            return G(self.cls, None)      # *this: only .coeffs() is allowed on it
        if tok in ('Scalar',):
            a = self.args()
            if len(a) != 1:
                raise Untranslatable('Scalar(..) arity')
            return S(par(self.sc(a[0]).e)) if ' ' in a[0].e else self.sc(a[0])
        if tok in FUNS and self.peek() == '(':
            a = [par(self.sc(x).e) for x in self.args()]
            return S(f'{FUNS[tok]} ' + ' '.join(a))
        if tok in self.env:
            return self.env[tok]
        if tok in TEMPLATED or tok in ('Base::log', 'quat', 'so2', 'r2', 'so3', 'r3', 'c1'):
            return self.named(tok)
        raise Untranslatable(f'unknown identifier {tok!r}')

    def named(self, tok):
        if tok in TEMPLATED:
            self.skip_template()
        a = self.args()
        kinds = tuple(type(x).__name__ + (':' + x.kind if isinstance(x, G) else '') for x in a)
        if tok == 'Base::log' and self.cls == 'SO2' and not a:
            return V(1, whole='(SO2.log g)')
        if tok == 'quat' and self.cls == 'SO3' and not a:
            return Q(4, whole='g')
        if tok == 'so2' and self.cls == 'SE2' and not a:
            return G('SO2', V(2, whole='(SE2.so2 g)'))
        if tok == 'r2' and self.cls == 'SE2' and not a:
            return V(2, whole='(SE2.r2 g)')
        if tok == 'so3' and self.cls == 'SE3' and not a:
            return G('SO3', V(4, whole='(SE3.so3 g)'))
        if tok == 'r3' and self.cls == 'SE3' and not a:
            return V(3, whole='(SE3.r3 g)')
        if tok == 'c1' and self.cls == 'C1' and not a:
            return C('((C1_c1 g) 0)', '((C1_c1 g) 1)')
        if tok == 'SO2' and kinds == ('S',):
            return G('SO2', V(2, whole=f'(SO2_ctor_angle {par(a[0].e)})'))
        if tok == 'SO2' and kinds == ('C',):
            return G('SO2', V(2, whole=f'(SO2_ctor_complex {par(a[0].re)} {par(a[0].im)})'))
        if tok in ('SO3', 'smooth::SO3') and kinds == ('Q',):
            return G('SO3', V(4, whole=f'(SO3_ctor_quat {a[0].lean()})'))
        if tok == 'Eigen::Quaternion' and kinds == ('S', 'S', 'S', 'S'):
            w, x, y, z = (v.e for v in a)
            return Q(4, comps=[x, y, z, w])
        if tok == 'Eigen::Vector3' and kinds == ('S', 'S', 'S'):
            return V(3, comps=[v.e for v in a])
        if tok == 'Eigen::Vector2' and kinds == ('S', 'S'):
            return V(2, comps=[v.e for v in a])
        if tok == 'std::complex' and kinds == ('S', 'S'):
            return C(a[0].e, a[1].e)
        if tok == 'SE3' and kinds == ('G:SO3', 'V'):
            return G('SE3', V(7, whole=f'(SE3.mk7 {a[1].lean()} {a[0].v.lean()})'))
        if tok == 'SE2' and kinds == ('G:SO2', 'V'):
            q, v = a[0].v, a[1]
            return G('SE2', V(4, comps=[v.comp(0), v.comp(1), q.comp(0), q.comp(1)]))
        raise Untranslatable(f'no meaning for {tok}{kinds}')

    def postfix(self, v):
        while self.peek() in ('.', '('):
            if self.peek() == '(':
                if not isinstance(v, V):
                    raise Untranslatable('call on non-vector')
                a = self.args()
                m = re.fullmatch(r'nat (\d+)', a[0].e) if len(a) == 1 and isinstance(a[0], S) else None
                if not m:
                    raise Untranslatable('index')
                v = S(v.comp(int(m.group(1))))
                continue
            self.eat('.')
            name = self.eat()
            if name == 'template':
                name = self.eat()
            targ = self.skip_template() if name in TEMPLATED else ''
            a = self.args()
            if isinstance(v, G) and v.v is None:
                if name == 'coeffs' and not a:
                    v = V({'SO2': 2, 'C1': 2, 'SO3': 4, 'SE2': 4, 'SE3': 7}[v.kind], whole='g')
                    continue
                raise Untranslatable('(*this).' + name)
            if isinstance(v, V) and name in ('x', 'y', 'z', 'w') and not a:
                v = S(v.comp('xyzw'.index(name)))
            elif isinstance(v, V) and name == 'coeffs' and not a:
                v = V(v.n, v.whole, v._c)
            elif isinstance(v, Q) and name == 'normalized' and not a:
                v = Q(4, whole=f'(Vec.of (fun i => {v.lean()} i / Scalar.sqrt (sqNorm {v.lean()})))')
            elif isinstance(v, V) and name == 'head' and not a and targ.replace(' ', '') == '<2>':
                v = V(2, comps=[v.comp(0), v.comp(1)])
            elif isinstance(v, C) and name in ('real', 'imag') and not a:
                v = S(v.re if name == 'real' else v.im)
            elif isinstance(v, G) and v.kind == 'SO2' and name == 'lift_so3' and not a:
                v = G('SO3', V(4, whole=f'(SO2_lift_so3 {v.v.lean()})'))
            elif isinstance(v, G) and v.kind == 'SO3' and name == 'project_so2' and not a:
                v = G('SO2', V(2, whole=f'(SO3_project_so2 {v.v.lean()})'))
            else:
                raise Untranslatable(f'member .{name} on {type(v).__name__}')
        return v


def par_mul(e):
    # left operand of * or /: products associate to the left without parentheses; sums need them
    d = 0
    for ch in e:
        d += ch == '('
        d -= ch == ')'
        if d == 0 and ch in '+-' and not e.startswith('-'):
            return f'({e})'
    if e.startswith('if '):
        return f'({e})'
    return e


# ----------------------------------------------------------------------------- statements
def translate_body(cls, params, init, body, out_n):
    """returns (lets, result value)"""
    env = dict(params)
    lets = []
    out = [None] * out_n if out_n else None
    cur = {}   # name -> version counter for vectors mutated in place
    toks = lex(body)
    P = Parser(toks, env, cls)

    def bind(name, v):
        if isinstance(v, S):
            lets.append(f'let {name} : α := {v.e}')
            env[name] = S(name)
        elif isinstance(v, Q):
            lets.append(f'let {name} : Vec α 4 := {v.lean()}')
            env[name] = Q(4, whole=name)
        elif isinstance(v, V):
            lets.append(f'let {name} : Vec α {v.n} := {v.lean()}')
            env[name] = V(v.n, whole=name)
        else:
            raise Untranslatable('binding of ' + type(v).__name__)

    def canon_if(name):
        # if (X(3) < 0) { X *= Scalar(-1); }
        P.eat('('); c = P.expr(); P.eat(')'); P.eat('{')
        tgt = P.postfix(P.primary())
        P.eat('*='); f = P.expr(); P.eat(';'); P.eat('}')
        if not (isinstance(tgt, V) and tgt.whole == name and isinstance(c, S) and isinstance(f, S)):
            raise Untranslatable('conditional statement shape')
        lets.append(f'let {name} : Vec α {tgt.n} := if {c.e} then (Vec.of (fun i => {name} i * {par(f.e)})) else {name}')

    if init is not None:
        m = re.fullmatch(r':\s*m_coeffs\((.*)\)', init, re.S)
        if not m:
            raise Untranslatable('initialiser list ' + init)
        v = Parser(lex(m.group(1)), env, cls).expr()
        if not isinstance(v, V):
            raise Untranslatable('m_coeffs initialiser')
        bind('m_coeffs', v)

    result = None
    while P.peek() is not None:
        tok = P.peek()
        if tok == 'using':
            while P.eat() != ';':
                pass
        elif tok == 'return':
            P.eat()
            result = P.expr()
            P.eat(';')
            if P.peek() is not None:
                raise Untranslatable('statements after return')
        elif tok == 'if':
            P.eat()
            # the only conditional statement of the subset: sign canonicalisation of the vector being built
            nxt = P.peek(1)
            name = 'm_coeffs' if nxt == 'm_coeffs' else 'ret'
            canon_if(name)
        elif tok == 'm_coeffs' and out is not None and P.peek(1) == '.':
            P.eat(); P.eat('.')
            c = P.eat(); P.eat('('); P.eat(')'); P.eat('=')
            v = P.sc(P.expr()); P.eat(';')
            out['xyzw'.index(c)] = v.e
        elif tok in ('SO3',) and P.peek(2) == ';':
            P.eat(); name = P.eat(); P.eat(';')
            cur[name] = 4
        elif tok in cur and P.peek(1) == '.':
            name = P.eat(); P.eat('.'); P.eat('coeffs'); P.eat('('); P.eat(')'); P.eat('<<')
            cs = [P.sc(P.expr()).e]
            while P.peek() == ',':
                P.eat(); cs.append(P.sc(P.expr()).e)
            P.eat(';')
            if len(cs) != cur[name]:
                raise Untranslatable('comma initialiser size')
            bind(name, V(len(cs), comps=cs))
            env[name] = G('SO3', None)    # `ret.coeffs()` = the vector named ret
            env['__' + name] = V(len(cs), whole=name)
        elif tok in ('const', 'Scalar', 'auto'):
            if tok == 'const':
                P.eat()
            ty = P.eat()
            if ty not in ('Scalar', 'auto'):
                raise Untranslatable('declaration type ' + ty)
            if P.peek() == '&':
                P.eat()
            name = P.eat(); P.eat('=')
            v = P.expr(); P.eat(';')
            bind(name, v)
        else:
            raise Untranslatable(f'statement starting with {tok!r}')
    if out is not None:
        if any(o is None for o in out):
            raise Untranslatable('a coefficient is never assigned')
        result = V(out_n, comps=out)
    elif init is not None and result is None:
        result = env['m_coeffs']
    return lets, result


# `ret.coeffs()` where ret is a local SO3: handled by making G(kind, None).coeffs() return whole 'g' for *this only;
# for locals we patch the parser: a G with v None whose env name is known
_orig_postfix = Parser.postfix


def _postfix(self, v):
    if isinstance(v, G) and v.v is None and self.i >= 1 and self.t[self.i - 1] in ('ret',):
        name = self.t[self.i - 1]
        if self.peek() == '.':
            self.eat('.'); self.eat('coeffs'); self.eat('('); self.eat(')')
        v = self.env['__' + name]
    return _orig_postfix(self, v)


Parser.postfix = _postfix

# ----------------------------------------------------------------------------- the members
# (lean name, header, class kind, signature regex, parameters [(c++ name, lean binder, value)], #coefficients assigned through
#  m_coeffs.x()/y() (constructors) or 0)
G2, G4, G7 = '(g : Vec α 2)', '(g : Vec α 4)', '(g : Vec α 7)'
MEMBERS = [
    ('SO2_angle', 'so2.hpp', 'SO2', r'Scalar angle\(\) const', [], G2, 0),
    ('SO2_angle_cw', 'so2.hpp', 'SO2', r'Scalar angle_cw\(\) const', [], G2, 0),
    ('SO2_angle_ccw', 'so2.hpp', 'SO2', r'Scalar angle_ccw\(\) const', [], G2, 0),
    ('SO2_unit_complex', 'so2.hpp', 'SO2', r'Eigen::Vector2<Scalar> unit_complex\(\) const', [], G2, 0),
    ('SO2_u1', 'so2.hpp', 'SO2', r'std::complex<Scalar> u1\(\) const', [], G2, 0),
    ('SO2_ctor_coeffs', 'so2.hpp', 'SO2', r'SO2\(const Scalar & qz, const Scalar & qw\)', [('qz', S('qz')), ('qw', S('qw'))], '(qz qw : α)', 2),
    ('SO2_ctor_angle', 'so2.hpp', 'SO2', r'explicit SO2\(const Scalar & angle\)', [('angle', S('angle'))], '(angle : α)', 2),
    ('SO2_ctor_complex', 'so2.hpp', 'SO2', r'explicit SO2\(const std::complex<Scalar> & c\)', [('c', C('re', 'im'))], '(re im : α)', 2),
    ('SO3_ctor_quat', 'so3.hpp', 'SO3', r'explicit SO3\(const Eigen::QuaternionBase<Derived> & quat\)', [('quat', Q(4, whole='q'))], '(q : Vec α 4)', 0),
    ('SO3_rot_x', 'so3.hpp', 'SO3', r'static SO3 rot_x\(const Scalar & angle\)', [('angle', S('angle'))], '(angle : α)', 0),
    ('SO3_rot_y', 'so3.hpp', 'SO3', r'static SO3 rot_y\(const Scalar & angle\)', [('angle', S('angle'))], '(angle : α)', 0),
    ('SO3_rot_z', 'so3.hpp', 'SO3', r'static SO3 rot_z\(const Scalar & angle\)', [('angle', S('angle'))], '(angle : α)', 0),
    ('SO2_lift_so3', 'so2.hpp', 'SO2', r'SO3<Scalar> lift_so3\(\) const', [], G2, 0),
    ('SO3_project_so2', 'so3.hpp', 'SO3', r'SO2<Scalar> project_so2\(\) const', [], G4, 0),
    ('C1_angle', 'c1.hpp', 'C1', r'Scalar angle\(\) const', [], G2, 0),
    ('C1_scaling', 'c1.hpp', 'C1', r'Scalar scaling\(\) const', [], G2, 0),
    ('C1_c1', 'c1.hpp', 'C1', r'std::complex<Scalar> c1\(\) const', [], G2, 0),
    ('C1_so2', 'c1.hpp', 'C1', r'SO2<Scalar> so2\(\) const', [], G2, 0),
    ('C1_ctor_scaling_angle', 'c1.hpp', 'C1', r'C1\(const Scalar & scaling, const Scalar & angle\)', [('scaling', S('scaling')), ('angle', S('angle'))], '(scaling angle : α)', 2),
    ('SE2_lift_se3', 'se2.hpp', 'SE2', r'SE3<Scalar> lift_se3\(\) const', [], G4, 0),
    ('SE3_project_se2', 'se3.hpp', 'SE3', r'SE2<Scalar> project_se2\(\) const', [], G7, 0),
]

# accessors / constructors whose MEANING is in the table above: their source text is pinned
PINS = [
    ('pin_SO3_quat', 'so3.hpp', r'Eigen::Map<const Eigen::Quaternion<Scalar>> quat\(\) const'),
    ('pin_SO3_eulerAngles', 'so3.hpp', r'Eigen::Vector3<Scalar> eulerAngles\(Eigen::Index i1 = 2, Eigen::Index i2 = 1, Eigen::Index i3 = 0\) const'),
    ('pin_SE2_so2', 'se2.hpp', r'Map<const SO2<Scalar>> so2\(\) const'),
    ('pin_SE2_r2', 'se2.hpp', r'Eigen::Map<const Eigen::Vector2<Scalar>> r2\(\) const'),
    ('pin_SE3_so3', 'se3.hpp', r'Map<const SO3<Scalar>> so3\(\) const'),
    ('pin_SE3_r3', 'se3.hpp', r'Eigen::Map<const Eigen::Vector3<Scalar>> r3\(\) const'),
    ('pin_SE2_ctor_parts', 'se2.hpp', r'SE2\(const SO2Base<SO2Derived> & so2, const Eigen::MatrixBase<T2Derived> & r2\)'),
    ('pin_SE3_ctor_parts', 'se3.hpp', r'SE3\(const SO3Base<SO3Derived> & so3, const Eigen::MatrixBase<T3Derived> & r3\)'),
    # from-parts constructors of Galilei and SE_K_3 (their coefficient layout is compared bit for bit by the ops conv_gal_parts_ctor /
    # conv_sek2_parts_ctor; the bodies are pinned so that a change is reported independently of the generated inputs)
    ('pin_Galilei_ctor_parts', 'galilei.hpp', r'Galilei\(\s*const SO3Base<SO3Derived> & so3,\s*const Eigen::MatrixBase<T1> & r3_v,\s*'
                                              r'const Eigen::MatrixBase<T2> & r3_p,\s*double r1_t = 0\)'),
    ('pin_SEK3_ctor_parts', 'se_k_3.hpp', r'SE_K_3\(const SO3Base<SO3Derived> & so3, const Eigen::MatrixBase<RnDerived> &\.\.\. r3s\)'),
]


def lean_str(s):
    return '"' + s.replace('\\', '\\\\').replace('"', '\\"') + '"'


def main():
    repo = sys.argv[1] if len(sys.argv) > 1 else '/repo'
    inc = os.path.join(repo, 'include', 'smooth')
    texts = {}
    out = ['/- GENERATED by tools/gen_conv.py from the C++ source of pettni/smooth: so2.hpp, so3.hpp, c1.hpp, se2.hpp, se3.hpp',
           '   (conversion members of the public group classes, property C17).  Do not edit: regenerated on every check run. -/',
           'import SmoothModel.Lin', 'import SmoothModel.SO2', 'import SmoothModel.SE2', 'import SmoothModel.SE3',
           'set_option linter.unusedVariables false', 'open Scalar Lin', 'namespace ConvSrc', 'variable {α : Type} [Scalar α]', '']
    report = []
    for name, hdr, cls, sig, params, binder, out_n in MEMBERS:
        try:
            if hdr not in texts:
                texts[hdr] = strip_comments(open(os.path.join(inc, hdr)).read())
            sigtxt, init, body = find_member(texts[hdr], sig)
            lets, res = translate_body(cls, params, init, body, out_n)
            if isinstance(res, S):
                ty, val = 'α', res.e
            elif isinstance(res, C):
                ty, val = 'Vec α 2', f'mk2 {par(res.re)} {par(res.im)}'
            elif isinstance(res, G):
                if res.v is None:
                    raise Untranslatable('group-valued result without coefficients')
                ty, val = f'Vec α {res.v.n}', res.v.lean()
            elif isinstance(res, V):
                ty, val = f'Vec α {res.n}', res.lean()
            else:
                raise Untranslatable('no result')
            src = ' '.join(body.split())
            out.append(f'/-- include/smooth/{hdr}: `{sigtxt}` — `{src[:300]}` -/')
            out.append(f'def {name} {binder} : {ty} :=')
            for l in lets:
                out.append('  ' + l)
            out.append('  ' + val)
            out.append('')
            report.append((name, 'ok'))
        except (Untranslatable, OSError, ValueError, KeyError, IndexError) as e:
            out.append(f'/-- include/smooth/{hdr}: member matching /{sig}/ is OUTSIDE the translated subset -/')
            out.append(f'def {name} : String := {lean_str("UNTRANSLATED: " + str(e))}')
            out.append('')
            report.append((name, 'UNTRANSLATED: ' + str(e)))
    for name, hdr, sig in PINS:
        try:
            if hdr not in texts:
                texts[hdr] = strip_comments(open(os.path.join(inc, hdr)).read())
            sigtxt, init, body = find_member(texts[hdr], sig)
            txt = ' '.join((sigtxt + ' ' + (init or '') + ' { ' + body + ' }').split())
        except (Untranslatable, OSError, ValueError) as e:
            txt = 'MISSING: ' + str(e)
        out.append(f'/-- pinned source text (its meaning is in the translator\'s fixed table) -/')
        out.append(f'def {name} : String := {lean_str(txt)}')
        out.append('')
        report.append((name, 'pin'))
    out.append('end ConvSrc')
    path = sys.argv[2] if len(sys.argv) > 2 else os.path.join(ROOT, 'lean', 'SmoothModel', 'Gen', 'ConvSrc.lean')
    new = '\n'.join(out) + '\n'
    old = open(path).read() if os.path.exists(path) else None
    if old != new:
        with open(path, 'w') as f:
            f.write(new)
    bad = [r for r in report if r[1].startswith('UNTRANSLATED')]
    print(f'gen_conv: {len(report) - len(bad)} of {len(report)} members/pins translated' + (': ' + '; '.join(f'{a}: {b}' for a, b in bad) if bad else ''))
    return 0


if __name__ == '__main__':
    sys.exit(main())
