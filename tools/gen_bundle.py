#!/usr/bin/env python3
"""Translator no. 4 (tie by regeneration from source, fourth entry of `vlib.run_translators`):

    python3 tools/gen_bundle.py <repo> [<output directory>]

parses, on every check, the CURRENT text of

  A  include/smooth/detail/bundle.hpp  (`BundleImpl<GsImpl...>`: layout constants and every static function),
     the helpers `array_psum` / `static_for` of include/smooth/detail/utils.hpp and the `Ref` aliases of
     include/smooth/detail/common.hpp (`SMOOTH_DEFINE_REFS`)          ->  SmoothModel/Gen/BundleSrc.lean
  B  include/smooth/bundle.hpp  (`BundleBase`: BundleSize / PartStart / PartDof, both `part<Idx>()` overloads, the
     `liebase_info` specialisations, the constructor from parts)      ->  SmoothModel/Gen/BundlePubSrc.lean
  C  include/smooth/manifolds/{vector,variant,submanifold,any}.hpp and `traits::man<LieGroup>` of
     include/smooth/concepts/lie_group.hpp, the free functions of concepts/manifold.hpp
                                                                       ->  SmoothModel/Gen/ManifSrc.lean
  D  include/smooth/lie_groups/{rn,scalar,native}.hpp (`traits::lie`) ->  SmoothModel/Gen/RnSrc.lean

and re-emits it as Lean definitions (Mathlib-free, NOT imported by SmoothModel.lean: a change in one of these headers
breaks the proof target of the properties concerned, not the driver).  The tie theorems are hand-written:
SmoothProps/SrcTieBundle.lean (A; C06, also C02/C05), SrcTieBundlePub.lean (B; C16), SrcTieManif.lean (C; C07),
SrcTieRn.lean (D; C06).  Meaning of the non-scalar constructs: SmoothModel/BundleSem.lean (A, B), ManifSem.lean (C) —
fixed tables, part of the trusted base (DESIGN.md §8.1).

Rules (same as gen_src / gen_impl / gen_logic): every member / statement is either translated to a Lean term, or is
matched against an explicitly listed textual PIN (normalised token sequence must be equal; a changed, missing or additional
pinned item is a hard error naming it), or is a HARD ERROR naming the construct.  Nothing is skipped silently.
Output is deterministic; files are written only when their content changes; exit status 1 with a message on failure.
"""
import os, re, sys


class TrErr(Exception):
    pass


# =============================================================================== lexer
TOK = re.compile(r'\s*(?:(\d+\.\d*|\.\d+)|(\d+)[uUlL]*|([A-Za-z_]\w*|"(?:[^"\\\n]|\\.)*")|'
                 r'(\.\.\.|<=>|::|<<|<=|>=|==|!=|&&|\|\||\+\+|--|\+=|-=|\*=|/=|->|[-+*/%(){},;<>=\[\].&!?:|~^#]))')


def strip_comments(s):
    s = re.sub(r'/\*.*?\*/', lambda m: re.sub(r'[^\n]', ' ', m.group(0)), s, flags=re.S)
    return re.sub(r'//[^\n]*', '', s)


def tokenize(s):
    out, i = [], 0
    s = s.rstrip()
    while i < len(s):
        m = TOK.match(s, i)
        if not m:
            if not s[i:].strip():
                break
            raise TrErr('cannot tokenize at: ' + s[i:i + 40].strip())
        if m.group(1) is not None:
            out.append(m.group(1))
        elif m.group(2) is not None:
            out.append(m.group(2))
        elif m.group(3) is not None:
            out.append(m.group(3))
        else:
            out.append(m.group(4))
        i = m.end()
    return out


def norm(text):
    """normalised token sequence of a piece of C++ (comments and layout removed)"""
    return ' '.join(tokenize(strip_comments(text)))


def show(toks, n=18):
    return ' '.join(toks[:n]) + (' …' if len(toks) > n else '')


OPEN = {'(': ')', '{': '}', '[': ']'}


def match_close(toks, i):
    o = toks[i]
    c = OPEN[o]
    d = 0
    for j in range(i, len(toks)):
        if toks[j] == o:
            d += 1
        elif toks[j] == c:
            d -= 1
            if d == 0:
                return j
    raise TrErr('unbalanced ' + o + ' near: ' + show(toks[i:]))


def match_angle(toks, i):
    """index of the `>` closing the `<` at toks[i] (template parameter / argument lists; `(`-nesting respected)"""
    d = 0
    j = i
    while j < len(toks):
        t = toks[j]
        if t in OPEN:
            j = match_close(toks, j)
        elif t == '<':
            d += 1
        elif t == '>':
            d -= 1
            if d == 0:
                return j
        elif t in (';', '{', '}'):
            break
        j += 1
    raise TrErr('unbalanced < near: ' + show(toks[i:]))


def split_top(toks, sep=',', angles=True):
    """split at top-level separators (nesting of ( { [ and — unless angles=False — of < > respected)"""
    parts, cur, d, a = [], [], 0, 0
    for t in toks:
        if t in OPEN:
            d += 1
        elif t in OPEN.values():
            d -= 1
        elif t == '<' and angles:
            a += 1
        elif t == '>' and angles:
            a -= 1
        if t == sep and d == 0 and a == 0:
            parts.append(cur)
            cur = []
        else:
            cur.append(t)
    if cur or parts:
        parts.append(cur)
    return parts


def read_src(repo, rel):
    p = os.path.join(repo, rel)
    if not os.path.exists(p):
        raise TrErr('source file missing: ' + rel)
    return open(p).read()


def drop_pp(src, pragma_guards=()):
    """remove preprocessor lines.  Conditional groups are a hard error, except `#ifdef X … #endif` with X in `pragma_guards`
       whose body consists of `#pragma` lines only (compiler-diagnostic switches: no effect on the program)"""
    out, inside = [], None
    for line in src.split('\n'):
        s = line.strip()
        if s.startswith('#'):
            d = re.sub(r'^#\s*', '', s)
            m = re.fullmatch(r'ifdef\s+(\w+)', d)
            if m and m.group(1) in pragma_guards and inside is None:
                inside = m.group(1)
            elif d == 'endif' and inside is not None:
                inside = None
            elif re.match(r'(if|ifdef|ifndef|elif|else|endif)\b', d):
                raise TrErr('unsupported preprocessor conditional: ' + s)
            elif inside is not None and not d.startswith('pragma'):
                raise TrErr(f'preprocessor group `#ifdef {inside}` contains something other than #pragma: ' + s)
            out.append('')
        else:
            if inside is not None and s:
                raise TrErr(f'preprocessor group `#ifdef {inside}` guards program text: ' + s)
            out.append(line)
    if inside is not None:
        raise TrErr(f'unterminated `#ifdef {inside}`')
    return '\n'.join(out)


def find_braced(toks, start_pat, what):
    """toks[k:] starts with the token list start_pat followed (somewhere before the next `;` at depth 0) by `{`;
       returns (k, index of `{`, index of matching `}`) of the FIRST such occurrence"""
    n = len(start_pat)
    for k in range(len(toks) - n):
        if toks[k:k + n] == start_pat:
            j = k + n
            while j < len(toks) and toks[j] not in ('{', ';'):
                if toks[j] in ('(', '['):
                    j = match_close(toks, j)
                elif toks[j] == '<':
                    j = match_angle(toks, j)
                j += 1
            if j < len(toks) and toks[j] == '{':
                return k, j, match_close(toks, j)
    raise TrErr(what + ' not found in the current source')


def members(toks):
    """split the body of a class / struct / namespace into member declarations: each ends at a top-level `;` or is a
       function definition ending at its closing `}` (access specifiers `public:` … are returned as their own items)"""
    res, i = [], 0
    while i < len(toks):
        if toks[i] in ('public', 'private', 'protected') and i + 1 < len(toks) and toks[i + 1] == ':':
            res.append(toks[i:i + 2])
            i += 2
            continue
        j = i
        while j < len(toks):
            t = toks[j]
            if t == ';':
                res.append(toks[i:j + 1])
                i = j + 1
                break
            if t == '(' or t == '[':
                j = match_close(toks, j)
            elif t == '<' and j > i and (toks[j - 1] == 'template' or re.match(r'[A-Za-z_]', toks[j - 1])) \
                    and not is_comparison(toks, j):
                j = match_angle(toks, j)
            elif t == '{':
                e = match_close(toks, j)
                # brace initialiser `X{...};` or `= {...};` continues to the `;`; a body `{...}` ends the member
                if e + 1 < len(toks) and toks[e + 1] == ';' and not looks_like_function(toks[i:j]):
                    res.append(toks[i:e + 2])
                    i = e + 2
                else:
                    res.append(toks[i:e + 1])
                    i = e + 1
                    if i < len(toks) and toks[i] == ';':      # `};` after a class body
                        res[-1] = res[-1] + [';']
                        i += 1
                break
            j += 1
        else:
            raise TrErr('unterminated declaration: ' + show(toks[i:]))
    return res


def is_comparison(toks, j):
    """`<` at toks[j]: a comparison rather than a template bracket?  (only needed inside member splitting, where the
       sources at hand use `<` as a comparison only between parenthesised / numeric operands)"""
    try:
        match_angle(toks, j)
        return False
    except TrErr:
        return True


def looks_like_function(head):
    return ')' in head and head[-1] in (')', 'const', 'noexcept', 'override') or (')' in head and 'requires' in head)


# =============================================================================== Lean emission helpers
def lean_paren(s):
    s = s.strip()
    if re.fullmatch(r'[\w.]+', s) or (s.startswith('(') and s.endswith(')') and balanced(s[1:-1])):
        return s
    return '(' + s + ')'


def balanced(s):
    d = 0
    for ch in s:
        if ch == '(':
            d += 1
        elif ch == ')':
            d -= 1
            if d < 0:
                return False
    return d == 0


def write_if_changed(path, text):
    os.makedirs(os.path.dirname(path), exist_ok=True)
    if os.path.exists(path) and open(path).read() == text:
        return False
    with open(path, 'w') as f:
        f.write(text)
    return True


def check_pin(name, got_toks, expected, where):
    got = ' '.join(got_toks)
    if got != expected:
        raise TrErr(f'{where}: pinned item `{name}` differs from the expected text\n   expected: {expected}\n   current:  {got}')


# =============================================================================== A. detail/bundle.hpp
BUNDLE_H = 'include/smooth/detail/bundle.hpp'
UTILS_H = 'include/smooth/detail/utils.hpp'
COMMON_H = 'include/smooth/detail/common.hpp'

PART_CONST = {'RepSize': 'rep', 'Dof': 'dof', 'Dim': 'dim', 'IsCommutative': 'comm'}
# the static functions of an `*Impl` class: number of inputs (the output parameter is the last one) and kind of every
# parameter (v = coefficient vector / tangent, m = matrix); = the fields of `LieModel` (Group.lean, BaseSem.lean)
IMPL_SIG = {
    'setIdentity': ([], 'v'), 'matrix': (['v'], 'm'), 'composition': (['v', 'v'], 'v'), 'inverse': (['v'], 'v'),
    'log': (['v'], 'v'), 'exp': (['v'], 'v'), 'Ad': (['v'], 'm'), 'ad': (['v'], 'm'), 'hat': (['v'], 'm'),
    'vee': (['m'], 'v'), 'dr_exp': (['v'], 'm'), 'dr_expinv': (['v'], 'm'), 'd2r_exp': (['v'], 'm'),
    'd2r_expinv': (['v'], 'm'),
}
IMPL_FIELD = {'setIdentity': 'identity'}

# members of BundleImpl that have no value-level meaning: pinned textually
BUNDLE_PINS = {
    'using Scalar': 'using Scalar = std :: common_type_t < typename GsImpl :: Scalar ... > ;',
    'static_assert Scalar': 'static_assert ( ( std :: is_same_v < Scalar , typename GsImpl :: Scalar > && ... ) , '
                            '"Implementation Scalar types must be the same" ) ;',
    'SMOOTH_DEFINE_REFS': 'SMOOTH_DEFINE_REFS ;',
    # Eigen's random number generator has no model (same entry as `setRandom` in gen_impl's notTranslated table); the
    # text is pinned so that the loop keeps addressing the parts' own segments
    'setRandom': 'static void setRandom ( GRefOut g_out ) { smooth :: utils :: static_for < sizeof ... ( GsImpl ) > ( '
                 '[ & ] ( auto i ) { PartImpl < i > :: setRandom ( g_out . template segment < get < i > ( RepSizes ) > '
                 '( get < i > ( RepSizesPsum ) ) ) ; } ) ; }',
}
STATIC_FOR_PIN = ('template < std :: size_t _I > constexpr auto static_for ( auto && f ) noexcept ( noexcept ( std :: invoke ( f , '
                  'std :: integral_constant < std :: size_t , 0 > ( ) ) ) ) { const auto f_caller = [ & ] < std :: size_t ... _Idx > '
                  '( std :: index_sequence < _Idx ... > ) { return ( std :: invoke ( f , std :: integral_constant < std :: size_t , '
                  '_Idx > ( ) ) , ... ) ; } ; return f_caller ( std :: make_index_sequence < _I > { } ) ; }')
ARRAY_PSUM_HEAD = ('template < typename _T , std :: size_t _L > constexpr std :: array < _T , _L + 1 > array_psum ( const std :: array '
                   '< _T , _L > & x ) noexcept')


class StaticExpr:
    """static integer expressions: literals, names (loop / lambda variables, local constants, the layout constants),
       `get<e>(Array)` / `std::get<e>(Array)` / `Array[e]`, `+`, `*`, parentheses"""

    def __init__(self, toks, env, where):
        self.t, self.i, self.env, self.where = toks, 0, env, where

    def peek(self):
        return self.t[self.i] if self.i < len(self.t) else None

    def eat(self, x):
        if self.peek() != x:
            raise TrErr(f'{self.where}: expected `{x}` in static expression `{" ".join(self.t)}` at `{show(self.t[self.i:], 6)}`')
        self.i += 1

    def parse(self):
        e = self.add()
        if self.i != len(self.t):
            raise TrErr(f'{self.where}: unsupported static expression `{" ".join(self.t)}` (stopped at `{show(self.t[self.i:], 6)}`)')
        return e

    def add(self):
        e = self.mul()
        while self.peek() == '+':
            self.i += 1
            r = self.mul()
            e = f'{e} + {lean_paren(r) if " + " in r and not balanced_outer(r) else r}'
        return e

    def mul(self):
        e = self.atom()
        while self.peek() == '*':
            self.i += 1
            r = self.atom()
            e = f'{mul_operand(e)} * {mul_operand(r)}'
        return e

    def atom(self):
        t = self.peek()
        if t is None:
            raise TrErr(f'{self.where}: truncated static expression `{" ".join(self.t)}`')
        if t == '(':
            self.i += 1
            e = self.add()
            self.eat(')')
            return '(' + e + ')'
        if re.fullmatch(r'\d+', t):
            self.i += 1
            return t
        if t == 'std' and self.t[self.i + 1:self.i + 3] == ['::', 'get']:
            self.i += 2
            t = 'get'
        if t == 'get':
            self.i += 1
            self.eat('<')
            idx = self.add()
            self.eat('>')
            self.eat('(')
            arr = self.array_name()
            self.eat(')')
            return f'stdGet {lean_paren(idx)} {arr}'
        if t in self.env.get('#tvars', {}) and self.t[self.i + 1:self.i + 2] == ['<']:
            ae = match_angle(self.t, self.i + 1)
            sub = StaticExpr(self.t[self.i + 2:ae], self.env, self.where).parse()
            self.i = ae + 1
            return f'{self.env["#tvars"][t]} {lean_paren(sub)}'
        if re.fullmatch(r'[A-Za-z_]\w*', t):
            if self.t[self.i + 1:self.i + 2] == ['['] or self.t[self.i + 1:self.i + 3] == ['::', t] and False:
                arr = self.array_name()
                self.eat('[')
                idx = self.add()
                self.eat(']')
                return f'stdGet {lean_paren(idx)} {arr}'
            if self.t[self.i + 1:self.i + 2] == ['::']:
                # Impl::Array[idx] (public header)
                save = self.i
                arr = self.array_name()
                if self.peek() == '[':
                    self.eat('[')
                    idx = self.add()
                    self.eat(']')
                    return f'stdGet {lean_paren(idx)} {arr}'
                self.i = save
            self.i += 1
            if t in self.env:
                return self.env[t]
            raise TrErr(f'{self.where}: unknown name `{t}` in static expression `{" ".join(self.t)}`')
        raise TrErr(f'{self.where}: unsupported token `{t}` in static expression `{" ".join(self.t)}`')

    def array_name(self):
        t = self.peek()
        if t == 'Impl' and self.t[self.i + 1:self.i + 2] == ['::']:
            self.i += 2
            t = self.peek()
        if t not in self.env.get('#arrays', {}):
            raise TrErr(f'{self.where}: `{t}` is not one of the layout arrays in `{" ".join(self.t)}`')
        self.i += 1
        return self.env['#arrays'][t]


class BoolExpr:
    """compile-time conditions over the constants of one part: `PartImpl<e>::IsCommutative` (bool), `PartImpl<e>::RepSize|Dof|Dim`
       and static integer atoms (nat), user-declared per-part flags `Name<e>`, `!`, `&&`, `||`, `==`, `!=`, parentheses"""

    def __init__(self, toks, env, flags, where):
        self.t, self.i, self.env, self.flags, self.where = list(toks), 0, env, flags, where

    def peek(self):
        return self.t[self.i] if self.i < len(self.t) else None

    def fail(self, msg):
        raise TrErr(f'{self.where}: {msg} in condition `{" ".join(self.t)}`')

    def parse(self):
        e, ty = self.orx()
        if self.i != len(self.t):
            self.fail(f'unsupported token `{self.peek()}`')
        if ty != 'bool':
            self.fail('not a boolean')
        return e

    def orx(self):
        e, ty = self.andx()
        while self.peek() == '||':
            self.i += 1
            r, tr = self.andx()
            if ty != 'bool' or tr != 'bool':
                self.fail('`||` on non-booleans')
            e = f'({e} || {r})'
        return e, ty

    def andx(self):
        e, ty = self.notx()
        while self.peek() == '&&':
            self.i += 1
            r, tr = self.notx()
            if ty != 'bool' or tr != 'bool':
                self.fail('`&&` on non-booleans')
            e = f'({e} && {r})'
        return e, ty

    def notx(self):
        if self.peek() == '!':
            self.i += 1
            e, ty = self.notx()
            if ty != 'bool':
                self.fail('`!` on a non-boolean')
            return f'(!{e})', 'bool'
        return self.cmp()

    def cmp(self):
        e, ty = self.prim()
        if self.peek() in ('==', '!='):
            op = self.peek()
            self.i += 1
            r, tr = self.prim()
            if ty != tr:
                self.fail(f'`{op}` between different types')
            return (f'({e} == {r})' if op == '==' else f'({e} != {r})'), 'bool'
        return e, ty

    def prim(self):
        t = self.peek()
        if t == '(':
            self.i += 1
            e, ty = self.orx()
            if self.peek() != ')':
                self.fail('missing `)`')
            self.i += 1
            return e, ty
        if t is not None and re.fullmatch(r'[A-Za-z_]\w*', t) and self.t[self.i + 1:self.i + 2] == ['<'] \
                and (t == 'PartImpl' or t in self.flags):
            ae = match_angle(self.t, self.i + 1)
            idx = static_expr(self.t[self.i + 2:ae], self.env, self.where)
            if t in self.flags:
                self.i = ae + 1
                return f'{t} Gs {lean_paren(idx)}', 'bool'
            if self.t[ae + 1:ae + 2] != ['::'] or self.t[ae + 2] not in PART_CONST:
                self.fail('unsupported member of PartImpl')
            c = self.t[ae + 2]
            self.i = ae + 3
            return f'(PartImpl Gs {lean_paren(idx)}).{PART_CONST[c]}', ('bool' if c == 'IsCommutative' else 'nat')
        # a static integer atom
        j = self.i
        depth = 0
        while j < len(self.t) and not (depth == 0 and self.t[j] in ('==', '!=', '&&', '||', ')')):
            if self.t[j] in OPEN:
                j = match_close(self.t, j)
            j += 1
        if j == self.i:
            self.fail(f'unsupported token `{t}`')
        e = static_expr(self.t[self.i:j], self.env, self.where)
        self.i = j
        return lean_paren(e), 'nat'


def balanced_outer(s):
    return s.startswith('(') and s.endswith(')') and balanced(s[1:-1])


def mul_operand(s):
    if re.fullmatch(r'[\w.]+', s) or balanced_outer(s):
        return s
    return '(' + s + ')'


def static_expr(toks, env, where):
    return StaticExpr(list(toks), env, where).parse()


def gen_array_psum(utoks):
    """`array_psum` of utils.hpp: three statements, translated one by one"""
    head = tokenize(ARRAY_PSUM_HEAD)
    k, b, e = find_braced(utoks, head[:len(head)], 'utils.hpp: function array_psum')
    if utoks[k:b] != head:
        raise TrErr('utils.hpp: signature of array_psum differs from the pinned one: ' + ' '.join(utoks[k:b]))
    sts = members(utoks[b + 1:e])
    if len(sts) != 4:
        raise TrErr(f'utils.hpp: array_psum has {len(sts)} statements, expected 4 (declaration, ret[0] = …, std::partial_sum, return): '
                    + ' | '.join(' '.join(s) for s in sts))
    L = []
    # 1. std::array<_T, _L + 1> ret;
    m = re.fullmatch(r'std :: array < _T , (.+) > (\w+) ;', ' '.join(sts[0]))
    if not m:
        raise TrErr('utils.hpp: array_psum: unsupported declaration `' + ' '.join(sts[0]) + '`')
    ret = m.group(2)
    size = static_expr(m.group(1).split(), {'_L': 'sizeofPack x', '#arrays': {}}, 'array_psum')
    L.append(f'  let {ret} := newArray ({size})')
    # 2. ret[0] = _T(0);
    m = re.fullmatch(re.escape(ret) + r' \[ (\d+) \] = _T \( (\d+) \) ;', ' '.join(sts[1]))
    if not m:
        raise TrErr('utils.hpp: array_psum: unsupported statement `' + ' '.join(sts[1]) + '`')
    L.append(f'  let {ret} := setAt {ret} {m.group(1)} {m.group(2)}')
    # 3. std::partial_sum(x.begin(), x.end(), std::next(ret.begin(), 1));
    m = re.fullmatch(r'std :: partial_sum \( x \. begin \( \) , x \. end \( \) , std :: next \( ' + re.escape(ret)
                     + r' \. begin \( \) , (\d+) \) \) ;', ' '.join(sts[2]))
    if not m:
        raise TrErr('utils.hpp: array_psum: unsupported statement `' + ' '.join(sts[2]) + '`')
    L.append(f'  let {ret} := writeFrom {ret} {m.group(1)} (partialSum x)')
    if sts[3] != ['return', ret, ';']:
        raise TrErr('utils.hpp: array_psum: unsupported statement `' + ' '.join(sts[3]) + '`')
    L.append(f'  {ret}')
    return ['/-- `utils::array_psum` (detail/utils.hpp), statement by statement -/',
            'def array_psum (x : List Nat) : List Nat :='] + L


def check_static_for(utoks):
    head = tokenize('template < std :: size_t _I > constexpr auto static_for')
    k, b, e = find_braced(utoks, head, 'utils.hpp: function static_for')
    check_pin('static_for', utoks[k:e + 1], STATIC_FOR_PIN, 'utils.hpp')


def parse_refs(ctoks):
    """SMOOTH_DEFINE_REFS of common.hpp: alias -> (kind, rows, cols, writable); rows / cols as token lists"""
    try:
        k = ctoks.index('SMOOTH_DEFINE_REFS')
    except ValueError:
        raise TrErr('common.hpp: macro SMOOTH_DEFINE_REFS not found')
    if ctoks[k - 2:k] != ['#', 'define']:
        raise TrErr('common.hpp: SMOOTH_DEFINE_REFS is not a macro definition')
    # the macro body: up to `static_assert ( true )`
    try:
        e = ctoks.index('static_assert', k)
    except ValueError:
        raise TrErr('common.hpp: end of SMOOTH_DEFINE_REFS (`static_assert(true)`) not found')
    if ctoks[e:e + 4] != ['static_assert', '(', 'true', ')']:
        raise TrErr('common.hpp: SMOOTH_DEFINE_REFS does not end with `static_assert(true)`')
    refs = {}
    for st in members(ctoks[k + 1:e]):
        s = ' '.join(st)
        m = re.fullmatch(r'using (\w+) = (const )?Eigen :: Ref < (const )?Eigen :: Matrix < Scalar , (.+?) , (.+?) > > (& )?;', s)
        if not m:
            raise TrErr('common.hpp: SMOOTH_DEFINE_REFS: unsupported alias `' + s + '`')
        name, c1, c2, rows, cols, amp = m.groups()
        if bool(c1) != bool(c2) or bool(c1) != bool(amp):
            raise TrErr('common.hpp: SMOOTH_DEFINE_REFS: alias `' + name + '` mixes const / non-const / reference: ' + s)
        refs[name] = ('v' if cols == '1' else 'm', rows.split(), cols.split(), not c1)
    return refs


class BundleImplTr:
    def __init__(self, repo):
        self.repo = repo
        src = drop_pp(strip_comments(read_src(repo, BUNDLE_H)))
        self.toks = tokenize(src)
        self.utoks = tokenize(drop_pp(strip_comments(read_src(repo, UTILS_H))))
        ctext = strip_comments(read_src(repo, COMMON_H)).replace('\\\n', ' ')
        self.refs = parse_refs(tokenize(ctext))
        self.consts = []          # (name, lean type, lean body, doc)
        self.arrays = {}          # C++ array name -> lean term
        self.scalars = {}         # C++ constant name -> lean term
        self.flags = {}           # per-part boolean template variables (name -> index parameter)
        self.funcs = []           # (name, lines)
        self.pinned = set()
        self.not_translated = []

    # ---------------------------------------------------------------- members
    def run(self):
        t = self.toks
        head = tokenize('template < typename ... GsImpl > struct BundleImpl')
        k, b, e = find_braced(t, head, BUNDLE_H + ': struct BundleImpl')
        if t[k:b] != head:
            raise TrErr(BUNDLE_H + ': declaration of BundleImpl differs from `template<typename... GsImpl> struct BundleImpl`: '
                        + ' '.join(t[k:b]))
        # what surrounds the struct: pinned
        outside = ' '.join(t[:k] + ['@BundleImpl'] + t[e + 1:])
        exp = 'SMOOTH_BEGIN_NAMESPACE using std :: get ; @BundleImpl ; SMOOTH_END_NAMESPACE'
        if outside != exp:
            raise TrErr(f'{BUNDLE_H}: text outside struct BundleImpl differs from the pinned one\n   expected: {exp}\n   current:  {outside}')
        for mem in members(t[b + 1:e]):
            self.member(mem)
        missing = [p for p in BUNDLE_PINS if p not in self.pinned]
        if missing:
            raise TrErr(f'{BUNDLE_H}: pinned member(s) missing from the current source: ' + ', '.join(missing))
        for need in ('RepSizes', 'Dofs', 'Dims', 'RepSizesPsum', 'DofsPsum', 'DimsPsum'):
            if need not in self.arrays:
                raise TrErr(f'{BUNDLE_H}: layout array `{need}` is not declared in the current source')
        for need in ('RepSize', 'Dof', 'Dim', 'IsCommutative', 'BundleSize', 'PartImpl'):
            if need not in self.scalars:
                raise TrErr(f'{BUNDLE_H}: constant `{need}` is not declared in the current source')

    def member(self, mem):
        s = ' '.join(mem)
        for name, pin in BUNDLE_PINS.items():
            if s == pin:
                if name in self.pinned:
                    raise TrErr(f'{BUNDLE_H}: pinned member `{name}` occurs twice')
                self.pinned.add(name)
                if name == 'setRandom':
                    self.not_translated.append('setRandom')
                return
        # static void f(params) { body }
        if mem[:2] == ['static', 'void'] and mem[-1] == '}':
            return self.function(mem)
        if mem[:2] == ['static', 'constexpr']:
            return self.constant(mem)
        m = re.fullmatch(r'template < std :: size_t (\w+) > using (\w+) = std :: tuple_element_t < \1 , std :: tuple < GsImpl \.\.\. > > ;', s)
        if m:
            self.scalars[m.group(2)] = m.group(2)
            self.consts.append((m.group(2), f'(Gs : List (LieModel α)) ({m.group(1)} : Nat) : LieModel α', f'tupleElement {m.group(1)} Gs',
                                f'`template<std::size_t {m.group(1)}> using {m.group(2)} = std::tuple_element_t<{m.group(1)}, std::tuple<GsImpl...>>`'))
            return
        m = re.fullmatch(r'template < std :: size_t (\w+) > static constexpr bool (\w+) = (.+) ;', s)
        if m:
            idx, name, ex = m.groups()
            e = BoolExpr(ex.split(), self.env({idx: idx}), self.flags, f'{BUNDLE_H}: BundleImpl::{name}').parse()
            self.flags[name] = idx
            self.consts.append((name, f'(Gs : List (LieModel α)) ({idx} : Nat) : Bool', e,
                                f'`template<std::size_t {idx}> static constexpr bool {name} = {ex}`'))
            return
        raise TrErr(f'{BUNDLE_H}: unsupported member of BundleImpl (neither translated nor pinned): `{show(mem, 40)}`')

    def env(self, extra=None):
        e = {k: f'{v} Gs' for k, v in self.scalars.items() if k not in ('PartImpl',)}
        e['#arrays'] = {k: f'({v} Gs)' for k, v in self.arrays.items()}
        if extra:
            e.update(extra)
        return e

    def constant(self, mem):
        s = ' '.join(mem)
        # arrays of per-part constants
        m = re.fullmatch(r'static constexpr std :: array < int , sizeof \.\.\. \( GsImpl \) > (\w+) \{ GsImpl :: (\w+) \.\.\. \} ;', s)
        if m:
            name, c = m.groups()
            if c not in ('RepSize', 'Dof', 'Dim'):
                raise TrErr(f'{BUNDLE_H}: array `{name}` expands the unknown part constant `{c}`')
            self.arrays[name] = name
            self.consts.append((name, '(Gs : List (LieModel α)) : List Nat', f'Gs.map (fun G => G.{PART_CONST[c]})',
                                f'`std::array<int, sizeof...(GsImpl)> {name}{{GsImpl::{c}...}}`'))
            return
        m = re.fullmatch(r'static constexpr auto (\w+) = smooth :: utils :: array_psum \( (\w+) \) ;', s)
        if m:
            name, arg = m.groups()
            if arg not in self.arrays:
                raise TrErr(f'{BUNDLE_H}: `{name}`: array_psum of the undeclared array `{arg}`')
            self.arrays[name] = name
            self.consts.append((name, '(Gs : List (LieModel α)) : List Nat', f'array_psum ({self.arrays[arg]} Gs)',
                                f'`{name} = smooth::utils::array_psum({arg})`'))
            return
        m = re.fullmatch(r'static constexpr auto (\w+) = (\w+) \. back \( \) ;', s)
        if m:
            name, arg = m.groups()
            if arg not in self.arrays:
                raise TrErr(f'{BUNDLE_H}: `{name}`: back() of the undeclared array `{arg}`')
            self.scalars[name] = name
            self.consts.append((name, '(Gs : List (LieModel α)) : Nat', f'back ({self.arrays[arg]} Gs)', f'`{name} = {arg}.back()`'))
            return
        m = re.fullmatch(r'static constexpr auto (\w+) = sizeof \.\.\. \( GsImpl \) ;', s)
        if m:
            self.scalars[m.group(1)] = m.group(1)
            self.consts.append((m.group(1), '(Gs : List (LieModel α)) : Nat', 'sizeofPack Gs', f'`{m.group(1)} = sizeof...(GsImpl)`'))
            return
        m = re.fullmatch(r'static constexpr bool (\w+) = \( GsImpl :: IsCommutative && \.\.\. \) ;', s)
        if m:
            self.scalars[m.group(1)] = m.group(1)
            self.consts.append((m.group(1), '(Gs : List (LieModel α)) : Bool', 'foldAnd (Gs.map (fun G => G.comm))',
                                f'`{m.group(1)} = (GsImpl::IsCommutative && ...)`'))
            return
        raise TrErr(f'{BUNDLE_H}: unsupported constant declaration in BundleImpl: `{s}`')

    # ---------------------------------------------------------------- functions
    def function(self, mem):
        name = mem[2]
        where = f'{BUNDLE_H}: BundleImpl::{name}'
        if mem[3] != '(':
            raise TrErr(where + ': malformed function head')
        pe = match_close(mem, 3)
        params = []
        for p in split_top(mem[4:pe]):
            if len(p) != 2 or p[0] not in self.refs:
                raise TrErr(f'{where}: unsupported parameter `{" ".join(p)}` (expected one of the Ref aliases {sorted(self.refs)})')
            params.append((p[1], self.refs[p[0]], p[0]))
        outs = [p for p in params if p[1][3]]
        if len(outs) != 1 or params[-1] is not outs[0]:
            raise TrErr(f'{where}: expected exactly one writable Ref parameter, in last position')
        if mem[pe + 1] != '{':
            raise TrErr(where + ': unsupported function qualifiers: ' + show(mem[pe + 1:], 8))
        body = mem[pe + 2:-1]
        out = outs[0]
        ins = params[:-1]
        ty = {'v': 'VBuf α', 'm': 'MBuf α'}
        sts = statements(body, where)
        pre, loop = [], None
        for st in sts:
            if loop is not None:
                raise TrErr(f'{where}: statement after the static_for loop: `{show(st, 20)}`')
            s = ' '.join(st)
            m = re.fullmatch(r'(\w+) \. setZero \( \) ;', s)
            if m:
                if m.group(1) != out[0]:
                    raise TrErr(f'{where}: setZero() on `{m.group(1)}`, which is not the output parameter')
                if pre:
                    raise TrErr(f'{where}: more than one statement before the loop')
                k, rows, cols, _ = out[1]
                r = static_expr(rows, self.env(), where)
                c = static_expr(cols, self.env(), where)
                pre.append(f'  let {out[0]} := ' + (f'setZeroV {lean_paren(r)} {out[0]}' if k == 'v'
                                                   else f'setZeroM {lean_paren(r)} {lean_paren(c)} {out[0]}'))
                continue
            hd = tokenize('smooth :: utils :: static_for < sizeof ... ( GsImpl ) > ( [ & ] ( auto')
            if st[:len(hd)] == hd and st[-3:] == ['}', ')', ';']:
                var = st[len(hd)]
                if st[len(hd) + 1:len(hd) + 3] != [')', '{']:
                    raise TrErr(f'{where}: unsupported lambda head in static_for: ' + show(st, 30))
                loop = (var, st[len(hd) + 3:-3])
                continue
            raise TrErr(f'{where}: unsupported statement `{show(st, 30)}`')
        if loop is None:
            raise TrErr(f'{where}: no static_for loop over the parts')
        var, lbody = loop
        env = self.env({var: var})
        blk = Block(self, where, env, out, {p[0]: p[1] for p in ins}, var)
        lines = blk.block(statements(lbody, where), '  ')
        pdecl = ''.join(f' ({p[0]} : {ty[p[1][0]]})' for p in ins)
        pargs = ''.join(f' {p[0]}' for p in ins)
        L = [f'/-- the body of the `static_for` loop of `BundleImpl::{name}` -/',
             f'def {name}_body (Gs : List (LieModel α)) ({var} : Nat){pdecl} ({out[0]} : {ty[out[1][0]]}) : {ty[out[1][0]]} :=']
        L += lines + [f'  {out[0]}', '']
        L += [f'/-- `BundleImpl::{name}({", ".join(p[2] + " " + p[0] for p in params)})` -/',
              f'def {name} (Gs : List (LieModel α)){pdecl} ({out[0]} : {ty[out[1][0]]}) : {ty[out[1][0]]} :=']
        L += pre
        L += [f'  let {out[0]} := staticFor (sizeofPack Gs) (fun {var} {out[0]} => {name}_body Gs {var}{pargs} {out[0]}) {out[0]}',
              f'  {out[0]}']
        self.funcs.append((name, L))


def statements(toks, where):
    """split a compound statement's token list into statements (`if`/`for` with their blocks are one statement)"""
    res, i = [], 0
    while i < len(toks):
        t = toks[i]
        if t in ('if', 'for', 'while', 'switch', 'do'):
            j = i + 1
            if toks[j] == 'constexpr':
                j += 1
            if toks[j] != '(':
                raise TrErr(f'{where}: malformed `{t}` statement: ' + show(toks[i:], 12))
            j = match_close(toks, j) + 1
            if j >= len(toks) or toks[j] != '{':
                raise TrErr(f'{where}: `{t}` without a braced block: ' + show(toks[i:], 16))
            j = match_close(toks, j) + 1
            while t == 'if' and j < len(toks) and toks[j] == 'else':
                j += 1
                if toks[j] == 'if':
                    j += 1
                    if toks[j] == 'constexpr':
                        j += 1
                    j = match_close(toks, j) + 1
                if toks[j] != '{':
                    raise TrErr(f'{where}: `else` without a braced block: ' + show(toks[i:], 16))
                j = match_close(toks, j) + 1
            res.append(toks[i:j])
            i = j
            continue
        j = i
        while j < len(toks) and toks[j] != ';':
            if toks[j] in OPEN:
                j = match_close(toks, j)
            j += 1
        if j >= len(toks):
            raise TrErr(f'{where}: statement without terminating `;`: ' + show(toks[i:], 16))
        res.append(toks[i:j + 1])
        i = j + 1
    return res


class Block:
    """statements of a static_for lambda body of BundleImpl"""

    def __init__(self, tr, where, env, out, ins, var):
        self.tr, self.where, self.out, self.ins, self.var = tr, where, out, ins, var
        self.env = dict(env)
        self.temps = {}          # name -> (rows, cols) lean terms

    def block(self, sts, ind):
        L = []
        for st in sts:
            L += self.stmt(st, ind)
        return L

    def cond(self, toks):
        return BoolExpr(toks, self.env, self.tr.flags, self.where).parse() + ' = true' 

    def stmt(self, st, ind):
        o = self.out[0]
        s = ' '.join(st)
        if st[0] == 'if':
            if st[1] != 'constexpr':
                raise TrErr(f'{self.where}: run-time `if` in the loop body is not supported: `{show(st, 24)}`')
            ce = match_close(st, 2)
            c = self.cond(st[3:ce])
            be = match_close(st, ce + 1)
            saved = (dict(self.env), dict(self.temps))
            then = self.block(statements(st[ce + 2:be], self.where), ind + '    ')
            self.env, self.temps = dict(saved[0]), dict(saved[1])
            rest = st[be + 1:]
            els = []
            if rest:
                if rest[0] != 'else' or rest[1] != '{' or match_close(rest, 1) != len(rest) - 1:
                    raise TrErr(f'{self.where}: unsupported else-branch: `{show(rest, 16)}`')
                els = self.block(statements(rest[2:-1], self.where), ind + '    ')
                self.env, self.temps = dict(saved[0]), dict(saved[1])
            return ([f'{ind}let {o} :=', f'{ind}  if {c} then'] + then + [f'{ind}    {o}', f'{ind}  else'] + els
                    + [f'{ind}    {o}'])
        if st[0] == 'for':
            m = re.fullmatch(r'for \( auto (\w+) = 0 ; \1 < (.+?) ; \+\+ \1 \) \{ (.*) \}', s)
            if not m:
                raise TrErr(f'{self.where}: unsupported loop head (expected `for (auto j = 0u; j < N; ++j)`): `{show(st, 20)}`')
            j, bound, _ = m.groups()
            b = static_expr(bound.split(), self.env, self.where)
            saved = (dict(self.env), dict(self.temps))
            self.env[j] = j
            he = match_close(st, 1)
            body = self.block(statements(st[he + 2:-1], self.where), ind + '  ')
            self.env, self.temps = saved
            return [f'{ind}let {o} := forRange {lean_paren(b)} (fun {j} {o} =>'] + body + [f'{ind}  {o}) {o}']
        if st[0] in ('while', 'do', 'switch', 'return', 'break', 'continue', 'goto'):
            raise TrErr(f'{self.where}: unsupported statement `{show(st, 16)}`')
        # static constexpr auto Bi = get<i>(DofsPsum);
        m = re.fullmatch(r'static constexpr auto (\w+) = (.+) ;', s)
        if m:
            e = static_expr(m.group(2).split(), self.env, self.where)
            self.env[m.group(1)] = m.group(1)
            return [f'{ind}let {m.group(1)} := {e}']
        # Eigen::Matrix<Scalar, R, C> Hi;
        m = re.fullmatch(r'Eigen :: Matrix < Scalar , (.+?) , (.+?) > (\w+) ;', s)
        if m:
            r = static_expr(m.group(1).split(), self.env, self.where)
            c = static_expr(m.group(2).split(), self.env, self.where)
            self.temps[m.group(3)] = (r, c)
            return [f'{ind}let {m.group(3)} : MBuf α := newMat']
        # PartImpl<i>::f(args);
        if st[:5] == ['PartImpl', '<', self.var, '>', '::'] and st[6] == '(' and match_close(st, 6) == len(st) - 2:
            f = st[5]
            if f not in IMPL_SIG:
                raise TrErr(f'{self.where}: call of the unknown part function `PartImpl<{self.var}>::{f}`')
            kin, kout = IMPL_SIG[f]
            args = split_top(st[7:-2])
            if len(args) != len(kin) + 1:
                raise TrErr(f'{self.where}: `PartImpl<{self.var}>::{f}` called with {len(args)} arguments, expected {len(kin) + 1}')
            a = [self.rvalue(x, k, as_arg=True) for x, k in zip(args[:-1], kin)]
            val = f'(PartImpl Gs {self.var}).{IMPL_FIELD.get(f, f)}' + ''.join(' ' + lean_paren(x) for x in a)
            src = f'(ofVec {lean_paren(val)})' if kout == 'v' else f'(ofMat {lean_paren(val)})'
            return self.assign(args[-1], kout, src, ind)
        # lvalue.setIdentity();
        if st[-5:] == ['.', 'setIdentity', '(', ')', ';']:
            return self.assign(st[:-5], 'm', 'identBuf', ind)
        # lvalue = rvalue;
        parts = split_top(st[:-1], '=')
        if len(parts) == 2:
            kind = self.kind_of(parts[0])
            return self.assign(parts[0], kind, self.rvalue(parts[1], kind), ind)
        raise TrErr(f'{self.where}: unsupported statement `{show(st, 30)}`')

    # ------------------------------------------------------------ locations
    def loc(self, toks):
        """-> (object name, method, template args (lean), call args (lean)) | (object name, None, [], [])"""
        if len(toks) == 1:
            return toks[0], None, [], []
        m = toks[1:]
        if m[0] != '.':
            raise TrErr(f'{self.where}: unsupported operand `{" ".join(toks)}`')
        m = m[1:]
        if m and m[0] == 'template':
            m = m[1:]
        if len(m) < 2 or m[0] not in ('segment', 'block', 'middleCols') or m[1] != '<':
            raise TrErr(f'{self.where}: unsupported operand `{" ".join(toks)}` (expected segment<N>(o), block<R, C>(r, c) or middleCols<N>(c))')
        ae = match_angle(m, 1)
        targs = [static_expr(x, self.env, self.where) for x in split_top(m[2:ae])]
        if m[ae + 1] != '(' or match_close(m, ae + 1) != len(m) - 1:
            raise TrErr(f'{self.where}: unsupported operand `{" ".join(toks)}`')
        cargs = [static_expr(x, self.env, self.where) for x in split_top(m[ae + 2:-1])]
        want = {'segment': (1, 1), 'block': (2, 2), 'middleCols': (1, 1)}[m[0]]
        if (len(targs), len(cargs)) != want:
            raise TrErr(f'{self.where}: `{m[0]}` with {len(targs)} template and {len(cargs)} call arguments in `{" ".join(toks)}`')
        return toks[0], m[0], targs, cargs

    def kind_of(self, toks):
        name = toks[0]
        if name == self.out[0]:
            return self.out[1][0]
        if name in self.ins:
            return self.ins[name][0]
        if name in self.temps:
            return 'm'
        raise TrErr(f'{self.where}: unknown object `{name}` in `{" ".join(toks)}`')

    def rvalue(self, toks, kind, as_arg=False):
        name, meth, ta, ca = self.loc(toks)
        if name == self.out[0]:
            raise TrErr(f'{self.where}: the output parameter `{name}` is read in `{" ".join(toks)}`')
        if name not in self.ins and name not in self.temps:
            raise TrErr(f'{self.where}: unknown object `{name}` in `{" ".join(toks)}`')
        k = self.ins[name][0] if name in self.ins else 'm'
        P = lean_paren
        if meth == 'segment' and k == 'v' and kind == 'v':
            v = f'viewSegment {name} {P(ta[0])} {P(ca[0])}'
            return f'asVec ({v})' if as_arg else f'({v})'
        if meth == 'block' and k == 'm' and kind == 'm':
            v = f'viewBlock {name} {P(ta[0])} {P(ta[1])} {P(ca[0])} {P(ca[1])}'
            return f'asMat ({v})' if as_arg else f'({v})'
        if meth == 'middleCols' and name in self.temps and kind == 'm':
            v = f'viewBlock {name} {P(self.temps[name][0])} {P(ta[0])} 0 {P(ca[0])}'
            return f'asMat ({v})' if as_arg else f'({v})'
        raise TrErr(f'{self.where}: unsupported operand `{" ".join(toks)}` for a {"vector" if kind == "v" else "matrix"} argument')

    def assign(self, toks, kind, src, ind):
        name, meth, ta, ca = self.loc(toks)
        P = lean_paren
        if name in self.temps:
            if meth is not None or kind != 'm':
                raise TrErr(f'{self.where}: unsupported write to the temporary `{" ".join(toks)}`')
            r, c = self.temps[name]
            return [f'{ind}let {name} := copyBlock {name} {P(r)} {P(c)} 0 0 {src}']
        if name != self.out[0]:
            raise TrErr(f'{self.where}: write to `{name}`, which is neither the output parameter nor a local temporary: `{" ".join(toks)}`')
        k = self.out[1][0]
        if meth == 'segment' and k == 'v' and kind == 'v':
            return [f'{ind}let {name} := copySegment {name} {P(ta[0])} {P(ca[0])}', f'{ind}  {src}']
        if meth == 'block' and k == 'm' and kind == 'm':
            return [f'{ind}let {name} := copyBlock {name} {P(ta[0])} {P(ta[1])} {P(ca[0])} {P(ca[1])}', f'{ind}  {src}']
        raise TrErr(f'{self.where}: unsupported output location `{" ".join(toks)}`')


def gen_bundle_impl(repo):
    tr = BundleImplTr(repo)
    check_static_for(tr.utoks)
    psum = gen_array_psum(tr.utoks)
    tr.run()
    L = ['/- GENERATED by tools/gen_bundle.py from the C++ source of pettni/smooth: include/smooth/detail/bundle.hpp',
         '   (struct BundleImpl), `array_psum` / `static_for` of detail/utils.hpp, SMOOTH_DEFINE_REFS of detail/common.hpp.',
         '   Do not edit: regenerated from the repository on every check run.  Meaning of the constructs: SmoothModel/BundleSem.lean.',
         '   Tie theorems: SmoothProps/SrcTieBundle.lean. -/',
         'import SmoothModel.BundleSem',
         'set_option linter.unusedVariables false',
         'open Scalar Lin BundleSem',
         'namespace BundleSrc',
         'variable {α : Type} [Scalar α]',
         '', '/-! ### include/smooth/detail/utils.hpp -/', '']
    L += psum + ['']
    L += ['/-! ### include/smooth/detail/bundle.hpp: layout constants of `BundleImpl<GsImpl...>` (`Gs` = the parameter pack) -/', '']
    for name, ty, body, doc in tr.consts:
        L += [f'/-- {doc} -/', f'def {name} {ty} := {body}', '']
    L += ['/-- the `Ref` aliases of SMOOTH_DEFINE_REFS (detail/common.hpp): name, rows, columns, writable -/',
          'def refAliases : List (String × String × String × Bool) :=',
          '  [' + ',\n   '.join(f'("{n}", "{" ".join(r)}", "{" ".join(c)}", {"true" if w else "false"})'
                               for n, (k, r, c, w) in tr.refs.items()) + ']', '']
    L += ['/-! ### the static functions of `BundleImpl` -/', '']
    for name, lines in tr.funcs:
        L += lines + ['']
    L += ['/-- the functions of BundleImpl translated above, in source order -/',
          'def manifest : List String := [' + ', '.join(f'"{n}"' for n, _ in tr.funcs) + ']',
          '/-- members of BundleImpl that are pinned textually instead (no value-level model) -/',
          'def notTranslated : List String := [' + ', '.join(f'"{n}"' for n in tr.not_translated) + ']',
          '', 'end BundleSrc', '']
    return '\n'.join(L)


# =============================================================================== B. bundle.hpp (public class)
BUNDLEPUB_H = 'include/smooth/bundle.hpp'

PUB_TOP_PINS = {
    'liebase_info<Eigen vector>':
        'template < int _N , typename _Scalar > struct liebase_info < Eigen :: Matrix < _Scalar , _N , 1 > > { using Impl = TnImpl < _N , '
        '_Scalar > ; using Scalar = _Scalar ; template < typename NewScalar > using PlainObject = Eigen :: Matrix < NewScalar , _N , 1 > ; } ;',
    'concept LieImplemented':
        'template < typename T > concept LieImplemented = requires { typename liebase_info < T > :: Scalar ; typename liebase_info < T > '
        ':: Impl ; } ;',
    'class Bundle (declaration)': 'template < LieImplemented ... _Gs > class Bundle ;',
    'liebase_info<Map<Bundle>>':
        'template < LieImplemented ... _Gs > struct liebase_info < Map < Bundle < _Gs ... > > > : public liebase_info < Bundle < _Gs ... > > '
        '{ } ;',
    'Map<Bundle>':
        'template < LieImplemented ... _Gs > class Map < Bundle < _Gs ... > > : public BundleBase < Map < Bundle < _Gs ... > > > { using '
        'Base = BundleBase < Map < Bundle < _Gs ... > > > ; SMOOTH_MAP_API ( ) ; } ;',
    'liebase_info<Map<const Bundle>>':
        'template < LieImplemented ... _Gs > struct liebase_info < Map < const Bundle < _Gs ... > > > : public liebase_info < Bundle < '
        '_Gs ... > > { static constexpr bool is_mutable = false ; } ;',
    'Map<const Bundle>':
        'template < LieImplemented ... _Gs > class Map < const Bundle < _Gs ... > > : public BundleBase < Map < const Bundle < _Gs ... '
        '> > > { using Base = BundleBase < Map < const Bundle < _Gs ... > > > ; SMOOTH_CONST_MAP_API ( ) ; } ;',
}
BASE_PINS = {
    'using Base': 'using Base = LieGroupBase < _Derived > ;',
    'using Impl': 'using Impl = typename liebase_info < _Derived > :: Impl ;',
    'protected': 'protected :',
    'default constructor': 'BundleBase ( ) = default ;',
    'public': 'public :',
    'SMOOTH_INHERIT_TYPEDEFS': 'SMOOTH_INHERIT_TYPEDEFS ;',
}
INFO_PINS = {
    'is_mutable': 'static constexpr bool is_mutable = true ;',
    # the pack of implementation classes handed to BundleImpl is the pack of the parts' Impl classes, in order:
    # `Gs` of BundlePubSrc IS `Gs` of BundleSrc
    'using Impl': 'using Impl = BundleImpl < typename liebase_info < _Gs > :: Impl ... > ;',
    'using Scalar': 'using Scalar = std :: common_type_t < typename liebase_info < _Gs > :: Scalar ... > ;',
    'static_assert Scalar': 'static_assert ( ( std :: is_same_v < Scalar , typename liebase_info < _Gs > :: Scalar > && ... ) , '
                            '"Scalar types must be identical" ) ;',
    'PlainObject': 'template < typename NewScalar > using PlainObject = Bundle < typename liebase_info < _Gs > :: template PlainObject < '
                   'NewScalar > ... > ;',
}
CLASS_PINS = {
    'using Base': 'using Base = BundleBase < Bundle < _Gs ... > > ;',
    'SMOOTH_GROUP_API': 'SMOOTH_GROUP_API ( Bundle ) ;',
    'public': 'public :',
}
CTOR_HEAD = 'template < typename ... S > requires ( std :: is_assignable_v < _Gs , S > && ... ) explicit Bundle ( S && ... gs )'


def pin_set(items, pins, where):
    """every item equal to a pin is consumed; -> remaining items; missing pins are a hard error"""
    rest, seen = [], set()
    for it in items:
        s = ' '.join(it)
        hit = [n for n, p in pins.items() if p == s]
        if hit:
            if hit[0] in seen and s not in ('public :', 'private :', 'protected :'):
                raise TrErr(f'{where}: pinned item `{hit[0]}` occurs twice')
            seen.add(hit[0])
        else:
            rest.append(it)
    missing = [n for n in pins if n not in seen]
    if missing:
        raise TrErr(f'{where}: pinned item(s) missing or changed in the current source: ' + ', '.join(missing)
                    + ('\n   unmatched text: ' + ' | '.join(show(r, 30) for r in rest) if rest else ''))
    return rest


def gen_bundle_pub(repo):
    src = drop_pp(strip_comments(read_src(repo, BUNDLEPUB_H)), pragma_guards=('__clang__',))
    t = tokenize(src)
    if t[:1] != ['SMOOTH_BEGIN_NAMESPACE'] or t[-1:] != ['SMOOTH_END_NAMESPACE']:
        raise TrErr(BUNDLEPUB_H + ': not enclosed in SMOOTH_BEGIN_NAMESPACE … SMOOTH_END_NAMESPACE')
    tops = pin_set(members(t[1:-1]), PUB_TOP_PINS, BUNDLEPUB_H)
    by_head = {}
    heads = {
        'BundleBase': tokenize('template < typename _Derived > class BundleBase : public LieGroupBase < _Derived > {'),
        'liebase_info': tokenize('template < LieImplemented ... _Gs > struct liebase_info < Bundle < _Gs ... > > {'),
        'Bundle': tokenize('template < LieImplemented ... _Gs > class Bundle : public BundleBase < Bundle < _Gs ... > > {'),
    }
    for it in tops:
        for name, hd in heads.items():
            if it[:len(hd)] == hd and it[-2:] == ['}', ';']:
                if name in by_head:
                    raise TrErr(f'{BUNDLEPUB_H}: `{name}` defined twice')
                by_head[name] = it[len(hd):-2]
                break
        else:
            raise TrErr(f'{BUNDLEPUB_H}: unsupported top-level declaration (neither translated nor pinned): `{show(it, 40)}`')
    for name in heads:
        if name not in by_head:
            raise TrErr(f'{BUNDLEPUB_H}: definition of `{name}` not found (or its head changed)')

    arrays = {k: f'(BundleSrc.{k} Gs)' for k in ('RepSizes', 'Dofs', 'Dims', 'RepSizesPsum', 'DofsPsum', 'DimsPsum')}
    impl_consts = {'BundleSize', 'RepSize', 'Dof', 'Dim'}
    defs, tvars = [], {}
    parts = {}

    # ---- liebase_info<Bundle<_Gs...>>
    for it in pin_set(members(by_head['liebase_info']), INFO_PINS, BUNDLEPUB_H + ': liebase_info<Bundle<_Gs...>>'):
        s = ' '.join(it)
        m = re.fullmatch(r'template < std :: size_t (\w+) > using PartPlainObject = typename liebase_info < std :: tuple_element_t < \1 , '
                         r'std :: tuple < _Gs \.\.\. > > > :: template PlainObject < Scalar > ;', s)
        if not m:
            raise TrErr(f'{BUNDLEPUB_H}: liebase_info<Bundle<_Gs...>>: unsupported member `{show(it, 40)}`')
        defs.append(('PartPlainObject', f'(Gs : List (LieModel α)) ({m.group(1)} : Nat) : LieModel α', f'tupleElement {m.group(1)} Gs',
                     '`liebase_info<Bundle<_Gs...>>::PartPlainObject<Idx>`: the PlainObject (same Scalar) of element Idx of the pack'))
    if not defs:
        raise TrErr(f'{BUNDLEPUB_H}: liebase_info<Bundle<_Gs...>>::PartPlainObject not found')

    # ---- BundleBase
    for it in pin_set(members(by_head['BundleBase']), BASE_PINS, BUNDLEPUB_H + ': class BundleBase'):
        s = ' '.join(it)
        where = f'{BUNDLEPUB_H}: BundleBase'
        env = {'#arrays': arrays, '#tvars': dict(tvars)}
        m = re.fullmatch(r'static constexpr auto (\w+) = Impl :: (\w+) ;', s)
        if m:
            if m.group(2) not in impl_consts:
                raise TrErr(f'{where}::{m.group(1)}: unknown constant Impl::{m.group(2)}')
            defs.append((m.group(1), '(Gs : List (LieModel α)) : Nat', f'BundleSrc.{m.group(2)} Gs', f'`{m.group(1)} = Impl::{m.group(2)}`'))
            continue
        m = re.fullmatch(r'template < std :: size_t (\w+) > using PartType = typename liebase_info < _Derived > :: template PartPlainObject '
                         r'< \1 > ;', s)
        if m:
            defs.append(('PartType', f'(Gs : List (LieModel α)) ({m.group(1)} : Nat) : LieModel α', f'PartPlainObject Gs {m.group(1)}',
                         '`PartType<Idx> = liebase_info<_Derived>::PartPlainObject<Idx>`'))
            continue
        m = re.fullmatch(r'template < std :: size_t (\w+) > static constexpr auto (\w+) = (.+) ;', s)
        if m:
            idx, name, ex = m.groups()
            env[idx] = idx
            e = static_expr(ex.split(), env, f'{where}::{name}')
            tvars[name] = f'{name} Gs'
            defs.append((name, f'(Gs : List (LieModel α)) ({idx} : Nat) : Nat', e, f'`template<std::size_t {idx}> {name} = {ex}`'))
            continue
        # part<Idx>()
        m = re.fullmatch(r'template < std :: size_t (\w+) > MapDispatch < (const )?PartType < \1 > > part \( \) (requires is_mutable |const )'
                         r'\{ return MapDispatch < (const )?PartType < \1 > > \( (.+) \) ; \}', s)
        if m:
            idx, c1, qual, c2, ptr = m.groups()
            kind = 'mut' if qual.startswith('requires') else 'const'
            if (kind == 'mut') != (c1 is None) or c1 != c2:
                raise TrErr(f'{where}::part: const-ness of the returned Map does not match the overload: `{s}`')
            if kind in parts:
                raise TrErr(f'{where}::part: two {kind} overloads')
            data = ('static_cast < _Derived & > ( * this ) . data ( ) +' if kind == 'mut'
                    else 'static_cast < const _Derived & > ( * this ) . data ( ) +')
            if not ptr.startswith(data + ' '):
                raise TrErr(f'{where}::part ({kind}): the pointer is not `data() + <offset>`: `{ptr}`')
            env[idx] = idx
            off = static_expr(ptr[len(data) + 1:].split(), env, f'{where}::part ({kind})')
            parts[kind] = (idx, off)
            continue
        raise TrErr(f'{where}: unsupported member (neither translated nor pinned): `{show(it, 40)}`')
    for kind in ('mut', 'const'):
        if kind not in parts:
            raise TrErr(f'{BUNDLEPUB_H}: BundleBase::part ({kind} overload) not found')
    if not any(d[0] == 'PartType' for d in defs):
        raise TrErr(f'{BUNDLEPUB_H}: BundleBase::PartType not found')

    # ---- class Bundle: constructor from parts
    ctor = None
    for it in pin_set(members(by_head['Bundle']), CLASS_PINS, BUNDLEPUB_H + ': class Bundle'):
        hd = tokenize(CTOR_HEAD)
        if it[:len(hd)] == hd and it[len(hd)] == '{' and it[-1] == '}':
            sts = statements(it[len(hd) + 1:-1], BUNDLEPUB_H + ': Bundle::Bundle(S &&... gs)')
            exp = ['const auto tpl = std :: forward_as_tuple ( gs ... ) ;',
                   'utils :: static_for < sizeof ... ( _Gs ) > ( [ this , & tpl ] ( auto i ) { Base :: template part < i > ( ) = std :: get < i > ( tpl ) ; } ) ;']
            got = [' '.join(x) for x in sts]
            if len(got) != 2 or got[0] != exp[0]:
                raise TrErr(f'{BUNDLEPUB_H}: Bundle::Bundle(S &&... gs): unsupported body: ' + ' | '.join(got))
            m = re.fullmatch(r'utils :: static_for < sizeof \.\.\. \( _Gs \) > \( \[ this , & tpl \] \( auto (\w+) \) \{ Base :: template part < (.+?) > '
                             r'\( \) = std :: get < (.+?) > \( tpl \) ; \} \) ;', got[1])
            if not m:
                raise TrErr(f'{BUNDLEPUB_H}: Bundle::Bundle(S &&... gs): unsupported loop: ' + got[1])
            v, a, b = m.groups()
            env = {v: v, '#arrays': arrays, '#tvars': tvars}
            ctor = (v, static_expr(a.split(), env, 'Bundle::Bundle'), static_expr(b.split(), env, 'Bundle::Bundle'))
            continue
        raise TrErr(f'{BUNDLEPUB_H}: class Bundle: unsupported member (neither translated nor pinned): `{show(it, 40)}`')
    if ctor is None:
        raise TrErr(f'{BUNDLEPUB_H}: the constructor of Bundle from parts was not found')

    L = ['/- GENERATED by tools/gen_bundle.py from the C++ source of pettni/smooth: include/smooth/bundle.hpp (class BundleBase, the',
         '   liebase_info specialisations, the constructor of Bundle from parts).  Do not edit: regenerated on every check run.',
         '   Meaning of the constructs: SmoothModel/BundleSem.lean.  Tie theorems: SmoothProps/SrcTieBundlePub.lean. -/',
         'import SmoothModel.Gen.BundleSrc',
         'set_option linter.unusedVariables false',
         'open Scalar Lin BundleSem',
         'namespace BundlePubSrc',
         'variable {α : Type} [Scalar α]', '']
    for name, ty, body, doc in defs:
        L += [f'/-- {doc} -/', f'def {name} {ty} := {body}', '']
    for kind, cxx in (('mut', 'MapDispatch<PartType<Idx>> part() requires is_mutable'), ('const', 'MapDispatch<const PartType<Idx>> part() const')):
        idx, off = parts[kind]
        L += [f'/-- `{cxx}`: a Map of the part type at `data() + {off}` -/',
              f'def part_{kind} (Gs : List (LieModel α)) ({idx} : Nat) : PartView α :=',
              f'  mapDispatch (PartType Gs {idx}) ({off}) {"true" if kind == "mut" else "false"}', '']
    v, a, b = ctor
    L += ['/-- `explicit Bundle(S &&... gs)`: `static_for<sizeof...(_Gs)>([this, &tpl](auto i) { Base::template part<i>() = std::get<i>(tpl); })` -/',
          'def ctor (Gs : List (LieModel α)) (gs : Nat → VBuf α) (self : VBuf α) : VBuf α :=',
          f'  staticFor (sizeofPack Gs) (fun {v} self => assignView self (part_mut Gs {lean_paren(a)}) (gs {lean_paren(b)})) self', '',
          'end BundlePubSrc', '']
    return '\n'.join(L)


# =============================================================================== expressions (parts C and D)
TEMPLATE_NAMES = {'lie', 'man', 'Matrix', 'Vector', 'VectorX', 'static_cast', 'get', 'cast', 'segment', 'tuple_element_t', 'tuple',
                  'vector', 'CastT', 'SubManifold', 'dof', 'make_unique', 'wrapper', 'unique_ptr', 'Tangent', 'variant',
                  'common_type_t', 'abs', 'uniform_real_distribution', 'Ref', 'Default', 'rplus', 'rminus', 'decay_t', 'Scalar',
                  'PlainObject', 'TangentMap', 'Hessian', 'Dof'}
# names that are followed by `<` as a COMPARISON in the sources at hand (variables / constants)
BINOPS = [('||',), ('&&',), ('==', '!='), ('<', '>', '<=', '>='), ('+', '-'), ('*', '/', '%')]


class ExParser:
    """C++ expression -> AST (tuples).  Nodes:
         ('num', text) ('str', text)
         ('name', [(ident, targs | None), …])            qualified id; targs = list of token lists
         ('call', f, [args]) ('brace', f, [args]) ('member', obj, ident, targs | None) ('index', obj, [args])
         ('un', op, e) ('post', op, e) ('bin', op, a, b) ('tern', c, a, b) ('lambda', captures, params, body tokens, ret tokens | None)"""

    def __init__(self, toks, where):
        self.t, self.i, self.where = list(toks), 0, where

    def peek(self, k=0):
        return self.t[self.i + k] if self.i + k < len(self.t) else None

    def fail(self, msg):
        raise TrErr(f'{self.where}: {msg} in expression `{show(self.t, 40)}` (at `{show(self.t[self.i:], 6)}`)')

    def eat(self, x):
        if self.peek() != x:
            self.fail(f'expected `{x}`')
        self.i += 1

    def parse(self):
        e = self.ternary()
        if self.i != len(self.t):
            self.fail('unsupported trailing tokens')
        return e

    def ternary(self):
        c = self.binary(0)
        if self.peek() == '?':
            self.i += 1
            a = self.ternary()
            self.eat(':')
            b = self.ternary()
            return ('tern', c, a, b)
        return c

    def binary(self, lvl):
        if lvl == len(BINOPS):
            return self.unary()
        e = self.binary(lvl + 1)
        while self.peek() in BINOPS[lvl]:
            op = self.peek()
            self.i += 1
            r = self.binary(lvl + 1)
            e = ('bin', op, e, r)
        return e

    def unary(self):
        t = self.peek()
        if t in ('-', '!', '++', '--', '*', '&'):
            self.i += 1
            return ('un', t, self.unary())
        return self.postfix()

    def args(self, close):
        res = []
        if self.peek() == close:
            self.i += 1
            return res
        while True:
            res.append(self.ternary())
            if self.peek() == ',':
                self.i += 1
                continue
            self.eat(close)
            return res

    def targs(self):
        """self.peek() == '<' known to open a template argument list -> list of token lists"""
        e = match_angle(self.t, self.i)
        parts = split_top(self.t[self.i + 1:e])
        self.i = e + 1
        return parts

    def postfix(self):
        e = self.primary()
        while True:
            t = self.peek()
            if t == '(':
                self.i += 1
                e = ('call', e, self.args(')'))
            elif t == '{' and e[0] == 'name':
                self.i += 1
                e = ('brace', e, self.args('}'))
            elif t == '[':
                self.i += 1
                e = ('index', e, self.args(']'))
            elif t in ('.', '->'):
                self.i += 1
                tmpl = False
                if self.peek() == 'template':
                    self.i += 1
                    tmpl = True
                name = self.peek()
                if name is None or not re.fullmatch(r'[A-Za-z_]\w*', name):
                    self.fail('member name expected')
                self.i += 1
                ta = None
                if self.peek() == '<' and (tmpl or name in TEMPLATE_NAMES):
                    ta = self.targs()
                e = ('member', e, name, ta)
            elif t in ('++', '--'):
                self.i += 1
                e = ('post', t, e)
            else:
                return e

    def primary(self):
        t = self.peek()
        if t is None:
            self.fail('truncated expression')
        if t == '(':
            self.i += 1
            e = self.ternary()
            self.eat(')')
            return e
        if t == '[':                       # lambda
            ce = match_close(self.t, self.i)
            caps = self.t[self.i + 1:ce]
            self.i = ce + 1
            tparams = None
            if self.peek() == '<':
                e = match_angle(self.t, self.i)
                tparams = self.t[self.i + 1:e]
                self.i = e + 1
            if self.peek() != '(':
                self.fail('lambda without parameter list')
            pe = match_close(self.t, self.i)
            params = self.t[self.i + 1:pe]
            self.i = pe + 1
            ret = None
            if self.peek() == '->':
                j = self.i + 1
                while j < len(self.t) and self.t[j] != '{':
                    if self.t[j] == '<':
                        j = match_angle(self.t, j)
                    j += 1
                ret = self.t[self.i + 1:j]
                self.i = j
            if self.peek() != '{':
                self.fail('lambda without body')
            be = match_close(self.t, self.i)
            body = self.t[self.i + 1:be]
            self.i = be + 1
            return ('lambda', caps, tparams, params, body, ret)
        if re.fullmatch(r'\d+(\.\d*)?|\.\d+', t):
            self.i += 1
            return ('num', t)
        if t.startswith('"'):
            self.i += 1
            return ('str', t)
        if t == 'typename':
            self.i += 1
            t = self.peek()
        segs = []
        if t == '::':
            self.i += 1
            t = self.peek()
        while True:
            if t is None or not re.fullmatch(r'[A-Za-z_]\w*', t):
                self.fail('identifier expected')
            self.i += 1
            ta = None
            if self.peek() == '<' and t in TEMPLATE_NAMES:
                ta = self.targs()
            segs.append((t, ta))
            if self.peek() == '::':
                self.i += 1
                if self.peek() == 'template':
                    self.i += 1
                    t = self.peek()
                    self.i += 1
                    ta = self.targs() if self.peek() == '<' else None
                    segs.append((t, ta))
                    if self.peek() == '::':
                        self.i += 1
                        t = self.peek()
                        continue
                    break
                t = self.peek()
                continue
            break
        return ('name', segs)


def parse_expr(toks, where):
    return ExParser(toks, where).parse()


def name_key(e):
    """canonical text of a ('name', …) node: `traits::lie<G>::exp`"""
    return '::'.join(n + ('<' + ','.join(' '.join(a) for a in ta) + '>' if ta is not None else '') for n, ta in e[1])


def ast_text(e):
    k = e[0]
    if k in ('num', 'str'):
        return e[1]
    if k == 'name':
        return name_key(e)
    if k == 'call':
        return ast_text(e[1]) + '(' + ', '.join(ast_text(a) for a in e[2]) + ')'
    if k == 'brace':
        return ast_text(e[1]) + '{' + ', '.join(ast_text(a) for a in e[2]) + '}'
    if k == 'index':
        return ast_text(e[1]) + '[' + ', '.join(ast_text(a) for a in e[2]) + ']'
    if k == 'member':
        return ast_text(e[1]) + '.' + e[2] + ('<' + ','.join(' '.join(a) for a in e[3]) + '>' if e[3] is not None else '')
    if k == 'un':
        return e[1] + ast_text(e[2])
    if k == 'post':
        return ast_text(e[2]) + e[1]
    if k == 'bin':
        return '(' + ast_text(e[2]) + ' ' + e[1] + ' ' + ast_text(e[3]) + ')'
    if k == 'tern':
        return '(' + ast_text(e[1]) + ' ? ' + ast_text(e[2]) + ' : ' + ast_text(e[3]) + ')'
    if k == 'lambda':
        return '[lambda]'
    return str(e)


# =============================================================================== struct member functions
class Fn:
    def __init__(self, name, tparams, ret, params, quals, body, raw):
        self.name, self.tparams, self.ret, self.params, self.quals, self.body, self.raw = name, tparams, ret, params, quals, body, raw


def parse_function(mem):
    """`[template<…>] [static] [inline] [explicit] RET NAME(PARAMS) [const] [override] [requires …] [: inits] { BODY }` -> Fn | None"""
    if mem[-1] != '}':
        return None
    i, tparams = 0, None
    if mem[0] == 'template':
        e = match_angle(mem, 1)
        tparams = mem[2:e]
        i = e + 1
    # find the parameter list: the first `(` at depth 0 that is preceded by an identifier
    j = i
    while j < len(mem):
        if mem[j] == '<':
            try:
                j = match_angle(mem, j)
            except TrErr:
                pass
        elif mem[j] == '(':
            break
        elif mem[j] == '{':
            return None
        j += 1
    if j >= len(mem) or j == i:
        return None
    pe = match_close(mem, j)
    name = mem[j - 1]
    if name in ('requires', 'noexcept', 'static_assert') or not re.fullmatch(r'[A-Za-z_~]\w*|operator\S*', name):
        return None
    ret = [t for t in mem[i:j - 1] if t not in ('static', 'inline', 'explicit', 'virtual', 'constexpr')]
    params = [p for p in split_top(mem[j + 1:pe]) if p]
    k = pe + 1
    while k < len(mem) and mem[k] != '{':
        if mem[k] == '(':
            k = match_close(mem, k)
        elif mem[k] == '<':
            k = match_angle(mem, k)
        k += 1
    if k >= len(mem) or match_close(mem, k) != len(mem) - 1:
        return None
    return Fn(name, tparams, ret, params, mem[pe + 1:k], mem[k + 1:-1], mem)


def param_name(p):
    """name of a parameter (None when unnamed)"""
    q = list(p)
    if '=' in q:
        q = q[:q.index('=')]
    if q and re.fullmatch(r'[A-Za-z_]\w*', q[-1]) and len(q) > 1 and q[-2] not in ('::',) and q[-1] not in ('G', 'Index'):
        return q[-1]
    return None


def find_struct(toks, head_text, what):
    hd = tokenize(head_text)
    k, b, e = find_braced(toks, hd, what)
    return toks[k:b], toks[b + 1:e]


class ExprLower:
    """AST -> Lean by a table of the call forms of one context; everything else is a hard error naming the expression.
       `table(self, e)` returns a Lean string or None."""

    def __init__(self, where, rules):
        self.where, self.rules = where, rules

    def lower(self, e, env):
        for r in self.rules:
            v = r(self, e, env)
            if v is not None:
                return v
        raise TrErr(f'{self.where}: unsupported expression `{ast_text(e)}`')


# =============================================================================== D. lie_groups/{rn,scalar,native}.hpp
RN_H = 'include/smooth/lie_groups/rn.hpp'
SCALAR_H = 'include/smooth/lie_groups/scalar.hpp'
NATIVE_H = 'include/smooth/lie_groups/native.hpp'

LIE_FUNCS = ['Identity', 'Ad', 'composition', 'dof', 'inverse', 'log', 'ad', 'exp', 'dr_exp', 'dr_expinv', 'd2r_exp', 'd2r_expinv']


def is_name(e, *keys):
    return e[0] == 'name' and name_key(e) in keys


def rn_rules():
    def size_of(lw, e, env):
        """`x.size()` / `x.rows()` of a vector variable -> its (symbolic) length"""
        if e[0] == 'call' and not e[2] and e[1][0] == 'member' and e[1][2] in ('size', 'rows') and e[1][1][0] == 'name':
            v = name_key(e[1][1])
            if env.get(v) == 'vec':
                return 'n'
        if e[0] == 'bin' and e[1] == '*':
            a, b = size_of(lw, e[2], env), size_of(lw, e[3], env)
            if a and b:
                return f'{a} * {b}'
        return None

    def rule(lw, e, env):
        k = e[0]
        if k == 'name' and len(e[1]) == 1 and e[1][0][1] is None and env.get(e[1][0][0]) == 'vec':
            return e[1][0][0]
        if k == 'un' and e[1] == '-':
            return f'vneg {lean_paren(lw.lower(e[2], env))}'
        if k == 'bin' and e[1] == '+':
            return f'vadd {lean_paren(lw.lower(e[2], env))} {lean_paren(lw.lower(e[3], env))}'
        if k == 'bin' and e[1] == '-':
            return f'vsub {lean_paren(lw.lower(e[2], env))} {lean_paren(lw.lower(e[3], env))}'
        if k == 'call' and is_name(e[1], 'G::Zero') and len(e[2]) == 1 and name_key(e[2][0]) == env.get('#dofparam'):
            return 'vzero n'
        if k == 'call' and e[1][0] == 'name':
            key = name_key(e[1])
            m = re.fullmatch(r'Eigen::Matrix<Scalar,Dof,(Dof|\( Dof > 0 \? Dof \* Dof : - 1 \))>::(Identity|Zero)', key)
            if m:
                sizes = [size_of(lw, a, env) for a in e[2]]
                if len(sizes) != 2 or None in sizes:
                    raise TrErr(f'{lw.where}: unsupported size arguments in `{ast_text(e)}` (only `x.size()`, `x.rows()` and products of them)')
                want_c = 'n' if m.group(1) == 'Dof' else 'n * n'
                if m.group(2) == 'Identity':
                    if sizes != ['n', 'n'] or m.group(1) != 'Dof':
                        raise TrErr(f'{lw.where}: `{ast_text(e)}` is not a square identity of the size of the argument')
                    return 'ident n'
                if sizes[0] != 'n' or sizes[1] != want_c:
                    raise TrErr(f'{lw.where}: `{ast_text(e)}`: the run-time size does not match the static type')
                return f'mzero n {lean_paren(sizes[1])}'
        v = size_of(lw, e, env)
        if v is not None:
            return v
        return None
    return [rule]


def scalar_rules():
    def rule(lw, e, env):
        k = e[0]
        if k == 'name' and len(e[1]) == 1 and e[1][0][1] is None and env.get(e[1][0][0]) == 'scalar':
            return e[1][0][0]
        if k == 'num' and re.fullmatch(r'\d+', e[1]):
            return e[1] if env.get('#want') == 'nat' else f'nat {e[1]}'
        if k == 'un' and e[1] == '-':
            return f'-{lean_paren(lw.lower(e[2], env))}'
        if k == 'bin' and e[1] in ('+', '-'):
            return f'{lean_paren(lw.lower(e[2], env))} {e[1]} {lean_paren(lw.lower(e[3], env))}'
        if k == 'call' and is_name(e[1], 'G') and len(e[2]) == 1:
            return lw.lower(e[2][0], env)
        if k == 'call' and e[1][0] == 'name' and len(e[1][1]) == 1 and env.get(e[1][1][0][0]) == 'vec1' and len(e[2]) == 1 \
                and e[2][0] == ('num', '0'):
            return f'{e[1][1][0][0]} 0'
        if k == 'brace' and is_name(e[1], 'Eigen::Matrix<Scalar,1,1>') and len(e[2]) == 1:
            return f'mk11 {lean_paren(lw.lower(e[2][0], env))}'
        if k == 'call' and is_name(e[1], 'Eigen::Matrix<Scalar,1,1>::Zero') and not e[2]:
            return 'mzero 1 1'
        if k == 'call' and is_name(e[1], 'Eigen::Matrix<Scalar,1,1>::Identity') and not e[2]:
            return 'ident 1'
        return None
    return [rule]


def native_rules():
    def rule(lw, e, env):
        k = e[0]
        if k == 'name' and len(e[1]) == 1 and e[1][0][1] is None and env.get(e[1][0][0]) in ('grp', 'tan'):
            return e[1][0][0]
        if k == 'call' and e[1][0] == 'member' and e[1][1][0] == 'name' and env.get(name_key(e[1][1])) == 'grp':
            obj, f = name_key(e[1][1]), e[1][2]
            tab = {'Ad': 'Ad', 'inverse': 'inverse', 'log': 'log'}
            if f in tab and not e[2]:
                return f'G.{tab[f]} {obj}'
            if f == 'operator' or f == 'operator*':
                pass
        if k == 'call' and e[1][0] == 'member' and e[1][2] == 'operator' :
            return None
        if k == 'call' and e[1][0] == 'name':
            key = name_key(e[1])
            tab = {'G::ad': 'ad', 'G::exp': 'exp', 'G::dr_exp': 'dr_exp', 'G::dr_expinv': 'dr_expinv', 'G::d2r_exp': 'd2r_exp',
                   'G::d2r_expinv': 'd2r_expinv'}
            if key in tab and len(e[2]) == 1:
                return f'G.{tab[key]} {lean_paren(lw.lower(e[2][0], env))}'
            if key == 'G::Identity' and not e[2]:
                return 'G.identity'
        if k == 'name' and name_key(e) == 'G::Dof':
            return 'G.dof'
        if k == 'name' and name_key(e) == 'G::IsCommutative':
            return 'G.comm'
        return None
    return [rule]


def struct_members(repo, rel, head, pp_guards=()):
    toks = tokenize(drop_pp(strip_comments(read_src(repo, rel)), pp_guards))
    hd, body = find_struct(toks, head, f'{rel}: `{head}`')
    return toks, members(body)


def single_return(fn, where):
    sts = statements(fn.body, where)
    if len(sts) != 1 or sts[0][0] != 'return' or sts[0][-1] != ';':
        raise TrErr(f'{where}: expected a single `return e;`, found: ' + ' | '.join(show(x, 16) for x in sts))
    return sts[0][1:-1]


def gen_rn(repo):
    L = ['/- GENERATED by tools/gen_bundle.py from the C++ source of pettni/smooth: include/smooth/lie_groups/rn.hpp, scalar.hpp,',
         '   native.hpp (`traits::lie<G>` for Eigen column vectors, built-in scalars and native group classes).',
         '   Do not edit: regenerated on every check run.  Tie theorems: SmoothProps/SrcTieRn.lean. -/',
         'import SmoothModel.Lin', 'import SmoothModel.Group',
         'set_option linter.unusedVariables false',
         'open Scalar Lin', 'namespace RnSrc', 'variable {α : Type} [Scalar α]', '',
         '/-- `Eigen::Matrix<Scalar, 1, 1>{x}` -/', 'def mk11 (x : α) : Mat α 1 1 := .of (fun _ _ => x)', '']
    # ---------------- rn.hpp
    where = RN_H + ': traits::lie<RnType G>'
    _, mems = struct_members(repo, RN_H, 'template < RnType G > struct lie < G >')
    pins = {
        'Dof': 'static constexpr int Dof = G :: SizeAtCompileTime ;',
        'Scalar': 'using Scalar = typename G :: Scalar ;',
        'PlainObject': 'using PlainObject = Eigen :: Vector < Scalar , Dof > ;',
        'CastT': 'template < typename NewScalar > using CastT = Eigen :: Vector < NewScalar , Dof > ;',
        'Random': 'static inline PlainObject Random ( Eigen :: Index dof ) { return G :: Random ( dof ) ; }',
        'isApprox': 'template < typename Derived > static inline bool isApprox ( const G & g , const Eigen :: MatrixBase < Derived > & g2 , Scalar eps ) '
                    '{ return g . isApprox ( g2 , eps ) ; }',
        'cast': 'template < typename NewScalar > static inline Eigen :: Vector < NewScalar , Dof > cast ( const G & g ) { return g . template cast < '
                'NewScalar > ( ) ; }',
    }
    rest = pin_set(mems, pins, where)
    lw = ExprLower(where, rn_rules())
    seen = []
    L += ['/-! ### lie_groups/rn.hpp: `traits::lie<G>` for an Eigen column vector of (static or run-time) size `n`', '', '-/', '']
    for mem in rest:
        s = ' '.join(mem)
        m = re.fullmatch(r'static constexpr bool IsCommutative = (true|false) ;', s)
        if m:
            L += ['/-- `IsCommutative` -/', f'def Rn_IsCommutative : Bool := {m.group(1)}', '']
            seen.append('IsCommutative')
            continue
        fn = parse_function(mem)
        if fn is None or fn.name not in LIE_FUNCS:
            raise TrErr(f'{where}: unsupported member (neither translated nor pinned): `{show(mem, 40)}`')
        env = {}
        ps = []
        for p in fn.params:
            nm = param_name(p)
            txt = ' '.join(p)
            if txt.startswith('const G &') or txt.startswith('const Eigen :: MatrixBase < Derived > &'):
                if nm:
                    env[nm] = 'vec'
                    ps.append(nm)
                else:
                    ps.append('_')
            elif txt.startswith('Eigen :: Index'):
                env['#dofparam'] = nm
            else:
                raise TrErr(f'{where}::{fn.name}: unsupported parameter `{txt}`')
        body = lw.lower(parse_expr(single_return(fn, f'{where}::{fn.name}'), f'{where}::{fn.name}'), env)
        rty = {'Identity': 'Vec α n', 'composition': 'Vec α n', 'inverse': 'Vec α n', 'log': 'Vec α n', 'exp': 'Vec α n', 'dof': 'Nat',
               'Ad': 'Mat α n n', 'ad': 'Mat α n n', 'dr_exp': 'Mat α n n', 'dr_expinv': 'Mat α n n',
               'd2r_exp': 'Mat α n (n * n)', 'd2r_expinv': 'Mat α n (n * n)'}[fn.name]
        decl = ''.join(f' ({q} : Vec α n)' for q in ps)
        L += [f'/-- `traits::lie<G>::{fn.name}` -/', f'def Rn_{fn.name} (n : Nat){decl} : {rty} := {body}', '']
        seen.append(fn.name)
    L += ['def Rn_manifest : List String := [' + ', '.join(f'"{x}"' for x in seen) + ']', '']

    # ---------------- scalar.hpp
    where = SCALAR_H + ': traits::lie<ScalarType G>'
    _, mems = struct_members(repo, SCALAR_H, 'template < ScalarType G > struct lie < G >')
    pins = {
        'Scalar': 'using Scalar = G ;', 'PlainObject': 'using PlainObject = G ;',
        'CastT': 'template < typename NewScalar > using CastT = NewScalar ;',
        'Random': 'static inline PlainObject Random ( Eigen :: Index ) { std :: minstd_rand gen ; std :: uniform_real_distribution < Scalar > dist '
                  '( - 1. , 1. ) ; return G ( dist ( gen ) ) ; }',
        'isApprox': 'static inline bool isApprox ( G g1 , G g2 , Scalar eps ) { using std :: abs ; return abs < G > ( g1 - g2 ) <= eps * abs < G > ( g1 ) ; }',
        'cast': 'template < typename NewScalar > static inline NewScalar cast ( G g ) { return static_cast < NewScalar > ( g ) ; }',
    }
    rest = pin_set(mems, pins, where)
    lw = ExprLower(where, scalar_rules())
    seen = []
    L += ['/-! ### lie_groups/scalar.hpp: `traits::lie<G>` for a built-in scalar', '', '-/', '']
    for mem in rest:
        s = ' '.join(mem)
        m = re.fullmatch(r'static constexpr bool IsCommutative = (true|false) ;', s)
        if m:
            L += ['/-- `IsCommutative` -/', f'def Sc_IsCommutative : Bool := {m.group(1)}', '']
            seen.append('IsCommutative')
            continue
        m = re.fullmatch(r'static constexpr int Dof = (\d+) ;', s)
        if m:
            L += ['/-- `Dof` -/', f'def Sc_Dof : Nat := {m.group(1)}', '']
            seen.append('Dof')
            continue
        fn = parse_function(mem)
        if fn is None or fn.name not in LIE_FUNCS:
            raise TrErr(f'{where}: unsupported member (neither translated nor pinned): `{show(mem, 40)}`')
        env, ps = {}, []
        for p in fn.params:
            nm = param_name(p)
            txt = ' '.join(p)
            if txt == 'G' or txt.startswith('G '):
                env[nm or '_'] = 'scalar'
                ps.append((nm or '_', 'α'))
            elif txt.startswith('const Eigen :: MatrixBase < Derived > &'):
                env[nm or '_'] = 'vec1'
                ps.append((nm or '_', 'Vec α 1'))
            elif txt.startswith('Eigen :: Index'):
                pass
            else:
                raise TrErr(f'{where}::{fn.name}: unsupported parameter `{txt}`')
        if fn.name == 'dof':
            env['#want'] = 'nat'
        body = lw.lower(parse_expr(single_return(fn, f'{where}::{fn.name}'), f'{where}::{fn.name}'), env)
        rty = {'Identity': 'α', 'composition': 'α', 'inverse': 'α', 'exp': 'α', 'dof': 'Nat'}.get(fn.name, 'Mat α 1 1')
        decl = ''.join(f' ({q} : {ty})' for q, ty in ps)
        L += [f'/-- `traits::lie<G>::{fn.name}` -/', f'def Sc_{fn.name}{decl} : {rty} := {body}', '']
        seen.append(fn.name)
    L += ['def Sc_manifest : List String := [' + ', '.join(f'"{x}"' for x in seen) + ']', '']

    # ---------------- native.hpp
    where = NATIVE_H + ': traits::lie<NativeLieGroup G>'
    toks, mems = struct_members(repo, NATIVE_H, 'template < NativeLieGroup G > struct lie < G >')
    pins = {
        'Scalar': 'using Scalar = typename G :: Scalar ;',
        'CastT': 'template < typename NewScalar > using CastT = typename G :: template CastT < NewScalar > ;',
        'PlainObject': 'using PlainObject = typename G :: PlainObject ;',
        'Random': 'static inline PlainObject Random ( [ [ maybe_unused ] ] Eigen :: Index dof ) { if constexpr ( G :: Dof == - 1 ) { return G :: '
                  'Random ( dof ) ; } else { return G :: Random ( ) ; } }',
        # native groups of this library have a static Dof: the `Dof == -1` branch is not modelled
        'Identity': 'static inline PlainObject Identity ( [ [ maybe_unused ] ] Eigen :: Index dof ) { if constexpr ( G :: Dof == - 1 ) { return G :: '
                    'Identity ( dof ) ; } else { return G :: Identity ( ) ; } }',
        'isApprox': 'template < NativeLieGroup Go > static inline bool isApprox ( const G & g , const Go & go , Scalar eps ) { return g . isApprox ( go , eps ) ; }',
        'cast': 'template < typename NewScalar > static inline CastT < NewScalar > cast ( const G & g ) { return g . template cast < NewScalar > ( ) ; }',
    }
    rest = pin_set(mems, pins, where)
    lw = ExprLower(where, native_rules())
    seen = []
    L += ['/-! ### lie_groups/native.hpp: `traits::lie<G>` for a class with the member interface (`G` = its record of operations;',
          '    a value is its coefficient vector; `g1.operator*(g2)` is `G.composition g1 g2`)', '', '-/', '']
    for mem in rest:
        s = ' '.join(mem)
        m = re.fullmatch(r'static constexpr (int Dof|bool IsCommutative) = G :: (Dof|IsCommutative) ;', s)
        if m:
            nm = m.group(2)
            L += [f'/-- `{nm} = G::{nm}` -/', f'def Native_{nm} (G : LieModel α) : {"Nat" if nm == "Dof" else "Bool"} := G.{"dof" if nm == "Dof" else "comm"}', '']
            seen.append(nm)
            continue
        fn = parse_function(mem)
        if fn is None or fn.name not in LIE_FUNCS:
            raise TrErr(f'{where}: unsupported member (neither translated nor pinned): `{show(mem, 40)}`')
        env, ps = {}, []
        for p in fn.params:
            nm = param_name(p)
            txt = ' '.join(p)
            if txt.startswith('const G &') or txt.startswith('const Go &'):
                env[nm or '_'] = 'grp'
                ps.append((nm or '_', 'Vec α G.rep'))
            elif txt.startswith('const Eigen :: MatrixBase < Derived > &'):
                env[nm or '_'] = 'tan'
                ps.append((nm or '_', 'Vec α G.dof'))
            else:
                raise TrErr(f'{where}::{fn.name}: unsupported parameter `{txt}`')
        rt = single_return(fn, f'{where}::{fn.name}')
        # g1.operator*(g2)
        mm = re.fullmatch(r'(\w+) \. operator \* \( (\w+) \)', ' '.join(rt))
        if mm and env.get(mm.group(1)) == 'grp' and env.get(mm.group(2)) == 'grp':
            body = f'G.composition {mm.group(1)} {mm.group(2)}'
        else:
            body = lw.lower(parse_expr(rt, f'{where}::{fn.name}'), env)
        rty = {'composition': 'Vec α G.rep', 'inverse': 'Vec α G.rep', 'exp': 'Vec α G.rep', 'log': 'Vec α G.dof', 'dof': 'Nat',
               'd2r_exp': 'Mat α G.dof (G.dof * G.dof)', 'd2r_expinv': 'Mat α G.dof (G.dof * G.dof)'}.get(fn.name, 'Mat α G.dof G.dof')
        decl = ''.join(f' ({q} : {ty})' for q, ty in ps)
        L += [f'/-- `traits::lie<G>::{fn.name}` -/', f'def Native_{fn.name} (G : LieModel α){decl} : {rty} := {body}', '']
        seen.append(fn.name)
    L += ['def Native_manifest : List String := [' + ', '.join(f'"{x}"' for x in seen) + ']', '',
          'end RnSrc', '']
    return '\n'.join(L)


# =============================================================================== C. Manifold adaptors
LIEGROUP_H = 'include/smooth/concepts/lie_group.hpp'
MANIFOLD_H = 'include/smooth/concepts/manifold.hpp'
VECTOR_H = 'include/smooth/manifolds/vector.hpp'
VARIANT_H = 'include/smooth/manifolds/variant.hpp'
SUBMAN_H = 'include/smooth/manifolds/submanifold.hpp'
ANY_H = 'include/smooth/manifolds/any.hpp'

LEAN_TY = {'nat': 'Nat', 'int': 'Int', 'tan': 'List α', 'elem': 'M', 'elems': 'List M', 'dims': 'List Nat', 'bool': 'Bool',
           'sub': 'Manif.SubMan M'}


class Imp:
    """statement sequences of the Manifold adaptors -> Lean `let` chains.  `lower(ast, env) -> (lean, type)`; a value of type
       `exc:T` (a call that can throw) is bound with `←` (the function is then emitted as a `do` block in `Except String`)."""

    def __init__(self, where, lower, monadic, types):
        self.where, self.lower, self.monadic, self.types = where, lower, monadic, types
        self.env = {}
        self.notes = []          # pinned no-op statements (assert, reserve)
        self.tmp = 0

    # ---------------------------------------------------------------- expressions
    def ex(self, toks, want=None):
        """-> (prelude lines, lean, type): throwing sub-calls are hoisted into `let _tN ← …` lines"""
        ast = parse_expr(toks, self.where) if isinstance(toks, list) else toks
        pre = []
        lean, ty = self.lower(self, ast, pre)
        if ty.startswith('exc:'):
            if not self.monadic:
                raise TrErr(f'{self.where}: `{ast_text(ast)}` can throw, but the function is not translated in the Except monad')
            self.tmp += 1
            v = f'_t{self.tmp}'
            pre.append(f'let {v} ← {lean}')
            lean, ty = v, ty[4:]
        if want is not None:
            lean, ty = self.coerce(lean, ty, want, ast)
        return pre, lean, ty

    def coerce(self, lean, ty, want, ast=None):
        if ty == want:
            return lean, ty
        if ty == 'int' and want == 'nat':
            return f'({lean}).toNat', 'nat'
        if ty == 'nat' and want == 'int':
            if re.fullmatch(r'\d+', lean):
                return f'({lean} : Int)', 'int'
            return f'(({lean} : Nat) : Int)', 'int'
        raise TrErr(f'{self.where}: type mismatch: `{ast_text(ast) if ast else lean}` is {ty}, expected {want}')

    def hoist(self, ast, pre):
        """lower a sub-expression inside `lower`; throwing calls are hoisted"""
        lean, ty = self.lower(self, ast, pre)
        if ty.startswith('exc:'):
            if not self.monadic:
                raise TrErr(f'{self.where}: `{ast_text(ast)}` can throw, but the function is not translated in the Except monad')
            self.tmp += 1
            v = f'_t{self.tmp}'
            pre.append(f'let {v} ← {lean}')
            return v, ty[4:]
        return lean, ty

    # ---------------------------------------------------------------- statements
    def type_of_decl(self, ttoks):
        s = ' '.join(ttoks)
        for pat, ty in self.types:
            if re.fullmatch(pat, s):
                return ty
        return None

    def assigned(self, sts):
        """names assigned (or mutated) in a statement list, in order of first occurrence"""
        res = []

        def add(n):
            if n not in res:
                res.append(n)
        for st in sts:
            if st[0] == 'for':
                he = match_close(st, 1)
                for n in self.assigned(statements(st[he + 2:-1], self.where)):
                    add(n)
                continue
            if st[0] == 'if':
                j = 2 if st[1] == 'constexpr' else 1
                ce = match_close(st, j)
                be = match_close(st, ce + 1)
                for n in self.assigned(statements(st[ce + 2:be], self.where)):
                    add(n)
                rest = st[be + 1:]
                if rest and rest[0] == 'else' and rest[1] == '{':
                    for n in self.assigned(statements(rest[2:-1], self.where)):
                        add(n)
                continue
            if st[0] in ('++', '--') and len(st) == 3:
                add(st[1])
                continue
            if len(st) == 3 and st[1] in ('++', '--'):
                add(st[0])
                continue
            # x = …, x += …, x.push_back(…), x.setZero(…), x(i) = …, x.segment…(…) = …
            if re.fullmatch(r'[A-Za-z_]\w*', st[0]) and len(st) > 2:
                if st[1] in ('=', '+=', '-=') or (st[1] == '.' and st[2] in ('push_back', 'setZero')):
                    add(st[0])
                elif st[1] in ('(', '.') and '=' in split_marker(st):
                    add(st[0])
            for k, t in enumerate(st):                     # post-increments inside expressions: a(j++)
                if t == '++' and k > 0 and re.fullmatch(r'[A-Za-z_]\w*', st[k - 1]) and k + 1 < len(st) and st[k + 1] == ')':
                    add(st[k - 1])
        return res

    def tuple_of(self, names):
        return names[0] if len(names) == 1 else '(' + ', '.join(names) + ')'

    def tuple_ty(self, names):
        tys = [LEAN_TY[self.env[n][1]] for n in names]
        return tys[0] if len(tys) == 1 else ' × '.join(tys)

    def block(self, sts, ind):
        L = []
        for st in sts:
            L += self.stmt(st, ind)
        return L

    def stmt(self, st, ind):
        s = ' '.join(st)
        W = self.where
        # ---- no-ops, pinned
        if st[0] == 'assert' or (len(st) > 3 and st[1] == '.' and st[2] == 'reserve'):
            self.notes.append(s)
            return []
        if st[:4] == ['[', '[', 'maybe_unused', ']'] and 'in_range_pred' in st:
            self.notes.append(s)
            return []
        if st[0] == 'return':
            pre, lean, ty = self.ex(st[1:-1], self.ret_ty)
            return [ind + x for x in pre] + [ind + (f'pure {lean_paren(lean)}' if self.monadic else lean)]
        if st[0] == 'for':
            return self.for_stmt(st, ind)
        if st[0] == 'if':
            return self.if_stmt(st, ind)
        if st[0] in ('while', 'do', 'switch', 'break', 'continue', 'goto', 'throw', 'try'):
            raise TrErr(f'{W}: unsupported statement `{show(st, 16)}`')
        # ---- ++k;
        if (st[0] == '++' and len(st) == 3) or (len(st) == 3 and st[1] == '++'):
            n = st[1] if st[0] == '++' else st[0]
            self.need_var(n, 'nat')
            return [f'{ind}let {n} := {n} + 1']
        # ---- declarations
        d = self.declaration(st, ind)
        if d is not None:
            return d
        # ---- x.push_back(e); x.setZero(n);
        m = re.fullmatch(r'(\w+) \. push_back \( (.+) \) ;', s)
        if m:
            n = m.group(1)
            self.need_var(n, 'elems')
            pre, lean, _ = self.ex(m.group(2).split(), 'elem')
            return [ind + x for x in pre] + [f'{ind}let {n} := {n} ++ [{lean}]']
        m = re.fullmatch(r'(\w+) \. setZero \( (.+) \) ;', s)
        if m:
            n = m.group(1)
            self.need_var(n, 'tan')
            pre, lean, _ = self.ex(m.group(2).split(), 'nat')
            return [ind + x for x in pre] + [f'{ind}let {n} := zeros {lean_paren(lean)}']
        # ---- assignments
        parts = split_top(st[:-1], '=')
        if len(parts) == 2 and parts[0] and parts[0][-1] not in ('+', '-', '!', '<', '>', '='):
            return self.assign(parts[0], parts[1], ind)
        if len(st) >= 4 and st[1] in ('+=', '-=') and re.fullmatch(r'[A-Za-z_]\w*', st[0]):
            n = st[0]
            ty = self.need_var(n)
            pre, lean, _ = self.ex(st[2:-1], ty)
            return [ind + x for x in pre] + [f'{ind}let {n} := {n} {st[1][0]} {lean_paren(lean)}']
        raise TrErr(f'{W}: unsupported statement `{show(st, 30)}`')

    def need_var(self, n, ty=None):
        if n not in self.env:
            raise TrErr(f'{self.where}: unknown variable `{n}`')
        if ty is not None and self.env[n][1] != ty:
            raise TrErr(f'{self.where}: variable `{n}` has type {self.env[n][1]}, expected {ty}')
        return self.env[n][1]

    def declaration(self, st, ind):
        """`[const] T x;` `[const] T x = e;` `[const] auto [&] x = e;` `T x(e);`"""
        t = list(st[:-1])
        while t and t[0] in ('const', 'static', 'constexpr'):
            t = t[1:]
        # split off the declarator: name [= init | (init)]
        eq = split_top(t, '=')
        head = eq[0]
        init = eq[1] if len(eq) == 2 else None
        if len(eq) > 2:
            return None
        ctor = None
        if init is None and head and head[-1] == ')':
            # T x(e)
            k = len(head) - 1
            d = 0
            while k >= 0:
                if head[k] == ')':
                    d += 1
                elif head[k] == '(':
                    d -= 1
                    if d == 0:
                        break
                k -= 1
            ctor = head[k + 1:-1]
            head = head[:k]
        if len(head) < 2 or not re.fullmatch(r'[A-Za-z_]\w*', head[-1]):
            return None
        name = head[-1]
        ttoks = [x for x in head[:-1] if x != '&']
        if not ttoks or name in self.env and init is None and ctor is None:
            return None
        if ttoks == ['auto']:
            if init is None:
                return None
            pre, lean, ty = self.ex(init)
            if ty == 'int':
                lean, ty = self.coerce(lean, ty, 'nat')
            self.env[name] = (name, ty)
            return [ind + x for x in pre] + [f'{ind}let {name} := {lean}']
        ty = self.type_of_decl(ttoks)
        if ty is None:
            return None
        if init is not None:
            pre, lean, _ = self.ex(init, ty)
            self.env[name] = (name, ty)
            return [ind + x for x in pre] + [f'{ind}let {name} : {LEAN_TY[ty]} := {lean}']
        if ctor is not None:
            if ty != 'tan':
                raise TrErr(f'{self.where}: unsupported constructor-style initialisation `{" ".join(st)}`')
            pre, lean, _ = self.ex(ctor, 'nat')
            self.env[name] = (name, ty)
            return [ind + x for x in pre] + [f'{ind}let {name} : List α := uninitVec uninit {lean_paren(lean)}']
        self.env[name] = (name, ty)
        init_v = {'elems': '[]', 'tan': '[]'}.get(ty)
        if init_v is None:
            raise TrErr(f'{self.where}: declaration without initialiser of a {ty}: `{" ".join(st)}`')
        return [f'{ind}let {name} : {LEAN_TY[ty]} := {init_v}']

    def assign(self, lhs, rhs, ind):
        W = self.where
        post = []
        rhs = list(rhs)
        lhs = list(lhs)
        # post-increments inside index expressions: x(j++)
        for side in (lhs, rhs):
            k = 0
            while k < len(side):
                if side[k] == '++' and k > 0 and re.fullmatch(r'[A-Za-z_]\w*', side[k - 1]):
                    post.append(side[k - 1])
                    del side[k]
                else:
                    k += 1
        if len(lhs) == 1:
            n = lhs[0]
            ty = self.need_var(n)
            pre, lean, _ = self.ex(rhs, ty)
            out = [ind + x for x in pre] + [f'{ind}let {n} := {lean}']
        elif len(lhs) >= 4 and lhs[1] == '(' and lhs[-1] == ')':
            n = lhs[0]
            self.need_var(n, 'tan')
            pi, idx, _ = self.ex(lhs[2:-1], 'nat')
            pre, lean, _ = self.ex(rhs, 'scalar')
            out = [ind + x for x in pi + pre] + [f'{ind}let {n} := setAtT {n} {lean_paren(idx)} {lean_paren(lean)}']
        else:
            m = re.fullmatch(r'(\w+) \. (?:template )?segment (?:< .+? > )?\( (.+) \)', ' '.join(lhs))
            if not m:
                raise TrErr(f'{W}: unsupported assignment target `{" ".join(lhs)}`')
            n = m.group(1)
            self.need_var(n, 'tan')
            args = split_top(m.group(2).split())
            if len(args) != 2:
                raise TrErr(f'{W}: segment with {len(args)} arguments in `{" ".join(lhs)}`')
            p1, off, _ = self.ex(args[0], 'nat')
            p2, ln, _ = self.ex(args[1], 'nat')
            pre, lean, _ = self.ex(rhs, 'tan')
            out = [ind + x for x in p1 + p2 + pre] + [f'{ind}let {n} := writeSeg {n} {lean_paren(off)} {lean_paren(ln)} {lean_paren(lean)}']
        for n in post:
            self.need_var(n, 'nat')
            out.append(f'{ind}let {n} := {n} + 1')
        return out

    # ---------------------------------------------------------------- control
    def cond(self, toks):
        ast = parse_expr(toks, self.where)
        pre = []
        lean, ty = self.lower(self, ast, pre)
        if pre or ty != 'prop':
            raise TrErr(f'{self.where}: unsupported condition `{ast_text(ast)}`')
        return lean

    def if_stmt(self, st, ind):
        j = 2 if st[1] == 'constexpr' else 1
        ce = match_close(st, j)
        c = self.cond(st[j + 1:ce])
        be = match_close(st, ce + 1)
        then_s = statements(st[ce + 2:be], self.where)
        rest = st[be + 1:]
        else_s = []
        if rest:
            if rest[0] != 'else' or rest[1] != '{' or match_close(rest, 1) != len(rest) - 1:
                raise TrErr(f'{self.where}: unsupported else-branch `{show(rest, 16)}`')
            else_s = statements(rest[2:-1], self.where)
        for x in then_s + else_s:
            if x[0] in ('break', 'continue', 'goto', 'throw') or x == ['return', ';']:
                raise TrErr(f'{self.where}: unsupported control flow `{" ".join(x)}` in `{show(st, 24)}`')
        returns = [bool(x) and x[-1][0] == 'return' for x in (then_s, else_s)]
        if all(returns):
            saved = dict(self.env)
            a = self.block(then_s, ind + '  ')
            self.env = dict(saved)
            b = self.block(else_s, ind + '  ')
            self.env = saved
            self.terminated = True
            return [f'{ind}if {c} then'] + a + [f'{ind}else'] + b
        if any(returns):
            raise TrErr(f'{self.where}: `if` with a return in only one branch is not supported: `{show(st, 24)}`')
        live = [n for n in self.assigned(then_s + else_s) if n in self.env]
        if not live:
            raise TrErr(f'{self.where}: `if` without effect on a translated variable: `{show(st, 24)}`')
        tup = self.tuple_of(live)
        saved = dict(self.env)
        a = self.block(then_s, ind + '    ')
        self.env = dict(saved)
        b = self.block(else_s, ind + '    ')
        self.env = saved
        arrow = '←' if self.monadic and any('←' in x for x in a + b) else ':='
        if arrow == '←':
            return ([f'{ind}let {tup} ← (if {c} then do'] + a + [f'{ind}    pure {tup}', f'{ind}  else do'] + b
                    + [f'{ind}    pure {tup})'])
        return ([f'{ind}let {tup} :=', f'{ind}  if {c} then'] + a + [f'{ind}    {tup}', f'{ind}  else'] + b + [f'{ind}    {tup}'])

    def for_stmt(self, st, ind):
        W = self.where
        he = match_close(st, 1)
        head = st[2:he]
        body = statements(st[he + 2:-1], W)
        out = []
        saved = dict(self.env)
        # ---- range-for, optionally with an init-statement
        hp = split_top(head, ';', angles=False)
        if len(hp) <= 2 and ':' in hp[-1]:
            if len(hp) == 2:
                d = self.declaration(hp[0] + [';'], ind)
                if d is None:
                    raise TrErr(f'{W}: unsupported init-statement in range-for: `{" ".join(hp[0])}`')
                out += d
            rng = hp[-1]
            k = top_index(rng, ':')
            decl, src = rng[:k], rng[k + 1:]
            pre, slean, sty = self.ex(src)
            if pre:
                raise TrErr(f'{W}: throwing range expression in `{" ".join(rng)}`')
            dm = re.fullmatch(r'const auto & (\w+)', ' '.join(decl))
            dz = re.fullmatch(r'const auto & \[ (\w+) , (\w+) \]', ' '.join(decl))
            if dm and sty == 'elems':
                pat = dm.group(1)
                self.env[pat] = (pat, 'elem')
            elif dz and sty == 'zip':
                pat = f'({dz.group(1)}, {dz.group(2)})'
                self.env[dz.group(1)] = (dz.group(1), 'elem')
                self.env[dz.group(2)] = (dz.group(2), 'elem')
            else:
                raise TrErr(f'{W}: unsupported range-for declaration `{" ".join(rng)}`')
            return out + self.fold(body, pat, slean, ind, saved, extra=[n for n in self.env if n not in saved])
        # ---- counting loops
        if len(hp) != 3:
            raise TrErr(f'{W}: unsupported loop head `{" ".join(head)}`')
        init, cnd, inc = hp
        im = re.fullmatch(r'auto (\w+) = 0((?: , \w+ = 0)*)', ' '.join(init))
        if not im:
            raise TrErr(f'{W}: unsupported loop initialisation `{" ".join(init)}`')
        i = im.group(1)
        others = re.findall(r', (\w+) = 0', im.group(2))
        if inc != ['++', i]:
            raise TrErr(f'{W}: unsupported loop increment `{" ".join(inc)}`')
        cm = re.fullmatch(re.escape(i) + r' (!=|<) (.+)', ' '.join(cnd))
        if not cm:
            raise TrErr(f'{W}: unsupported loop condition `{" ".join(cnd)}`')
        for o in others:
            self.env[o] = (o, 'nat')
            out.append(f'{ind}let {o} : Nat := 0')
        pre, bound, _ = self.ex(cm.group(2).split(), 'nat')
        if pre:
            raise TrErr(f'{W}: throwing loop bound')
        # `for (i != X.size())` whose body uses i only as X[i]: a sweep over X
        bm = re.fullmatch(r'(\w+) \. size \( \)', cm.group(2))
        flat = [t for b in body for t in b]
        if bm and self.env.get(bm.group(1), (None, None))[1] == 'elems':
            X = bm.group(1)
            uses = [k for k, t in enumerate(flat) if t == i]
            if uses and all(flat[k - 2:k] == [X, '['] and flat[k + 1] == ']' for k in uses):
                el = f'{X}_{i}'
                self.env[el] = (el, 'elem')
                body2 = statements(' '.join(flat).replace(f'{X} [ {i} ]', el).split(), W)
                return out + self.fold(body2, el, X, ind, saved, extra=others)
        self.env[i] = (i, 'nat')
        return out + self.fold(body, i, f'(List.range {lean_paren(bound)})', ind, saved, extra=others)

    def fold(self, body, pat, src, ind, saved, extra):
        live = [n for n in self.assigned(body) if n in saved or n in extra]
        if not live:
            raise TrErr(f'{self.where}: loop without effect on a translated variable')
        tup, tty = self.tuple_of(live), self.tuple_ty(live)
        inner = self.block(body, ind + '    ')
        mon = self.monadic and any('←' in x for x in inner)
        keep = {n: self.env[n] for n in live}
        self.env = dict(saved)
        self.env.update(keep)
        st = '_st' if len(live) > 1 else live[0]
        unpack = [f'{ind}    let {tup} := _st'] if len(live) > 1 else []
        if mon:
            return ([f'{ind}let {tup} ← List.foldlM (fun ({st} : {tty}) {pat} => do'] + unpack + inner
                    + [f'{ind}    pure {tup}) {tup} {src}'])
        return ([f'{ind}let {tup} := List.foldl (fun ({st} : {tty}) {pat} =>'] + unpack + inner
                + [f'{ind}    {tup}) {tup} {src}'])


def split_marker(st):
    """tokens at depth 0 of a statement (to find a top-level `=`)"""
    res, d = [], 0
    for t in st:
        if t in OPEN:
            d += 1
        elif t in OPEN.values():
            d -= 1
        elif d == 0:
            res.append(t)
    return res


def top_index(toks, sym):
    d = 0
    for k, t in enumerate(toks):
        if t in OPEN or t == '<':
            d += 1
        elif t in OPEN.values() or t == '>':
            d -= 1
        elif t == sym and d == 0:
            return k
    raise TrErr(f'`{sym}` not found in `{" ".join(toks)}`')


MAN_TYPES = [
    (r'Eigen :: Index', 'nat'), (r'std :: size_t', 'nat'), (r'int', 'nat'),
    (r'PlainObject', 'elems'),
    (r'Tangent < M >', 'tan'), (r'Eigen :: VectorX < Scalar >', 'tan'),
    (r'Eigen :: Vector < typename traits :: man < M > :: Scalar , - 1 >', 'tan'),
]


def man_lower(A='A'):
    """expression rules of the Manifold adaptors; `A : Manif.Man α M` stands for `traits::man<M>`"""
    def lower(imp, e, pre):
        k = e[0]
        if k == 'num' and re.fullmatch(r'\d+', e[1]):
            return e[1], 'nat'
        if k == 'name':
            key = name_key(e)
            if len(e[1]) == 1 and e[1][0][1] is None and key in imp.env:
                return imp.env[key]
            if key in ('traits::man<M>::Dof', 'smooth::Dof<M>', 'man<M>::Dof'):
                return f'staticDof {A}', 'int'
        if k == 'un' and e[1] == '-' and e[2] == ('num', '1'):
            return '(-1)', 'int'
        if k == 'call' and e[1][0] == 'name':
            key = name_key(e[1])
            args = e[2]
            if key in ('traits::man<M>::dof', 'smooth::dof<M>', 'smooth::dof', 'man<M>::dof') and len(args) == 1:
                x, t = imp.hoist(args[0], pre)
                need(imp, t, 'elem', args[0])
                return f'{A}.dof {lean_paren(x)}', 'nat'
            if key in ('traits::man<M>::rplus', 'man<M>::rplus') and len(args) == 2:
                x, t = imp.hoist(args[0], pre)
                need(imp, t, 'elem', args[0])
                a, ta = imp.hoist(args[1], pre)
                need(imp, ta, 'tan', args[1])
                return f'{A}.rplus {lean_paren(x)} {lean_paren(a)}', 'elem'
            if key in ('traits::man<M>::rminus', 'man<M>::rminus') and len(args) == 2:
                x, t = imp.hoist(args[0], pre)
                y, t2 = imp.hoist(args[1], pre)
                need(imp, t, 'elem', args[0])
                need(imp, t2, 'elem', args[1])
                return f'{A}.rminus {lean_paren(x)} {lean_paren(y)}', 'exc:tan'
            if key in ('traits::man<M>::cast<NewScalar>', 'man<M>::cast<NewScalar>') and len(args) == 1:
                x, t = imp.hoist(args[0], pre)
                need(imp, t, 'elem', args[0])
                return f'{A}.cast {lean_paren(x)}', 'exc:elem'
            if key in ('traits::man<M>::Default', 'man<M>::Default') and len(args) == 1:
                x, t = imp.hoist(args[0], pre)
                x, t = imp.coerce(x, t, 'nat', args[0])
                return f'{A}.default {lean_paren(x)}', 'exc:elem'
            if key.startswith('static_cast<') and len(args) == 1:
                x, t = imp.hoist(args[0], pre)
                tgt = key[len('static_cast<'):-1]
                if tgt in ('Eigen :: Index', 'std :: size_t') and t in ('nat', 'int'):
                    return x, t
                raise TrErr(f'{imp.where}: unsupported cast `{ast_text(e)}`')
            if key == 'utils::zip' and len(args) == 2:
                x, t = imp.hoist(args[0], pre)
                y, t2 = imp.hoist(args[1], pre)
                need(imp, t, 'elems', args[0])
                need(imp, t2, 'elems', args[1])
                return f'(List.zip {x} {y})', 'zip'
            if key == 'PlainObject' and len(args) == 2:
                n, t = imp.hoist(args[0], pre)
                n, t = imp.coerce(n, t, 'nat', args[0])
                v, tv = imp.hoist(args[1], pre)
                need(imp, tv, 'elem', args[1])
                return f'List.replicate {lean_paren(n)} {lean_paren(v)}', 'elems'
            # x(i) on a tangent / dims variable
            if len(e[1][1]) == 1 and key in imp.env and len(args) == 1:
                i, t = imp.hoist(args[0], pre)
                need(imp, t, 'nat', args[0])
                vt = imp.env[key][1]
                if vt == 'tan':
                    return f'getT {key} {lean_paren(i)}', 'scalar'
                if vt == 'dims':
                    return f'getN {imp.env[key][0]} {lean_paren(i)}', 'nat'
        if k == 'call' and e[1][0] == 'member':
            obj, meth, ta = e[1][1], e[1][2], e[1][3]
            if meth == 'size' and not e[2]:
                x, t = imp.hoist(obj, pre)
                if t in ('elems', 'tan', 'dims'):
                    return f'{x}.length', 'nat'
            if meth == 'segment' and len(e[2]) == 2:
                x, t = imp.hoist(obj, pre)
                need(imp, t, 'tan', obj)
                o, t1 = imp.hoist(e[2][0], pre)
                l, t2 = imp.hoist(e[2][1], pre)
                need(imp, t1, 'nat', e[2][0])
                need(imp, t2, 'nat', e[2][1])
                return f'segment {x} {lean_paren(o)} {lean_paren(l)}', 'tan'
        if k == 'bin':
            op = e[1]
            if op in ('||', '&&'):
                a, ta = lower(imp, e[2], pre)
                b, tb = lower(imp, e[3], pre)
                if ta != 'prop' or tb != 'prop':
                    raise TrErr(f'{imp.where}: `{op}` on non-conditions in `{ast_text(e)}`')
                return f'{a} {"∨" if op == "||" else "∧"} {b}', 'prop'
            a, ta = imp.hoist(e[2], pre)
            b, tb = imp.hoist(e[3], pre)
            if ta != tb and {ta, tb} == {'nat', 'int'}:
                a, _ = imp.coerce(a, ta, 'int')
                b, _ = imp.coerce(b, tb, 'int')
                ta = tb = 'int'
            if ta != tb or ta not in ('nat', 'int'):
                raise TrErr(f'{imp.where}: unsupported operands of `{op}` in `{ast_text(e)}`')
            if op in ('+', '-', '*', '/'):
                return f'{lean_paren(a)} {op} {lean_paren(b)}', ta
            rel = {'>': '>', '<': '<', '>=': '≥', '<=': '≤', '==': '=', '!=': '≠'}.get(op)
            if rel:
                return f'{lean_paren(a)} {rel} {lean_paren(b)}', 'prop'
        if k == 'tern':
            c, tc = lower(imp, e[1], pre)
            if tc != 'prop':
                raise TrErr(f'{imp.where}: unsupported condition in `{ast_text(e)}`')
            a, ta = imp.hoist(e[2], pre)
            b, tb = imp.hoist(e[3], pre)
            if ta != tb and {ta, tb} == {'nat', 'int'}:
                a, _ = imp.coerce(a, ta, 'int')
                b, _ = imp.coerce(b, tb, 'int')
                ta = tb = 'int'
            if ta != tb:
                raise TrErr(f'{imp.where}: branches of different types in `{ast_text(e)}`')
            return f'if {c} then {a} else {b}', ta
        raise TrErr(f'{imp.where}: unsupported expression `{ast_text(e)}`')
    return lower


def need(imp, got, want, ast):
    if got != want:
        raise TrErr(f'{imp.where}: `{ast_text(ast)}` is {got}, expected {want}')


def emit_fn(name, params, ret_lean, lines, monadic, doc):
    head = f'def {name}{params} : ' + (f'Except String ({ret_lean})' if monadic else ret_lean) + ' :=' + (' do' if monadic else '')
    return [f'/-- {doc} -/', head] + lines + ['']


def translate_body(where, fn_body_toks, env, ret_ty, monadic, lower, types=MAN_TYPES):
    imp = Imp(where, lower, monadic, types)
    imp.env = dict(env)
    imp.ret_ty = ret_ty
    imp.terminated = False
    sts = statements(fn_body_toks, where)
    lines = imp.block(sts, '  ')
    if not sts or (sts[-1][0] != 'return' and not imp.terminated):
        raise TrErr(f'{where}: the function does not end with a return statement')
    return lines, imp.notes


def gen_vector(repo, L):
    where0 = VECTOR_H + ': traits::man<std::vector<M>>'
    toks = tokenize(drop_pp(strip_comments(read_src(repo, VECTOR_H))))
    _, body = find_struct(toks, 'template < Manifold M > struct man < std :: vector < M > >', where0)
    pins = {
        'Scalar': 'using Scalar = :: smooth :: Scalar < M > ;',
        'PlainObject': 'using PlainObject = std :: vector < M > ;',
        'CastT': 'template < typename NewScalar > using CastT = std :: vector < typename man < M > :: template CastT < NewScalar > > ;',
    }
    rest = pin_set(members(body), pins, where0)
    lower = man_lower()
    notes_all = []
    seen = []
    L += ['/-! ### manifolds/vector.hpp: `traits::man<std::vector<M>>` (`A` = `traits::man<M>`) -/', '']
    for mem in rest:
        s = ' '.join(mem)
        m = re.fullmatch(r'static constexpr int Dof = (- 1|\d+) ;', s)
        if m:
            v = 'none' if m.group(1) == '- 1' else f'some {m.group(1)}'
            L += ['/-- `static constexpr int Dof` -/', f'def Vec_Dof : Option Nat := {v}', '']
            seen.append('Dof')
            continue
        fn = parse_function(mem)
        if fn is None:
            raise TrErr(f'{where0}: unsupported member (neither translated nor pinned): `{show(mem, 40)}`')
        where = f'{where0}::{fn.name}'
        sig = ' '.join(fn.raw[:fn.raw.index('{')])
        if fn.name == 'dof':
            want = 'static inline Eigen :: Index dof ( const PlainObject & m )'
            env = {'m': ('m', 'elems')}
            params, rty, mon = ' (A : Manif.Man α M) (m : List M)', 'nat', False
        elif fn.name == 'Default':
            want = 'static inline PlainObject Default ( Eigen :: Index dof )'
            env = {'dof': ('dof', 'nat')}
            params, rty, mon = ' (A : Manif.Man α M) (dof : Nat)', 'elems', True
        elif fn.name == 'rplus':
            want = 'template < typename Derived > static inline PlainObject rplus ( const PlainObject & m , const Eigen :: MatrixBase < Derived > & a )'
            env = {'m': ('m', 'elems'), 'a': ('a', 'tan')}
            params, rty, mon = ' (A : Manif.Man α M) (m : List M) (a : List α)', 'elems', False
        elif fn.name == 'rminus':
            want = 'static inline Eigen :: Matrix < Scalar , Dof , 1 > rminus ( const PlainObject & m1 , const PlainObject & m2 )'
            env = {'m1': ('m1', 'elems'), 'm2': ('m2', 'elems')}
            params, rty, mon = ' (A : Manif.Man α M) (uninit : Nat → α) (m1 m2 : List M)', 'tan', True
        elif fn.name == 'cast':
            # a transform view materialised into a vector: element-wise cast, in order
            exp = ('template < typename NewScalar > static inline auto cast ( const PlainObject & m ) { const auto transformer = [ ] ( const M & mi ) -> '
                   'typename traits :: man < M > :: template CastT < NewScalar > { return traits :: man < M > :: template cast < NewScalar > ( mi ) ; } ; '
                   'const auto casted_view = m | std :: views :: transform ( transformer ) ; return std :: vector ( std :: ranges :: begin ( '
                   'casted_view ) , std :: ranges :: end ( casted_view ) ) ; }')
            check_pin('cast', mem, exp, where0)
            L += emit_fn('Vec_cast', ' (A : Manif.Man α M) (m : List M)', 'List M', ['  List.mapM (fun mi => A.cast mi) m'], False,
                         '`cast<NewScalar>(m)`: `m | std::views::transform(mi ↦ traits::man<M>::cast<NewScalar>(mi))` copied into a vector')
            L[-3] = 'def Vec_cast (A : Manif.Man α M) (m : List M) : Except String (List M) :='
            seen.append('cast')
            continue
        else:
            raise TrErr(f'{where0}: unexpected function `{fn.name}`')
        if sig != want:
            raise TrErr(f'{where}: signature differs from the pinned one\n   expected: {want}\n   current:  {sig}')
        if fn.name == 'dof':
            lines = vector_dof(fn, where, lower)
            notes = []
        else:
            lines, notes = translate_body(where, fn.body, env, rty, mon, lower)
        notes_all += [f'{fn.name}: {n}' for n in notes]
        L += emit_fn('Vec_' + fn.name, params, LEAN_TY[rty], lines, mon, f'`traits::man<std::vector<M>>::{fn.name}`')
        seen.append(fn.name)
    L += ['/-- statements of vector.hpp without value-level effect (pinned) -/',
          'def Vec_pinned : List String := [' + ', '.join('"' + n.replace('"', "'") + '"' for n in notes_all) + ']',
          'def Vec_manifest : List String := [' + ', '.join(f'"{x}"' for x in seen) + ']', '']


def vector_dof(fn, where, lower):
    """`if constexpr (Dof > 0) return size * Dof; else return std::accumulate(begin, end, 0u, λ)`"""
    sts = statements(fn.body, where)
    if len(sts) != 1 or sts[0][:2] != ['if', 'constexpr']:
        raise TrErr(f'{where}: expected one `if constexpr … else …`')
    st = sts[0]
    ce = match_close(st, 2)
    imp = Imp(where, lower, False, MAN_TYPES)
    imp.env = {'m': ('m', 'elems')}
    imp.ret_ty = 'nat'
    c = imp.cond(st[3:ce])
    be = match_close(st, ce + 1)
    a = imp.block(statements(st[ce + 2:be], where), '    ')
    rest = st[be + 1:]
    if rest[:2] != ['else', '{']:
        raise TrErr(f'{where}: missing else-branch')
    es = statements(rest[2:-1], where)
    m = re.fullmatch(r'return std :: accumulate \( m \. begin \( \) , m \. end \( \) , (\d+) , \[ \] \( auto (\w+) , const auto & (\w+) \) '
                     r'\{ return (.+) ; \} \) ;', ' '.join(es[0])) if len(es) == 1 else None
    if not m:
        raise TrErr(f'{where}: unsupported else-branch (expected `return std::accumulate(m.begin(), m.end(), 0u, [](auto s, const auto & item) {{…}})`)')
    init, sv, item, ex = m.groups()
    imp.env = {sv: (sv, 'nat'), item: (item, 'elem')}
    pre, lean, _ = imp.ex(ex.split(), 'nat')
    if pre:
        raise TrErr(f'{where}: throwing accumulate body')
    return [f'  if {c} then'] + a + ['  else', f'    List.foldl (fun {sv} {item} => {lean}) {init} m']


# ---------------------------------------------------------------- concepts/lie_group.hpp: traits::man<LieGroup G>
LIE_TYPES = []


def lie_lower():
    """`L : LieModel α` stands for `traits::lie<G>` (= `traits::lie<Go>`: the defaulted second group type); group values are
       coefficient vectors `Vec α L.rep`, tangents `Vec α L.dof`"""
    def lower(imp, e, pre):
        k = e[0]
        if k == 'name':
            key = name_key(e)
            if len(e[1]) == 1 and e[1][0][1] is None and key in imp.env:
                return imp.env[key]
            if key in ('traits::lie<G>::IsCommutative', 'traits::lie<Go>::IsCommutative'):
                return 'L.comm', 'bool'
            if key in ('traits::lie<G>::Dof',):
                return 'L.dof', 'nat'
        if k == 'call' and e[1][0] == 'name':
            key = name_key(e[1])
            m = re.fullmatch(r'traits::lie<(G|Go)>::(\w+)(<NewScalar>)?', key)
            if m:
                f = m.group(2)
                sig = {'composition': (['grp', 'grp'], 'grp'), 'exp': (['tanv'], 'grp'), 'inverse': (['grp'], 'grp'),
                       'log': (['grp'], 'tanv'), 'Identity': (['nat'], 'grp'), 'dof': (['grp'], 'nat'), 'cast': (['grp'], 'grp')}.get(f)
                if sig and len(e[2]) == len(sig[0]):
                    xs = []
                    for a, want in zip(e[2], sig[0]):
                        x, t = imp.hoist(a, pre)
                        need(imp, t, want, a)
                        xs.append(lean_paren(x))
                    if f == 'Identity':
                        return 'L.identity', 'grp'
                    if f == 'dof':
                        return 'L.dof', 'nat'
                    if f == 'cast':
                        return xs[0], 'grp'
                    return f'L.{f} ' + ' '.join(xs), sig[1]
        if k == 'bin' and e[1] in ('+', '-'):
            a, ta = imp.hoist(e[2], pre)
            b, tb = imp.hoist(e[3], pre)
            if ta == tb == 'tanv':
                return f'{"vadd" if e[1] == "+" else "vsub"} {lean_paren(a)} {lean_paren(b)}', 'tanv'
        if k == 'bin' and e[1] in ('&&', '||'):
            a, ta = lower(imp, e[2], pre)
            b, tb = lower(imp, e[3], pre)
            conv = lambda x, t: (x, 'prop') if t == 'prop' else ((f'{x} = true', 'prop') if t == 'bool' else (None, None))
            a, ta = conv(a, ta)
            b, tb = conv(b, tb)
            if a and b:
                return f'{a} {"∧" if e[1] == "&&" else "∨"} {b}', 'prop'
        if k == 'un' and e[1] == '!':
            a, ta = lower(imp, e[2], pre)
            if ta == 'bool':
                return f'{a} = false', 'prop'
        raise TrErr(f'{imp.where}: unsupported expression `{ast_text(e)}`')
    return lower


LIE_LEAN_TY = {'grp': 'Vec α L.rep', 'tanv': 'Vec α L.dof', 'nat': 'Nat'}


def gen_man_lie(repo, L):
    where0 = LIEGROUP_H + ': traits::man<LieGroup G>'
    toks = tokenize(drop_pp(strip_comments(read_src(repo, LIEGROUP_H))))
    _, body = find_struct(toks, 'template < LieGroup G > struct man < G >', where0)
    pins = {
        'Scalar': 'using Scalar = typename traits :: lie < G > :: Scalar ;',
        'PlainObject': 'using PlainObject = typename traits :: lie < G > :: PlainObject ;',
        'CastT': 'template < typename NewScalar > using CastT = typename traits :: lie < G > :: template CastT < NewScalar > ;',
    }
    rest = pin_set(members(body), pins, where0)
    lower = lie_lower()
    sigs = {
        'Default': ('static inline PlainObject Default ( Eigen :: Index dof )', {'dof': ('dof', 'nat')}, ' (L : LieModel α) (dof : Nat)', 'grp'),
        'dof': ('static inline Eigen :: Index dof ( const G & g )', {'g': ('g', 'grp')}, ' (L : LieModel α) (g : Vec α L.rep)', 'nat'),
        'cast': ('template < typename NewScalar > static inline CastT < NewScalar > cast ( const G & g )', {'g': ('g', 'grp')},
                 ' (L : LieModel α) (g : Vec α L.rep)', 'grp'),
        'rplus': ('template < typename Derived > static inline PlainObject rplus ( const G & g , const Eigen :: MatrixBase < Derived > & a )',
                  {'g': ('g', 'grp'), 'a': ('a', 'tanv')}, ' (L : LieModel α) (g : Vec α L.rep) (a : Vec α L.dof)', 'grp'),
        'rminus': ('template < LieGroup Go = G > static inline Eigen :: Matrix < Scalar , Dof , 1 > rminus ( const G & g1 , const Go & g2 )',
                   {'g1': ('g1', 'grp'), 'g2': ('g2', 'grp')}, ' (L : LieModel α) (g1 g2 : Vec α L.rep)', 'tanv'),
    }
    seen = []
    L += ['/-! ### concepts/lie_group.hpp: `traits::man<G>` for a LieGroup (`L` = `traits::lie<G>`) -/', '']
    for mem in rest:
        s = ' '.join(mem)
        if s == 'static constexpr int Dof = traits :: lie < G > :: Dof ;':
            L += ['/-- `static constexpr int Dof = traits::lie<G>::Dof` -/', 'def ManLie_Dof (L : LieModel α) : Nat := L.dof', '']
            seen.append('Dof')
            continue
        fn = parse_function(mem)
        if fn is None or fn.name not in sigs:
            raise TrErr(f'{where0}: unsupported member (neither translated nor pinned): `{show(mem, 40)}`')
        want, env, params, rty = sigs[fn.name]
        sig = ' '.join(fn.raw[:fn.raw.index('{')])
        if sig != want:
            raise TrErr(f'{where0}::{fn.name}: signature differs from the pinned one\n   expected: {want}\n   current:  {sig}')
        global LEAN_TY
        saved = dict(LEAN_TY)
        LEAN_TY.update(LIE_LEAN_TY)
        try:
            lines, _ = translate_body(f'{where0}::{fn.name}', fn.body, env, rty, False, lower, LIE_TYPES)
        finally:
            LEAN_TY.clear()
            LEAN_TY.update(saved)
        L += emit_fn('ManLie_' + fn.name, params, LIE_LEAN_TY[rty], lines, False, f'`traits::man<G>::{fn.name}`')
        seen.append(fn.name)
    L += ['def ManLie_manifest : List String := [' + ', '.join(f'"{x}"' for x in seen) + ']', '']


# ---------------------------------------------------------------- concepts/manifold.hpp: the free functions (forwarding, pinned)
FREE_PINS = {
    'Default(dof)': 'template < Manifold M > inline PlainObject < M > Default ( Eigen :: Index dof ) { return traits :: man < M > :: Default ( dof ) ; }',
    'Default()': 'template < Manifold M > inline PlainObject < M > Default ( ) requires ( Dof < M > > 0 ) { return traits :: man < M > :: Default ( Dof < M > ) ; }',
    'dof': 'template < Manifold M > inline Eigen :: Index dof ( const M & m ) { return traits :: man < M > :: dof ( m ) ; }',
    'cast': 'template < typename NewScalar , Manifold M > inline CastT < NewScalar , M > cast ( const M & m ) { return traits :: man < M > :: template '
            'cast < NewScalar > ( m ) ; }',
    'rplus': 'template < Manifold M , typename Derived > inline PlainObject < M > rplus ( const M & m , const Eigen :: MatrixBase < Derived > & a ) '
             '{ return traits :: man < M > :: rplus ( m , a ) ; }',
    'rminus': 'template < Manifold M , Manifold Mo > inline Tangent < M > rminus ( const M & g1 , const Mo & g2 ) { return traits :: man < M > :: '
              'rminus ( g1 , g2 ) ; }',
}


def check_free_functions(repo):
    toks = tokenize(drop_pp(strip_comments(read_src(repo, MANIFOLD_H))))
    txt = ' '.join(toks)
    for name, pin in FREE_PINS.items():
        n = txt.count(pin)
        if n != 1:
            raise TrErr(f'{MANIFOLD_H}: the free function `{name}` (pinned forwarding to traits::man<M>) was found {n} times in the current '
                        f'source\n   expected: {pin}')


# ---------------------------------------------------------------- manifolds/submanifold.hpp
SUB_TYPES = MAN_TYPES + [(r'Tangent < M >', 'tan')]


def sub_lower():
    base = man_lower()

    def lower(imp, e, pre):
        k = e[0]
        if k == 'call' and e[1][0] == 'name' and name_key(e[1]) == 'dof' and not e[2]:
            return 'Sub_dof A s', 'nat'
        if k == 'call' and e[1][0] == 'member' and e[1][1][0] == 'name' and not e[2]:
            obj, meth = name_key(e[1][1]), e[1][2]
            if imp.env.get(obj, (None, None))[1] == 'sub' and meth in ('m', 'm0', 'fixed_dims', 'dof'):
                o = imp.env[obj][0]
                return {'m': (f'Sub_m {o}', 'elem'), 'm0': (f'Sub_m0 {o}', 'elem'), 'fixed_dims': (f'Sub_fixed_dims {o}', 'dims'),
                        'dof': (f'Sub_dof A {o}', 'nat')}[meth]
        if k == 'call' and e[1][0] == 'name' and name_key(e[1]) in ('SubManifold<M>', 'PlainObject', 'CastT<NewScalar>') and len(e[2]) == 3:
            xs = []
            for a, want in zip(e[2], ('elem', 'elem', 'dims')):
                x, t = imp.hoist(a, pre)
                need(imp, t, want, a)
                xs.append(lean_paren(x))
            return 'Sub_ctor ' + ' '.join(xs), 'sub'
        if k == 'call' and e[1][0] == 'member' and e[1][1][0] == 'name' and imp.env.get(name_key(e[1][1]), (None, None))[1] == 'sub':
            o = imp.env[name_key(e[1][1])][0]
            if e[1][2] == 'rplus' and len(e[2]) == 1:
                a, t = imp.hoist(e[2][0], pre)
                need(imp, t, 'tan', e[2][0])
                return f'Sub_rplus A {o} {lean_paren(a)}', 'sub'
            if e[1][2] == 'rminus' and len(e[2]) == 1:
                b, t = imp.hoist(e[2][0], pre)
                need(imp, t, 'sub', e[2][0])
                return f'Sub_rminus A {o} {lean_paren(b)}', 'exc:tan'
        return base(imp, e, pre)
    return lower


def gen_submanifold(repo, L):
    where0 = SUBMAN_H + ': class SubManifold<M>'
    toks = tokenize(drop_pp(strip_comments(read_src(repo, SUBMAN_H))))
    _, body = find_struct(toks, 'template < Manifold M > class SubManifold', where0)
    pins = {
        'public': 'public :', 'private': 'private :',
        # `traits::man<M>::Default()` without argument does not exist: the default constructor is ill-formed when instantiated
        'default constructor': 'SubManifold ( ) : SubManifold ( traits :: man < M > :: Default ( ) , traits :: man < M > :: Default ( ) ) { }',
        'm_m0': 'M m_m0 { } ;', 'm_m': 'M m_m { } ;', 'm_fixed_dims': 'Eigen :: VectorXi m_fixed_dims { } ;',
    }
    rest = pin_set(members(body), pins, where0)
    lower = sub_lower()
    member_env = {'m_m0': ('s.m0', 'elem'), 'm_m': ('s.m', 'elem'), 'm_fixed_dims': ('s.fixed', 'dims')}
    notes_all, seen = [], []
    L += ['/-! ### manifolds/submanifold.hpp: class `SubManifold<M>` and `traits::man<SubManifold<M>>` (`A` = `traits::man<M>`) -/', '']
    order = {}
    for mem in rest:
        fn = parse_function(mem)
        if fn is None:
            raise TrErr(f'{where0}: unsupported member (neither translated nor pinned): `{show(mem, 40)}`')
        sig = ' '.join(fn.raw[:fn.raw.index('{')])
        key = fn.name + ('/2' if fn.name == 'SubManifold' and len(fn.params) == 2 else '')
        order[key] = (fn, sig)
    # constructor (m0, m, fixed_dims)
    need_keys = ['SubManifold', 'SubManifold/2', 'm', 'm0', 'fixed_dims', 'dof', 'rplus', 'rminus']
    for kx in need_keys:
        if kx not in order:
            raise TrErr(f'{where0}: member `{kx}` not found in the current source')
    extra = [k for k in order if k not in need_keys]
    if extra:
        raise TrErr(f'{where0}: unexpected member function(s): ' + ', '.join(extra))
    fn, sig = order['SubManifold']
    want = ('SubManifold ( const M & m0 , const M & m , Eigen :: Ref < const Eigen :: VectorXi > fixed_dims = Eigen :: VectorXi :: Zero ( 0 ) ) : '
            'm_m0 ( m0 ) , m_m ( m ) , m_fixed_dims ( fixed_dims )')
    im = re.fullmatch(r'SubManifold \( const M & (\w+) , const M & (\w+) , Eigen :: Ref < const Eigen :: VectorXi > (\w+) = Eigen :: VectorXi :: '
                      r'Zero \( 0 \) \) : m_m0 \( (\w+) \) , m_m \( (\w+) \) , m_fixed_dims \( (\w+) \)', sig)
    if not im:
        raise TrErr(f'{where0}: constructor head differs from the supported form\n   expected: {want}\n   current:  {sig}')
    p0, p1, p2, i0, i1, i2 = im.groups()
    for x in (i0, i1):
        if x not in (p0, p1):
            raise TrErr(f'{where0}: constructor initialises a member from `{x}`')
    if i2 != p2:
        raise TrErr(f'{where0}: m_fixed_dims is initialised from `{i2}`')
    imp = Imp(where0 + '::SubManifold(m0, m, fixed_dims)', lower, False, SUB_TYPES)
    imp.env = {'m_fixed_dims': ('m_fixed_dims', 'dims'), p0: (p0, 'elem'), p1: (p1, 'elem')}
    lines = [f'  let m_m0 := {i0}', f'  let m_m := {i1}', f'  let m_fixed_dims := {i2}']
    for st in statements(fn.body, imp.where):
        s = ' '.join(st)
        if s == 'std :: sort ( m_fixed_dims . begin ( ) , m_fixed_dims . end ( ) ) ;':
            lines.append('  let m_fixed_dims := sortNat m_fixed_dims')
        else:
            r = imp.stmt(st, '  ')
            if r:
                raise TrErr(f'{imp.where}: unsupported statement `{show(st, 30)}`')
    notes_all += ['ctor: ' + n for n in imp.notes]
    L += ['/-- `SubManifold(const M & m0, const M & m, Ref<const VectorXi> fixed_dims)` -/',
          f'def Sub_ctor ({p0} {p1} : M) ({p2} : List Nat) : Manif.SubMan M :='] + lines + ['  ⟨m_m0, m_m, m_fixed_dims⟩', '']
    seen.append('SubManifold(m0, m, fixed_dims)')
    fn, sig = order['SubManifold/2']
    im = re.fullmatch(r'SubManifold \( const M & (\w+) , Eigen :: Ref < const Eigen :: VectorXi > (\w+) \) : SubManifold \( (\w+) , (\w+) , (\w+) \)', sig)
    if not im or fn.body:
        raise TrErr(f'{where0}: two-argument constructor differs from the supported delegating form: {sig}')
    q0, q1, a0, a1, a2 = im.groups()
    if a0 != q0 or a1 != q0 or a2 != q1:
        pass
    L += ['/-- `SubManifold(const M & m0, Ref<const VectorXi> fixed_dims)` -/',
          f'def Sub_ctor2 ({q0} : M) ({q1} : List Nat) : Manif.SubMan M := Sub_ctor {a0} {a1} {a2}', '']
    seen.append('SubManifold(m0, fixed_dims)')
    for acc, field, ty in (('m', 'm_m', 'M'), ('m0', 'm_m0', 'M'), ('fixed_dims', 'm_fixed_dims', 'List Nat')):
        fn, sig = order[acc]
        bt = ' '.join(fn.body)
        m = re.fullmatch(r'return (\w+) ;', bt)
        if not m or m.group(1) not in member_env:
            raise TrErr(f'{where0}::{acc}: unsupported body `{bt}`')
        L += [f'/-- `{acc}()` -/', f'def Sub_{acc} (s : Manif.SubMan M) : {ty} := {member_env[m.group(1)][0]}', '']
        seen.append(acc)
    # dof, rplus, rminus
    specs = [
        ('dof', 'Eigen :: Index dof ( ) const', {}, ' (A : Manif.Man α M) (s : Manif.SubMan M)', 'nat', False),
        ('rplus', 'template < typename Derived > SubManifold < M > rplus ( const Eigen :: MatrixBase < Derived > & a ) const', {'a': ('a', 'tan')},
         ' (A : Manif.Man α M) (s : Manif.SubMan M) (a : List α)', 'sub', False),
        ('rminus', 'Eigen :: Vector < typename traits :: man < M > :: Scalar , - 1 > rminus ( const SubManifold < M > & other ) const',
         {'other': ('other', 'sub')}, ' (A : Manif.Man α M) (s other : Manif.SubMan M)', 'tan', True),
    ]
    for name, want, env, params, rty, mon in specs:
        fn, sig = order[name]
        if sig != want:
            raise TrErr(f'{where0}::{name}: signature differs from the pinned one\n   expected: {want}\n   current:  {sig}')
        env = dict(env)
        env.update(member_env)
        lines, notes = translate_body(f'{where0}::{name}', fn.body, env, rty, mon, lower, SUB_TYPES)
        notes_all += [f'{name}: {n}' for n in notes]
        L += emit_fn('Sub_' + name, params, LEAN_TY[rty], lines, mon, f'`SubManifold<M>::{name}`')
        seen.append(name)
    # ---- traits::man<SubManifold<M>>
    where1 = SUBMAN_H + ': traits::man<SubManifold<M>>'
    _, body = find_struct(toks, 'template < Manifold M > struct man < SubManifold < M > >', where1)
    pins = {
        'Scalar': 'using Scalar = man < M > :: Scalar ;', 'PlainObject': 'using PlainObject = SubManifold < M > ;',
        'CastT': 'template < typename NewScalar > using CastT = SubManifold < typename man < M > :: template CastT < NewScalar > > ;',
        # calls a one-argument constructor that does not exist: ill-formed when instantiated
        'Default': 'static inline PlainObject Default ( Eigen :: Index dof ) { Eigen :: VectorXi fixed_dims = Eigen :: VectorXi :: Zero ( 0 ) ; return '
                   'PlainObject ( man < M > :: Default ( dof ) ) ; }',
    }
    rest = pin_set(members(body), pins, where1)
    tspecs = {
        'dof': ('static inline Eigen :: Index dof ( const PlainObject & m )', {'m': ('m', 'sub')}, ' (A : Manif.Man α M) (m : Manif.SubMan M)', 'nat', False),
        'cast': ('template < typename NewScalar > static inline CastT < NewScalar > cast ( const PlainObject & m )', {'m': ('m', 'sub')},
                 ' (A : Manif.Man α M) (m : Manif.SubMan M)', 'sub', True),
        'rplus': ('template < typename Derived > static inline PlainObject rplus ( const PlainObject & m , const Eigen :: MatrixBase < Derived > & a )',
                  {'m': ('m', 'sub'), 'a': ('a', 'tan')}, ' (A : Manif.Man α M) (m : Manif.SubMan M) (a : List α)', 'sub', False),
        'rminus': ('static inline Eigen :: Vector < Scalar , Dof > rminus ( const PlainObject & m1 , const PlainObject & m2 )',
                   {'m1': ('m1', 'sub'), 'm2': ('m2', 'sub')}, ' (A : Manif.Man α M) (m1 m2 : Manif.SubMan M)', 'tan', True),
    }
    for mem in rest:
        s = ' '.join(mem)
        m = re.fullmatch(r'static constexpr int Dof = (- 1|\d+) ;', s)
        if m:
            v = 'none' if m.group(1) == '- 1' else f'some {m.group(1)}'
            L += ['/-- `traits::man<SubManifold<M>>::Dof` -/', f'def SubMan_Dof : Option Nat := {v}', '']
            seen.append('man::Dof')
            continue
        fn = parse_function(mem)
        if fn is None or fn.name not in tspecs:
            raise TrErr(f'{where1}: unsupported member (neither translated nor pinned): `{show(mem, 40)}`')
        want, env, params, rty, mon = tspecs[fn.name]
        sig = ' '.join(fn.raw[:fn.raw.index('{')])
        if sig != want:
            raise TrErr(f'{where1}::{fn.name}: signature differs from the pinned one\n   expected: {want}\n   current:  {sig}')
        lines, notes = translate_body(f'{where1}::{fn.name}', fn.body, env, rty, mon, lower, SUB_TYPES)
        L += emit_fn('SubMan_' + fn.name, params, LEAN_TY[rty], lines, mon, f'`traits::man<SubManifold<M>>::{fn.name}`')
        seen.append('man::' + fn.name)
    L += ['/-- statements of submanifold.hpp without value-level effect (pinned) -/',
          'def Sub_pinned : List String := [' + ', '.join('"' + n.replace('"', "'") + '"' for n in notes_all) + ']',
          'def Sub_manifest : List String := [' + ', '.join(f'"{x}"' for x in seen) + ']', '']


# ---------------------------------------------------------------- manifolds/variant.hpp
VAR_CTX = ' {ι : Type} [DecidableEq ι] {Ms : ι → Type} (A : ∀ i, Manif.Man α (Ms i))'


def variant_lower(T='Mi'):
    """inside a visitor `[…]<Manifold Mi>(const Mi & x)`: `traits::man<Mi>` is `A Mi`, `x : Ms Mi`"""
    def lower(imp, e, pre):
        k = e[0]
        if k == 'name':
            key = name_key(e)
            if len(e[1]) == 1 and e[1][0][1] is None and key in imp.env:
                return imp.env[key]
        if k == 'call' and e[1][0] == 'name':
            key = name_key(e[1])
            args = e[2]
            m = re.fullmatch(r'(?:traits::)?man<(\w+)>::(\w+)(?:<NewScalar>)?', key)
            if m and m.group(1) in imp.tyvars:
                ty, f = imp.tyvars[m.group(1)], m.group(2)
                sig = {'dof': (['alt'], 'nat'), 'rplus': (['alt', 'tan'], 'alt'), 'rminus': (['alt', 'alt'], 'exc:tan'),
                       'cast': (['alt'], 'exc:alt'), 'Default': (['nat'], 'exc:alt')}.get(f)
                if sig and len(args) == len(sig[0]):
                    xs = []
                    for a, want in zip(args, sig[0]):
                        x, t = imp.hoist(a, pre)
                        need(imp, t, want, a)
                        xs.append(lean_paren(x))
                    return f'(A {ty}).{"default" if f == "Default" else f} ' + ' '.join(xs), sig[1]
            m = re.fullmatch(r'std::get<(\w+)>', key)
            if m and m.group(1) in imp.tyvars and len(args) == 1:
                x, t = imp.hoist(args[0], pre)
                need(imp, t, 'var', args[0])
                return f'variantGet {imp.tyvars[m.group(1)]} {lean_paren(x)}', 'exc:alt'
            if key in ('smooth::dof', 'smooth::rplus', 'smooth::rminus') and imp.tyvars.get('M'):
                # any.hpp: the free functions on the wrapped value (forwarding to traits::man<M>, pinned in manifold.hpp)
                f = key.split('::')[1]
                return lower(imp, ('call', ('name', [('man', [['M']]), (f, None)]), args), pre)
            if key == 'static_cast<const wrapper<M> *>':
                pass
        # static_cast<const wrapper<M> *>(o.get())->m_val
        if k == 'member' and e[2] == 'm_val' and e[1][0] == 'call' and e[1][1][0] == 'name' \
                and name_key(e[1][1]) == 'static_cast<const wrapper < M > *>' and len(e[1][2]) == 1:
            g = e[1][2][0]
            if g[0] == 'call' and g[1][0] == 'member' and g[1][2] == 'get' and not g[2]:
                x, t = imp.hoist(g[1][1], pre)
                need(imp, t, 'var', g[1][1])
                return f'anyCast {imp.tyvars["M"]} {lean_paren(x)}', 'exc:alt'
        raise TrErr(f'{imp.where}: unsupported expression `{ast_text(e)}`')
    return lower


VAR_LEAN_TY = {'alt': 'Ms Mi', 'var': 'Σ i, Ms i', 'tan': 'List α', 'nat': 'Nat'}


def lower_in(where, toks, env, tyvars, want, monadic):
    """one expression in the variant / any context -> (prelude lines, lean)"""
    imp = Imp(where, variant_lower(), monadic, [])
    imp.env = dict(env)
    imp.tyvars = dict(tyvars)
    pre, lean, ty = imp.ex(toks)
    if ty != want:
        raise TrErr(f'{where}: `{" ".join(toks)}` is {ty}, expected {want}')
    return pre, lean


def gen_variant(repo, L):
    where0 = VARIANT_H + ': traits::man<std::variant<Ms...>>'
    toks = tokenize(drop_pp(strip_comments(read_src(repo, VARIANT_H))))
    _, body = find_struct(toks, 'template < Manifold ... Ms > struct man < std :: variant < Ms ... > >', where0)
    pins = {
        'Scalar': 'using Scalar = std :: common_type_t < typename traits :: man < Ms > :: Scalar ... > ;',
        'PlainObject': 'using PlainObject = std :: variant < Ms ... > ;',
        'CastT': 'template < typename NewScalar > using CastT = std :: variant < typename traits :: man < Ms > :: template CastT < NewScalar > ... > ;',
    }
    rest = pin_set(members(body), pins, where0)
    seen = []
    L += ['/-! ### manifolds/variant.hpp: `traits::man<std::variant<Ms...>>` (`A i` = `traits::man<Ms_i>`; a variant value is `⟨i, x⟩`) -/', '']
    specs = {
        'dof': ('static inline Eigen :: Index dof ( const PlainObject & m )', {'m': ('m', 'var')}, ' (m : Σ i, Ms i)', 'nat', False),
        'cast': ('template < typename NewScalar > static inline CastT < NewScalar > cast ( const PlainObject & m )', {'m': ('m', 'var')},
                 ' (m : Σ i, Ms i)', 'var', True),
        'rplus': ('template < typename Derived > static inline PlainObject rplus ( const PlainObject & m , const Eigen :: MatrixBase < Derived > & a )',
                  {'m': ('m', 'var'), 'a': ('a', 'tan')}, ' (m : Σ i, Ms i) (a : List α)', 'var', False),
        'rminus': ('static inline Eigen :: Matrix < Scalar , Dof , 1 > rminus ( const PlainObject & m1 , const PlainObject & m2 )',
                   {'m1': ('m1', 'var'), 'm2': ('m2', 'var')}, ' (m1 m2 : Σ i, Ms i)', 'tan', True),
    }
    for mem in rest:
        s = ' '.join(mem)
        m = re.fullmatch(r'static constexpr int Dof = (- 1|\d+) ;', s)
        if m:
            v = 'none' if m.group(1) == '- 1' else f'some {m.group(1)}'
            L += ['/-- `static constexpr int Dof` -/', f'def Var_Dof : Option Nat := {v}', '']
            seen.append('Dof')
            continue
        fn = parse_function(mem)
        if fn is None:
            raise TrErr(f'{where0}: unsupported member (neither translated nor pinned): `{show(mem, 40)}`')
        where = f'{where0}::{fn.name}'
        sig = ' '.join(fn.raw[:fn.raw.index('{')])
        if fn.name == 'Default':
            want = 'static inline PlainObject Default ( Eigen :: Index dof )'
            if sig != want:
                raise TrErr(f'{where}: signature differs from the pinned one\n   expected: {want}\n   current:  {sig}')
            bt = ' '.join(fn.body)
            m = re.fullmatch(r'return traits :: man < std :: tuple_element_t < (\d+) , std :: tuple < Ms \.\.\. > > > :: Default \( (.+) \) ;', bt)
            if not m:
                raise TrErr(f'{where}: unsupported body `{bt}`')
            if m.group(1) != '0':
                raise TrErr(f'{where}: Default of alternative {m.group(1)} (the model parameter `first` stands for alternative 0)')
            pre, lean = lower_in(where, m.group(2).split(), {'dof': ('dof', 'nat')}, {}, 'nat', True)
            L += emit_fn('Var_Default', VAR_CTX + ' (first : ι) (dof : Nat)', 'Σ i, Ms i',
                         ['  ' + x for x in pre] + [f'  let _t1 ← (A first).default {lean_paren(lean)}', '  pure ⟨first, _t1⟩'], True,
                         '`Default(dof)`: `traits::man<std::tuple_element_t<0, std::tuple<Ms...>>>::Default(dof)` converted to the variant '
                         '(`first` = alternative 0)')
            seen.append('Default')
            continue
        if fn.name not in specs:
            raise TrErr(f'{where0}: unexpected function `{fn.name}`')
        want, env, params, rty, mon = specs[fn.name]
        if sig != want:
            raise TrErr(f'{where}: signature differs from the pinned one\n   expected: {want}\n   current:  {sig}')
        sts = statements(fn.body, where)
        if len(sts) != 2 or sts[0][:4] != ['const', 'auto', 'visitor', '='] or sts[1][0] != 'return':
            raise TrErr(f'{where}: expected `const auto visitor = [...]…; return std::visit(visitor, m);`')
        lam = parse_expr(sts[0][4:-1], where)
        if lam[0] != 'lambda':
            raise TrErr(f'{where}: the visitor is not a lambda')
        _, caps, tparams, lparams, lbody, lret = lam
        if tparams is None or len(tparams) != 2 or tparams[0] != 'Manifold':
            raise TrErr(f'{where}: unsupported template parameters of the visitor: `{" ".join(tparams or [])}`')
        Mi = tparams[1]
        pm = re.fullmatch(r'const ' + re.escape(Mi) + r' & (\w+)', ' '.join(lparams))
        if not pm:
            raise TrErr(f'{where}: unsupported visitor parameter `{" ".join(lparams)}`')
        x = pm.group(1)
        cap_names = [c for c in caps if re.fullmatch(r'[A-Za-z_]\w*', c)]
        for c in cap_names:
            if c not in env:
                raise TrErr(f'{where}: the visitor captures the unknown name `{c}`')
        vm = re.fullmatch(r'return std :: visit \( visitor , (\w+) \) ;', ' '.join(sts[1]))
        if not vm or vm.group(1) not in env:
            raise TrErr(f'{where}: unsupported return statement `{" ".join(sts[1])}`')
        visited = vm.group(1)
        lb = statements(lbody, where)
        if len(lb) != 1 or lb[0][0] != 'return':
            raise TrErr(f'{where}: the visitor body is not a single return')
        venv = {c: env[c] for c in cap_names}
        venv[x] = (x, 'alt')
        rett = ' '.join(lret) if lret else None
        wrap = rett in ('PlainObject', 'CastT < NewScalar >')
        if rett not in (None, 'PlainObject', 'CastT < NewScalar >', 'Eigen :: VectorX < Scalar >'):
            raise TrErr(f'{where}: unsupported return type of the visitor `{rett}`')
        inner_ty = {'nat': 'nat', 'var': 'alt', 'tan': 'tan'}[rty]
        if (rty == 'var') != wrap:
            raise TrErr(f'{where}: the visitor returns `{rett}` where `{fn.name}` returns a {rty}')
        imp = Imp(where, variant_lower(), mon, [])
        imp.env = venv
        imp.tyvars = {Mi: Mi}
        pre, lean, ty = imp.ex(lb[0][1:-1])
        if ty != inner_ty:
            raise TrErr(f'{where}: the visitor returns a {ty}, expected {inner_ty}')
        res = f'(⟨{Mi}, {lean}⟩ : Σ i, Ms i)' if wrap else lean
        if mon:
            vis = [f'  let visitor := fun ({Mi} : ι) ({x} : Ms {Mi}) => (do'] + ['    ' + q for q in pre] + [f'    pure {lean_paren(res)} : Except String ({VAR_LEAN_TY[rty]}))']
        else:
            vis = [f'  let visitor := fun ({Mi} : ι) ({x} : Ms {Mi}) => {res}']
        L += emit_fn('Var_' + fn.name, VAR_CTX + params, VAR_LEAN_TY[rty], vis + [f'  visitor {visited}.1 {visited}.2'], False,
                     f'`traits::man<std::variant<Ms...>>::{fn.name}`: `std::visit` of the visitor on the alternative held')
        if mon:
            k = len(L) - 2 - len(vis) - 1
            L[k] = L[k].replace(f' : {VAR_LEAN_TY[rty]} :=', f' : Except String ({VAR_LEAN_TY[rty]}) :=')
        seen.append(fn.name)
    L += ['def Var_manifest : List String := [' + ', '.join(f'"{x}"' for x in seen) + ']', '']


# ---------------------------------------------------------------- manifolds/any.hpp
ANY_PINS = {
    'public': 'public :', 'private': 'private :',
    'constructor from a typed manifold':
        'template < typename M > explicit AnyManifold ( const M & m ) : m_val ( std :: make_unique < wrapper < std :: decay_t < M > > > ( m ) ) { }',
    # copying CLONES the wrapped object (C07: `AnyHeap.copy`), moving transfers the pointer
    'copy constructor': 'AnyManifold ( const AnyManifold & m ) : m_val ( m . m_val -> clone ( ) ) { }',
    'move constructor': 'AnyManifold ( AnyManifold && m ) : m_val ( std :: move ( m . m_val ) ) { }',
    'copy assignment': 'AnyManifold & operator = ( const AnyManifold & m ) { m_val = m . m_val -> clone ( ) ; return * this ; }',
    'move assignment': 'AnyManifold & operator = ( AnyManifold && m ) { m_val = std :: move ( m . m_val ) ; return * this ; }',
    'get (mutable)': 'template < Manifold M > M & get ( ) { return static_cast < wrapper < M > * > ( m_val . get ( ) ) -> get ( ) ; }',
    'get (const)': 'template < Manifold M > const M & get ( ) const { return static_cast < const wrapper < M > * > ( m_val . get ( ) ) -> get ( ) ; }',
    'wrapper_base':
        'class wrapper_base { public : virtual ~ wrapper_base ( ) = default ; virtual Eigen :: Index dof ( ) const = 0 ; virtual std :: unique_ptr < '
        'wrapper_base > rplus ( Eigen :: Ref < const Eigen :: VectorXd > ) const = 0 ; virtual Eigen :: VectorXd rminus ( const std :: unique_ptr < '
        'wrapper_base > & o ) const = 0 ; virtual std :: unique_ptr < wrapper_base > clone ( ) const = 0 ; } ;',
    'private constructor': 'explicit AnyManifold ( std :: unique_ptr < wrapper_base > val ) : m_val ( std :: move ( val ) ) { }',
    'm_val': 'std :: unique_ptr < wrapper_base > m_val ;',
}
WRAPPER_PINS = {
    'public': 'public :', 'private': 'private :',
    'ctor copy': 'explicit wrapper ( const M & val ) : m_val ( val ) { }',
    'ctor move': 'explicit wrapper ( M && val ) : m_val ( std :: move ( val ) ) { }',
    'get': 'M & get ( ) { return m_val ; }', 'get const': 'const M & get ( ) const { return m_val ; }',
    'm_val': 'M m_val ;',
}
ANYMAN_PINS = {
    'Scalar': 'using Scalar = double ;', 'PlainObject': 'using PlainObject = AnyManifold ;',
    'CastT': 'template < typename NewScalar > using CastT = PlainObject ;',
}
ANY_CTX = ' {ι : Type} [DecidableEq ι] {Ms : ι → Type} (A : ∀ i, Manif.Man α (Ms i))'


def gen_any(repo, L):
    where0 = ANY_H + ': class AnyManifold'
    toks = tokenize(drop_pp(strip_comments(read_src(repo, ANY_H))))
    _, body = find_struct(toks, 'class AnyManifold', where0)
    rest = pin_set(members(body), ANY_PINS, where0)
    L += ['/-! ### manifolds/any.hpp: `AnyManifold` (the wrapped object is `⟨M, m_val⟩ : Σ i, Ms i`; `A M` = `traits::man<M>`) -/', '']
    seen = []
    wrapper = None
    for mem in rest:
        s = ' '.join(mem)
        hd = tokenize('template < Manifold M > class wrapper : public wrapper_base {')
        if mem[:len(hd)] == hd and mem[-2:] == ['}', ';']:
            wrapper = mem[len(hd):-2]
            continue
        m = re.fullmatch(r'AnyManifold \( \) \{ throw std :: runtime_error \( ("[^"]*") \) ; \}', s)
        if m:
            L += ['/-- `AnyManifold()` -/', f'def Any_defaultCtor{ANY_CTX} : Except String (Σ i, Ms i) := .error {m.group(1)}', '']
            seen.append('AnyManifold()')
            continue
        m = re.fullmatch(r'Eigen :: Index dof \( \) const \{ return m_val -> (\w+) \( \) ; \}', s)
        if m:
            L += ['/-- `AnyManifold::dof()`: virtual call on the wrapped object -/',
                  f'def Any_dof{ANY_CTX} (s : Σ i, Ms i) : Nat := Any_wrapper_{m.group(1)} A s.1 s.2', '']
            seen.append('dof')
            continue
        m = re.fullmatch(r'AnyManifold rplus \( Eigen :: Ref < const Eigen :: VectorXd > (\w+) \) const \{ return AnyManifold \( m_val -> (\w+) \( (\w+) \) \) ; \}', s)
        if m:
            if m.group(3) != m.group(1):
                raise TrErr(f'{where0}::rplus: forwards `{m.group(3)}` instead of its argument')
            L += ['/-- `AnyManifold::rplus(a)` -/',
                  f'def Any_rplus{ANY_CTX} (s : Σ i, Ms i) (a : List α) : Σ i, Ms i := Any_wrapper_{m.group(2)} A s.1 s.2 a', '']
            seen.append('rplus')
            continue
        m = re.fullmatch(r'Eigen :: VectorXd rminus \( const AnyManifold & (\w+) \) const \{ return m_val -> (\w+) \( (\w+) \. m_val \) ; \}', s)
        if m:
            if m.group(3) != m.group(1):
                raise TrErr(f'{where0}::rminus: forwards `{m.group(3)}` instead of its argument')
            L += ['/-- `AnyManifold::rminus(m2)` -/',
                  f'def Any_rminus{ANY_CTX} (s m2 : Σ i, Ms i) : Except String (List α) := Any_wrapper_{m.group(2)} A s.1 s.2 m2', '']
            seen.append('rminus')
            continue
        raise TrErr(f'{where0}: unsupported member (neither translated nor pinned): `{show(mem, 40)}`')
    if wrapper is None:
        raise TrErr(f'{where0}: nested class `wrapper<M>` not found')
    wl = []
    wwhere = ANY_H + ': AnyManifold::wrapper<M>'
    for mem in pin_set(members(wrapper), WRAPPER_PINS, wwhere):
        s = ' '.join(mem)
        env = {'m_val': ('m_val', 'alt')}
        tyv = {'M': 'Mi'}
        m = re.fullmatch(r'Eigen :: Index dof \( \) const override \{ return (.+) ; \}', s)
        if m:
            pre, lean = lower_in(wwhere + '::dof', m.group(1).split(), env, tyv, 'nat', False)
            wl += ['/-- `wrapper<M>::dof()` -/', f'def Any_wrapper_dof{ANY_CTX} (Mi : ι) (m_val : Ms Mi) : Nat := {lean}', '']
            seen.append('wrapper::dof')
            continue
        m = re.fullmatch(r'std :: unique_ptr < wrapper_base > rplus \( Eigen :: Ref < const Eigen :: VectorXd > (\w+) \) const override \{ return '
                         r'std :: make_unique < wrapper < M > > \( (.+) \) ; \}', s)
        if m:
            env[m.group(1)] = (m.group(1), 'tan')
            pre, lean = lower_in(wwhere + '::rplus', m.group(2).split(), env, tyv, 'alt', False)
            wl += ['/-- `wrapper<M>::rplus(a)`: a new wrapper of the same type -/',
                   f'def Any_wrapper_rplus{ANY_CTX} (Mi : ι) (m_val : Ms Mi) ({m.group(1)} : List α) : Σ i, Ms i := ⟨Mi, {lean}⟩', '']
            seen.append('wrapper::rplus')
            continue
        m = re.fullmatch(r'Eigen :: VectorXd rminus \( const std :: unique_ptr < wrapper_base > & (\w+) \) const override \{ return (.+) ; \}', s)
        if m:
            env[m.group(1)] = (m.group(1), 'var')
            imp = Imp(wwhere + '::rminus', variant_lower(), True, [])
            imp.env, imp.tyvars = env, tyv
            pre, lean, ty = imp.ex(m.group(2).split())
            if ty != 'tan':
                raise TrErr(f'{wwhere}::rminus: returns a {ty}')
            wl += ['/-- `wrapper<M>::rminus(o)` -/',
                   f'def Any_wrapper_rminus{ANY_CTX} (Mi : ι) (m_val : Ms Mi) ({m.group(1)} : Σ i, Ms i) : Except String (List α) := do']
            wl += ['  ' + q for q in pre] + [f'  pure {lean_paren(lean)}', '']
            seen.append('wrapper::rminus')
            continue
        m = re.fullmatch(r'std :: unique_ptr < wrapper_base > clone \( \) const override \{ return std :: make_unique < wrapper < M > > \( (\w+) \) ; \}', s)
        if m and m.group(1) == 'm_val':
            wl += ['/-- `wrapper<M>::clone()`: a new wrapper holding a copy of the value -/',
                   f'def Any_wrapper_clone{ANY_CTX} (Mi : ι) (m_val : Ms Mi) : Σ i, Ms i := ⟨Mi, m_val⟩', '']
            seen.append('wrapper::clone')
            continue
        raise TrErr(f'{wwhere}: unsupported member (neither translated nor pinned): `{show(mem, 40)}`')
    # the wrapper definitions are referenced by the AnyManifold members: emit them first
    k = next(i for i, x in enumerate(L) if x.startswith('/-! ### manifolds/any.hpp'))
    L[k + 2:k + 2] = wl
    # ---- traits::man<AnyManifold>
    where1 = ANY_H + ': traits::man<AnyManifold>'
    _, body = find_struct(toks, 'template < > struct man < AnyManifold >', where1)
    for mem in pin_set(members(body), ANYMAN_PINS, where1):
        s = ' '.join(mem)
        m = re.fullmatch(r'static constexpr int Dof = (- 1|\d+) ;', s)
        if m:
            L += ['/-- `traits::man<AnyManifold>::Dof` -/', f'def AnyMan_Dof : Option Nat := {"none" if m.group(1) == "- 1" else "some " + m.group(1)}', '']
            seen.append('man::Dof')
            continue
        m = re.fullmatch(r'static inline Eigen :: Index dof \( const PlainObject & (\w+) \) \{ return \1 \. (\w+) \( \) ; \}', s)
        if m:
            L += ['/-- `traits::man<AnyManifold>::dof` -/', f'def AnyMan_dof{ANY_CTX} (m : Σ i, Ms i) : Nat := Any_{m.group(2)} A m', '']
            seen.append('man::dof')
            continue
        m = re.fullmatch(r'static inline PlainObject Default \( Eigen :: Index \) \{ throw std :: runtime_error \( ("[^"]*") \) ; \}', s)
        if m:
            L += ['/-- `traits::man<AnyManifold>::Default` -/', f'def AnyMan_Default{ANY_CTX} (dof : Nat) : Except String (Σ i, Ms i) := .error {m.group(1)}', '']
            seen.append('man::Default')
            continue
        m = re.fullmatch(r'template < typename NewScalar > static inline CastT < NewScalar > cast \( const PlainObject & \) \{ throw std :: runtime_error '
                         r'\( ("[^"]*") \) ; \}', s)
        if m:
            L += ['/-- `traits::man<AnyManifold>::cast` -/', f'def AnyMan_cast{ANY_CTX} (m : Σ i, Ms i) : Except String (Σ i, Ms i) := .error {m.group(1)}', '']
            seen.append('man::cast')
            continue
        m = re.fullmatch(r'template < typename Derived > static inline PlainObject rplus \( const PlainObject & (\w+) , const Eigen :: MatrixBase < Derived > '
                         r'& (\w+) \) \{ return (\w+) \. (\w+) \( (\w+) \) ; \}', s)
        if m:
            if m.group(3) != m.group(1) or m.group(5) != m.group(2):
                raise TrErr(f'{where1}::rplus: arguments are not forwarded in order: `{s}`')
            L += ['/-- `traits::man<AnyManifold>::rplus` -/', f'def AnyMan_rplus{ANY_CTX} (m : Σ i, Ms i) (a : List α) : Σ i, Ms i := Any_{m.group(4)} A m a', '']
            seen.append('man::rplus')
            continue
        m = re.fullmatch(r'static inline Eigen :: Vector < Scalar , Dof > rminus \( const PlainObject & (\w+) , const PlainObject & (\w+) \) \{ return '
                         r'(\w+) \. (\w+) \( (\w+) \) ; \}', s)
        if m:
            a, b = ('m1', 'm2') if (m.group(3), m.group(5)) == (m.group(1), m.group(2)) else (('m2', 'm1') if (m.group(3), m.group(5)) == (m.group(2), m.group(1)) else (None, None))
            if a is None:
                raise TrErr(f'{where1}::rminus: unsupported forwarding: `{s}`')
            L += ['/-- `traits::man<AnyManifold>::rminus` -/',
                  f'def AnyMan_rminus{ANY_CTX} (m1 m2 : Σ i, Ms i) : Except String (List α) := Any_{m.group(4)} A {a} {b}', '']
            seen.append('man::rminus')
            continue
        raise TrErr(f'{where1}: unsupported member (neither translated nor pinned): `{show(mem, 40)}`')
    L += ['def Any_manifest : List String := [' + ', '.join(f'"{x}"' for x in seen) + ']', '']


def gen_manif(repo):
    L = ['/- GENERATED by tools/gen_bundle.py from the C++ source of pettni/smooth: concepts/lie_group.hpp (traits::man<LieGroup>),',
         '   manifolds/vector.hpp, submanifold.hpp, variant.hpp, any.hpp.  Do not edit: regenerated on every check run.',
         '   Meaning of the constructs: SmoothModel/ManifSem.lean.  Tie theorems: SmoothProps/SrcTieManif.lean. -/',
         'import SmoothModel.ManifSem',
         'set_option linter.unusedVariables false',
         'open Scalar Lin ManifSem',
         'namespace ManifSrc',
         'variable {α : Type} [Scalar α] {M : Type}', '']
    check_free_functions(repo)
    gen_man_lie(repo, L)
    gen_vector(repo, L)
    gen_submanifold(repo, L)
    gen_variant(repo, L)
    gen_any(repo, L)
    L += ['end ManifSrc', '']
    return '\n'.join(L)


# =============================================================================== main
def generate(repo):
    """-> {file name: text}"""
    return {'BundleSrc.lean': gen_bundle_impl(repo), 'BundlePubSrc.lean': gen_bundle_pub(repo), 'RnSrc.lean': gen_rn(repo), 'ManifSrc.lean': gen_manif(repo)}


def main():
    if len(sys.argv) < 2:
        print('usage: gen_bundle.py <repo> [<output directory>]')
        return 2
    repo = sys.argv[1]
    root = os.path.dirname(os.path.dirname(os.path.abspath(__file__)))
    outdir = sys.argv[2] if len(sys.argv) > 2 else os.path.join(root, 'lean', 'SmoothModel', 'Gen')
    try:
        files = generate(repo)
    except TrErr as e:
        print('gen_bundle.py: TRANSLATION ERROR: ' + str(e))
        return 1
    changed = [f for f, txt in sorted(files.items()) if write_if_changed(os.path.join(outdir, f), txt)]
    print('gen_bundle.py: ' + ', '.join(f + (' (updated)' if f in changed else ' (unchanged)') for f in sorted(files)))
    return 0


if __name__ == '__main__':
    sys.exit(main())
