"""C17 — relations and conversions between groups (harness/conv.cpp, Driver/OpsConv.lean).

T1: every conversion and every paired op (SE_K_3<1> vs SE3, SE_K_3<2> vs Galilei at tau = 0) is
compared with the executable Lean model (SmoothModel/Convert.lean) at 0 ulp (scalar coefficient functions) / 16 ulp (algebraic ops; measured <= 4).  Ops that go through
Eigen's `eulerAngles` / `Quaternion(Matrix3)` are not modelled: their smooth-side glue is compared
(derived lines `conv_se3_iso_glue`, `conv_of_euler`) and their contract is audited.

Audit (on the IMPLEMENTATION's outputs): exact rational rotation / homogeneous matrices in the
driver (`conv_a_*`), ranges of the three angle functions on the implementation's own doubles/floats,
bitwise coefficient permutations, agreement of the paired halves.
"""
import math, os, struct, sys
sys.path.insert(0, os.path.dirname(os.path.dirname(__file__)))
import vlib
from vlib import Line, dec, enc, EPS

TOL = {'f64': 1e-12, 'f32': 1e-5}
# exp of SE_K_3<2> (Ad(q)·dr_exp(w)·v) and of Galilei (S1(w)·b) are different closed forms of the same
# map: their agreement cannot be asked beyond the accuracy C02 asks of each (1e-9 / 1e-3)
TOL_EXP = {'f64': 1e-9, 'f32': 1e-3}
PAIR_ULP = 4.0
PI = {'f64': math.pi, 'f32': struct.unpack('>f', struct.pack('>f', math.pi))[0]}   # Scalar(M_PI)

NO_T1 = {'conv_se3_iso_ctor', 'conv_se3_iso_rt', 'conv_euler', 'conv_euler_xyz'}
# constructors from parts, construction / assignment between value, Map and Map<const> storage, quat() write access
# (API-coverage unit, DESIGN 8.10): pure coefficient moves, compared at 0 ulp and audited bit for bit
CTOR_OPS = ('conv_se2_parts_ctor', 'conv_se2_parts_ctor_map', 'conv_se3_parts_ctor', 'conv_se3_parts_ctor_map', 'conv_gal_parts_ctor',
            'conv_gal_parts_ctor_dflt', 'conv_sek2_parts_ctor', 'conv_bundle_parts_ctor', 'conv_so3_quat_write')
COPY_KINDS = ('map', 'cmap', 'asgmap', 'asgcmap', 'mapasg', 'mapasgcmap', 'mapasgmap', 'mapcopy')
COPY_GROUPS = ('SO2', 'SO3', 'SE2', 'SE3', 'C1', 'GAL', 'SEK2', 'B')
COPY_OPS = tuple(f'conv_copy_{k}_{g}' for k in COPY_KINDS for g in COPY_GROUPS)


def ctor_expected(op, ins, prec):
    """the documented memory layout of the constructed element, as a permutation of the input words"""
    if op.startswith('conv_se2_parts_ctor'):
        return [ins[2], ins[3], ins[0], ins[1]]                    # (x, y, qz, qw)
    if op.startswith('conv_se3_parts_ctor'):
        return ins[4:7] + ins[0:4]                                 # (t, q)
    if op == 'conv_gal_parts_ctor':
        return ins[4:11] + ins[0:4]                                # (v, p, t, q)
    if op == 'conv_gal_parts_ctor_dflt':
        return ins[4:10] + [enc(0.0, prec)] + ins[0:4]             # default time 0
    if op == 'conv_sek2_parts_ctor':
        return ins[4:10] + ins[0:4]                                # (p1, p2, q)
    if op == 'conv_bundle_parts_ctor':
        return list(ins)                                           # parts in order
    if op == 'conv_so3_quat_write':
        return [ins[1], ins[2], ins[3], ins[0]]                    # Eigen stores (x, y, z, w)
    return None
EXACT_OPS = ('conv_angle', 'conv_angle_cw', 'conv_angle_ccw', 'conv_u1', 'conv_unit_complex', 'conv_c1_c1',
             'conv_c1_complex_ctor', 'conv_so3_quat', 'conv_so2_ctor', 'conv_so2_complex_ctor', 'conv_so2_angle_ctor',
             'conv_c1_scaling', 'conv_c1_angle', 'conv_c1_so2', 'conv_c1_sa_ctor', 'conv_rot_x', 'conv_rot_y', 'conv_rot_z',
             'conv_se2_iso_ctor',
             'conv_p1_identity', 'conv_p1_hat', 'conv_p1_ad', 'conv_p2_identity', 'conv_p2_hat', 'conv_p2_ad') + CTOR_OPS + COPY_OPS
T1_ULP = 16.0      # DESIGN §1.3: algebraic ops (Eigen's kernels may associate sums differently); measured <= 4

PAIR_OPS = ('identity', 'matrix', 'compose', 'inverse', 'log', 'Ad', 'exp', 'hat', 'ad', 'dr_exp', 'dr_expinv')


def zcls(w, prec):
    """coefficient pattern class of a word: '+0', '-0', '<0', '>0', 'nan'"""
    v = dec(w, prec)
    if v != v:
        return 'nan'
    if v == 0:
        return '-0' if int(w, 16) >> (len(w) * 4 - 1) else '+0'
    return '<0' if v < 0 else '>0'


def eT(i):
    return i if i < 6 else i + 1


class C17:
    id = 'C17'
    props_files = ['SmoothProps/C17.lean', 'SmoothProps/SrcTieConv.lean']
    props_module = 'SmoothProps.C17All'
    lean_targets = ['SmoothProps.C17All']
    rule = ('harness/conv.cpp: SO2 coefficient pairs over 34 circle strata (both signed zeros at qw>0 and qw<0, the four '
            'quadrant points with signed zeros, denorm_min/min/epsilon neighbours of the atan2 cuts, sin/cos(+-M_PI), |yaw| '
            'within 1e-12..1e-2 of 0, pi/2, pi, generic) for angle/angle_cw/angle_ccw/u1/lifts/isometries/lift homomorphism; '
            'unnormalised SO2/C1/quaternion constructor inputs with norms 1e-3..1e3, negative and zero w; angles in [-4pi,4pi] '
            'incl. multiples of pi/2 and their neighbours for SO2(angle), rot_x/y/z vs exp(t e_i); SO3/SE3 elements incl. rotation '
            'angle near pi for isometry and Euler round trips (|R20|<0.999); paired ops SE_K_3<1>/SE3 and SE_K_3<2>/Galilei on '
            'the same inputs over 9 rotation-angle strata x 5 translation strata x 11 LieGroupBase ops; both scalar types. '
            'distinct_nontrivial = distinct (op,scalar,stratum,input bits) with a non-zero input')
    assumptions = ['Eigen::eulerAngles and Eigen::Quaternion(Matrix3) are not modelled: their results are audited against exact '
                   'rational rotation matrices (sampling), the smooth-side glue is in the model',
                   'IEEE rounding is audited (sampled), not proved; range bounds use Scalar(M_PI) of the scalar type',
                   'exp agreement of SE_K_3<2> and Galilei (different closed forms) is judged at the exp tolerance of C02']

    # ------------------------------------------------------------------ harness
    def bin(self):
        """harness binary compiled against the CURRENT vlib.REPO/include (content-hash cache)"""
        return vlib.build_harness('conv', 'conv.cpp')

    def prebuild(self):
        """compile the harness against vlib.REPO (called by tools/prebuild.py during setup)"""
        self.bin()

    def gen_lines(self, ctx, n):
        raw = vlib.run_harness(self.bin(), [n], env={'VERIF_SEED': str(ctx['seed'])})
        return vlib.parse_lines(raw)

    def eval_lines(self, requests):
        raw = vlib.run_harness(self.bin(), ['eval'], stdin='\n'.join(requests) + '\n')
        return [Line(r) for r in raw if r.strip() and not r.startswith('SKIP')]

    # ------------------------------------------------------------------ T1
    def t1_lines(self, lines):
        out = []
        for l in lines:
            if l.op == 'conv_se3_iso_ctor' and len(l.outs) == 11:
                out.append(Line(' '.join(['conv_se3_iso_glue', l.grp, l.prec] + l.ins + l.outs[7:11]) + ' | '
                                + ' '.join(l.outs[:7]) + ' # ' + l.tag))
            elif (l.op in ('conv_euler', 'conv_euler_xyz') or l.op.startswith('conv_euler_a')) and len(l.outs) == 7:
                out.append(Line(' '.join(['conv_of_euler' + l.op[10:], l.grp, l.prec] + l.outs[:3]) + ' | ' + ' '.join(l.outs[3:7])
                                + ' # derived'))
            elif l.op not in NO_T1 and not l.op.startswith('conv_euler_a'):
                out.append(l)
        return out

    # ------------------------------------------------------------------ audits
    def find(self, findings, l, kind, err, tol, what, **extra):
        key = {'kind': kind, 'op': l.op, 'prec': l.prec, 'stratum': l.tag}
        key.update(extra)
        findings.append({'property': 'C17', 'key': key, 'err': err, 'tol': tol, 'what': what, 'line': l.raw})

    def audit(self, ctx, lines):
        findings = []
        reqs = []          # (request, line, what, tol, nnorm)
        stats = {'angle_range_checks': 0, 'angle_value_checks': 0, 'congruence_groups': 0, 'bitwise_checks': 0,
                 'pair_checks': 0, 'canon_checks': 0, 'ctor_checks': 0}
        worst = {}
        cut = {}           # coefficient-pattern hits of the angle functions

        def W(k, e):
            if e is not None and e == e:
                worst[k] = max(worst.get(k, 0.0), e)

        def areq(op, l, words, what, tol=None):
            reqs.append((' '.join([op, l.grp, l.prec + 'a'] + words), l, what, tol if tol is not None else TOL[l.prec]))

        def is_unit(vals, prec):
            return abs(sum(v * v for v in vals) - 1.0) <= 8 * EPS[prec]

        def canon(l, w):
            stats['canon_checks'] += 1
            if not (dec(w, l.prec) >= 0):
                self.find(findings, l, 'canon', dec(w, l.prec), 0.0, 'SO3 result outside the canonical hemisphere (q_w < 0)')

        angles = {}
        c1parts = {}
        for l in lines:
            p = l.prec
            tol = TOL[p]
            iv = l.in_vals()
            ov = l.out_vals()
            op = l.op
            if op in ('conv_angle', 'conv_angle_cw', 'conv_angle_ccw'):
                fn = op[5:]
                v = ov[0]
                lo, hi = {'angle': (-PI[p], PI[p]), 'angle_cw': (-2 * PI[p], 0.0), 'angle_ccw': (0.0, 2 * PI[p])}[fn]
                pat = (zcls(l.ins[0], p), zcls(l.ins[1], p))
                ck = f'{fn}|{p}|qz{pat[0]}|qw{pat[1]}'
                cut[ck] = cut.get(ck, 0) + 1
                stats['angle_range_checks'] += 1
                if not (lo <= v <= hi):
                    findings.append({'property': 'C17',
                                     'key': {'kind': 'angle_range', 'fn': fn, 'qz': pat[0], 'qw': pat[1], 'prec': p},
                                     'err': max(lo - v, v - hi) if v == v else None, 'tol': 0.0,
                                     'what': f'SO2::{fn}() = {v!r} outside [{lo!r}, {hi!r}] at (qz, qw) = ({iv[0]!r}, {iv[1]!r})',
                                     'line': l.raw})
                nrm = math.hypot(iv[0], iv[1])
                if nrm > 0 and v == v:
                    stats['angle_value_checks'] += 1
                    e = max(abs(math.sin(v) - iv[0] / nrm), abs(math.cos(v) - iv[1] / nrm))
                    W(f'{fn}_value|{p}', e)
                    if not (e <= tol):
                        self.find(findings, l, 'angle_value', e, tol, f'(sin, cos) of {fn}() differs from (qz, qw)', fn=fn)
                angles.setdefault((p, tuple(l.ins)), {})[fn] = v
            elif op in ('conv_u1', 'conv_unit_complex', 'conv_c1_c1'):
                stats['bitwise_checks'] += 1
                if l.outs != [l.ins[1], l.ins[0]]:
                    self.find(findings, l, 'permutation', None, 0.0, 'complex view is not (re, im) = (coeffs.y, coeffs.x) bit for bit')
            elif op == 'conv_c1_complex_ctor':
                stats['bitwise_checks'] += 1
                if l.outs != [l.ins[1], l.ins[0]]:
                    self.find(findings, l, 'permutation', None, 0.0, 'C1(complex) coefficients are not (im, re) bit for bit')
            elif op == 'conv_so3_quat':
                stats['bitwise_checks'] += 1
                if l.outs != [l.ins[3], l.ins[0], l.ins[1], l.ins[2]]:
                    self.find(findings, l, 'permutation', None, 0.0, 'quat() is not the coefficient vector bit for bit')
            elif op in ('conv_so2_ctor', 'conv_so2_complex_ctor'):
                stats['ctor_checks'] += 1
                qz, qw = (iv[0], iv[1]) if op == 'conv_so2_ctor' else (iv[1], iv[0])
                nrm = math.hypot(qz, qw)
                e = max(abs(ov[0] - qz / nrm), abs(ov[1] - qw / nrm), abs(ov[0] ** 2 + ov[1] ** 2 - 1))
                W(f'{op}|{p}', e)
                if not (e <= tol):
                    self.find(findings, l, 'ctor', e, tol, 'normalising SO2 constructor: result is not input/|input|')
            elif op == 'conv_so2_angle_ctor':
                stats['ctor_checks'] += 1
                e = abs(ov[0] ** 2 + ov[1] ** 2 - 1)
                W(f'{op}|{p}', e)
                if not (e <= tol):
                    self.find(findings, l, 'ctor', e, tol, 'SO2(angle) is not unit')
            elif op == 'conv_so3_quat_ctor':
                areq('conv_a_quat', l, l.ins + l.outs, 'SO3(quaternion): not the rotation of the input / not unit')
                canon(l, l.outs[3])
            elif op == 'conv_lift_so3':
                canon(l, l.outs[3])
                if is_unit(iv, p):
                    areq('conv_a_lift', l, l.ins + l.outs, 'matrix(lift_so3 g) != blockDiag(matrix g, 1)')
            elif op == 'conv_lift_se3':
                canon(l, l.outs[6])
                if is_unit(iv[2:4], p):
                    areq('conv_a_lift_se', l, l.ins + l.outs, 'matrix(lift_se3 g) != embedding of matrix g')
            elif op == 'conv_lift_project_so2':
                if is_unit(iv, p):
                    areq('conv_a_rot2', l, l.ins + l.outs, 'project_so2(lift_so3 g) != g')
            elif op == 'conv_lift_project_se2':
                if is_unit(iv[2:4], p):
                    areq('conv_a_se2', l, l.ins + l.outs, 'project_se2(lift_se3 g) != g')
            elif op == 'conv_project_so2':
                if l.tag == 'planar':
                    areq('conv_a_project', l, l.ins + l.outs, 'lift of project_so2(q) != q for a rotation about z')
                else:
                    e = abs(ov[0] ** 2 + ov[1] ** 2 - 1)
                    W(f'{op}_unit|{p}', e)
                    if not (e <= tol):
                        self.find(findings, l, 'ctor', e, tol, 'project_so2 result is not unit')
            elif op == 'conv_project_se2':
                if l.tag == 'planar':
                    areq('conv_a_project_se', l, l.ins + l.outs, 'lift of project_se2(g) != g for a planar element')
            elif op == 'conv_lift_hom_so2':
                canon(l, l.outs[3]); canon(l, l.outs[7])
                if is_unit(iv[0:2], p) and is_unit(iv[2:4], p):
                    areq('conv_a_rot3', l, l.outs, 'lift_so3(g1 g2) != lift_so3(g1) lift_so3(g2)')
            elif op == 'conv_lift_hom_se2':
                canon(l, l.outs[6]); canon(l, l.outs[13])
                if is_unit(iv[2:4], p) and is_unit(iv[6:8], p):
                    areq('conv_a_se3', l, l.outs, 'lift_se3(g1 g2) != lift_se3(g1) lift_se3(g2)')
            elif op in ('conv_c1_scaling', 'conv_c1_so2', 'conv_c1_angle'):
                c1parts.setdefault((p, tuple(l.ins)), {})[op] = l
                if op == 'conv_c1_scaling' and not (ov[0] > 0) and any(v != 0 for v in iv):
                    self.find(findings, l, 'c1', ov[0], 0.0, 'scaling() not positive for a non-zero element')
                if op == 'conv_c1_angle':
                    nrm = math.hypot(iv[0], iv[1])
                    e = max(abs(math.sin(ov[0]) - iv[0] / nrm), abs(math.cos(ov[0]) - iv[1] / nrm))
                    W(f'{op}|{p}', e)
                    if not (e <= tol and -PI[p] <= ov[0] <= PI[p]):
                        self.find(findings, l, 'c1', e, tol, 'C1::angle() is not the argument of the element')
            elif op == 'conv_c1_refactor':
                sc = max(abs(iv[0]), abs(iv[1]))
                e = max(abs(ov[0] - iv[0]), abs(ov[1] - iv[1])) / sc
                W(f'{op}|{p}', e)
                if not (e <= tol):
                    self.find(findings, l, 'c1', e, tol, 'C1(g.scaling(), g.so2().angle()) != g')
            elif op in ('conv_rot_x', 'conv_rot_y', 'conv_rot_z'):
                canon(l, l.outs[3])
                areq('conv_a_rotexp_' + op[-1], l, l.ins + l.outs, f'matrix(rot_{op[-1]}(t)) != matrix exponential of hat(t e_i)')
            elif op.startswith('conv_rot_exp_'):
                canon(l, l.outs[3]); canon(l, l.outs[7])
                areq('conv_a_rot3', l, l.outs, f'rot_{op[-1]}(t) and exp(t e_i) are different rotations')
                areq('conv_a_rotexp_' + op[-1], l, l.ins + l.outs[4:8], 'matrix(exp(t e_i)) != matrix exponential of hat(t e_i)')
            elif op in ('conv_of_euler', 'conv_of_euler_xyz') or op.startswith('conv_of_euler_a'):
                canon(l, l.outs[3])
            elif op == 'conv_euler':
                canon(l, l.outs[6])
                areq('conv_a_rot3', l, l.ins + l.outs[3:7], 'rot_z(e0) rot_y(e1) rot_x(e2) of eulerAngles() is not the rotation')
            elif op.startswith('conv_euler_a'):
                canon(l, l.outs[6])
                areq('conv_a_rot3', l, l.ins + l.outs[3:7],
                     f'rot_i1(e0) rot_i2(e1) rot_i3(e2) of eulerAngles({op[12]},{op[13]},{op[14]}) is not the rotation')
            elif op == 'conv_euler_xyz':
                canon(l, l.outs[6])
                areq('conv_a_rot3', l, l.ins + l.outs[3:7], 'rot_x(e0) rot_y(e1) rot_z(e2) of eulerAngles(0,1,2) is not the rotation')
            elif op in CTOR_OPS or op in COPY_OPS:
                stats['bitwise_checks'] += 1
                exp = list(l.ins) if op in COPY_OPS else ctor_expected(op, list(l.ins), p)
                if l.outs != exp:
                    self.find(findings, l, 'permutation', None, 0.0,
                              ('coefficients changed on the way through ' + op[10:] if op in COPY_OPS else
                               'constructor from parts does not place its arguments in the documented layout') + ' (bit for bit)')
            elif op == 'conv_se2_isometry':
                if is_unit(iv[2:4], p):
                    areq('conv_a_se2_iso', l, l.ins + l.outs, 'isometry().matrix() != matrix()')
            elif op == 'conv_se2_iso_ctor':
                if is_unit([iv[3], iv[0]], p):      # the input is an isometry only if its linear part is a rotation
                    areq('conv_a_iso_se2', l, l.ins + l.outs, 'matrix(SE2(isometry)) != isometry matrix')
            elif op == 'conv_se2_iso_rt':
                if is_unit(iv[2:4], p):
                    areq('conv_a_se2', l, l.ins + l.outs, 'SE2(g.isometry()) != g')
            elif op == 'conv_se3_isometry':
                areq('conv_a_se3_iso', l, l.ins + l.outs, 'isometry().matrix() != matrix()')
            elif op == 'conv_se3_iso_ctor':
                canon(l, l.outs[6])
                areq('conv_a_iso_se3', l, l.ins + l.outs[:7], 'matrix(SE3(isometry)) != isometry matrix')
            elif op == 'conv_se3_iso_rt':
                canon(l, l.outs[6])
                areq('conv_a_se3', l, l.ins + l.outs, 'SE3(g.isometry()) != g')
            elif op.startswith('conv_p1_') or op.startswith('conv_p2_'):
                self.pair_check(l, findings, stats, W, areq)

        # congruence of the three angle functions modulo 2 pi
        for (p, ins), d in angles.items():
            if len(d) == 3 and all(v == v for v in d.values()):
                stats['congruence_groups'] += 1
                for fn in ('angle_cw', 'angle_ccw'):
                    k = (d[fn] - d['angle']) / (2 * math.pi)
                    e = abs(k - round(k)) * 2 * math.pi
                    W(f'congruence|{p}', e)
                    if not (e <= 8 * TOL[p]):
                        findings.append({'property': 'C17', 'key': {'kind': 'angle_congruence', 'fn': fn, 'prec': p,
                                                                      'qz': zcls(ins[0], p), 'qw': zcls(ins[1], p)},
                                         'err': e, 'tol': 8 * TOL[p], 'what': f'{fn}() not congruent to angle() modulo 2 pi',
                                         'line': ' '.join(['conv_' + fn, 'SO2', p] + list(ins))})
        # C1 factorisation: matrix g = scaling • matrix(so2 g)
        for (p, ins), d in c1parts.items():
            if 'conv_c1_scaling' in d and 'conv_c1_so2' in d:
                l = d['conv_c1_so2']
                areq('conv_a_c1', l, list(ins) + d['conv_c1_scaling'].outs + l.outs, 'matrix(g) != scaling() * matrix(so2())')

        # exact-rational audits in the driver
        samples = []
        n_aud = 0
        if reqs:
            reps = vlib.run_driver([r[0] for r in reqs])
            for (r, l, what, tol), rep in zip(reqs, reps):
                if rep.startswith('ERR'):
                    raise vlib.MachineryError(f'audit op failed: {r[:100]} -> {rep}')
                if rep.startswith('NONFINITE'):
                    self.find(findings, l, 'nonfinite', None, tol, 'non-finite output')
                    continue
                n_aud += 1
                errs = [dec(w, 'f64') for w in rep.split()]
                aop = r.split()[0]
                W(f'{aop}|{l.op}|{l.prec}', errs[0])
                if len(samples) < 8 and n_aud % 211 == 1:
                    samples.append({'request': l.raw[:300], 'audit': aop, 'oracle_error': errs[0], 'tolerance': tol})
                if not (errs[0] <= tol):
                    self.find(findings, l, 'audit', errs[0], tol, what, audit=aop)
                elif aop == 'conv_a_p2' and len(errs) > 1:
                    if errs[1] != 0:
                        self.find(findings, l, 'audit', errs[1], 0.0, 'Galilei result of a tau = 0 computation has tau != 0', audit=aop)
                else:
                    for e in errs[1:]:
                        if not (e <= tol):
                            self.find(findings, l, 'audit', e, tol, 'result not normalised (|q|^2 - 1): ' + what, audit=aop)
        return findings, stats, worst, cut, samples, n_aud

    def pair_check(self, l, findings, stats, W, areq):
        which = l.op[6]
        op = l.op[8:]
        o = l.outs
        p = l.prec
        name = 'SEK1:SE3' if which == '1' else 'SEK2:GAL'
        extra_zero = []
        if which == '1':
            h = len(o) // 2
            A, B = o[:h], o[h:]
            if len(o) % 2:
                A, B = o, []
        else:
            if op in ('identity', 'compose', 'inverse', 'exp'):
                A, Bf = o[:10], o[10:]
                B = Bf[:6] + Bf[7:] if len(Bf) == 11 else []
                extra_zero = Bf[6:7]
            elif op == 'log':
                A, Bf = o[:9], o[9:]
                B = Bf[:6] + Bf[7:] if len(Bf) == 10 else []
                extra_zero = Bf[6:7]
            elif op in ('matrix', 'hat'):
                A, B = o[:25], o[25:]
            else:
                A, Bf = o[:81], o[81:]
                if len(Bf) == 100:
                    B = [Bf[eT(i) * 10 + eT(j)] for i in range(9) for j in range(9)]
                    extra_zero = [Bf[60 + eT(j)] for j in range(9)]     # row of s restricted to the s = 0 subspace
                else:
                    B = []
        stats['pair_checks'] += 1
        key = {'pair': name, 'pair_op': op}
        if len(A) != len(B) or not A:
            self.find(findings, l, 'pair', None, 0.0, f'{name} {op}: results have different shapes', **key)
            return
        e_ulp, det = vlib.diff_ulp(A, B, p)
        W(f'pair_ulp|{name}|{op}|{p}', e_ulp)
        if which == '2' and op == 'exp':
            tol_ulp = TOL_EXP[p] / EPS[p]
        else:
            tol_ulp = PAIR_ULP
        if det or not (e_ulp <= tol_ulp):
            self.find(findings, l, 'pair', e_ulp * EPS[p] if not det else None, tol_ulp * EPS[p],
                      f'{name}: {op} differs between the two groups on the same input ({det or str(round(e_ulp, 2)) + " ulp"})', **key)
        for w in extra_zero:
            if dec(w, p) != 0:
                self.find(findings, l, 'pair', abs(dec(w, p)), 0.0, f'{name}: {op} leaves the zero-time subgroup (tau / s component non-zero)', **key)
        # exact rational agreement of the two results as matrices
        if op in ('compose', 'inverse', 'exp', 'identity'):
            if which == '1':
                areq('conv_a_p1', l, o, f'{name}: matrix of the {op} results differ')
            else:
                areq('conv_a_p2', l, o, f'{name}: matrix of the {op} results differ', TOL_EXP[p] if op == 'exp' else None)

    # ------------------------------------------------------------------ T1 + audit on a set of lines
    def check_lines(self, ctx, lines):
        t1l = self.t1_lines(lines)
        t1 = vlib.t1_compare(t1l, tol_ulp=T1_ULP, exact_ops=EXACT_OPS, rng_seed=ctx['seed'])
        broken = []
        if t1['breaks']:
            by = {}
            for b in t1['breaks']:
                l = Line(b['line'])
                by.setdefault(f'{l.op}|{l.grp}|{l.prec}', []).append(b)
            for k, bs in by.items():
                broken.append({'what': 'correspondence', 'name': f'T1 {k} (implementation vs Lean model)',
                               'count': len(bs), 'first': bs[0]})
        findings, stats, worst, cut, samples, n_aud = self.audit(ctx, lines)
        strata = {}
        sig = set()
        for l in lines:
            k = f'{l.op}#{l.tag}' if l.tag else l.op
            strata[k] = strata.get(k, 0) + 1
            if any(v != 0 for v in l.in_vals()):
                sig.add((l.op, l.prec, l.tag, tuple(l.ins)))
        # a few concrete cases for the evidence file
        ex = []
        seen = set()
        for l in lines:
            k = (l.op, l.tag)
            if l.op in ('conv_angle_cw', 'conv_angle_ccw', 'conv_lift_so3', 'conv_so3_quat_ctor', 'conv_p2_compose', 'conv_euler') \
                    and k not in seen and len(ex) < 10 and l.tag in ('halfturn_pz', 'halfturn_nz', 'near_pi', 'negative_w', 'generic', ''):
                seen.add(k)
                ex.append({'line': l.raw[:400], 'inputs': l.in_vals()[:8], 'implementation': l.out_vals()[:8]})
        cov = {'evaluations': len(lines), 'distinct_nontrivial': len(sig), 'rule': self.rule,
               'samples': ex + samples,
               'strata_hits': strata, 'angle_coefficient_patterns': cut,
               't1_lines': len(t1l), 't1_stats': t1['stats'], 't1_breaks': len(t1['breaks']),
               'audit_samples': n_aud, 'audit_worst': worst, 'python_checks': stats,
               'traces_validated_against_impl': len(t1l)}
        return {'coverage': cov, 'findings': findings, 'broken': broken}

    # ------------------------------------------------------------------ entry points
    def explore(self, ctx):
        n = 4 if ctx['tier'] == 'quick' else 150
        return self.check_lines(ctx, self.gen_lines(ctx, n * ctx.get('budget', 1)))

    def search(self, ctx, broken):
        lines = self.gen_lines(dict(ctx, seed=ctx['seed'] + 7919), 60)
        res = self.check_lines(ctx, lines)
        return {'coverage': {'evaluations': len(lines)}, 'findings': res['findings']}

    def replay(self, ctx, payload):
        reqs = []
        for c in payload.get('cases', []):
            if 'line' in c:
                reqs.append(Line(c['line']).request())
        for b in payload.get('no_longer_checks', []) + payload.get('broken', []):
            if isinstance(b.get('first'), dict) and 'line' in b['first']:
                reqs.append(Line(b['first']['line']).request())
        # derived T1 lines are re-derived from their source op
        reqs = [r for r in reqs if not r.startswith('conv_se3_iso_glue')]
        if not reqs:
            return {'coverage': {}, 'findings': [], 'broken': payload.get('no_longer_checks', [])}
        # the congruence and C1 factorisation checks need the sibling ops on the same input
        full = []
        for r in reqs:
            t = r.split()
            if t[0] in ('conv_angle', 'conv_angle_cw', 'conv_angle_ccw'):
                full += [' '.join(['conv_' + fn] + t[1:]) for fn in ('angle', 'angle_cw', 'angle_ccw')]
            elif t[0] in ('conv_c1_scaling', 'conv_c1_so2'):
                full += [' '.join([o] + t[1:]) for o in ('conv_c1_scaling', 'conv_c1_so2')]
            else:
                full.append(r)
        seen = set()
        full = [r for r in full if not (r in seen or seen.add(r))]
        return self.check_lines(ctx, self.eval_lines(full))


def make():
    return C17()
