"""C12 — Spline construction, concatenation and cropping preserve the curve.

harness/spline.cpp (5 group binaries) emits random op-sequence SCRIPTS executed on the real
smooth::Spline<K,G>; the same script is run by the Lean model (`spl_script`, Driver/OpsSplineSM.lean).
  T1     probe-by-probe comparison model vs implementation (ulp tolerant)
  audit  the LAWS of the property evaluated on the implementation's probe outputs with exact group
         arithmetic in Python `fractions` (+ the driver's exp/rminus for constant-velocity laws),
         an absolute piecewise-polynomial oracle for the vector groups (values, arclength)
  witnesses of SmoothProps/C12.lean replayed on the implementation.
"""
import json, math, os, struct, sys
from fractions import Fraction as Fr

sys.path.insert(0, os.path.dirname(os.path.dirname(__file__)))
import vlib
from vlib import dec, enc

GROUPS = {'SO3': (4, 3), 'SE2': (4, 3), 'SE3': (7, 6), 'T2': (2, 2), 'T1': (1, 1)}
GRP_IDX = {'SO3': 0, 'SE2': 1, 'SE3': 2, 'T2': 3, 'T1': 4}
VECTOR = ('T1', 'T2')
PROBES = ('eval', 't_max', 'start', 'end', 'size', 'arclength')
CTORS = ('empty', 'ctor_V', 'ctor_vs', 'cv', 'cvgoal', 'fixedcubic')
EPS = 2.0 ** -52
TOL = 1e-9
ZERO_W = '0000000000000000'
INF = float('inf')


def f2w(x):
    return struct.pack('>d', x).hex()


def w2f(w):
    return struct.unpack('>d', bytes.fromhex(w))[0]


# ----------------------------------------------------------------------------- scripts
class Stmt:
    __slots__ = ('op', 'regs', 'x', 'flag')

    def __init__(self, op, regs, x, flag=None):
        self.op, self.regs, self.x, self.flag = op, regs, x, flag

    @staticmethod
    def parse(toks):
        regs, x, flag = [], [], None
        for w in toks[1:]:
            if w[0] == 'r':
                regs.append(int(w[1:]))
            elif len(w) == 16:
                x.append(w)
            else:
                flag = int(w)
        return Stmt(toks[0], regs, x, flag)

    def text(self):
        t = [self.op] + ['r%d' % r for r in self.regs] + list(self.x)
        if self.flag is not None:
            t.append(str(self.flag))
        return ' '.join(t)

    def vals(self):
        return [w2f(w) for w in self.x]

    def is_probe(self):
        return self.op in PROBES

    def dst(self):
        return None if self.is_probe() else self.regs[0]

    def srcs(self):
        return self.regs if self.is_probe() else self.regs[1:]


class Script:
    def __init__(self, grp, K, bwords, stmts, outs=None, tag=''):
        self.grp, self.K, self.bwords, self.stmts, self.outs, self.tag = grp, K, bwords, stmts, outs, tag

    @staticmethod
    def from_line(raw):
        body, _, tag = raw.partition(' # ')
        req, _, out = body.partition(' |')
        parts = req.split(' ; ')
        head = parts[0].split()
        assert head[0] == 'spl_script', raw[:80]
        grp, K = head[1], int(head[3])
        bw = head[4:4 + (K + 1) * (K + 1)]
        stmts = [Stmt.parse(p.split()) for p in parts[1:] if p.strip()]
        outs = None
        if out.strip() or ' |' in body:
            outs = [g.split() for g in out.split(';')] if out.strip() else []
        return Script(grp, K, bw, stmts, outs, tag.strip())

    def request(self):
        return ' ; '.join([' '.join(['spl_script', self.grp, 'f64', str(self.K)] + self.bwords)] + [s.text() for s in self.stmts])

    def line(self):
        o = ' ;'.join(' ' + ' '.join(g) for g in (self.outs or []))
        return self.request() + ' |' + o + ' # ' + self.tag

    def probes(self):
        return [s for s in self.stmts if s.is_probe()]

    def with_stmts(self, stmts):
        return Script(self.grp, self.K, self.bwords, stmts, None, self.tag)

    def B(self):
        n = self.K + 1
        return [[Fr(w2f(self.bwords[r * n + c])) for c in range(n)] for r in range(n)]


# ----------------------------------------------------------------------------- exact group arithmetic
def qmul(a, b):
    ax, ay, az, aw = a
    bx, by, bz, bw = b
    return [aw * bx + ax * bw + ay * bz - az * by,
            aw * by - ax * bz + ay * bw + az * bx,
            aw * bz + ax * by - ay * bx + az * bw,
            aw * bw - ax * bx - ay * by - az * bz]


def qinv(a):
    n = a[0] * a[0] + a[1] * a[1] + a[2] * a[2] + a[3] * a[3]
    return [-a[0] / n, -a[1] / n, -a[2] / n, a[3] / n]


def qrot(q, v):
    p = qmul(qmul(q, [v[0], v[1], v[2], 0]), qinv(q))
    return p[:3]


class Grp:
    """group operations on coefficient lists (Fractions or floats), smooth's memory layout"""

    def __init__(self, name):
        self.name = name
        self.rep, self.dof = GROUPS[name]

    def ident(self):
        n = self.name
        if n in VECTOR:
            return [Fr(0)] * self.rep
        if n == 'SO3':
            return [Fr(0), Fr(0), Fr(0), Fr(1)]
        if n == 'SE2':
            return [Fr(0), Fr(0), Fr(0), Fr(1)]
        return [Fr(0)] * 6 + [Fr(1)]

    def mul(self, a, b):
        n = self.name
        if n in VECTOR:
            return [x + y for x, y in zip(a, b)]
        if n == 'SO3':
            return qmul(a, b)
        if n == 'SE2':  # [x, y, qz(sin), qw(cos)]
            s, c = a[2], a[3]
            return [a[0] + c * b[0] - s * b[1], a[1] + s * b[0] + c * b[1], s * b[3] + c * b[2], c * b[3] - s * b[2]]
        t = qrot(a[3:], b[:3])
        return [a[0] + t[0], a[1] + t[1], a[2] + t[2]] + qmul(a[3:], b[3:])

    def inv(self, a):
        n = self.name
        if n in VECTOR:
            return [-x for x in a]
        if n == 'SO3':
            return qinv(a)
        if n == 'SE2':
            s, c = a[2], a[3]
            d = s * s + c * c
            si, ci = -s / d, c / d
            return [-(ci * a[0] - si * a[1]), -(si * a[0] + ci * a[1]), si, ci]
        qi = qinv(a[3:])
        t = qrot(qi, a[:3])
        return [-t[0], -t[1], -t[2]] + qi

    def dist(self, a, b):
        """max coefficient difference (quaternion / complex part up to the double cover sign is NOT
        identified for SE2: its (sin,cos) pair is single valued); relative to max(1,|b|)"""
        n = self.name
        a = [float(x) for x in a]
        b = [float(x) for x in b]
        if any(math.isnan(x) for x in a + b):
            return INF
        scale = max([1.0] + [abs(x) for x in b if math.isfinite(x)])
        if n == 'SO3' or n == 'SE3':
            k = 0 if n == 'SO3' else 3
            d1 = max(abs(x - y) for x, y in zip(a[k:], b[k:]))
            d2 = max(abs(x + y) for x, y in zip(a[k:], b[k:]))
            d = min(d1, d2)
            if k:
                d = max(d, max(abs(x - y) for x, y in zip(a[:k], b[:k])))
            return d / scale
        return max(abs(x - y) for x, y in zip(a, b)) / scale


def frs(ws):
    return [Fr(w2f(w)) for w in ws]


def vdist(a, b, floor=1.0):
    """relative max difference of two tangent vectors (floats)"""
    if any(math.isnan(x) for x in list(a) + list(b)):
        return INF
    scale = max([floor] + [abs(x) for x in b if math.isfinite(x)])
    return max(abs(x - y) for x, y in zip(a, b)) / scale


# ----------------------------------------------------------------------------- specified structure of every register
class Info:
    """what the SPECIFICATION says about a register: knot times, per-segment max rate Del/T,
    taint flags, and (vector groups) the exact piecewise polynomial curve"""
    __slots__ = ('knots', 'rate', 'taint', 'why', 'pieces', 'start', 'absok', 'joints', 'endv', 'mag')

    def __init__(self):
        self.knots, self.rate, self.taint, self.why = [], 0.0, False, ''
        self.pieces, self.start, self.absok, self.joints, self.endv = [], None, False, set(), None
        self.mag = 0.0

    def tmax(self):
        return self.knots[-1] if self.knots else 0.0


def near_knot(t, knots, scale):
    slack = 32 * EPS * max(abs(t), scale, 1e-300)
    return any(abs(t - k) <= slack for k in knots) or abs(t) <= slack


# ----------------------------------------------------------------------------- exact curve of vector-group splines
def poly_eval(co, s):
    """co[r][k] coefficients of s^r; returns vector"""
    n = len(co[0])
    out = [Fr(0)] * n
    for r in range(len(co) - 1, -1, -1):
        out = [o * s + c for o, c in zip(out, co[r])]
    return out


def poly_shift(co, d):
    """coefficients of q(s) = p(s + d)"""
    deg = len(co) - 1
    n = len(co[0])
    out = [[Fr(0)] * n for _ in range(deg + 1)]
    for r in range(deg + 1):
        for m in range(r + 1):
            c = math.comb(r, m) * d ** (r - m)
            for k in range(n):
                out[m][k] += co[r][k] * c
    return out


def poly_translate(co, g):
    out = [list(c) for c in co]
    out[0] = [a + b for a, b in zip(out[0], g)]
    return out


def seg_poly(B, K, T, V, ga):
    """ga + sum_j Btilde_j(s/T) v_j as a polynomial in s"""
    n = len(ga)
    co = []
    for r in range(K + 1):
        row = [Fr(0)] * n
        for j in range(K):
            b = B[r][j + 1]
            if b:
                row = [x + b * v for x, v in zip(row, V[j])]
        co.append([x / (T ** r) for x in row])
    return poly_translate(co, ga)


def spec_value(info, t):
    """specified curve value at time t (Fraction) — clamped to start/end outside"""
    if not info.pieces:
        return info.start
    if t < 0:
        return info.start
    last = info.pieces[-1]
    if t > Fr(last[1]):
        return spec_end(info)
    for (a, b, co) in info.pieces:
        if t < Fr(b):
            return poly_eval(co, t - Fr(a))
    return poly_eval(last[2], t - Fr(last[0]))


def spec_end(info):
    """value returned beyond t_max: `end()`; explicit when a concatenation moved it"""
    if info.endv is not None:
        return info.endv
    if not info.pieces:
        return info.start
    a, b, co = info.pieces[-1]
    return poly_eval(co, Fr(b) - Fr(a))


def isqrt_fr(x, digits=40):
    """sqrt of a non-negative Fraction to ~digits decimal digits"""
    sc = 10 ** digits
    return Fr(math.isqrt((x.numerator * sc * sc) // x.denominator), sc)


def abs_integral(q, lo, hi):
    """∫_lo^hi |q0 + q1 s + q2 s²| ds for Fractions (roots located to 1e-40)"""
    if hi <= lo:
        return Fr(0)
    q0, q1, q2 = q
    roots = []
    if q2 != 0:
        D = q1 * q1 - 4 * q2 * q0
        if D > 0:
            sd = isqrt_fr(D)
            roots = [(-q1 - sd) / (2 * q2), (-q1 + sd) / (2 * q2)]
    elif q1 != 0:
        roots = [-q0 / q1]
    pts = [lo] + sorted(r for r in roots if lo < r < hi) + [hi]
    F = lambda s: q0 * s + q1 * s * s / 2 + q2 * s * s * s / 3
    tot = Fr(0)
    for a, b in zip(pts, pts[1:]):
        tot += abs(F(b) - F(a))
    return tot


def spec_arclength(info, t):
    n = len(info.start)
    tot = [Fr(0)] * n
    for (a, b, co) in info.pieces:
        if t <= Fr(a):
            break
        hi = min(Fr(b), t) - Fr(a)
        for k in range(n):
            q = [co[1][k] if len(co) > 1 else Fr(0), 2 * co[2][k] if len(co) > 2 else Fr(0),
                 3 * co[3][k] if len(co) > 3 else Fr(0)]
            tot[k] += abs_integral(q, Fr(0), hi)
    return tot


# ----------------------------------------------------------------------------- abstract interpretation of a script
def interpret(sc):
    """Info per register *after each statement* is not needed: registers are written once by the
    generator.  Returns dict reg -> Info and dict reg -> defining Stmt.  Values read from the
    implementation (start/end of operands) are NOT used here: only the script text."""
    G = Grp(sc.grp)
    rep, dof, K = G.rep, G.dof, sc.K
    vec = sc.grp in VECTOR
    B = sc.B() if vec else None
    info, defs = {}, {}
    for s in sc.stmts:
        if s.is_probe():
            continue
        d = s.regs[0]
        I = Info()
        x = s.x
        xv = [abs(w2f(w)) for w in x if math.isfinite(w2f(w))]
        if s.op in ('ctor_V', 'ctor_vs'):
            I.mag = max(xv[1:1 + K * dof] + [0.0])
        elif s.op == 'cv':
            I.mag = max([a * abs(w2f(x[dof])) for a in xv[:dof]] + [0.0])
        elif s.op == 'cvgoal':
            I.mag = 4.0 + 2 * max(xv[:rep] + xv[rep + 1:])
        elif s.op == 'fixedcubic':
            I.mag = 4.0 + 2 * max(xv[:rep] + xv[rep + 2 * dof + 1:]) + 2 * abs(w2f(x[rep + 2 * dof])) * max(xv[rep:rep + 2 * dof])
        elif len(s.regs) > 1:
            I.mag = max(info[r].mag for r in s.regs[1:])
        if s.op == 'empty':
            I.start, I.absok = frs(x[:rep]), vec
        elif s.op in ('ctor_V', 'ctor_vs'):
            T = w2f(x[0])
            I.knots, I.rate = [T], 1.0 / T
            if vec:
                V = [frs(x[1 + j * dof:1 + (j + 1) * dof]) for j in range(K)]
                ga = frs(x[1 + K * dof:])
                I.start, I.absok = ga, True
                I.pieces = [(0.0, T, seg_poly(B, K, Fr(T), V, ga))]
        elif s.op == 'cv':
            T = w2f(x[dof])
            if T > 0:
                I.knots, I.rate = [T], 1.0 / T
            if vec:
                v, ga = frs(x[:dof]), frs(x[dof + 1:])
                I.start, I.absok = ga, True
                if T > 0:
                    I.pieces = [(0.0, T, [ga, v])]
                else:
                    I.start = G.ident()
        elif s.op == 'cvgoal':
            T = w2f(x[rep])
            I.knots, I.rate = [T], 1.0 / T
            if vec:
                gb, ga = frs(x[:rep]), frs(x[rep + 1:])
                I.start, I.absok = ga, True
                I.pieces = [(0.0, T, [ga, [(b - a) / Fr(T) for a, b in zip(ga, gb)]])]
        elif s.op == 'fixedcubic':
            T = w2f(x[rep + 2 * dof])
            I.knots, I.rate = [T], 1.0 / T
            if vec:
                gb, va, vb = frs(x[:rep]), frs(x[rep:rep + dof]), frs(x[rep + dof:rep + 2 * dof])
                ga = frs(x[rep + 2 * dof + 1:])
                V0 = [Fr(T) * a / 3 for a in va]
                V2 = [Fr(T) * a / 3 for a in vb]
                V1 = [b - a - p - q for a, b, p, q in zip(ga, gb, V0, V2)]
                I.start, I.absok = ga, True
                I.pieces = [(0.0, T, seg_poly(B, K, Fr(T), [V0, V1, V2], ga))]
        elif s.op in ('concat_local', 'concat_global'):
            a, b = info[s.regs[1]], info[s.regs[2]]
            t1 = a.tmax()
            I.knots = list(a.knots) + [t1 + e for e in b.knots]
            I.rate = max(a.rate, b.rate)
            I.taint, I.why = a.taint or b.taint, a.why or b.why
            I.joints = set(a.joints) | set(t1 + e for e in b.joints)
            if s.op == 'concat_global' and a.knots and b.knots:
                I.joints.add(t1)     # value may jump here by construction; resolved in the audit
            if vec and a.absok and b.absok:
                I.absok = True
                I.endv = [p + q for p, q in zip(spec_end(a), spec_end(b))] if s.op == 'concat_local' else spec_end(b)
                if s.op == 'concat_local':
                    ea = spec_end(a)
                    I.start = a.start if a.pieces else [p + q for p, q in zip(a.start, b.start)]
                    I.pieces = list(a.pieces) + [(t1 + pa, t1 + pb, poly_translate(co, ea)) for (pa, pb, co) in b.pieces]
                else:
                    I.start = a.start if a.pieces else b.start
                    I.pieces = list(a.pieces) + [(t1 + pa, t1 + pb, co) for (pa, pb, co) in b.pieces]
                # the code's knots are the rounded sums; the exact curve uses exact sums (difference ≤ ulp)
        elif s.op == 'crop':
            a = info[s.regs[1]]
            ta, tb = w2f(x[0]), w2f(x[1])
            tm = a.tmax()
            tac = ta if not (ta < 0) else 0.0
            tbc = tm if tm < tb else tb
            I.rate = a.rate
            I.taint, I.why = a.taint, a.why
            if tbc > tac:
                I.knots = [e - tac for e in a.knots if tac < e < tbc] + [tbc - tac]
                I.joints = set(e - tac for e in a.joints if tac < e < tbc)
                if vec and a.absok:
                    I.absok = True
                    g_a = spec_value(a, Fr(tac))
                    off = [-p for p in g_a] if s.flag else [Fr(0)] * rep
                    I.endv = [p + q for p, q in zip(spec_value(a, Fr(tbc)), off)]
                    I.start = [Fr(0)] * rep if s.flag else g_a
                    for (pa, pb, co) in a.pieces:
                        lo, hi = max(pa, tac), min(pb, tbc)
                        if hi > lo:
                            # boundaries are the code's knots: rounded differences (m_end_t[i] - ta, tb - ta)
                            I.pieces.append((lo - tac, hi - tac, poly_translate(poly_shift(co, Fr(lo) - Fr(pa)), off)))
            else:
                I.start, I.absok = G.ident(), vec
        elif s.op == 'make_local':
            a = info[s.regs[1]]
            I.knots, I.rate, I.joints = list(a.knots), a.rate, set(a.joints)
        elif s.op == 'copy':
            a = info[s.regs[1]]
            I.knots, I.rate, I.joints, I.taint, I.why = list(a.knots), a.rate, set(a.joints), a.taint, a.why
            I.pieces, I.start, I.absok, I.endv = a.pieces, a.start, a.absok, a.endv
        info[d] = I
        defs[d] = s
    return info, defs


# ----------------------------------------------------------------------------- the audit of one script
class Audit:
    def __init__(self, sc):
        self.sc = sc
        self.G = Grp(sc.grp)
        self.vec = sc.grp in VECTOR
        self.info, self.defs = interpret(sc)
        self.ev, self.pr, self.arc = {}, {}, {}
        rep, dof = self.G.rep, self.G.dof
        for s, o in zip(sc.probes(), sc.outs or []):
            v = [w2f(w) for w in o]
            if s.op == 'eval':
                self.ev.setdefault((s.regs[0], s.x[0]), (v[:rep], v[rep:rep + dof], v[rep + dof:]))
            elif s.op == 'arclength':
                self.arc.setdefault((s.regs[0], s.x[0]), v)
            else:
                self.pr.setdefault((s.op, s.regs[0]), v)
        self.taint, self.joints, self.absok = {}, {}, {}
        self.findings, self.stats, self.obs = [], {}, []
        self.worst = {}

    # -------------------------------------------------------------- helpers
    def cnt(self, k, n=1):
        self.stats[k] = self.stats.get(k, 0) + n

    def evals_of(self, reg):
        return [(tw, w2f(tw), e) for (r, tw), e in self.ev.items() if r == reg]

    def is_ident(self, g):
        return self.G.dist(g, [float(x) for x in self.G.ident()]) == 0.0

    def fr(self, g):
        return [Fr(x) for x in g]

    def finite(self, g):
        return all(math.isfinite(x) for x in g)

    def note(self, law, err):
        if err == err:
            self.worst[law] = max(self.worst.get(law, 0.0), err)

    def report(self, key, err, tol, what, stmt):
        key = dict(key, group=self.sc.grp, K=self.sc.K)
        self.findings.append({'property': 'C12', 'key': key, 'err': (None if err != err or err == INF else err), 'tol': tol,
                              'what': what, 'stmt': stmt.text() if stmt else '', 'line': self.sc.line()})

    class Worst:
        """collects the worst violation of one operation"""

        def __init__(self):
            self.err, self.tol, self.what, self.n = 0.0, TOL, '', 0

        def add(self, err, tol, what):
            self.n += 1
            bad = not (err <= tol)
            if bad and (self.what == '' or not (err <= self.err)):
                self.err, self.tol, self.what = err, tol, what
            return bad

        def failed(self):
            return self.what != ''

    def cmp_g(self, W, law, got, exp, allow, what):
        if not self.finite(exp):
            return
        e = self.G.dist(got, exp)
        self.cnt('law_' + law)
        if not W.add(e, TOL + allow, what):
            self.note(law, e)

    def cmp_v(self, W, law, got, exp, floor, allow, what):
        if not self.finite(exp):
            return
        e = vdist(got, exp, floor)
        self.cnt('law_' + law)
        if not W.add(e, TOL + allow / max(floor, 1e-300), what):
            self.note(law, e)

    def outside(self, W, reg, law):
        """y(t<0) = (start,0,0), y(t>t_max) = (end,0,0) — bit exact"""
        I = self.info[reg]
        st, en = self.pr.get(('start', reg)), self.pr.get(('end', reg))
        tm = I.tmax()
        z = [0.0] * self.G.dof
        for tw, t, (g, vel, acc) in self.evals_of(reg):
            if t < 0 and st is not None:
                e = 0.0 if (g == st and vel == z and acc == z) else INF
                self.cnt('law_outside')
                W.add(e, 0.0, f'{law}: y(t<0) != (start(),0,0) at t={t!r}')
            elif t > tm and en is not None:
                e = 0.0 if ((g == en or (not self.finite(g) and not self.finite(en))) and vel == z and acc == z) else INF
                self.cnt('law_outside')
                W.add(e, 0.0, f'{law}: y(t>t_max) != (end(),0,0) at t={t!r}')

    def structure(self, W, reg, law):
        I = self.info[reg]
        sz, tm = self.pr.get(('size', reg)), self.pr.get(('t_max', reg))
        if sz is not None:
            self.cnt('law_size')
            W.add(0.0 if sz[0] == len(I.knots) else INF, 0.0, f'{law}: size()={sz[0]} expected {len(I.knots)}')
        if tm is not None:
            self.cnt('law_tmax')
            W.add(0.0 if tm[0] == I.tmax() else abs(tm[0] - I.tmax()), 0.0, f'{law}: t_max()={tm[0]!r} expected {I.tmax()!r}')

    def end_is_last_value(self, W, reg, law):
        I = self.info[reg]
        en = self.pr.get(('end', reg))
        if en is None or not I.knots or I.tmax() in self.joints.get(reg, set()):
            return
        e = self.ev.get((reg, f2w(I.tmax())))
        if e is not None:
            self.cmp_g(W, 'end', en, e[0], 0.0, f'{law}: end() != y(t_max)')

    def continuity(self, W, reg, law):
        I = self.info[reg]
        J = self.joints.get(reg, set())
        for k in I.knots:
            if k in J:
                continue
            trip = [self.ev.get((reg, f2w(t))) for t in (math.nextafter(k, -INF), k, math.nextafter(k, INF))]
            for a, b in zip(trip, trip[1:]):
                if a is None or b is None:
                    continue
                vmax = max([abs(x) for x in a[1] + b[1]] + [0.0])
                self.cmp_g(W, 'continuity', a[0], b[0], 8 * EPS * max(k, 1e-300) * vmax, f'{law}: jump at knot t={k!r}')

    def absolute(self, W, reg, law):
        """vector groups: values against the exact piecewise polynomial of the specification"""
        if not (self.vec and self.absok.get(reg)):
            return
        I = self.info[reg]
        J = self.joints.get(reg, set())
        for tw, t, (g, vel, acc) in self.evals_of(reg):
            if any(abs(t - j) <= 64 * EPS * max(abs(j), 1e-300) for j in J):
                continue
            exp = [float(x) for x in spec_value(I, Fr(t))]
            vmax = max([abs(x) for x in vel] + [0.0])
            self.cmp_g(W, 'absolute', g, exp, 64 * EPS * max(I.tmax(), abs(t)) * max(vmax, I.rate), f'{law}: value differs from the exact specified curve at t={t!r}')

    def arclength_law(self, reg, stmt):
        """vector groups, K=3: arclength(t) = ∫_0^t |component-wise body velocity| (exact antiderivatives)"""
        if not (self.vec and self.absok.get(reg)):
            return
        I = self.info[reg]
        by = {}
        for (r, tw), v in self.arc.items():
            if r != reg:
                continue
            t = w2f(tw)
            exp = [float(x) for x in spec_arclength(I, Fr(t))]
            case = 'negative-t' if t < 0 else ('beyond-t_max' if t > I.tmax() else 'in-range')
            e = vdist(v, exp, 1.0)
            self.cnt('law_arclength_' + case)
            if e <= TOL:
                self.note('arclength', e)
            elif case not in by or e > by[case][0]:
                by[case] = (e, f'arclength({t!r})={v} expected integral of |velocity| over [0,t] = {exp}')
        for case, (e, what) in by.items():
            self.report({'kind': 'arclength', 'case': case}, e, TOL, what, stmt)

    # -------------------------------------------------------------- driver-assisted laws (exp / rminus)
    def rminus_requests(self):
        reqs = []
        if self.vec:
            return reqs
        rep = self.G.rep
        for d, s in self.defs.items():
            if s.op == 'cvgoal':
                reqs.append(' '.join(['rminus', self.sc.grp, 'f64'] + s.x[:rep] + s.x[rep + 1:]))
        return reqs

    def cv_params(self, s, rm):
        """(v, T, ga) of a constant-velocity constructor"""
        rep, dof = self.G.rep, self.G.dof
        if s.op == 'cv':
            return [w2f(w) for w in s.x[:dof]], w2f(s.x[dof]), [w2f(w) for w in s.x[dof + 1:]]
        T = w2f(s.x[rep])
        gb, ga = [w2f(w) for w in s.x[:rep]], [w2f(w) for w in s.x[rep + 1:]]
        if self.vec:
            w = [b - a for a, b in zip(ga, gb)]
        else:
            w = rm[' '.join(['rminus', self.sc.grp, 'f64'] + s.x[:rep] + s.x[rep + 1:])]
        return [x / T for x in w], T, ga

    def cv_times(self, d, T):
        ts = [t for (tw, t, e) in self.evals_of(d) if 0 <= t <= T]
        return ts + [T]

    def exp_requests(self, rm):
        reqs = []
        if self.vec:
            return reqs
        for d, s in self.defs.items():
            if s.op in ('cv', 'cvgoal'):
                v, T, ga = self.cv_params(s, rm)
                if not T > 0:
                    continue
                for t in self.cv_times(d, T):
                    reqs.append(' '.join(['exp', self.sc.grp, 'f64'] + [f2w(t * x) for x in v]))
        return reqs

    def exp_of(self, v, t, ex):
        if self.vec:
            return [Fr(t) * Fr(x) for x in v]
        return [Fr(x) for x in ex[' '.join(['exp', self.sc.grp, 'f64'] + [f2w(t * x) for x in v])]]

    # -------------------------------------------------------------- per-operation laws
    def run(self, rm, ex):
        for s in self.sc.stmts:
            if s.is_probe():
                continue
            d = s.regs[0]
            srcs = s.regs[1:]
            self.cnt('op_' + s.op)
            self.track_history(s, d, srcs)
            self.taint[d] = any(self.taint.get(r, False) for r in srcs)
            self.joints[d] = set()
            self.absok[d] = self.vec and self.info[d].absok and all(self.absok.get(r, False) for r in srcs)
            if self.taint[d]:
                self.cnt('ops_skipped_tainted_operand')
                continue
            W = Audit.Worst()
            key = getattr(self, 'law_' + s.op)(W, s, d, rm, ex)
            if not self.taint[d]:
                self.outside(W, d, s.op)
                self.structure(W, d, s.op)
                self.end_is_last_value(W, d, s.op)
                self.continuity(W, d, s.op)
                self.absolute(W, d, s.op)
                self.arclength_law(d, s)
            if W.failed():
                self.report(key, W.err, W.tol, W.what, s)
                self.taint[d] = True
            self.cnt('law_checks', W.n)
        return self.findings

    SHAPE = {'concat_local': 'L', 'concat_global': 'G', 'crop': 'X', 'make_local': 'M', 'copy': ''}

    def track_history(self, s, d, srcs):
        """history shape of every register: the operation kinds along its longest operand chain
        (C constructor, L concat_local/+=, G concat_global, X crop, M make_local), and whether its first /
        last segment was cut by an earlier crop"""
        if not hasattr(self, 'hist'):
            self.hist, self.cut, self.shapes = {}, {}, {}
        if not srcs:
            self.hist[d], self.cut[d] = 'C', (False, False)
            return
        h = max((self.hist.get(r, 'C') for r in srcs), key=len) + self.SHAPE.get(s.op, '?')
        self.hist[d] = h
        I = self.info[d]
        if s.op == 'crop':
            Ia = self.info[srcs[0]]
            ca = self.cut.get(srcs[0], (False, False))
            ta, tb = w2f(s.x[0]), w2f(s.x[1])
            tm = Ia.tmax()
            tac = ta if not (ta < 0) else 0.0
            tbc = tm if tm < tb else tb
            if tbc > tac and Ia.knots:
                i0 = sum(1 for k in Ia.knots if k <= tac)
                il = sum(1 for k in Ia.knots if k < tbc)
                if i0 == 0 and ca[0]:
                    self.cnt('crop_ta_in_segment_cut_by_earlier_crop')
                if il >= len(Ia.knots) - 1 and ca[1]:
                    self.cnt('crop_tb_in_segment_cut_by_earlier_crop')
                self.cut[d] = (tac > 0 or (i0 == 0 and ca[0]), tbc < tm or (il >= len(Ia.knots) - 1 and ca[1]))
            else:
                self.cut[d] = (False, False)
        elif s.op in ('concat_local', 'concat_global'):
            a, b = srcs
            ca, cb = self.cut.get(a, (False, False)), self.cut.get(b, (False, False))
            self.cut[d] = (ca[0] if self.info[a].knots else cb[0], cb[1] if self.info[b].knots else ca[1])
        else:
            self.cut[d] = self.cut.get(srcs[0], (False, False))
        depth = len(h) - 1
        self.cnt('history_depth_%d' % min(depth, 8))
        if depth >= 3:
            self.shapes[h[-7:]] = self.shapes.get(h[-7:], 0) + 1
        if 'X' in h[:-1] and s.op == 'crop':
            self.cnt('crop_of_crop_history')

    def law_empty(self, W, s, d, rm, ex):
        st = self.pr.get(('start', d))
        if st is not None:
            W.add(0.0 if st == [w2f(w) for w in s.x] else INF, 0.0, 'empty: start() != ga')
        return {'kind': 'empty'}

    def ctor_common(self, W, s, d, ga, law):
        st = self.pr.get(('start', d))
        if st is not None:
            self.cnt('law_start')
            W.add(0.0 if st == ga else INF, 0.0, f'{law}: start() != ga')
        e0 = self.ev.get((d, ZERO_W))
        if e0 is not None and self.info[d].knots:
            self.cmp_g(W, 'start', e0[0], ga, 0.0, f'{law}: y(0) != ga')

    def law_ctor_V(self, W, s, d, rm, ex):
        rep = self.G.rep
        self.ctor_common(W, s, d, [w2f(w) for w in s.x[-rep:]], s.op)
        return {'kind': s.op}

    law_ctor_vs = law_ctor_V

    def law_cv(self, W, s, d, rm, ex):
        v, T, ga = self.cv_params(s, rm)
        variant = 'goal' if s.op == 'cvgoal' else 'cv'
        key = {'kind': 'constant_velocity', 'variant': variant}
        if not T > 0:
            self.cnt('cv_nonpositive_T')
            st = self.pr.get(('start', d))
            if st is not None and not self.is_ident(ga) and self.is_ident(st):
                self.obs.append('ConstantVelocity(v, T<=0, ga) returns Spline(): start() is the identity, not ga')
            return key
        self.ctor_common(W, s, d, ga, s.op)
        gaf = self.fr(ga)
        for tw, t, (g, vel, acc) in self.evals_of(d):
            if 0 <= t <= T:
                exp = self.G.mul(gaf, self.exp_of(v, t, ex))
                vmax = max(abs(x) for x in v)
                self.cmp_g(W, 'constant_velocity', g, [float(x) for x in exp], 16 * EPS * T * vmax,
                           f'{s.op}: y(t) != ga*exp(t*v) at t={t!r} (K={self.sc.K}): got {g} expected {[float(x) for x in exp]}')
                self.cmp_v(W, 'constant_velocity_vel', vel, v, max(abs(x) for x in v) or 1.0, 0.0, f'{s.op}: body velocity != v at t={t!r} (K={self.sc.K})')
        en = self.pr.get(('end', d))
        if en is not None:
            exp = self.G.mul(gaf, self.exp_of(v, T, ex))
            self.cmp_g(W, 'constant_velocity', en, [float(x) for x in exp], 16 * EPS * T * max(abs(x) for x in v),
                       f'{s.op}: end() != ga*exp(T*v) (K={self.sc.K}): got {en} expected {[float(x) for x in exp]}')
            if s.op == 'cvgoal':
                gb = [w2f(w) for w in s.x[:self.G.rep]]
                self.cmp_g(W, 'constant_velocity', en, gb, 0.0, f'cvgoal: end() != gb (K={self.sc.K}): got {en} expected {gb}')
        return key

    law_cvgoal = law_cv

    def law_fixedcubic(self, W, s, d, rm, ex):
        rep, dof = self.G.rep, self.G.dof
        gb = [w2f(w) for w in s.x[:rep]]
        va = [w2f(w) for w in s.x[rep:rep + dof]]
        vb = [w2f(w) for w in s.x[rep + dof:rep + 2 * dof]]
        T = w2f(s.x[rep + 2 * dof])
        ga = [w2f(w) for w in s.x[rep + 2 * dof + 1:]]
        self.ctor_common(W, s, d, ga, 'fixedcubic')
        en = self.pr.get(('end', d))
        if en is not None:
            self.cmp_g(W, 'fixedcubic', en, gb, 0.0, 'fixedcubic: end() != gb')
        e0, eT = self.ev.get((d, ZERO_W)), self.ev.get((d, f2w(T)))
        fl = max([abs(x) for x in va + vb] + [1.0 / T])
        if e0 is not None:
            self.cmp_v(W, 'fixedcubic', e0[1], va, fl, 0.0, 'fixedcubic: velocity at 0 != va')
        if eT is not None:
            self.cmp_g(W, 'fixedcubic', eT[0], gb, 0.0, 'fixedcubic: y(T) != gb')
            self.cmp_v(W, 'fixedcubic', eT[1], vb, fl, 0.0, 'fixedcubic: velocity at T != vb')
        return {'kind': 'fixedcubic'}

    def concat(self, W, s, d, local):
        a, b = s.regs[1], s.regs[2]
        Ia, Ib, Id = self.info[a], self.info[b], self.info[d]
        law = s.op
        t1 = Ia.tmax()
        self.joints[d] = set(self.joints.get(a, set())) | set(t1 + e for e in self.joints.get(b, set()))
        a_end, a_start = self.pr.get(('end', a)), self.pr.get(('start', a))
        b_start, b_end = self.pr.get(('start', b)), self.pr.get(('end', b))
        st, en = self.pr.get(('start', d)), self.pr.get(('end', d))
        if a_end is None or b_start is None:
            self.cnt('law_missing_probe')
            return {'kind': law}
        aE = self.fr(a_end)
        if not local and Ia.knots and a_end != b_start:
            self.joints[d].add(t1)      # jump by construction (the spline stays usable, laws are one-sided there)
            self.cnt('concat_global_mismatched_joint')
        if local and Ia.knots and not self.is_ident(b_start):
            self.joints[d].add(t1)      # y(t1) = x1(t1)*x2(0): a jump by x2.start() (the law itself says so)
            self.cnt('concat_local_operand_not_at_identity')
        if en is not None and b_end is not None:
            exp = self.G.mul(aE, self.fr(b_end)) if local else self.fr(b_end)
            self.cmp_g(W, 'concat_end', en, [float(x) for x in exp], 0.0, f'{law}: end() wrong')
        if st is not None and a_start is not None:
            if Ia.knots:
                exp = a_start
            else:
                exp = [float(x) for x in self.G.mul(self.fr(a_start), self.fr(b_start))] if local else b_start
            self.cmp_g(W, 'concat_start', st, exp, 0.0, f'{law}: start() wrong')
        tsc = Id.tmax()
        for tw, t, (g, vel, acc) in self.evals_of(d):
            if t < 0 or t > Id.tmax():
                continue
            if t < t1:
                ea = self.ev.get((a, tw))
                if ea is None:
                    continue
                self.cmp_g(W, 'concat_first', g, ea[0], 0.0, f'{law}: y(t) != x1(t) at t={t!r} < t1')
                if not near_knot(t, Ia.knots, tsc):
                    self.cmp_v(W, 'concat_first_vel', vel, ea[1], Id.rate, 0.0, f'{law}: velocity != x1 velocity at t={t!r}')
                    self.cmp_v(W, 'concat_first_acc', acc, ea[2], Id.rate ** 2, 0.0, f'{law}: acceleration != x1 acceleration at t={t!r}')
            elif Ib.knots:
                eb = self.ev.get((b, f2w(t - t1)))
                if eb is None:
                    continue
                if near_knot(t - t1, self.joints.get(b, ()), tsc) and (t - t1) > 64 * EPS * tsc:
                    continue
                exp = self.G.mul(aE, self.fr(eb[0])) if local else eb[0]
                vmax = max([abs(x) for x in vel + eb[1]] + [0.0])
                amax = max([abs(x) for x in acc + eb[2]] + [0.0])
                self.cmp_g(W, 'concat_second', g, [float(x) for x in exp], 64 * EPS * tsc * vmax,
                           f'{law}: y(t) != ' + ('x1(t1)*' if local else '') + f'x2(t-t1) at t={t!r}')
                if not near_knot(t - t1, Ib.knots, tsc) and not near_knot(t, Id.knots, tsc):
                    self.cmp_v(W, 'concat_second_vel', vel, eb[1], Id.rate, 64 * EPS * tsc * amax, f'{law}: velocity != x2 velocity at t={t!r}')
                    self.cmp_v(W, 'concat_second_acc', acc, eb[2], Id.rate ** 2, 64 * EPS * tsc * amax * Id.rate * self.sc.K,
                               f'{law}: acceleration != x2 acceleration at t={t!r}')
        return {'kind': law}

    def law_concat_local(self, W, s, d, rm, ex):
        return self.concat(W, s, d, True)

    def law_concat_global(self, W, s, d, rm, ex):
        return self.concat(W, s, d, False)

    def law_crop(self, W, s, d, rm, ex):
        a = s.regs[1]
        Ia, Id = self.info[a], self.info[d]
        loc = bool(s.flag)
        ta, tb = w2f(s.x[0]), w2f(s.x[1])
        tm = Ia.tmax()
        tac = ta if not (ta < 0) else 0.0
        tbc = tm if tm < tb else tb
        if not tbc > tac:
            self.cnt('crop_empty')
            return {'kind': 'crop', 'case': 'empty'}
        ks = [0.0] + Id.knots
        if min(b - a for a, b in zip(ks, ks[1:])) < 1e-3:
            # a result segment shorter than the property's duration range 1e-3..1e3 (crop point within an ulp
            # of a knot, possibly absorbed to length zero by `m_end_t[i] - ta`): outside the domain of the
            # laws; compared with the model (T1) only, and not trusted downstream
            self.taint[d] = True
            self.cnt('crop_result_has_subrange_segment')
            if any(not self.finite(e[0]) for (_, _, e) in self.evals_of(d)):
                self.obs.append('crop point within 1 ulp of a knot: zero-length segment, evaluation at its end returns NaN (0/0)')
            return {'kind': 'crop', 'case': 'subrange-segment'}
        i0 = sum(1 for k in Ia.knots if k <= tac)
        onknot = tac in Ia.knots
        Ea, Eb = self.ev.get((a, f2w(tac))), self.ev.get((a, f2w(tbc)))
        if Ea is None or Eb is None:
            self.cnt('law_missing_probe')
            self.taint[d] = True
            return {'kind': 'crop'}
        ga = Ea[0]
        if onknot:
            case = 'knot'
        elif i0 > 0:
            case = 'later-segment'
        elif not loc and not self.is_ident(ga):
            case = 'nonlocal-multiseg' if len(Id.knots) >= 2 else 'nonlocal-end'
        else:
            case = 'first-segment'
        self.cnt('crop_' + case + ('' if loc else '_nonlocal') + ('_multiseg' if len(Id.knots) >= 2 else ''))
        self.joints[d] = set(e - tac for e in self.joints.get(a, set()) if tac < e <= tbc)
        key = {'kind': 'crop', 'case': case, 'localize': loc}
        gai = self.G.inv(self.fr(ga)) if loc else None
        tr = (lambda g: [float(x) for x in self.G.mul(gai, self.fr(g))]) if loc else (lambda g: g)
        st, en = self.pr.get(('start', d)), self.pr.get(('end', d))
        if st is not None:
            exp = [float(x) for x in self.G.ident()] if loc else ga
            self.cmp_g(W, 'crop_start', st, exp, 0.0, f'crop[{case}]: start() wrong')
        if en is not None:
            self.cmp_g(W, 'crop_end', en, tr(Eb[0]), 0.0, f'crop[{case}]: end()={en} expected ' + ('x(ta)^-1*x(tb)' if loc else 'x(tb)') + f'={tr(Eb[0])}')
        tsc = tm
        for tw, t, (g, vel, acc) in self.evals_of(d):
            if t < 0 or t > Id.tmax():
                continue
            Ex = self.ev.get((a, f2w(tac + t)))
            if Ex is None:
                continue
            if near_knot(tac + t, self.joints.get(a, ()), tsc) and (tac + t) > 64 * EPS * tsc:
                continue        # the operand jumps there by construction; rounding of ta+t decides the side
            if not self.finite(g) and self.finite(Ex[0]):
                W.add(INF, TOL, f'crop[{case}]: y({t!r}) is not finite: {g}')
                continue
            vmax = max([abs(x) for x in vel + Ex[1] if math.isfinite(x)] + [0.0])
            amax = max([abs(x) for x in acc + Ex[2] if math.isfinite(x)] + [0.0])
            exp = tr(Ex[0])
            self.cmp_g(W, 'crop_value', g, exp, 64 * EPS * tsc * vmax,
                       f'crop[{case}]: y({t!r})={g} expected ' + ('x(ta)^-1*x(ta+t)' if loc else 'x(ta+t)') + f'={exp}')
            if not near_knot(tac + t, Ia.knots, tsc) and not near_knot(t, Id.knots, tsc):
                self.cmp_v(W, 'crop_vel', vel, Ex[1], Id.rate, 64 * EPS * tsc * amax, f'crop[{case}]: velocity at t={t!r} is {vel}, x velocity {Ex[1]}')
                self.cmp_v(W, 'crop_acc', acc, Ex[2], Id.rate ** 2, 64 * EPS * tsc * amax * Id.rate * self.sc.K,
                           f'crop[{case}]: acceleration at t={t!r} is {acc}, x acceleration {Ex[2]}')
        return key

    def law_make_local(self, W, s, d, rm, ex):
        """make_local() only resets m_g0: start() = 1, same knots; on the FIRST segment y(t) = x(0)^-1 x(t)
        with the velocity/acceleration of x, from the first knot on y(t) = x(t) (stored end points are kept),
        end() unchanged.  The result equals x iff x.start() was the identity."""
        a = s.regs[1]
        Ia = self.info[a]
        st_a, en_a = self.pr.get(('start', a)), self.pr.get(('end', a))
        st, en = self.pr.get(('start', d)), self.pr.get(('end', d))
        ident = [float(x) for x in self.G.ident()]
        if st is not None:
            self.cnt('law_make_local')
            W.add(0.0 if st == ident else INF, 0.0, 'make_local: start() != Identity')
        if en is not None and en_a is not None:
            self.cnt('law_make_local')
            exp = en_a if Ia.knots else ident
            W.add(0.0 if en == exp else INF, 0.0, 'make_local: end() changed')
        self.joints[d] = set(self.joints.get(a, set()))
        if st_a is None:
            self.taint[d] = True
            return {'kind': 'make_local'}
        g0i = self.G.inv(self.fr(st_a))
        k0 = Ia.knots[0] if Ia.knots else 0.0
        single = len(Ia.knots) == 1
        for tw, t, (g, vel, acc) in self.evals_of(d):
            ea = self.ev.get((a, tw))
            if ea is None or t < 0 or t > Ia.tmax() or not Ia.knots:
                continue
            self.cnt('law_make_local')
            if t < k0 or single:
                exp = [float(x) for x in self.G.mul(g0i, self.fr(ea[0]))]
                self.cmp_g(W, 'make_local_first', g, exp, 0.0, f'make_local: y(t) != x(0)^-1 x(t) on the first segment at t={t!r}')
                W.add(0.0 if (vel == ea[1] and acc == ea[2]) else INF, 0.0, f'make_local: velocity/acceleration changed at t={t!r}')
            else:
                W.add(0.0 if (g == ea[0] and vel == ea[1] and acc == ea[2]) else INF, 0.0,
                      f'make_local: y(t) != x(t) after the first knot at t={t!r}')
        self.outside(W, d, 'make_local')
        self.structure(W, d, 'make_local')
        if not self.is_ident(st_a):
            self.taint[d] = True     # jump by x.start() at the first knot / at t_max: not a continuous curve
            if len(Ia.knots) >= 1:
                self.cnt('make_local_moves_only_g0')
        return {'kind': 'make_local'}

    def law_copy(self, W, s, d, rm, ex):
        a = s.regs[1]
        self.joints[d] = set(self.joints.get(a, set()))
        return {'kind': 'copy'}


# ----------------------------------------------------------------------------- T1: model vs implementation, probe by probe
T1_TOL = {'g': 256.0, 'vel': 256.0, 'acc': 1024.0, 'other': 256.0}


def ulp_err(a, b, scale_floor=0.0):
    """max |a-b| in eps units of max(|entries|, scale_floor); NaN/Inf compared as classes"""
    if len(a) != len(b):
        return INF, 'length'
    scale = scale_floor
    for x in a + b:
        if math.isfinite(x):
            scale = max(scale, abs(x))
    worst = 0.0
    for x, y in zip(a, b):
        if math.isnan(x) or math.isnan(y):
            if math.isnan(x) != math.isnan(y):
                return INF, 'nan-class'
            continue
        if math.isinf(x) or math.isinf(y):
            if x != y:
                return INF, 'inf-class'
            continue
        d = abs(x - y)
        if d:
            worst = max(worst, d / (scale * EPS) if scale > 0 else INF)
    return worst, ''


def t1_script(sc, reply, info=None):
    """returns (stats dict part->worst ulp, list of mismatching probes)"""
    G = Grp(sc.grp)
    rep, dof = G.rep, G.dof
    probes = sc.probes()
    if reply.startswith('ERR'):
        return {}, [{'probe': None, 'why': 'model-error ' + reply}], 0
    mo = [g.split() for g in reply.split(';')] if reply.strip() else []
    io = sc.outs or []
    if not (len(mo) == len(io) == len(probes)):
        return {}, [{'probe': None, 'why': f'probe count impl={len(io)} model={len(mo)} script={len(probes)}'}], 0
    if info is None:
        try:
            info, _ = interpret(sc)
        except Exception:
            info = {}
    stats, bad = {}, []
    for idx, (s, a, b) in enumerate(zip(probes, io, mo)):
        av, bv = [w2f(w) for w in a], [w2f(w) for w in b]
        if len(av) != len(bv):
            bad.append({'probe': idx, 'stmt': s.text(), 'why': 'length'})
            continue
        if s.op == 'eval':
            I = info.get(s.regs[0])
            rate = I.rate if I is not None else 0.0
            vmax = max([abs(x) for x in av[rep:rep + dof] if math.isfinite(x)] + [0.0])
            parts = (('g', av[:rep], bv[:rep], 0.0), ('vel', av[rep:rep + dof], bv[rep:rep + dof], rate * 1e-9),
                     ('acc', av[rep + dof:], bv[rep + dof:], max(vmax * vmax, vmax * sc.K * sc.K * rate, rate * rate * 1e-9)))
        elif s.op == 'arclength':
            I = info.get(s.regs[0])
            parts = (('other', av, bv, 8.0 * sc.K * (I.mag if I is not None else 0.0)),)
        else:
            parts = (('other', av, bv, 0.0),)
        for nm, x, y, fl in parts:
            e, det = ulp_err(x, y, fl)
            if det or e > T1_TOL[nm]:
                bad.append({'probe': idx, 'stmt': s.text(), 'part': nm, 'err_ulp': (None if e == INF else e), 'why': det or 'disagreement',
                            'impl': x, 'model': y})
            else:
                stats[nm] = max(stats.get(nm, 0.0), e)
    return stats, bad, len(probes)


# ----------------------------------------------------------------------------- harness
def specs():
    return [(f'spline{g}', 'spline.cpp', (f'-DGRP={g}',)) for g in range(5)]


def harness_eval(bins, scripts):
    """re-execute scripts on the implementation; returns new Script objects with outputs"""
    out = [None] * len(scripts)
    by = {}
    for i, sc in enumerate(scripts):
        by.setdefault(sc.grp, []).append(i)
    for grp, idxs in by.items():
        raw = vlib.run_harness(bins[f'spline{GRP_IDX[grp]}'], ['eval'], stdin='\n'.join(scripts[i].request() + ' | # ' + scripts[i].tag for i in idxs) + '\n')
        raw = [l for l in raw if l.strip()]
        if len(raw) != len(idxs):
            raise vlib.MachineryError(f'harness eval returned {len(raw)} lines for {len(idxs)} scripts')
        for i, l in zip(idxs, raw):
            out[i] = Script.from_line(l)
    return out


def driver_words(reqs):
    """run numeric driver requests; dict request -> list of floats"""
    reqs = sorted(set(reqs))
    res = {}
    if not reqs:
        return res
    for r, rep in zip(reqs, vlib.run_driver(reqs)):
        if rep.startswith('ERR'):
            raise vlib.MachineryError(f'driver op failed: {r[:80]} -> {rep}')
        res[r] = [w2f(w) for w in rep.split()]
    return res


def check_scripts(scripts, want_audits=False):
    """T1 + audit of a list of executed scripts.  Returns dict(findings, t1_bad, stats…)"""
    replies = vlib.run_driver([sc.request() for sc in scripts])
    t1_stats, t1_bad, n_probes = {}, [], 0
    audits = []
    for sc, rep in zip(scripts, replies):
        try:
            A = Audit(sc)
        except Exception as e:
            raise vlib.MachineryError(f'cannot interpret script: {e!r}: {sc.request()[:200]}')
        audits.append(A)
        st, bad, n = t1_script(sc, rep, A.info)
        n_probes += n
        for k, v in st.items():
            t1_stats[k] = max(t1_stats.get(k, 0.0), v)
        for b in bad:
            b['line'] = sc.line()
            b['model_reply'] = rep[:400]
            t1_bad.append(b)
    rm = driver_words([r for A in audits for r in A.rminus_requests()])
    ex = driver_words([r for A in audits for r in A.exp_requests(rm)])
    findings, stats, worst, obs, shapes = [], {}, {}, {}, {}
    for A in audits:
        findings += A.run(rm, ex)
        for k, v in getattr(A, 'shapes', {}).items():
            shapes[k] = shapes.get(k, 0) + v
        for k, v in A.stats.items():
            stats[k] = stats.get(k, 0) + v
        for k, v in A.worst.items():
            worst[k] = max(worst.get(k, 0.0), v)
        for o in A.obs:
            obs[o] = obs.get(o, 0) + 1
    res = {'findings': findings, 't1_bad': t1_bad, 't1_stats': t1_stats, 'n_probes': n_probes, 'stats': stats,
           'law_worst': worst, 'observations': obs, 'shapes': shapes}
    if want_audits:
        res['audits'] = audits
    return res


# ----------------------------------------------------------------------------- shrinking (delta debugging on statements)
def closure_remove(stmts, drop):
    """remove the statements with indices in `drop` and everything that depends on a removed definition"""
    gone = set()
    out = []
    for i, s in enumerate(stmts):
        if i in drop or any(r in gone for r in s.srcs()):
            if not s.is_probe():
                gone.add(s.regs[0])
            continue
        out.append(s)
    return out


def cone_prune(stmts, stmt_text):
    """keep only what the operation `stmt_text` depends on, and the probes of those registers"""
    target = None
    for s in stmts:
        if not s.is_probe() and s.text() == stmt_text:
            target = s
    if target is None:
        return stmts
    need = {target.regs[0]}
    for s in reversed(stmts):
        if not s.is_probe() and s.regs[0] in need:
            need.update(s.regs[1:])
    return [s for s in stmts if (s.regs[0] in need if not s.is_probe() else s.regs[0] in need)]


def shrink(bins, sc, pred, budget=160, focus=None):
    """ddmin over statements; `pred(script_with_outputs)` must stay true"""
    cur = sc.stmts
    if focus:
        cand = cone_prune(cur, focus)
        if len(cand) < len(cur):
            try:
                if pred(harness_eval(bins, [sc.with_stmts(cand)])[0]):
                    cur = cand
            except Exception:
                pass
    n = 2
    used = 0
    while len(cur) >= 2 and used < budget:
        size = max(1, len(cur) // n)
        chunks = [set(range(i, min(len(cur), i + size))) for i in range(0, len(cur), size)]
        progressed = False
        for ch in chunks:
            cand = closure_remove(cur, ch)
            if not cand or len(cand) == len(cur):
                continue
            used += 1
            try:
                ex = harness_eval(bins, [sc.with_stmts(cand)])[0]
                ok = pred(ex)
            except Exception:
                ok = False
            if ok:
                cur, n, progressed = cand, max(n - 1, 2), True
                break
            if used >= budget:
                break
        if not progressed:
            if size == 1:
                break
            n = min(len(cur), n * 2)
    return harness_eval(bins, [sc.with_stmts(cur)])[0]


def pred_finding(key):
    core = {k: v for k, v in key.items() if k in ('kind', 'case', 'variant')}

    def p(sc):
        r = check_scripts([sc])
        return any(all(f['key'].get(k) == v for k, v in core.items()) for f in r['findings'])
    return p


def pred_t1(sc):
    return bool(check_scripts([sc])['t1_bad'])


# ----------------------------------------------------------------------------- witnesses of SmoothProps/C12.lean replayed on the implementation
def _w(*xs):
    return [f2w(float(x)) for x in xs]


def witness_scripts(basis):
    """regression scripts of the four defects fixed by ea1d6c4 / b6aa840 / 05ac857 (formerly the ℚ-witnesses
    of negation theorems), on Spline<K,double> (K=1: c(u) = u·v exactly).  `lean` = value of the Lean model
    (= the value the property demands since the fixes), `before_fix` = what the unfixed code returned."""
    x = [Stmt('ctor_V', [0], _w(1, 1, 0)), Stmt('ctor_V', [1], _w(1, 2, 0)), Stmt('concat_local', [2, 0, 1], [])]

    def crop(ta, tb, loc, ts):
        st = list(x) + [Stmt('crop', [3, 2], _w(ta, tb), loc)]
        st += [Stmt(p, [3], []) for p in ('size', 't_max', 'start', 'end')] + [Stmt('t_max', [2], [])]
        st += [Stmt('eval', [2], _w(ta)), Stmt('eval', [2], _w(tb))]
        for t in ts:
            st += [Stmt('eval', [3], _w(t)), Stmt('eval', [2], _w(ta + t))]
        return st
    W = []
    W.append({'name': 'crop_later_segment', 'K': 1, 'stmts': crop(1.25, 1.75, 1, [0.25]),
              'probe': 'eval r3 ' + f2w(0.25), 'lean': 0.5, 'spec': 0.5, 'before_fix': -0.75, 'key': {'kind': 'crop', 'case': 'later-segment'}})
    W.append({'name': 'crop_nonlocal_multiseg', 'K': 1, 'stmts': crop(0.5, 1.5, 0, [0.75]),
              'probe': 'eval r3 ' + f2w(0.75), 'lean': 1.5, 'spec': 1.5, 'before_fix': 1.0, 'key': {'kind': 'crop', 'case': 'nonlocal-multiseg'}})
    W.append({'name': 'crop_on_knot', 'K': 1, 'stmts': crop(1.0, 1.5, 1, [0.25]),
              'probe': 'eval r3 ' + f2w(0.25), 'lean': 0.5, 'spec': 0.5, 'before_fix': 'nan',
              'key': {'kind': 'crop', 'case': 'knot'}})
    cv = [Stmt('cv', [0], _w(1, 3, 0))] + [Stmt(p, [0], []) for p in ('size', 't_max', 'start', 'end')] + [Stmt('eval', [0], _w(3))]
    W.append({'name': 'constant_velocity_K2', 'K': 2, 'stmts': cv, 'probe': 'end r0', 'lean': 3.0, 'spec': 3.0, 'before_fix': 2.0,
              'key': {'kind': 'constant_velocity'}})
    for w in W:
        w['script'] = Script('T1', w['K'], basis[w['K']], w['stmts'], None, 'witness ' + w['name'])
    return W


def run_witnesses(bins):
    raw = vlib.run_harness(bins['spline4'], ['basis'])
    basis = {int(l.split()[0]): l.split()[1:] for l in raw if l.strip()}
    W = witness_scripts(basis)
    ex = harness_eval(bins, [w['script'] for w in W])
    rep, broken, scripts = [], [], []
    for w, sc in zip(W, ex):
        scripts.append(sc)
        idx = [s.text() for s in sc.probes()].index(w['probe'])
        obs = w2f(sc.outs[idx][0])
        ok = obs == w['lean']
        rep.append({'regression': w['name'], 'script': sc.request(), 'probe': w['probe'], 'observed': repr(obs),
                    'lean_model_value': w['lean'], 'property_value': w['spec'], 'value_before_fix': w['before_fix'],
                    'implementation_equals_lean_value': ok})
        if not ok:
            broken.append({'what': 'correspondence', 'name': f"regression {w['name']}: implementation returns {obs!r}, the Lean model and the property give {w['lean']}",
                           'first': {'line': sc.line()}})
    return rep, broken, scripts


# ----------------------------------------------------------------------------- plugin
class C12:
    id = 'C12'
    props_files = ['SmoothProps/C12.lean', 'SmoothProps/SrcTieLogicC12.lean']
    props_module = 'SmoothProps.C12All'
    lean_targets = ['SmoothProps.C12All']
    rule = ('harness/spline.cpp: random op-sequence scripts on the real smooth::Spline<K,G>, G in SO3/SE2/SE3/Vector2d/double, '
            'K=1..5; 1..3 constructors (ctor_V, ctor_vs, ConstantVelocity, ConstantVelocityGoal, FixedCubic, empty) then 0..6 of '
            'concat_local/+=, concat_global (matching and mismatching joints), crop (ta/tb strata: first segment, later segment, '
            'on a knot, knot±1ulp, 0, negative, t_max, beyond, +inf; localize true/false), make_local; <= 8 segments, durations '
            '1e-3..1e3; probes at 0, ±0, knots, knots±1ulp, interior, outside.  evaluations = probes compared model-vs-implementation; '
            'distinct_nontrivial = distinct scripts with at least one combination op')
    assumptions = ['IEEE rounding of u=(t-ta)/T at knots is outside the theorems; laws are audited with an explicit time-rounding allowance 64*eps*t_max*|velocity|',
                   'the segment curve c_V is abstract in the theorems; its concrete form is tied by T1 (CSpline.eval_vs, property C11)',
                   'the identity sum_j Btilde_j(u) = K*u of the cumulative Bernstein basis (C20) is a hypothesis of constant_velocity_law',
                   'make_local() only resets m_g0 (theorem make_local_law); a non-identity start leaves a jump at the first knot, such results are not used as law operands']

    def __init__(self):
        self._bins = None

    def bins(self):
        if self._bins is None:
            self._bins = vlib.build_harnesses(specs())
        return self._bins

    def prebuild(self):
        """compile the five harness binaries (content-hash cache) — called by tools/prebuild.py at setup"""
        self.bins()

    def generate(self, ctx, n):
        bins = self.bins()
        scripts = []
        for g in range(5):
            raw = vlib.run_harness(bins[f'spline{g}'], [n], env={'VERIF_SEED': str(ctx['seed'])})
            scripts += [Script.from_line(l) for l in raw if l.strip()]
        return scripts

    def assess(self, ctx, scripts, do_shrink=True):
        bins = self.bins()
        res = check_scripts(scripts)
        broken = []
        if res['t1_bad']:
            first = res['t1_bad'][0]
            shr = None
            if do_shrink:
                try:
                    shr = shrink(bins, Script.from_line(first['line']), pred_t1).line()
                except Exception as e:
                    shr = f'shrink failed: {e!r}'
            broken.append({'what': 'correspondence', 'name': 'T1 spl_script (implementation vs Lean Spline model)',
                           'count': len(res['t1_bad']), 'first': dict(first, shrunk=shr)})
        # group findings by key, shrink the first of each group
        findings, seen = [], {}
        for f in res['findings']:
            gk = json.dumps({k: v for k, v in f['key'].items() if k in ('kind', 'case', 'variant', 'K')}, sort_keys=True)
            seen.setdefault(gk, []).append(f)
        for gk, fs in seen.items():
            fs.sort(key=lambda f: -(f['err'] if f['err'] is not None else 1e300))
            f = dict(fs[0], count=len(fs))
            if do_shrink:
                try:
                    s2 = shrink(bins, Script.from_line(f['line']), pred_finding(f['key']), budget=80, focus=f.get('stmt'))
                    f['shrunk'] = s2.line()
                    r2 = check_scripts([s2])
                    f['shrunk_what'] = [g['what'] for g in r2['findings']][:3]
                except Exception as e:
                    f['shrunk'] = f'shrink failed: {e!r}'
            findings.append(f)
        return res, findings, broken

    def coverage(self, scripts, res, wit):
        ops, lens, segs = {}, [], {}
        nontrivial = set()
        for sc in scripts:
            n_ops = 0
            for s in sc.stmts:
                ops[s.op] = ops.get(s.op, 0) + 1
                if s.op in ('concat_local', 'concat_global', 'crop', 'make_local'):
                    n_ops += 1
            lens.append(len(sc.stmts))
            if n_ops:
                nontrivial.add(sc.request())
            key = f'{sc.grp}/K{sc.K}'
            segs[key] = segs.get(key, 0) + 1
        samples = []
        for sc in scripts[:: max(1, len(scripts) // 4)][:4]:
            pr = sc.probes()
            samples.append({'group': sc.grp, 'K': sc.K, 'statements': len(sc.stmts),
                            'ops': [s.text()[:60] for s in sc.stmts if not s.is_probe()][:8],
                            'first_probe': pr[0].text() if pr else None, 'impl_out': (sc.outs[0] if sc.outs else None)})
        return {'evaluations': res['n_probes'], 'distinct_nontrivial': len(nontrivial), 'rule': self.rule, 'samples': samples,
                'scripts': len(scripts), 'script_length_min_med_max': [min(lens), sorted(lens)[len(lens) // 2], max(lens)] if lens else [],
                'op_histogram': ops, 'scripts_per_group_K': segs, 't1_worst_ulp': res['t1_stats'], 't1_breaks': len(res['t1_bad']),
                'audit_samples': res['stats'].get('law_checks', 0), 'law_and_strata_counts': res['stats'], 'law_worst_rel_err': res['law_worst'],
                'observations': res['observations'], 'witness_replays': wit,
                'history_depth_histogram': {k[len('history_depth_'):]: v for k, v in sorted(res['stats'].items()) if k.startswith('history_depth_')},
                'history_shapes_depth_ge_3_top': dict(sorted(res['shapes'].items(), key=lambda kv: -kv[1])[:25]),
                'history_shape_legend': 'C constructor, L concat_local/+=, G concat_global, X crop, M make_local; last 7 operations of the longest operand chain', 'traces_validated_against_impl': len(scripts)}

    def explore(self, ctx):
        n = 40 if ctx['tier'] == 'quick' else 700
        scripts = self.generate(ctx, n)
        wit, wbroken, wscripts = run_witnesses(self.bins())
        res, findings, broken = self.assess(ctx, scripts + wscripts)
        return {'coverage': self.coverage(scripts + wscripts, res, wit), 'findings': findings, 'broken': broken + wbroken}

    def search(self, ctx, broken):
        scripts = self.generate(dict(ctx, seed=ctx['seed'] + 7919), 300)
        res, findings, b2 = self.assess(ctx, scripts)
        return {'coverage': {'evaluations': res['n_probes']}, 'findings': findings}

    def replay(self, ctx, payload):
        lines = []
        for c in payload.get('cases', []):
            for k in ('shrunk', 'line'):
                if isinstance(c.get(k), str) and c[k].startswith('spl_script'):
                    lines.append(c[k])
        for b in payload.get('no_longer_checks', []) + payload.get('broken', []):
            fst = b.get('first')
            if isinstance(fst, dict):
                for k in ('shrunk', 'line'):
                    if isinstance(fst.get(k), str) and fst[k].startswith('spl_script'):
                        lines.append(fst[k])
        if not lines:
            return {'coverage': {}, 'findings': [], 'broken': payload.get('no_longer_checks', [])}
        scripts = harness_eval(self.bins(), [Script.from_line(l) for l in lines])
        res, findings, broken = self.assess(ctx, scripts, do_shrink=False)
        return {'coverage': self.coverage(scripts, res, []), 'findings': findings, 'broken': broken}


def make():
    return C12()
