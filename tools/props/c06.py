"""C06 — Bundle is the direct product; vectors and scalars are translation groups (operation level).

Evidence produced on every run (besides the theorems of SmoothProps/C06.lean):
  * PART-BY-PART AUDIT on the implementation side (harness/bundle.cpp, 5 translation units, 22
    Bundle types x {double,float}): every LieGroupBase op on the Bundle against the same op on every
    `part<i>()`, BITWISE — tuple ops segment by segment, matrix-valued ops block by block with the
    off-diagonal blocks exactly +0, Hessians by the placement formula with zeros elsewhere.
    Independent of the Lean model.  A failing line is a finding with key
    {'kind':'bundle_part','type':…,'op':…,'prec':…}.
  * T1 model-vs-implementation on Bundles: the same evaluations (bundle.cpp) and the families 3,4,5
    of harness/lie.cpp against `GDesc.model` of the executable Lean model.
  * vectors / scalars through the free-function LieGroup interface (`Eigen::Vector<S,N>` N=1..6,
    `Eigen::VectorX<S>` sizes 0..40, `double`, `float`): T1 against `Tn.model n` at 0 ulp, and an
    exactness audit computed here (composition IS +, inverse IS −, exp/log the identity map, Ad and
    the exp-Jacobians identity matrices, ad and the Hessians zero — bit patterns).
  * the layout obligations of props.c06layout (RepSizesPsum/DofsPsum/DimsPsum …) when that plugin
    is present.
"""
import importlib, os, struct, sys
sys.path.insert(0, os.path.dirname(os.path.dirname(__file__)))
import vlib
from vlib import Line, dec, enc
from props import lie as lieplug

PARTS = [0, 1, 2, 3, 4]
LIE_FAMILIES = [3, 4, 5]                      # the Bundle families of harness/lie.cpp
# ops of the uniform interface that the driver evaluates on any group descriptor
T1_OPS = {'identity', 'matrix', 'compose', 'compose3l', 'inverse', 'log', 'exp', 'hat', 'vee', 'Ad', 'ad',
          'dr_exp', 'dr_expinv', 'd2r_exp', 'd2r_expinv', 'rplus', 'rminus', 'bracket', 'dl_exp', 'dl_expinv',
          'd2l_exp', 'd2l_expinv'}
# ops named by the property (reported separately in the coverage)
CORE_OPS = ['identity', 'compose', 'inverse', 'exp', 'log', 'matrix', 'hat', 'vee', 'Ad', 'ad', 'dr_exp', 'dr_expinv',
            'd2r_exp', 'd2r_expinv']
# derived ops whose Bundle-level formula contains a negation or a dense product over the whole
# tangent: the sign of a zero may differ from the part-level result (−(+0) = −0, 0·b = ±0); they
# must agree in VALUE exactly, all other ops in every bit
SIGN_OF_ZERO_OPS = {'bracket', 'd2l_exp', 'd2l_expinv'}
EXACT_OPS = lieplug.EXACT_OPS

RULE = ('harness/bundle.cpp: 22 Bundle types (order, repetition, nesting depth <= 3, commutative part first/middle/last, '
        'single part, nested commutative Bundle as a part, members without Hessians) x {double,float} x 9 rotation-angle strata '
        'x 5 translation strata; every op evaluated once on the Bundle and once per part (bitwise part-by-part audit) and the '
        'Bundle result compared with the Lean model (T1); harness/lie.cpp families 3-5 (T1); vectors N=1..6, dynamic sizes 0..40, '
        'scalars x {double,float} incl. signed zeros, subnormals, huge values (T1 at 0 ulp + bit-exactness audit). '
        'distinct_nontrivial = distinct (op, group, scalar, input bits) with a non-zero input')


def bundle_specs():
    return [(f'bundle{p}', 'bundle.cpp', (f'-DPART={p}',)) for p in PARTS]


def lie_specs():
    return [s for s in lieplug.lie_specs() if int(s[0][3:]) in LIE_FAMILIES]


# ----------------------------------------------------------------------------- audit lines
class AuditLine:
    """bp_<op> grp prec in… | ncmp nmis first noff nmis_off nval rel # tag"""
    __slots__ = ('op', 'grp', 'prec', 'ins', 'ncmp', 'nmis', 'first', 'noff', 'nmis_off', 'nval', 'rel', 'tag', 'raw')

    def __init__(self, raw):
        self.raw = raw
        body, _, tag = raw.partition(' # ')
        req, _, out = body.partition(' |')
        t = req.split()
        self.op, self.grp, self.prec, self.ins = t[0][3:], t[1], t[2], t[3:]
        o = out.split()
        if len(o) != 7:
            raise vlib.MachineryError('malformed audit line: ' + raw[:200])
        self.ncmp, self.nmis, self.first, self.noff, self.nmis_off, self.nval = (int(x) for x in o[:6])
        self.rel = float(o[6])
        self.tag = tag.strip()

    def request(self):
        return ' '.join(['bp_' + self.op, self.grp, self.prec] + self.ins)

    def failed(self):
        if self.ncmp == 0:
            return 'nothing compared'
        if self.op in SIGN_OF_ZERO_OPS:
            return None if self.nval == 0 else f'{self.nval} entries differ in value (largest {self.rel:g} eps)'
        return None if self.nmis == 0 else f'{self.nmis} entries differ bitwise ({self.nval} in value, {self.nmis_off} outside the blocks)'


def split_lines(raw):
    """-> (audit lines, protocol lines)"""
    aud, std = [], []
    for l in raw:
        if not l.strip() or l.startswith('SKIP'):
            continue
        if l.startswith('bp_'):
            aud.append(AuditLine(l))
        else:
            std.append(Line(l))
    return aud, std


# ----------------------------------------------------------------------------- exactness of vectors / scalars
def _f32(x):
    return struct.unpack('>f', struct.pack('>f', x))[0]


def _add(a, b, prec):
    s = a + b
    if prec == 'f32':
        try:
            s = _f32(s)   # double rounding is innocuous for + of two binary32 values (53 >= 2*24+2)
        except OverflowError:
            s = float('inf') if s > 0 else float('-inf')
    return s


def rn_expected(l):
    """expected output words of a vector/scalar line from the additive-group definition, or None
    when the op is judged by value (returns (words, by_value))"""
    n = int(l.grp[1:])
    p = l.prec
    a = [dec(w, p) for w in l.ins]
    one, zero = enc(1.0, p), enc(0.0, p)
    ident = [one if i == j else zero for i in range(n) for j in range(n)]
    if l.op == 'identity':
        return [zero] * n, False
    if l.op == 'compose':
        return [enc(_add(a[i], a[n + i], p), p) for i in range(n)], False
    if l.op == 'compose3l':
        return [enc(_add(_add(a[i], a[n + i], p), a[2 * n + i], p), p) for i in range(n)], False
    if l.op == 'inverse':
        return [enc(-a[i], p) for i in range(n)], False
    if l.op in ('log', 'exp'):
        return list(l.ins), False
    if l.op == 'rplus':                       # g ∘ exp(a) = g + a
        return [enc(_add(a[i], a[n + i], p), p) for i in range(n)], False
    if l.op == 'rminus':                      # log(g2⁻¹ ∘ g1) = (−g2) + g1
        return [enc(_add(-a[n + i], a[i], p), p) for i in range(n)], False
    if l.op in ('Ad', 'dr_exp', 'dr_expinv', 'dl_exp', 'dl_expinv'):
        return ident, False
    if l.op == 'ad':
        return [zero] * (n * n), False
    if l.op in ('d2r_exp', 'd2r_expinv'):
        return [zero] * (n * n * n), False
    if l.op in ('d2l_exp', 'd2l_expinv'):     # −d2r(−a): zero, the sign bit of the zeros is set
        return [zero] * (n * n * n), True
    return None, False


def rn_audit(lines):
    findings, counts, sign_only = [], {}, 0
    for l in lines:
        exp, by_value = rn_expected(l)
        if exp is None:
            continue
        k = f'{l.op}|{l.tag}|{l.prec}'
        counts[k] = counts.get(k, 0) + 1
        bad = None
        if len(exp) != len(l.outs):
            bad = f'length {len(l.outs)} expected {len(exp)}'
        else:
            for i, (g, e) in enumerate(zip(l.outs, exp)):
                if g == e:
                    continue
                if by_value and dec(g, l.prec) == dec(e, l.prec):
                    sign_only += 1
                    continue
                bad = f'entry {i}: got {g} expected {e}'
                break
        if bad:
            findings.append({'property': 'C06', 'key': {'kind': 'rn_exact', 'group': l.grp, 'op': l.op, 'prec': l.prec, 'cxx_type': l.tag},
                             'err': None, 'tol': 0, 'what': f'{l.tag} as LieGroup: {l.op} is not the additive-group value ({bad})',
                             'line': trim_line(l.raw)})
    return findings, counts, sign_only



# ----------------------------------------------------------------------------- attribution of a Bundle T1 break
# A Bundle line disagrees with the model.  C06 is about the ARRANGEMENT; the leaf formulas belong to
# C01-C05.  The break is attributed to a leaf ("inherited") when BOTH sides are provably the
# arrangement of their own leaf results for this very input: the implementation by the bitwise
# part-by-part audit, the model by recomputing every leaf with the driver and assembling the
# tuple / block-diagonal / Hessian placement here.  Otherwise it stays a C06 correspondence break.
IN_KINDS = {'identity': [], 'compose': ['rep', 'rep'], 'inverse': ['rep'], 'log': ['rep'], 'matrix': ['rep'], 'Ad': ['rep'],
            'exp': ['dof'], 'hat': ['dof'], 'ad': ['dof'], 'dr_exp': ['dof'], 'dr_expinv': ['dof'], 'dl_exp': ['dof'],
            'dl_expinv': ['dof'], 'd2r_exp': ['dof'], 'd2r_expinv': ['dof'], 'd2l_exp': ['dof'], 'd2l_expinv': ['dof'],
            'rplus': ['rep', 'dof'], 'rminus': ['rep', 'rep'], 'bracket': ['dof', 'dof'], 'vee': ['mat']}
OUT_KIND = {'identity': 'rep', 'compose': 'rep', 'inverse': 'rep', 'exp': 'rep', 'rplus': 'rep', 'log': 'dof', 'rminus': 'dof',
            'bracket': 'dof', 'vee': 'dof', 'matrix': 'dimblk', 'hat': 'dimblk', 'Ad': 'dofblk', 'ad': 'dofblk', 'dr_exp': 'dofblk',
            'dr_expinv': 'dofblk', 'dl_exp': 'dofblk', 'dl_expinv': 'dofblk', 'd2r_exp': 'hess', 'd2r_expinv': 'hess',
            'd2l_exp': 'hess', 'd2l_expinv': 'hess'}


def leaf_sizes(p):
    rep, dof, _ = lieplug.prim_sizes(p)
    if p.startswith('SEK'):
        dim = 3 + int(p[3:])
    elif p.startswith('T'):
        dim = int(p[1:]) + 1
    else:
        dim = {'SO2': 2, 'SO3': 3, 'SE2': 3, 'SE3': 4, 'C1': 2, 'GAL': 5}[p]
    return {'rep': rep, 'dof': dof, 'dim': dim}


def leaf_requests(l):
    """[(leaf name, request line, sizes, offsets)] for the leaves of the group of line l, or None"""
    if l.op not in IN_KINDS:
        return None
    leaves = lieplug.flat_prims(lieplug.parse_desc(l.grp))
    sz = [leaf_sizes(p) for p in leaves]
    tot = {k: sum(s[k] for s in sz) for k in ('rep', 'dof', 'dim')}
    kinds = IN_KINDS[l.op]
    need = sum(tot['dim'] ** 2 if k == 'mat' else tot[k] for k in kinds)
    if need != len(l.ins):
        return None
    off = {'rep': 0, 'dof': 0, 'dim': 0}
    out = []
    for p, s in zip(leaves, sz):
        words, base = [], 0
        for k in kinds:
            if k == 'mat':
                D = tot['dim']
                for r in range(s['dim']):
                    for c in range(s['dim']):
                        words.append(l.ins[base + (off['dim'] + r) * D + off['dim'] + c])
                base += D * D
            else:
                words += l.ins[base + off[k]: base + off[k] + s[k]]
                base += tot[k]
        out.append((p, ' '.join([l.op, p, l.prec] + words), s, dict(off)))
        for k in off:
            off[k] += s[k]
    return out, tot


def assemble(l, leafs, tot, replies):
    """Bundle-layout values assembled from the leaf replies (list of float), or None"""
    kind = OUT_KIND[l.op]
    p = l.prec
    if kind in ('rep', 'dof'):
        vals = []
        for (name, req, s, off), rep in zip(leafs, replies):
            w = rep.split()
            if len(w) != s[kind]:
                return None
            vals += [dec(x, p) for x in w]
        return vals
    if kind in ('dimblk', 'dofblk'):
        k = 'dim' if kind == 'dimblk' else 'dof'
        D = tot[k]
        vals = [0.0] * (D * D)
        for (name, req, s, off), rep in zip(leafs, replies):
            w = rep.split()
            d = s[k]
            if len(w) != d * d:
                return None
            for r in range(d):
                for c in range(d):
                    vals[(off[k] + r) * D + off[k] + c] = dec(w[r * d + c], p)
        return vals
    D = tot['dof']
    vals = [0.0] * (D * D * D)
    for (name, req, s, off), rep in zip(leafs, replies):
        w = rep.split()
        d, o = s['dof'], off['dof']
        if len(w) != d * d * d:
            return None
        for r in range(d):
            for j in range(d):
                for k in range(d):
                    vals[(o + r) * D * D + D * (o + j) + o + k] = dec(w[r * d * d + d * j + k], p)
    return vals


def trim_line(raw, max_out_words=48):
    """keep the full request (replayable) and the tag, shorten the output words"""
    body, sep, tag = raw.partition(' # ')
    req, bar, out = body.partition(' |')
    w = out.split()
    if len(w) > max_out_words:
        out = ' ' + ' '.join(w[:max_out_words]) + f' …(+{len(w) - max_out_words}w)'
    return req + bar + out + (sep + tag if sep else '')

# ----------------------------------------------------------------------------- layout plugin (other builder)
def load_layout():
    try:
        mod = importlib.import_module('props.c06layout')
    except ImportError:
        return None
    try:
        return mod.make() if hasattr(mod, 'make') else mod
    except Exception as e:                      # its own machinery problem must not hide this unit's checks
        vlib.log('props.c06layout present but make() failed:', e)
        return None


class C06:
    id = 'C06'
    rule = RULE
    assumptions = ['Bundle compositions outside the 22-type catalogue are covered by the induction theorems about the model and the '
                   'catalogue tie (BundleImpl is one variadic template; offsets come from one constexpr prefix sum)',
                   'bitwise part-by-part equality is measured at -O0 without -march flags (no FMA contraction); sign of zero of '
                   'bracket/d2l_* is not required to match (negation / dense product), their values are',
                   'Galilei and SE_K_3 have no Hessians; Bundles containing them are audited on all other ops']

    def __init__(self):
        self.layout = load_layout()
        self.props_files = ['SmoothProps/C06.lean']
        self.lean_targets = ['SmoothProps.C06']
        self.props_module = 'SmoothProps.C06'
        self.translators = []
        L = self.layout
        if L is not None:
            lf = [f for f in getattr(L, 'props_files', []) if f not in self.props_files]
            if lf:
                self.props_files += lf
                self.props_module = 'SmoothProofs.Gen.C06All'
                self.translators.append(self.gen_c06all)
            for t in getattr(L, 'lean_targets', []):
                if t not in self.lean_targets:
                    self.lean_targets.append(t)
            if lf:
                self.lean_targets.append('SmoothProofs.Gen.C06All')
            self.translators += list(getattr(L, 'translators', []))
        # source ties regenerated from the C++ on every check by tools/gen_bundle.py (fourth entry of vlib.run_translators):
        # detail/bundle.hpp `BundleImpl` + utils::array_psum (SrcTieBundle), traits::lie of Eigen vectors / scalars / native
        # groups (SrcTieRn); static aggregator SmoothProps/C06All.lean (imports C06, C06Layout and both tie files)
        self.props_files += ['SmoothProps/SrcTieBundle.lean', 'SmoothProps/SrcTieRn.lean']
        # C06 in rounded arithmetic (standard model): Bundles add no arithmetic, Tn as the additive group (static file)
        self.props_files += ['SmoothProps/C06Round.lean']
        self.props_module = 'SmoothProps.C06All'
        self.lean_targets.append('SmoothProps.C06All')

    # aggregator module so that one `import` reaches the theorems of both C06 files (axiom audit)
    def gen_c06all(self, ctx):
        mods = [f[:-5].replace('/', '.') for f in self.props_files]
        txt = '-- generated by tools/props/c06.py: all property-theorem modules of C06\n' + ''.join(f'import {m}\n' for m in mods)
        p = os.path.join(vlib.LEAN, 'SmoothProofs', 'Gen', 'C06All.lean')
        os.makedirs(os.path.dirname(p), exist_ok=True)
        if not os.path.exists(p) or open(p).read() != txt:
            open(p, 'w').write(txt)
        return True, 'C06All'

    # ------------------------------------------------------------------ generation
    def gen(self, ctx, n, vecall):
        bins = vlib.build_harnesses(bundle_specs() + lie_specs())
        env = {'VERIF_SEED': str(ctx['seed'])}
        aud, std = [], []
        for p in PARTS:
            a, s = split_lines(vlib.run_harness(bins[f'bundle{p}'], [n, vecall], env=env))
            aud += a
            std += s
        lie = []
        for f in LIE_FAMILIES:
            raw = vlib.run_harness(bins[f'lie{f}'], [n], env=env)
            lie += [l for l in vlib.parse_lines(raw) if l.op in T1_OPS]
        return aud, std, lie

    def eval_lines(self, raws):
        """re-evaluate stored lines (audit, Bundle, vector) with the current implementation"""
        bins = vlib.build_harnesses(bundle_specs() + lie_specs())
        out = [None] * len(raws)
        todo = list(range(len(raws)))
        for name in [f'bundle{p}' for p in PARTS] + [f'lie{f}' for f in LIE_FAMILIES]:
            if not todo:
                break
            raw = vlib.run_harness(bins[name], ['eval'], stdin='\n'.join(raws[i] for i in todo) + '\n')
            nxt = []
            for i, r in zip(todo, raw):
                if r.startswith('SKIP'):
                    nxt.append(i)
                else:
                    out[i] = r
            todo = nxt
        return [o for o in out if o is not None], len(todo)

    # ------------------------------------------------------------------ checks on a set of lines
    def check(self, ctx, aud, std, lie):
        findings, broken = [], []
        bun = [l for l in std if l.grp.startswith('B[') and l.op in T1_OPS]
        vec = [l for l in std if not l.grp.startswith('B[') and l.op in T1_OPS]

        # (1) part-by-part audit of the implementation
        per_type, bits, offz, sign_only = {}, 0, 0, 0
        for a in aud:
            d = per_type.setdefault(a.grp, {}).setdefault(a.prec, {})
            d[a.op] = d.get(a.op, 0) + 1
            bits += a.ncmp
            offz += a.noff
            why = a.failed()
            if a.nmis and not why:
                sign_only += a.nmis
            if why:
                findings.append({'property': 'C06', 'key': {'kind': 'bundle_part', 'type': a.grp, 'op': a.op, 'prec': a.prec},
                                 'err': a.rel if a.nval else float(a.nmis), 'tol': 0,
                                 'what': f'Bundle {a.op} is not the arrangement of the part results: {why}; first flat index {a.first}',
                                 'line': a.raw, 'stratum': a.tag})

        # (2) T1: Bundle results (bundle.cpp + lie.cpp families 3-5) against the Lean model
        t1 = vlib.t1_compare(bun + lie, tol_ulp=64.0, exact_ops=EXACT_OPS, rng_seed=ctx['seed']) if (bun or lie) else {'stats': {}, 'breaks': []}
        # (3) T1: vectors / scalars against Tn.model n, every op at 0 ulp
        t1v = vlib.t1_compare(vec, tol_ulp=0.0, exact_ops=(), rng_seed=ctx['seed'], sens_variants=1, sens_factor=0.0) if vec else {'stats': {}, 'breaks': []}
        real_breaks, inherited = self.attribute(t1['breaks'], aud)
        for name, brk in (('Bundle', real_breaks), ('Rn/scalar', t1v['breaks'])):
            by = {}
            for b in brk:
                l = Line(b['line'])
                b = dict(b, line=trim_line(b['line']), model=' '.join(str(b.get('model')).split()[:48]))
                by.setdefault(f'{l.op}|{l.grp}|{l.prec}', []).append(b)
            for k, bs in by.items():
                broken.append({'what': 'correspondence', 'name': f'T1 {name} {k} (implementation vs Lean model)', 'count': len(bs), 'first': bs[0]})
        # (4) exactness of the additive group
        f4, rn_counts, rn_sign = rn_audit(vec)
        findings += f4

        # ---- coverage
        sig = set()
        for l in bun + lie + vec:
            if any(v != 0 for v in l.in_vals()):
                sig.add((l.op, l.grp, l.prec, tuple(l.ins)))
        for a in aud:
            if any(dec(w, a.prec) != 0 for w in a.ins):
                sig.add(('bp_' + a.op, a.grp, a.prec, tuple(a.ins)))
        strata = {}
        for a in aud:
            strata[a.tag] = strata.get(a.tag, 0) + 1
        core = {}
        for grp, d in per_type.items():
            core[grp] = {p: {op: d[p].get(op, 0) for op in CORE_OPS if d[p].get(op)} for p in d}
        def summarize(stats):
            s = {}
            for k, v in stats.items():
                op, grp, prec = k.split('|')
                e = s.setdefault(f'{op}|{prec}', {'n': 0, 'worst_ulp': 0.0, 'excused_by_sensitivity': 0, 'groups': 0})
                e['n'] += v['n']; e['worst_ulp'] = max(e['worst_ulp'], v['worst_ulp'])
                e['excused_by_sensitivity'] += v['excused_by_sensitivity']; e['groups'] += 1
            return s
        samples = []
        for a in aud[::max(1, len(aud) // 5)][:5]:
            samples.append({'audit': a.raw[:400], 'entries_compared': a.ncmp, 'bit_mismatches': a.nmis, 'must_be_zero_entries': a.noff})
        for l in (bun[::max(1, len(bun) // 2)][:2] + vec[::max(1, len(vec) // 3)][:3]):
            samples.append({'line': l.raw[:400]})
        vec_sizes = sorted({(l.tag, int(l.grp[1:])) for l in vec})
        cov = {'evaluations': len(aud) + len(bun) + len(lie) + len(vec), 'distinct_nontrivial': len(sig), 'rule': RULE, 'samples': samples,
               'bundle_types': sorted(per_type), 'n_bundle_types': len(per_type),
               'part_audit': {'lines': len(aud), 'entries_compared_bitwise': bits, 'must_be_zero_entries_checked': offz,
                              'sign_of_zero_only_differences_in_bracket_d2l': sign_only, 'failing_lines': sum(1 for f in findings if f['key']['kind'] == 'bundle_part'),
                              'per_type_core_ops': core,
                              'per_op': {op: sum(d[p].get(op, 0) for d in per_type.values() for p in d) for op in sorted({o for d in per_type.values() for p in d for o in d[p]})}},
               'strata_hits': strata,
               't1_bundle': {'lines_bundle_cpp': len(bun), 'lines_lie_cpp_families_3_4_5': len(lie), 'breaks': len(real_breaks),
                             'disagreements_inherited_from_a_leaf': {
                                 'count': len(inherited),
                                 'meaning': 'model and implementation disagree beyond 64 ulp + conditioning, but for this very input the implementation is '
                                            'bitwise the arrangement of its part results (audit) and the model is exactly the arrangement of its leaf results: '
                                            'the disagreement is that of the leaf formula (C01-C05 correspondence), not of the Bundle',
                                 'by_leaf_op_prec': {k: sum(1 for r in inherited if f"{r.get('leaf')}|{r['op']}|{r['prec']}" == k)
                                                     for k in sorted({f"{r.get('leaf')}|{r['op']}|{r['prec']}" for r in inherited})},
                                 'samples': inherited[:4]},
                             'groups': sorted({l.grp for l in bun + lie}), 'per_op': summarize(t1['stats'])},
               't1_rn_scalar': {'lines': len(vec), 'breaks': len(t1v['breaks']), 'tolerance_ulp': 0, 'per_op': summarize(t1v['stats']),
                                'static_sizes': sorted({n for t, n in vec_sizes if t.startswith('Vec') and t != 'VecX'}),
                                'dynamic_sizes': sorted({n for t, n in vec_sizes if t == 'VecX'}),
                                'scalars': sorted({l.prec for l in vec if l.tag == 'scalar'})},
               'rn_exactness_audit': {'lines': sum(rn_counts.values()), 'per_op_type_prec': rn_counts, 'sign_of_zero_only_in_d2l': rn_sign,
                                      'failing_lines': len(f4)},
               'traces_validated_against_impl': len(aud) + len(bun) + len(lie) + len(vec)}
        return {'coverage': cov, 'findings': findings, 'broken': broken}


    def attribute(self, breaks, aud):
        """split T1 breaks of Bundle lines into (C06 breaks, inherited-from-a-leaf records)"""
        if not breaks:
            return [], []
        idx = {(a.op, a.grp, a.prec, tuple(a.ins)): a for a in aud}
        lines = [Line(b['line']) for b in breaks]
        # the implementation side: audit verdict for exactly this input (re-run it when the line came from lie.cpp)
        missing = [i for i, l in enumerate(lines) if (l.op, l.grp, l.prec, tuple(l.ins)) not in idx and l.op in IN_KINDS]
        if missing:
            got, _ = self.eval_lines([' '.join(['bp_' + lines[i].op, lines[i].grp, lines[i].prec] + lines[i].ins) for i in missing])
            for r in got:
                if r.startswith('bp_'):
                    a = AuditLine(r)
                    idx[(a.op, a.grp, a.prec, tuple(a.ins))] = a
        # the model side: every leaf through the driver
        plans, reqs = [], []
        for l in lines:
            pl = leaf_requests(l) if (l.grp.startswith('B[') and l.op in OUT_KIND) else None
            plans.append(pl)
            if pl:
                reqs += [r for (_, r, _, _) in pl[0]]
        reps = vlib.run_driver(reqs) if reqs else []
        real, inherited, k = [], [], 0
        for b, l, pl in zip(breaks, lines, plans):
            if not pl:
                real.append(b)
                continue
            leafs, tot = pl
            rr = reps[k:k + len(leafs)]
            k += len(leafs)
            a = idx.get((l.op, l.grp, l.prec, tuple(l.ins)))
            impl_ok = a is not None and a.failed() is None
            mw = str(b.get('model', '')).split()
            model_ok, culprit = False, None
            if not any(r.startswith('ERR') for r in rr) and not str(b.get('model', '')).startswith('ERR'):
                asm = assemble(l, leafs, tot, rr)
                if asm is not None and len(asm) == len(mw):
                    mv = [dec(w, l.prec) for w in mw]
                    model_ok = all((x == y) or (x != x and y != y) for x, y in zip(asm, mv))
                    if model_ok and len(l.outs) == len(asm):
                        iv = l.out_vals()
                        worst = max(range(len(asm)), key=lambda i: abs(iv[i] - asm[i]) if iv[i] == iv[i] and asm[i] == asm[i] else float('inf'))
                        # which leaf owns that entry
                        kind = OUT_KIND[l.op]
                        key = {'rep': 'rep', 'dof': 'dof', 'dimblk': 'dim', 'dofblk': 'dof', 'hess': 'dof'}[kind]
                        D = tot[key]
                        row = worst if kind in ('rep', 'dof') else (worst // D if kind != 'hess' else worst // (D * D))
                        for (name, req, s, off) in leafs:
                            if off[key] <= row < off[key] + s[key]:
                                culprit = {'leaf': name, 'leaf_request': req[:600], 'impl': iv[worst], 'model': asm[worst]}
            if impl_ok and model_ok:
                rec = {'op': l.op, 'group': l.grp, 'prec': l.prec, 'err_ulp': b.get('err_ulp'), 'stratum': l.tag, 'line': trim_line(b['line'])}
                if culprit:
                    rec.update(culprit)
                inherited.append(rec)
            else:
                real.append(dict(b, impl_is_arrangement_of_parts=impl_ok, model_is_arrangement_of_leaves=model_ok))
        return real, inherited

    def with_layout(self, ctx, res, method='explore', *args):
        L = self.layout
        if L is None or not hasattr(L, method):
            res['coverage']['layout_plugin'] = 'absent' if L is None else 'present (no ' + method + ')'
            return res
        r = getattr(L, method)(ctx, *args)
        res['findings'] += r.get('findings', [])
        res['broken'] += r.get('broken', [])
        lc = r.get('coverage', {})
        res['coverage']['layout'] = lc
        res['coverage']['evaluations'] += lc.get('evaluations', 0) or 0
        res['coverage']['distinct_nontrivial'] += lc.get('distinct_nontrivial', 0) or 0
        for k in ('gen_obligations', 'gen_obligations_discharged'):
            if k in lc:
                res['coverage'][k] = res['coverage'].get(k, 0) + lc[k]
        return res

    # ------------------------------------------------------------------ entry points
    def explore(self, ctx):
        quick = ctx['tier'] == 'quick'
        aud, std, lie = self.gen(ctx, 18 if quick else 150, 0 if quick else 1)
        return self.with_layout(ctx, self.check(ctx, aud, std, lie))

    def search(self, ctx, broken):
        aud, std, lie = self.gen(dict(ctx, seed=ctx['seed'] + 7919), 90, 0)
        res = self.check(ctx, aud, std, lie)
        return {'coverage': {'evaluations': res['coverage']['evaluations']}, 'findings': res['findings']}

    def replay(self, ctx, payload):
        raws, foreign = [], []
        for c in payload.get('cases', []):
            if c.get('key', {}).get('kind') in ('bundle_part', 'rn_exact') and 'line' in c:
                raws.append(c['line'])
            else:
                foreign.append(c)
        nlc = payload.get('no_longer_checks', []) + payload.get('broken', [])
        for b in nlc:
            if isinstance(b.get('first'), dict) and 'line' in b['first'] and str(b.get('name', '')).startswith('T1 '):
                raws.append(b['first']['line'])
        res = {'coverage': {'evaluations': 0, 'distinct_nontrivial': 0}, 'findings': [], 'broken': []}
        if raws:
            reqs = []
            for r in raws:
                body, _, tag = r.partition(' # ')
                reqs.append(body.partition(' |')[0] + (' # ' + tag if tag else ''))
            lines, missing = self.eval_lines(reqs)
            aud, std = split_lines(lines)
            res = self.check(ctx, aud, [l for l in std if l.grp.startswith('B[') or l.grp.startswith('T')], [])
            res['coverage']['replayed_lines'] = len(lines)
            if missing:
                res['broken'].append({'what': 'correspondence', 'name': f'replay: {missing} stored lines are served by no harness binary'})
        if (foreign or nlc) and self.layout is not None and hasattr(self.layout, 'replay'):
            sub = dict(payload, cases=foreign)
            res = self.with_layout(ctx, res, 'replay', sub)
        elif not raws:
            res['broken'] += [b for b in nlc]
        return res


def make():
    return C06()
