from props.lie import *
from props import apiops

TOL = {'f64': 1e-12, 'f32': 1e-5}


def audit(lines):
    reqs = []
    pend3 = {}
    thin = apiops.Thin(3)
    audit.pyfindings = []
    for l in lines:
        p = l.prec + 'a'
        base = {'key': std_key(l), 'line': l.raw, 'tol': TOL[l.prec], 'judge': simple_judge, 'pyfindings': audit.pyfindings}
        if apiops.audit_c01(l, p, base, reqs, thin):
            pass
        elif l.op in ('sqassign', 'mulassign_map'):
            # g *= g with the right operand aliased to the left: still matrix(g)·matrix(g)
            reqs.append((' '.join(['a_compose', l.grp, p] + l.ins + l.ins + l.outs),
                         dict(base, what=f'{l.op}: in-place g *= g (aliased right operand) != matrix(g) matrix(g)')))
        elif l.op in ('compose', 'mulassign', 'fcompose'):
            reqs.append((' '.join(['a_compose', l.grp, p] + l.ins + l.outs), dict(base, what='matrix(g1*g2) != matrix(g1) matrix(g2)')))
        elif l.op in ('inverse', 'finverse'):
            reqs.append((' '.join(['a_inverse', l.grp, p] + l.ins + l.outs), dict(base, what='matrix(inverse(g)) != matrix(g)^-1')))
        elif l.op == 'identity':
            reqs.append((' '.join(['a_identity', l.grp, p] + l.outs), dict(base, what='matrix(Identity) != I')))
        elif l.op == 'act':
            reqs.append((' '.join(['a_act', l.grp, p] + l.ins + l.outs), dict(base, what='g*v != matrix action')))
        elif l.op == 'compose3l':
            pend3[(l.grp, l.prec, tuple(l.ins))] = l
        elif l.op == 'compose3r':
            a = pend3.pop((l.grp, l.prec, tuple(l.ins)), None)
            if a is not None:
                def judge(errs, m):
                    e = max(errs[0], errs[1])
                    return [(e, m['tol'], m['what'])] if not (e <= m['tol']) else []
                reqs.append((' '.join(['a_assoc', l.grp, p] + l.ins + a.outs + l.outs),
                             dict(base, judge=judge, what='(g1 g2) g3 / g1 (g2 g3) != matrix product')))
    return reqs


def make():
    return LieProp('C01', ['identity', 'matrix', 'compose', 'mulassign', 'sqassign', 'mulassign_map', 'fcompose', 'finverse', 'compose3l', 'compose3r', 'inverse', 'act']
                   + apiops.API_OPS['C01'],
                   ['SmoothProps/C01.lean', 'SmoothProps/C01Round.lean', 'SmoothProps/C01RoundB.lean', 'SmoothProps/C01RoundC.lean'], audit, TOL,
                   rule='harness/lie.cpp: per group type (6 catalogue families incl. Bundles) x scalar x 9 rotation-angle strata '
                        '(zero,tiny,switch,above_switch,small,generic,near_pi,beyond_pi,large) x 5 translation strata; '
                        'distinct_nontrivial counts distinct (op,group,scalar,stratum,input bits) with a non-zero input',
                   assumptions=['IEEE rounding: proved in the standard model fl(x op y) = (x op y)(1+d), |d| <= u, no over/underflow '
                                '(SmoothProps/C01Round.lean, C01RoundB.lean, C01RoundC.lean: composition, inverse and the actions g*v of every '
                                'group type incl. Galilei, SE_K_3 for every K and every nested Bundle; associativity of SO3/SE3 triple '
                                'products in double); the standard model itself (overflow, underflow, subnormals, what the compiler emits) and the '
                                'single-precision associativity clause are audited against an exact rational oracle, not proved',
                                'Bundles outside the harness catalogue rely on the induction theorem about the model'])
