"""C18 — Non-mutating operations are safe to run concurrently.

Tie of the Lean theorems (SmoothProps/C18.lean over SmoothModel/Conc.lean) to /repo:
  (a) translator `gen_shared_state`: shared-state inventory scanned from the CURRENT source
      (tools/props/c18scan.py) -> lean/SmoothProofs/Gen/SharedState.lean, compared by `decide` with the
      committed `C18.expectedInventory`; every `writtenByConst` cell is reported as a finding
      {'kind':'shared-write','cell':…};
  (b) stress correspondence: harness/conc.cpp built plain and with -fsanitize=thread, one process per
      thread count 2..16, every thread's result compared bitwise with a sequential reference computed
      before the threads start; TSan race reports parsed from the log files.
Schedules on the implementation are SAMPLED (whatever the OS scheduler produces), never enumerated;
the quantifier over all schedules lives in the Lean model only.
"""
import glob, json, os, random, re, shutil, subprocess, sys, time

sys.path.insert(0, os.path.dirname(os.path.dirname(__file__)))
import vlib
from vlib import log
from props import c18scan

GEN = os.path.join(vlib.LEAN, 'SmoothProofs', 'Gen', 'SharedState.lean')
EXPECTED = os.path.join(vlib.LEAN, 'SmoothProofs', 'C18Inventory.lean')
WORK = os.path.join(vlib.BUILD, 'c18')
ALL_T = list(range(2, 17))

ROW = re.compile(r'⟨"((?:[^"\\]|\\.)*)",\s*\.(\w+),\s*(true|false),\s*\.(\w+),\s*\[([^\]]*)\]⟩')


def parse_lean_inventory(path, defname):
    txt = open(path, encoding='utf-8').read()
    m = re.search(r'def\s+' + defname + r'\s*:\s*List Entry\s*:=\s*\[(.*?)\n\]', txt, re.S)
    if not m:
        raise vlib.MachineryError(f'{defname} not found in {path}')
    rows = []
    for r in ROW.finditer(m.group(1)):
        ws = re.findall(r'"((?:[^"\\]|\\.)*)"', r.group(5))
        rows.append({'name': r.group(1).replace('\\"', '"').replace('\\\\', '\\'), 'kind': r.group(2),
                     'const': r.group(3) == 'true', 'cls': r.group(4), 'writers': ws})
    return rows


def parse_known_cells():
    txt = open(EXPECTED, encoding='utf-8').read()
    m = re.search(r'def\s+knownFindings\s*:\s*List String\s*:=\s*\[([^\]]*)\]', txt)
    return re.findall(r'"([^"]*)"', m.group(1)) if m else []


def row_key(e):
    return (e['name'], 'macroBody' if e['kind'] == 'macro' else e['kind'], bool(e['const']), e['cls'], tuple(e['writers']))


def simplify_symbol(sym):
    """smooth::v1_0::SubManifold<smooth::SE3<double> >::rplus<…>(…) const  ->  SubManifold::rplus"""
    s = re.sub(r'\(anonymous namespace\)::', '', sym)
    # drop the parameter list (last top-level parenthesis group) and trailing qualifiers
    depth, cut = 0, None
    for i, ch in enumerate(s):
        if ch in '<':
            depth += 1
        elif ch == '>':
            depth -= 1
        elif ch == '(' and depth == 0 and not s[:i].endswith('operator'):
            cut = i
            break
    if cut is not None:
        s = s[:cut]
    out, d = [], 0
    for ch in s:
        if ch == '<':
            d += 1
        elif ch == '>':
            d -= 1
        elif d == 0:
            out.append(ch)
    s = ''.join(out).strip()
    s = s.split(' ')[-1] if ' ' in s and 'operator' not in s else s
    s = re.sub(r'^(?:smooth::)?(?:v\d+_\d+(?:_\d+)?::)?', '', s)
    s = re.sub(r'\bsmooth::(?:v\d+_\d+(?:_\d+)?::)?', '', s)
    return s


class C18:
    id = 'C18'
    props_files = ['SmoothProps/C18.lean']
    props_module = 'SmoothProps.C18'
    lean_targets = ['SmoothProps.C18']
    rule = ('stress: harness/conc.cpp, catalogue of 21 const operations (group/tangent functions of SO3 SE3 SE2 SO2 C1 Galilei Bundle; '
            'rplus/rminus/dof on shared const SubManifold, AnyManifold, AnyManifold(SubManifold), std::vector manifold; Spline/BSpline '
            'evaluation incl. first use of function-local statics; sparse derivatives into thread-private matrices; independent '
            'diff::dr / minimize / fit_spline / fit_bspline) x 8 argument variants x thread counts 2..16 x {plain, -fsanitize=thread}, '
            'two phases (all threads on one op; mixed catalogue walk); results compared bitwise with a sequential reference computed '
            'before the threads start (forked child, parent stays cold).  One execution per (op, phase, thread count, build): '
            'schedules are SAMPLED by the OS scheduler, not enumerated.  distinct_nontrivial = distinct (op, phase, threads, build) '
            'runs with at least one call.  inventory: every mutable member / non-constexpr static, inline, thread_local, namespace-scope '
            'variable / pointer-like member with pointee writes of include/smooth/**, with the syntactic writes per function')
    assumptions = ['the C++ memory model, Eigen and libstdc++ internals and the allocator are outside the model (TSan observes them, no theorem)',
                   'the inventory scan is syntactic: writes through aliases / out-parameters / macros are not seen by it (TSan run is the backstop)',
                   'schedules are quantified in the Lean model and only sampled on the implementation',
                   'template instantiations outside the harness catalogue are covered by the source scan only']

    def __init__(self):
        self.scan = None
        self.translators = [self.gen_shared_state]

    # ------------------------------------------------------------------ translator (tie a)
    def gen_shared_state(self, ctx):
        try:
            self.scan = c18scan.scan(os.path.join(vlib.REPO, 'include'))
        except c18scan.ScanError as e:
            self.scan = None
            return False, f'shared-state scan failed: {e}'
        txt = c18scan.to_lean(self.scan['inventory'])
        os.makedirs(os.path.dirname(GEN), exist_ok=True)
        if not os.path.exists(GEN) or open(GEN, encoding='utf-8').read() != txt:
            tmp = GEN + '.tmp'
            open(tmp, 'w', encoding='utf-8').write(txt)
            os.replace(tmp, GEN)
        return True, f'{len(self.scan["inventory"])} cells'

    def inventory_check(self):
        """returns (coverage part, findings, broken)"""
        if self.scan is None:
            ok, msg = self.gen_shared_state({})
            if not ok:
                return {}, [], [{'what': 'obligation', 'name': 'translator gen_shared_state', 'detail': msg}]
        inv = self.scan['inventory']
        expected = parse_lean_inventory(EXPECTED, 'expectedInventory')
        known_cells = parse_known_cells()
        findings, broken = [], []
        got = [row_key(e) for e in inv]
        exp = [row_key(e) for e in expected]
        if got != exp:
            gs, es = {g[0]: g for g in got}, {e[0]: e for e in exp}
            added = [gs[n] for n in gs if n not in es]
            removed = [es[n] for n in es if n not in gs]
            changed = [{'expected': es[n], 'scanned': gs[n]} for n in gs if n in es and gs[n] != es[n]]
            broken.append({'what': 'obligation', 'name': 'SmoothProps.C18.Gen.inventory_eq_expected',
                           'detail': 'shared-state inventory scanned from the current source differs from C18.expectedInventory',
                           'first': {'added': added[:10], 'removed': removed[:10], 'changed': changed[:10],
                                     'order_only': not (added or removed or changed)}})
        for e in inv:
            if e['cls'] == 'writtenByConst':
                how = '; '.join(f"{w['function']} ({w['file']}:{w['line']}: {w['how']})" for w in e['writes'][:4])
                findings.append({'property': 'C18', 'key': {'kind': 'shared-write', 'cell': e['name']}, 'err': None,
                                 'what': f"shared cell {e['name']} ({e['kind']}, {e['file']}:{e['line']}) is written by non-mutating "
                                         f"operations: {how or 'see macro body'}; by C18.writtenByConst_yields_counter_schedule two threads "
                                         f"calling them on one shared object have a schedule with a wrong result",
                                 'line': f"{e['file']}:{e['line']}", 'writers': e['writers']})
            elif e['name'] not in known_cells and e['writers'] and e['cls'] != 'perObject':
                broken.append({'what': 'obligation', 'name': 'SmoothProps.C18.Gen.no_cell_written_by_const',
                               'detail': f"{e['name']} has writers {e['writers']} but is classified {e['cls']}"})
        listing = [{'cell': e['name'], 'kind': e['kind'], 'const': e['const'], 'class': e['cls'], 'writers': e['writers'],
                    'where': f"{e['file']}:{e['line']}"} for e in inv]
        cov = {'inventory': listing, 'inventory_cells': len(inv), 'inventory_matches_expected': got == exp,
               'inventory_scan_stats': self.scan['stats'],
               'inventory_by_class': {c: sum(1 for e in inv if e['cls'] == c) for c in ('onceInit', 'readOnlyAfterInit', 'writtenByConst', 'perObject')}}
        return cov, findings, broken

    # ------------------------------------------------------------------ stress (tie b)
    def prebuild(self):
        """compile both harness variants against the current vlib.REPO (called by tools/prebuild.py)"""
        return self.binaries()

    def binaries(self):
        specs = [('conc', 'conc.cpp', ('-O1', '-pthread')),
                 ('conc_tsan', 'conc.cpp', ('-O1', '-g1', '-fsanitize=thread', '-pthread'))]
        return vlib.build_harnesses(specs)

    def run_one(self, binary, T, iters, seed, ops='all', tsan_tag=None):
        env = {'VERIF_SEED': str(seed)}
        logs = []
        if tsan_tag:
            os.makedirs(WORK, exist_ok=True)
            base = os.path.join(WORK, f'tsan.{tsan_tag}')
            for f in glob.glob(base + '.*'):
                os.remove(f)
            env['TSAN_OPTIONS'] = f'log_path={base} exitcode=0 report_thread_leaks=0 report_signal_unsafe=0 suppress_equal_addresses=0'
        t0 = time.time()
        out = vlib.run_harness(binary, ['run', T, iters, ops], env=env, timeout=1800)
        dt = time.time() - t0
        if tsan_tag:
            logs = sorted(glob.glob(os.path.join(WORK, f'tsan.{tsan_tag}.*')))
        rows = []
        for l in out:
            m = re.match(r'op=(\S+) phase=(\S+) threads=(\d+) calls=(\d+) mismatches=(\d+) touches=(\S+) first=(\S+)', l)
            if m:
                rows.append({'op': m.group(1), 'phase': m.group(2), 'threads': int(m.group(3)), 'calls': int(m.group(4)),
                             'mismatches': int(m.group(5)), 'touches': m.group(6).split(','), 'first': m.group(7), 'line': l,
                             'build': 'tsan' if tsan_tag else 'plain', 'iters': iters, 'seed': seed})
        return rows, logs, dt

    @staticmethod
    def parse_tsan(logs):
        """returns list of reports: {'type', 'stacks': [[frames…], …], 'location', 'text'}"""
        reports = []
        for p in logs:
            try:
                txt = open(p, errors='replace').read()
            except OSError:
                continue
            for blk in txt.split('=================='):
                m = re.search(r'WARNING: ThreadSanitizer: ([^\n(]+)', blk)
                if not m:
                    continue
                stacks, cur = [], None
                for line in blk.splitlines():
                    if re.match(r'\s+(Read|Write|Previous|Atomic|Location|Thread|Mutex)', line) or not line.strip():
                        if re.match(r'\s+(Read|Write|Previous (read|write|atomic)|Atomic)', line):
                            cur = []
                            stacks.append(cur)
                        else:
                            cur = None
                        continue
                    fm = re.match(r'\s+#\d+ (.*?) (?:\S+:\d+(?::\d+)?|<null>) \(\S+\)\s*$', line)
                    if fm and cur is not None:
                        cur.append(fm.group(1).strip())
                loc = re.search(r'Location is ([^\n]+)', blk)
                reports.append({'type': m.group(1).strip(), 'stacks': stacks, 'location': loc.group(1) if loc else '',
                                'text': blk.strip()[:3000], 'log': os.path.basename(p)})
        return reports

    def attribute(self, rep, inv):
        """racing symbol and (if any) inventory cell of a TSan report"""
        frames = [f for st in rep['stacks'] for f in st]
        simple = [simplify_symbol(f) for f in frames]
        # 1. a global / static named in the location line
        gl = re.search(r"global '([^']+)'", rep['location'])
        if gl:
            g = simplify_symbol(gl.group(1))
            for e in inv:
                if e['name'].split('::')[-1] == g.split('::')[-1]:
                    return g, e['name']
            return g, None
        # 2. any frame that is a recorded writer of an inventory cell
        for e in inv:
            if e['cls'] in ('writtenByConst', 'perObject'):
                for w in e['writers']:
                    if any(s == w or s.endswith('::' + w) for s in simple):
                        return w, e['name']
        # 3. first frame inside the library, else the top frame
        for f, s in zip(frames, simple):
            if 'smooth::' in f and not s.startswith('vh::'):
                return s, None
        return (simple[0] if simple else '?'), None

    def stress(self, ctx, plan_plain, plan_tsan, ops='all'):
        bins = self.binaries()
        inv = self.scan['inventory'] if self.scan else []
        rows, findings = [], []
        t_plain = t_tsan = 0.0
        for (T, iters, seed) in plan_plain:
            r, _, dt = self.run_one(bins['conc'], T, iters, seed, ops)
            rows += r
            t_plain += dt
        all_reports = []
        for (T, iters, seed) in plan_tsan:
            r, logs, dt = self.run_one(bins['conc_tsan'], T, iters, seed, ops, tsan_tag=f'{os.getpid()}.{T}')
            rows += r
            t_tsan += dt
            for rep in self.parse_tsan(logs):
                rep['threads'] = T
                all_reports.append(rep)
            for f in logs:
                try:
                    os.remove(f)
                except OSError:
                    pass
        # (a) result mismatches
        by_op = {}
        for r in rows:
            if r['mismatches']:
                by_op.setdefault(r['op'], []).append(r)
        wbc = [e for e in inv if e['cls'] == 'writtenByConst']
        for op, rs in sorted(by_op.items()):
            worst = max(rs, key=lambda r: r['mismatches'] / max(1, r['calls']))
            key = {'kind': 'mismatch', 'op': op}
            cells = [e['name'] for e in wbc if any(t == e['name'].split('::')[-2] for t in worst['touches'] if '::' in e['name'])]
            if cells:
                key['cell'] = cells[0]
            findings.append({'property': 'C18', 'key': key, 'err': worst['mismatches'] / max(1, worst['calls']), 'tol': 0,
                             'what': f"{op}: {worst['mismatches']} of {worst['calls']} concurrent calls on shared const inputs returned results "
                                     f"that differ bitwise from the sequential run ({worst['threads']} threads, {worst['build']} build; "
                                     f"failing thread counts: {sorted({r['threads'] for r in rs})})",
                             'line': worst['line'],
                             'replay': {'op': op, 'threads': sorted({r['threads'] for r in rs})[:6], 'iters': worst['iters'], 'seed': worst['seed']}})
        # (b) TSan reports
        distinct = {}
        for rep in all_reports:
            sym, cell = self.attribute(rep, inv)
            k = (rep['type'], sym, cell)
            d = distinct.setdefault(k, {'n': 0, 'threads': set(), 'rep': rep})
            d['n'] += 1
            d['threads'].add(rep['threads'])
        for (typ, sym, cell), d in sorted(distinct.items(), key=lambda kv: str(kv[0])):
            key = {'kind': 'race' if typ == 'data race' else 'tsan:' + typ, 'symbol': sym}
            if cell:
                key['cell'] = cell
            findings.append({'property': 'C18', 'key': key, 'err': None,
                             'what': f"ThreadSanitizer {typ} in {sym}" + (f" on {cell}" if cell else '') +
                                     f" ({d['n']} report(s), thread counts {sorted(d['threads'])})",
                             'line': d['rep']['text'][:1500],
                             'replay': {'op': 'all', 'threads': sorted(d['threads'])[:4], 'iters': plan_tsan[0][1] if plan_tsan else 200,
                                        'seed': ctx['seed'], 'tsan': True}})
        runs = [r for r in rows if r['calls'] > 0]
        cov = {'evaluations': sum(r['calls'] for r in rows),
               'distinct_nontrivial': len({(r['op'], r['phase'], r['threads'], r['build']) for r in runs}),
               'traces_validated_against_impl': len(runs),
               'schedules': 'SAMPLED: one OS-scheduled execution per (op, phase, thread count, build); not enumerated',
               'thread_counts_plain': sorted({p[0] for p in plan_plain}), 'thread_counts_tsan': sorted({p[0] for p in plan_tsan}),
               'ops': sorted({r['op'] for r in rows}),
               'runs_with_mismatch': sum(1 for r in rows if r['mismatches']),
               'mismatching_ops': {op: sum(r['mismatches'] for r in rs) for op, rs in by_op.items()},
               'tsan_reports': len(all_reports),
               'tsan_distinct': [{'type': k[0], 'symbol': k[1], 'cell': k[2], 'reports': d['n'], 'threads': sorted(d['threads'])}
                                 for k, d in distinct.items()],
               'wall_plain_s': round(t_plain, 1), 'wall_tsan_s': round(t_tsan, 1),
               'samples': [r['line'] + f" build={r['build']}" for r in rows[:3] + [r for r in rows if r['mismatches']][:3] + rows[-2:]]}
        return cov, findings

    def plans(self, ctx, budget=1):
        rnd = random.Random(ctx['seed'] * 7919 + 18)
        seed = ctx['seed']
        if ctx['tier'] == 'quick':
            plain = [(T, 4000 * budget, seed) for T in ALL_T]
            ts = sorted({2, 3, 4, 8, 16, rnd.choice([5, 6, 7]), rnd.choice([9, 10, 11, 12, 13, 14, 15])})
            tsan = [(T, 240 * budget, seed) for T in ts]
        else:
            plain = [(T, 60000 * budget, seed + k) for T in ALL_T for k in (0, 101, 202)]
            tsan = [(T, 2400 * budget, seed) for T in ALL_T]
        return plain, tsan

    # ------------------------------------------------------------------ entry points
    @staticmethod
    def merge(static_findings, dynamic_findings):
        """one defect = one finding: result mismatches and TSan races that are attributed to a cell which the
        source scan already reports as written-by-const become `manifestations` of that shared-write finding;
        everything else (unattributed mismatch / race, or attributed to a cell the scan considers clean) stays a
        finding of its own and therefore a NEW violation"""
        by_cell = {f['key']['cell']: f for f in static_findings if f['key'].get('kind') == 'shared-write'}
        rest = []
        for f in dynamic_findings:
            host = by_cell.get(f['key'].get('cell'))
            if host is None:
                rest.append(f)
                continue
            host.setdefault('manifestations', []).append({'key': f['key'], 'what': f['what'], 'err': f.get('err')})
            if f.get('err') is not None:
                host['err'] = max(host.get('err') or 0.0, f['err'])
                host['tol'] = 0
            rp = host.setdefault('replay', {'op': set(), 'threads': set(), 'iters': 0, 'seed': None})
            r = f.get('replay', {})
            rp['op'].add(r.get('op', 'all'))
            rp['threads'].update(r.get('threads', [])[:4])
            rp['iters'] = max(rp['iters'], r.get('iters', 0))
            rp['seed'] = r.get('seed', rp['seed'])
        for f in static_findings:
            rp = f.get('replay')
            if rp:
                ops = sorted(rp['op'])
                f['replay'] = {'op': 'all' if 'all' in ops else ','.join(ops), 'threads': sorted(rp['threads'])[:6],
                               'iters': rp['iters'], 'seed': rp['seed'], 'both_builds': True}
                f['what'] += ' — observed: ' + '; '.join(m['what'] for m in f['manifestations'][:6])
        return static_findings + rest

    def explore(self, ctx):
        cov, findings, broken = self.inventory_check()
        plain, tsan = self.plans(ctx)
        c2, f2 = self.stress(ctx, plain, tsan)
        cov.update(c2)
        cov['rule'] = self.rule
        return {'coverage': cov, 'findings': self.merge(findings, f2), 'broken': broken}

    def search(self, ctx, broken):
        """an obligation broke (inventory changed) and the normal stress run found nothing: search harder
        for a failing schedule — every thread count, 20x the iterations, TSan on every thread count"""
        plain, tsan = self.plans(dict(ctx, seed=ctx['seed'] + 7919), budget=ctx.get('budget', 20))
        if ctx['tier'] == 'quick':
            tsan = [(T, 1200, ctx['seed'] + 7919) for T in ALL_T]
        cov, findings = self.stress(ctx, plain, tsan)
        _, static, _ = self.inventory_check()
        return {'coverage': cov, 'findings': [f for f in self.merge(static, findings) if f['key'].get('kind') != 'shared-write']}

    def replay(self, ctx, payload):
        """re-run the named ops / thread counts (both builds) and the source scan against the current tree"""
        cov, findings, broken = self.inventory_check()
        plain, tsan = set(), set()
        ops = set()
        for c in payload.get('cases', []):
            rp = c.get('replay')
            if not rp:
                continue
            ops.update(rp['op'].split(','))
            seed = rp.get('seed') or ctx['seed']
            for T in rp['threads']:
                if rp.get('tsan'):
                    tsan.add((T, max(100, rp['iters']), seed))
                else:
                    plain.add((T, max(1000, rp['iters']), seed))
                    tsan.add((T, max(100, min(2000, rp['iters'] // 10)), seed))
        if not plain and not tsan:
            plain, tsan = self.plans(ctx)
        opsel = 'all' if ('all' in ops or not ops) else ','.join(sorted(ops))
        c2, f2 = self.stress(ctx, sorted(plain), sorted(tsan), opsel)
        cov.update(c2)
        return {'coverage': cov, 'findings': self.merge(findings, f2), 'broken': broken}


def make():
    return C18()
