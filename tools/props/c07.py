"""C07 — Manifold axioms for every Manifold model (harness/manif.cpp, Driver/OpsManif.lean).

T1: every `man_*` line (dof, rplus, rminus, cast, Default, copy sequences, SubManifold
constructor) is re-evaluated by the executable Lean model (`smoothdrv`) and compared word by word;
lines on which the implementation throws are compared as text (`THROW <what>`).
Audit (implementation only): the axioms on implementation outputs (`aud_axioms`), SubManifold
free-direction behaviour (`aud_sub`), container element-wise behaviour (`aud_vec`).
"""
import math, os, sys
sys.path.insert(0, os.path.dirname(os.path.dirname(__file__)))
import vlib
from vlib import Line, dec

FAMILIES = [0, 1, 2]
# relative to max(1, largest input coefficient)
TOL = {'f64': 1e-10, 'f32': 2e-5}
T1_TOL_ULP = 16.0
HEX = set('0123456789abcdef')


def specs():
    return [(f'manif{f}', 'manif.cpp', (f'-DFAMILY={f}',)) for f in FAMILIES]


def is_hex(w):
    return len(w) in (8, 16) and set(w) <= HEX


def numeric(l):
    return all(is_hex(w) for w in l.outs)


def scale_of(l):
    s = 1.0
    for w in l.ins:
        v = dec(w, l.prec)
        if math.isfinite(v):
            s = max(s, abs(v))
    return s


class C07:
    id = 'C07'
    # + the source tie of the Manifold adaptors (traits::man<LieGroup>, manifolds/vector.hpp, submanifold.hpp, variant.hpp,
    # any.hpp), regenerated from the C++ on every check by tools/gen_bundle.py; aggregator SmoothProps/C07All.lean
    props_files = ['SmoothProps/C07.lean', 'SmoothProps/SrcTieManif.lean']
    props_module = 'SmoothProps.C07All'
    lean_targets = ['SmoothProps.C07All']
    rule = ('harness/manif.cpp, always through the free functions smooth::rplus/rminus/dof/cast/Default: per Manifold type '
            '(19 groups/vectors/scalars incl. SO2, C1 and the all-commutative Bundle<SO2,R2>, Bundle<C1,SO2>; 13 std::vector element '
            'types incl. SO2, nested, variant and SubManifold elements; variant<SO3,SE2,VectorX>, variant<SO2,C1,VectorX>; '
            'SubManifold<SO3|SE3|SO2|VectorX(n=0..6)|Bundle<SO3,R2>|Bundle<SO2,R2>> with EVERY subset of fixed dims and shuffled '
            'constructor order; AnyManifold over SO3, SO2, VectorX, std::vector<SO3>) x 7 tangent strata (zero, tiny, small, '
            'generic, large, near_pi: every rotation block has norm pi-u with u in [0.05,0.3], wide: norm in [1.6,3]) with elements = '
            'products of two such exponentials (rotation angles over the whole circle, pairs straddling the +-pi cut) x container '
            'sizes 0..8; ops dof/rplus/rminus/cast/Default/copy-sequences/ctor; '
            'distinct_nontrivial = distinct (op,type,scalar,input bits) with a non-zero input')
    assumptions = ['rounding of the axioms is audited at 1e-10 (double) / 2e-5 (float) relative to the largest coefficient, not proved',
                   'tangents stay inside the injectivity radius (every rotation block has norm <= pi - 0.05); behaviour closer to the radius in floats is not claimed',
                   'template instantiations outside the harness catalogue rely on the theorems about the adaptors (generic in the element model)',
                   'binary operations on std::vector / SubManifold arguments of different shape are compared with the model only where the C++ is defined']

    # ------------------------------------------------------------------ generation / evaluation
    def prebuild(self):
        vlib.build_harnesses(specs())

    def gen_lines(self, ctx, n):
        bins = vlib.build_harnesses(specs())
        lines = []
        for f in FAMILIES:
            raw = vlib.run_harness(bins[f'manif{f}'], [n], env={'VERIF_SEED': str(ctx['seed'])})
            lines += vlib.parse_lines(raw)
        return lines

    def eval_lines(self, requests):
        bins = vlib.build_harnesses(specs())
        out = [None] * len(requests)
        todo = list(range(len(requests)))
        for f in FAMILIES:
            if not todo:
                break
            raw = vlib.run_harness(bins[f'manif{f}'], ['eval'], stdin='\n'.join(requests[i] for i in todo) + '\n')
            nxt = []
            for i, r in zip(todo, raw):
                if r.startswith('SKIP'):
                    nxt.append(i)
                else:
                    out[i] = Line(r)
            todo = nxt
        return out

    # ------------------------------------------------------------------ T1 + audits on a set of lines
    def check_lines(self, ctx, lines):
        man = [l for l in lines if l.op.startswith('man_')]
        aud = [l for l in lines if l.op.startswith('aud_')]
        broken, findings = [], []
        breaks = []
        stats = {}

        # lines on which the implementation throws, and lines on which the model throws
        replies = vlib.run_driver([l.request() for l in man])
        num = []
        n_throw = 0
        for l, rep in zip(man, replies):
            key = f'{l.op}|{l.grp}|{l.prec}'
            if not numeric(l) or rep.startswith('THROW'):
                st = stats.setdefault(key, {'n': 0, 'worst_ulp': 0.0, 'excused_by_sensitivity': 0})
                st['n'] += 1
                n_throw += 1
                if ' '.join(l.outs) != rep.strip():
                    breaks.append({'line': l.raw, 'model': rep, 'err_ulp': None, 'why': 'exception-behaviour'})
            else:
                num.append(l)
        t1 = vlib.t1_compare(num, tol_ulp=T1_TOL_ULP, rng_seed=ctx['seed'])
        for k, v in t1['stats'].items():
            s = stats.setdefault(k, {'n': 0, 'worst_ulp': 0.0, 'excused_by_sensitivity': 0})
            s['n'] += v['n']
            s['worst_ulp'] = max(s['worst_ulp'], v['worst_ulp'])
            s['excused_by_sensitivity'] += v['excused_by_sensitivity']
        breaks += t1['breaks']

        by = {}
        for b in breaks:
            l = Line(b['line'])
            by.setdefault(f'{l.op}|{l.grp}|{l.prec}', []).append(b)
        for k, bs in by.items():
            broken.append({'what': 'correspondence', 'name': f'T1 {k} (implementation vs Lean model)',
                           'count': len(bs), 'first': bs[0]})

        # ---- audits
        worst = {}
        samples = []
        n_oracle = 0

        def add(l, kind, err, tol, what, extra=None):
            key = {'kind': kind, 'type': l.grp, 'prec': l.prec}
            if extra:
                key.update(extra)
            findings.append({'property': 'C07', 'key': key, 'err': err, 'tol': tol, 'what': what, 'line': l.raw})

        def track(l, name, v):
            k = f'{name}|{l.grp}|{l.prec}'
            worst[k] = max(worst.get(k, 0.0), v)

        # structural clause of the property: rplus returns a point of the same shape (containers act
        # element-wise: same number of elements), rminus returns dof(m) numbers.  The model's output shape is
        # the one the theorems fix (`C07.*_dof`, container lifts), so a LENGTH disagreement with it is a
        # property-level failure with this line as the failing input, not only a broken correspondence.
        for b in breaks:
            if str(b.get('why', '')).startswith('length'):
                l = Line(b['line'])
                if l.op in ('man_rplus', 'man_rminus', 'man_dof'):
                    mw = str(b.get('model', '')).split()
                    add(l, 'result_shape', abs(len(l.outs) - len(mw)), 0,
                        f'{l.op} returns {len(l.outs)} numbers where the shape of the argument requires {len(mw)} '
                        '(container models act element-wise / dof is the tangent length)')

        # independent oracle for the commutative rotation groups: exact angle arithmetic mod 2 pi
        # (math.atan2 of the coefficients; nothing of the library or of the Lean model is used).
        # rminus must be the PRINCIPAL difference: inside (-pi, pi] and congruent to arg(g1) - arg(g2).
        for l in man:
            if l.op != 'man_rminus' or l.grp not in ('SO2', 'C1') or not numeric(l):
                continue
            g = l.in_vals()
            o = l.out_vals()
            if len(g) != 4 or len(o) != (2 if l.grp == 'SO2' else 3):
                continue
            n_oracle += 1
            eps = 1e-12 if l.prec == 'f64' else 1e-5
            d_exp = math.atan2(g[0], g[1]) - math.atan2(g[2], g[3])
            d_imp = o[-1]
            cong = abs(math.remainder(d_imp - d_exp, 2 * math.pi))
            track(l, 'rotation_oracle', cong)
            if not (cong <= eps):
                add(l, 'rminus_oracle', cong, eps, 'rminus of a commutative rotation group is not arg(g1) - arg(g2) mod 2 pi')
            if not (abs(d_imp) <= math.pi * (1 + 4 * vlib.EPS[l.prec])):
                add(l, 'rminus_principal_range', abs(d_imp), math.pi,
                    'rminus of a commutative rotation group leaves the principal range (-pi, pi]: off by 2 pi across the branch cut')
            if l.grp == 'C1':
                s_exp = math.log(math.hypot(g[0], g[1])) - math.log(math.hypot(g[2], g[3]))
                if not (abs(o[1] - s_exp) <= eps * max(1.0, abs(s_exp))):
                    add(l, 'rminus_oracle', abs(o[1] - s_exp), eps, 'C1 rminus: log-scale part differs from ln|z1| - ln|z2|')

        n_aud = 0
        for l in aud:
            if not numeric(l):
                add(l, 'exception', None, None, 'audit sequence threw: ' + ' '.join(l.outs))
                continue
            o = l.out_vals()
            n_aud += 1
            sc = scale_of(l)
            tol = TOL[l.prec] * sc
            if l.op == 'aud_axioms':
                e1, e2, e3, dof_ok, cast_repr, cast_beh, copy_beh, cast_thrown = o
                for name, e, what in (('rminus_rplus', e1, 'rminus(rplus(m,a),m) != a'),
                                      ('rplus_rminus', e2, 'rplus(m,rminus(m2,m)) != m2'),
                                      ('rminus_self', e3, 'rminus(m,m) != 0')):
                    track(l, name, e / sc)
                    if not (e <= tol):
                        add(l, name, e, tol, what)
                if dof_ok != 1.0:
                    add(l, 'dof', None, None, 'dof(m) is not the tangent length accepted by rplus / returned by rminus')
                if copy_beh != 1.0:
                    add(l, 'copy', None, None, 'a copy does not behave identically to the original')
                if cast_thrown == 1.0:
                    if not l.grp.startswith('A['):
                        add(l, 'cast_throws', None, None, 'cast to the same scalar type throws')
                elif cast_repr != 1.0 or cast_beh != 1.0:
                    add(l, 'cast', None, None,
                        'cast to the same scalar type does not behave identically to the original')
                if len(samples) < 8 and n_aud % 131 == 1:
                    samples.append({'line': l.raw[:240], 'errors': o[:3], 'tolerance': tol})
            elif l.op == 'aud_sub':
                m0same, leak, free_err, lenok = o
                track(l, 'sub_leak', leak / sc)
                track(l, 'sub_free_err', free_err / sc)
                if m0same != 1.0:
                    add(l, 'sub_origin', None, None, 'rplus changed the origin or the fixed dims of a SubManifold')
                if not (leak <= tol):
                    add(l, 'sub_leak', leak, tol, 'SubManifold moved along a fixed direction')
                if not (free_err <= tol):
                    add(l, 'sub_free', free_err, tol, 'SubManifold displacement along free directions differs from the tangent')
                if lenok != 1.0:
                    add(l, 'sub_length', None, None, 'rminus length != dof(m0) - |fixed|')
            elif l.op == 'aud_vec':
                el, cat, dsum = o
                if el != 1.0:
                    add(l, 'vector_rplus', None, None, 'std::vector rplus is not element-wise on consecutive tangent segments')
                if cat != 1.0:
                    add(l, 'vector_rminus', None, None, 'std::vector rminus is not the concatenation of element differences')
                if dsum != 1.0:
                    add(l, 'vector_dof', None, None, 'dof(std::vector) != sum of element dofs')

        strata, types, subsets = {}, {}, {}
        sig = set()
        for l in lines:
            tg = 'fixed-subsets' if l.tag.startswith('fixed=') else l.tag
            strata[tg] = strata.get(tg, 0) + 1
            types[l.grp] = types.get(l.grp, 0) + 1
            if l.tag.startswith('fixed='):
                subsets.setdefault(l.grp, set()).add(l.tag)
            if any(dec(w, l.prec) != 0 for w in l.ins):
                sig.add((l.op, l.grp, l.prec, tuple(l.ins)))
        strata = {k: v for k, v in strata.items()}
        cov = {'evaluations': len(lines), 'distinct_nontrivial': len(sig), 'rule': self.rule, 'samples': samples,
               'strata_hits': strata, 'types_covered': types,
               'fixed_dim_subsets_covered': {k: len(v) for k, v in subsets.items()},
               't1_lines': len(man), 't1_exception_lines': n_throw, 't1_stats': stats, 't1_breaks': len(breaks),
               'audit_samples': n_aud, 'audit_worst_relative': worst, 'rotation_oracle_samples': n_oracle,
               'traces_validated_against_impl': len(man)}
        return {'coverage': cov, 'findings': findings, 'broken': broken}

    # ------------------------------------------------------------------ entry points
    def explore(self, ctx):
        n = 14 if ctx['tier'] == 'quick' else 70
        return self.check_lines(ctx, self.gen_lines(ctx, n))

    def search(self, ctx, broken):
        lines = self.gen_lines(dict(ctx, seed=ctx['seed'] + 7919), 45)
        res = self.check_lines(ctx, lines)
        return {'coverage': {'evaluations': len(lines)}, 'findings': res['findings']}

    def replay(self, ctx, payload):
        reqs = []
        for c in payload.get('cases', []):
            if 'line' in c:
                reqs.append(Line(c['line']).request())
        for b in payload.get('no_longer_checks', []) + payload.get('broken', []):
            if isinstance(b.get('first'), dict) and 'line' in b['first']:
                reqs.append(Line(b['first']['line']).request())
        if not reqs:
            return {'coverage': {}, 'findings': [], 'broken': payload.get('no_longer_checks', [])}
        lines = [l for l in self.eval_lines(reqs) if l is not None]
        return self.check_lines(ctx, lines)


def make():
    return C07()
