"""C10 — the trust-region step solver returns the regularised least-squares minimiser.

Theorems: SmoothProps/C10.lean (Mathlib `Matrix` over ℝ: H positive definite, existence/uniqueness,
minimiser, descent, zero step, dphi formula + HasDerivAt, colwise_norm spec; the model-level contract
`Optim.IsStep` is the normal equation).
Tie: Eigen's LDLT / SimplicialLDLT are not modelled; the CONTRACT is audited on every run: harness/optim.cpp
(PART 0) samples (J, d, r, Delta, lambda), the implementation's outputs go to the driver op `opt_tr`, which
checks them in exact rational / 320-bit arithmetic.  `lambda = 1/Delta` and `colwise_norm` + clamp are
compared with the executable model (T1).
"""
import math, os, sys
sys.path.insert(0, os.path.dirname(os.path.dirname(__file__)))
import vlib
from vlib import dec, enc

TOL_BE = 1e-8        # normal-equation backward error (property text)
TOL_DS = 1e-6        # dense vs sparse, when cond(H) <= 1e8 (property text)
COND_MAX = 1e8
TOL_DPHI = 1e-6      # dphi vs exact derivative, when cond(H) and cond(D^-1 H D^-1) <= 1e8 (the latter governs D dx)
TOL_CN = 1e-13       # colwise_norm relative error against the exact value
ULP_CN = 16.0        # model vs implementation colwise_norm, per entry
GRAD_CANCEL = 100.0  # |J|^T|r| / |J^T r| above this (J^T r loses >= 2 digits to cancellation): r nearly orthogonal to range(J)

REPLY = ['nonfinite', 'be_ldlt_dense', 'be_ldlt_sparse', 'be_tr_dense', 'be_tr_sparse', 'descent_excess', 'lambda_flag',
         'colnorm_err', 'dense_sparse_ldlt', 'dense_sparse_tr', 'cond_ldlt', 'cond_tr', 'dphi_err_dense', 'dphi_err_sparse',
         'forward_err', 'tr_ne_ldlt_flag', 'dphi_exact', 'zero_step_flag', 'cond_scaled', 'grad_cancellation', 'be_data_relative']


def optim_spec(part):
    return (f'optim{part}', 'optim.cpp', (f'-DPART={part}',), ('optim_families.hpp',))


class TrLine:
    """opt_tr <kind> f64a m n J d r Delta lambda | outs # tag"""

    def __init__(self, raw):
        self.raw = raw
        body, _, tag = raw.partition(' # ')
        req, _, out = body.partition(' |')
        t = req.split()
        self.kind = t[1]
        self.ins = t[3:]
        self.outs = out.split()
        self.tag = tag.strip()
        self.m = int(dec(self.ins[0], 'f64'))
        self.n = int(dec(self.ins[1], 'f64'))

    def ok_shape(self):
        return len(self.ins) == 2 + self.m * self.n + self.n + self.m + 2 and len(self.outs) == 7 * self.n + 4

    def audit_request(self):
        return ' '.join(['opt_tr', self.kind, 'f64a'] + self.ins + self.outs)

    def eval_request(self):
        return ' '.join(['opt_tr', self.kind, 'f64a'] + self.ins)

    def J(self):
        return self.ins[2:2 + self.m * self.n]

    def d(self):
        o = 2 + self.m * self.n
        return self.ins[o:o + self.n]

    def r(self):
        o = 2 + self.m * self.n + self.n
        return self.ins[o:o + self.m]

    def cn_dense(self):
        o = 4 * self.n + 4
        return self.outs[o:o + self.n]

    def strata(self):
        d = {}
        for kv in self.tag.split(','):
            if '=' in kv:
                k, v = kv.split('=', 1)
                d[k] = v
        return d


def ulp_diff(a, b):
    """|a-b| in units of eps*|b| (per entry)"""
    if a == b:
        return 0.0
    if math.isnan(a) or math.isnan(b) or math.isinf(a) or math.isinf(b):
        return float('inf')
    s = max(abs(a), abs(b))
    return abs(a - b) / (s * 2.0 ** -52)


def judge(l, v):
    """list of (check, storage/function, err, tol, what) failures of one audited line"""
    bad = []
    if v[0] != 0:
        return [('nonfinite', 'any', None, None, 'non-finite output of solve_linear_ldlt / solve_trust_region / colwise_norm')]
    names = [('solve_linear_ldlt', 'dense'), ('solve_linear_ldlt', 'sparse'), ('solve_trust_region', 'dense'), ('solve_trust_region', 'sparse')]
    for i, (fn, sto) in enumerate(names):
        if not (v[1 + i] <= TOL_BE):
            bad.append(('normal_equations', f'{fn}/{sto}', v[1 + i], TOL_BE, f'{fn} ({sto} J): backward error of the normal equations exceeds 1e-8'))
    if v[5] > 0:
        bad.append(('descent', 'any', v[5], 0.0, 'the step increases the linearised cost: |J dx + r| > |r| (exact arithmetic on the returned dx)'))
    if v[6] != 0:
        bad.append(('lambda', 'solve_trust_region', 1.0, 0.0, 'returned lambda is not fl(1/Delta)'))
    if not (v[7] <= TOL_CN):
        bad.append(('colwise_norm', 'any', v[7], TOL_CN, 'colwise_norm differs from sqrt(sum_i M_ij^2)'))
    if v[10] <= COND_MAX and not (v[8] <= TOL_DS):
        bad.append(('dense_vs_sparse', 'solve_linear_ldlt', v[8], TOL_DS, f'dense and sparse J give different dx although cond(H)={v[10]:.3g} <= 1e8'))
    if v[11] <= COND_MAX and not (v[9] <= TOL_DS):
        bad.append(('dense_vs_sparse', 'solve_trust_region', v[9], TOL_DS, f'dense and sparse J give different dx although cond(H)={v[11]:.3g} <= 1e8'))
    if v[10] <= COND_MAX and v[18] <= COND_MAX:
        if not (v[12] <= TOL_DPHI):
            bad.append(('dphi', 'solve_linear_ldlt/dense', v[12], TOL_DPHI, 'dphi differs from d/dlambda |D dx(lambda)| of the exact solution'))
        if not (v[13] <= TOL_DPHI):
            bad.append(('dphi', 'solve_linear_ldlt/sparse', v[13], TOL_DPHI, 'dphi differs from d/dlambda |D dx(lambda)| of the exact solution'))
    if v[15] != 0:
        bad.append(('tr_is_ldlt', 'solve_trust_region', 1.0, 0.0, 'solve_trust_region(Delta) != solve_linear_ldlt(lambda=1/Delta) bitwise'))
    if v[17] != 0:
        bad.append(('zero_step', 'any', 1.0, 0.0, 'J^T r = 0 but the returned step is not exactly zero'))
    return bad


def region(v):
    """input region of an audited line (identifies a finding): cancellation in the gradient J^T r"""
    if v[0] != 0:
        return 'nonfinite'
    return 'gradient_cancellation' if v[19] > GRAD_CANCEL else 'generic'


class C10:
    id = 'C10'
    props_files = ['SmoothProps/C10.lean', 'SmoothProps/SrcTieLogicC10.lean']
    props_module = 'SmoothProps.C10All'
    lean_targets = ['SmoothProps.C10All']
    rule = ('harness/optim.cpp PART 0: J kind (full, rankdef, zerocol, dupcol, wide, illscaled, sparse, tiny, dyadic, zeroJ) x '
            'r kind (rand, zero, consistent, big, tinyr, near_orth) x d kind (clamp(colnorm), log-uniform 1e-3..1e3, ones) x sizes 1..40 x '
            'Delta, lambda log-uniform 1e-6..1e6; every line audited in exact arithmetic (driver op opt_tr); '
            'distinct_nontrivial = distinct lines with J != 0 and r != 0')
    assumptions = ['Eigen::LDLT and Eigen::SimplicialLDLT are not modelled: their contract (normal equations to 1e-8 backward error) '
                   'is audited on sampled inputs in exact arithmetic, not proved',
                   'IEEE rounding of colwise_norm / lambda = 1/Delta is compared with the executable model, not proved',
                   'cond(H) is the infinity-norm condition number (>= the 2-norm one for symmetric H) computed in 320-bit fixed point',
                   'the property text gives no tolerance for dphi: 1e-6 relative is applied when cond(H) and cond(D^-1 H D^-1) are <= 1e8 '
                   '(the accuracy of D dx, hence of dphi, is governed by the diagonally scaled matrix)']

    def prebuild(self):
        """build the harness binary (called by tools/prebuild.py during setup)"""
        return vlib.build_harnesses([optim_spec(0)])

    # ------------------------------------------------------------------ generation
    def gen(self, ctx, n, seed=None):
        b = vlib.build_harness(*optim_spec(0))
        raw = vlib.run_harness(b, ['gen', n], env={'VERIF_SEED': str(seed if seed is not None else ctx['seed'])})
        return [TrLine(l) for l in raw if l.startswith('opt_tr')]

    def eval_lines(self, requests):
        b = vlib.build_harness(*optim_spec(0))
        raw = vlib.run_harness(b, ['eval'], stdin='\n'.join(requests) + '\n')
        return [TrLine(l) for l in raw if l.startswith('opt_tr')]

    # ------------------------------------------------------------------ checks on a set of lines
    def check_lines(self, ctx, lines, selftest=True):
        findings, broken = [], []
        lines = [l for l in lines if l.ok_shape()]
        reps = vlib.run_driver([l.audit_request() for l in lines])
        worst = {k: 0.0 for k in REPLY}
        worst_regime = {'dense_sparse': 0.0, 'dphi': 0.0, 'normal_equations': 0.0}   # region generic, cond(H) <= 1e8
        worst_cancel = {'normal_equations': 0.0, 'be_data_relative': 0.0, 'descent_excess': -1.0}   # region gradient_cancellation
        regions = {}
        strata = {}
        samples = []
        sig = set()
        cond_hist = {}
        n_regime = 0
        n_regime_dphi = 0
        for l, rep in zip(lines, reps):
            if rep.startswith('ERR'):
                raise vlib.MachineryError(f'audit op failed: {rep} on {l.raw[:120]}')
            v = [dec(w, 'f64') for w in rep.split()]
            for k, x in zip(REPLY, v):
                if math.isfinite(x) and k not in ('dphi_exact',):
                    worst[k] = max(worst[k], x)
            st = l.strata()
            for k in ('J', 'r', 'd'):
                key = f'{k}={st.get(k, l.kind)}'
                strata[key] = strata.get(key, 0) + 1
            shape = 'm<n' if l.m < l.n else ('m=n' if l.m == l.n else 'm>n')
            strata['shape ' + shape] = strata.get('shape ' + shape, 0) + 1
            dec_c = 'cond<=1e8' if v[10] <= COND_MAX else ('cond<=1e16' if v[10] <= 1e16 else 'cond>1e16')
            cond_hist[dec_c] = cond_hist.get(dec_c, 0) + 1
            reg = region(v)
            regions[reg] = regions.get(reg, 0) + 1
            if reg == 'gradient_cancellation':
                worst_cancel['normal_equations'] = max(worst_cancel['normal_equations'], *v[1:5])
                worst_cancel['be_data_relative'] = max(worst_cancel['be_data_relative'], v[20])
                worst_cancel['descent_excess'] = max(worst_cancel['descent_excess'], v[5])
            if v[10] <= COND_MAX and reg == 'generic':
                n_regime += 1
                worst_regime['dense_sparse'] = max(worst_regime['dense_sparse'], v[8])
                worst_regime['normal_equations'] = max(worst_regime['normal_equations'], *v[1:5])
                if v[18] <= COND_MAX:
                    n_regime_dphi += 1
                    worst_regime['dphi'] = max(worst_regime['dphi'], v[12], v[13])
            if any(dec(w, 'f64') != 0 for w in l.J()) and any(dec(w, 'f64') != 0 for w in l.r()):
                sig.add(tuple(l.ins))
            if len(samples) < 8 and len(sig) % 37 == 1:
                samples.append({'tag': l.tag, 'm': l.m, 'n': l.n, 'request_head': l.raw[:160],
                                'audit': {k: x for k, x in zip(REPLY, v)}})
            for (chk, where, err, tol, what) in judge(l, v):
                findings.append({'property': 'C10', 'key': {'check': chk, 'where': where, 'J': st.get('J', l.kind),
                                                            'r': st.get('r', l.kind), 'region': region(v)},
                                 'err': err, 'tol': tol, 'what': what, 'line': l.raw, 'audit_reply': rep})
        # ---- T1: colwise_norm + clamp of the model vs the implementation
        creqs = [' '.join(['opt_colnorm', '-', 'f64'] + l.ins[:2] + l.J()) for l in lines]
        creps = vlib.run_driver(creqs)
        t1_worst, t1_n, t1_d = 0.0, 0, 0
        t1_breaks = []
        for l, rep in zip(lines, creps):
            if rep.startswith('ERR'):
                t1_breaks.append({'line': l.raw, 'model': rep, 'why': 'model-error'})
                continue
            mw = rep.split()
            cn_model, d_model = mw[:l.n], mw[l.n:]
            e = 0.0
            for a, b in zip(l.cn_dense(), cn_model):
                e = max(e, ulp_diff(dec(a, 'f64'), dec(b, 'f64')))
            t1_n += 1
            st = l.strata()
            if st.get('d') == 'colnorm_clamped' or l.kind == 'insitu':
                t1_d += 1
                for a, b in zip(l.d(), d_model):
                    e = max(e, ulp_diff(dec(a, 'f64'), dec(b, 'f64')))
            if e > ULP_CN:
                t1_breaks.append({'line': l.raw, 'model': rep, 'err_ulp': e, 'why': 'disagreement'})
            else:
                t1_worst = max(t1_worst, e)
        if t1_breaks:
            broken.append({'what': 'correspondence', 'name': 'T1 opt_colnorm (colwise_norm + clamp: implementation vs Lean model)',
                           'count': len(t1_breaks), 'first': t1_breaks[0]})
        # ---- oracle self-test: a corrupted dx must be flagged (the audit is not vacuous)
        st_res = None
        if selftest:
            st_res = self.selftest(lines)
        cov = {'evaluations': len(lines), 'distinct_nontrivial': len(sig), 'rule': self.rule, 'samples': samples,
               'strata_hits': strata, 'cond_histogram': cond_hist, 'audit_samples': len(lines),
               'audit_worst': worst, 'samples_in_conditioning_regime': n_regime, 'samples_in_dphi_regime': n_regime_dphi, 'worst_in_regime': worst_regime, 'regions': regions, 'worst_in_cancellation_region': worst_cancel,
               't1_colnorm': {'n': t1_n, 'with_clamped_d': t1_d, 'worst_ulp': t1_worst, 'breaks': len(t1_breaks)},
               'oracle_selftest': st_res, 'traces_validated_against_impl': len(lines)}
        return {'coverage': cov, 'findings': findings, 'broken': broken}

    def selftest(self, lines):
        """corrupt the largest coefficient of the implementation's dx by 1e-4 relative: the audit must notice"""
        cand = [l for l in lines if l.n >= 1 and any(dec(w, 'f64') != 0 for w in l.outs[2 * l.n + 2:3 * l.n + 2])][:6]
        reqs, idx = [], []
        for l in cand:
            outs = list(l.outs)
            o = 2 * l.n + 2
            k = max(range(l.n), key=lambda j: abs(dec(outs[o + j], 'f64')))   # the largest coefficient
            outs[o + k] = enc(dec(outs[o + k], 'f64') * (1 + 1e-4), 'f64')
            reqs.append(' '.join(['opt_tr', l.kind, 'f64a'] + l.ins + outs))
        if not reqs:
            return {'n': 0}
        reps = vlib.run_driver(reqs)
        detected = 0
        for rep in reps:
            v = [dec(w, 'f64') for w in rep.split()]
            if v[1] > 1e-9 or v[8] > 1e-6 or v[14] > 1e-6:
                detected += 1
        if detected < len(reqs):
            raise vlib.MachineryError(f'oracle self-test: only {detected}/{len(reqs)} corrupted solutions were flagged')
        return {'n': len(reqs), 'detected': detected}

    # ------------------------------------------------------------------ entry points
    def explore(self, ctx):
        n = 1500 if ctx['tier'] == 'quick' else 20000
        return self.check_lines(ctx, self.gen(ctx, n * ctx.get('budget', 1)))

    def search(self, ctx, broken):
        lines = self.gen(ctx, 4000, seed=ctx['seed'] + 7919)
        res = self.check_lines(ctx, lines, selftest=False)
        return {'coverage': {'evaluations': len(lines)}, 'findings': res['findings']}

    def replay(self, ctx, payload):
        reqs = []
        for c in payload.get('cases', []):
            if 'line' in c:
                reqs.append(TrLine(c['line']).eval_request())
        for b in payload.get('no_longer_checks', []):
            if isinstance(b.get('first'), dict) and 'line' in b['first']:
                reqs.append(TrLine(b['first']['line']).eval_request())
        if not reqs:
            return {'coverage': {}, 'findings': [], 'broken': payload.get('no_longer_checks', [])}
        return self.check_lines(ctx, self.eval_lines(reqs), selftest=False)


def make():
    return C10()
