from props.lie import *
from props import apiops

TOL = {'f64': 1e-9, 'f32': 1e-3}


def audit(lines):
    reqs = []
    ads = {}
    k = 0
    thin = apiops.Thin(3)
    for l in lines:
        p = l.prec + 'a'
        base = {'key': std_key(l), 'line': l.raw, 'tol': TOL[l.prec], 'judge': simple_judge}
        if apiops.audit_c03(l, p, base, reqs, thin, k, tangent_words):
            k += 1
        elif l.op == 'Ad':
            k += 1
            n = int(round(len(l.outs) ** 0.5))
            a = tangent_words(n, l.prec, k)
            reqs.append((' '.join(['a_Ad', l.grp, p] + l.ins + a + l.outs),
                         dict(base, what='Ad(g) a != vee(matrix(g) hat(a) matrix(g)^-1)')))
        elif l.op == 'ad':
            ads[(l.grp, l.prec, tuple(l.ins))] = l
        elif l.op == 'bracket':
            n = len(l.outs)
            a = ads.get((l.grp, l.prec, tuple(l.ins[:n])))
            if a is not None:
                def judge(errs, m):
                    out = []
                    if not (errs[0] <= m['tol']):
                        out.append((errs[0], m['tol'], 'hat(ad(a) b) != [hat a, hat b]'))
                    if not (errs[1] <= m['tol']):
                        out.append((errs[1], m['tol'], 'lie_bracket(a,b) != ad(a) b'))
                    # bilinear scale: error relative to |a|·|b| (catches a bracket that is wrong only when one
                    # argument is tiny); 8 dof-sized accumulations of rounding are allowed for
                    if len(errs) >= 4:
                        if not (errs[2] <= 64 * m['tol']):
                            out.append((errs[2], 64 * m['tol'], 'hat(ad(a) b) != [hat a, hat b] relative to |a||b| (bilinearity)'))
                        if not (errs[3] <= 64 * m['tol']):
                            out.append((errs[3], 64 * m['tol'], 'lie_bracket(a,b) != ad(a) b relative to |a||b| (bilinearity)'))
                    return out
                reqs.append((' '.join(['a_ad', l.grp, p] + l.ins + a.outs + l.outs), dict(base, judge=judge, what='ad/bracket')))
        elif l.op == 'Adexp':
            reqs.append((' '.join(['a_Adexp', l.grp, p] + l.ins + l.outs),
                         dict(base, what='Ad(exp(a)) != matrix exponential of ad(a)')))
    return reqs


def make():
    return LieProp('C03', ['hat', 'vee', 'Ad', 'ad', 'bracket', 'Adexp'] + apiops.API_OPS['C03'], ['SmoothProps/C03.lean', 'SmoothProps/C03Round.lean'], audit, TOL,
                   rule='harness/lie.cpp: every group type of the catalogue x scalar x 9 rotation-angle strata x 5 translation strata '
                        '(tangents up to 1e3); hat/vee compared at 0 ulp; distinct_nontrivial = distinct (op,group,scalar,stratum,input bits) '
                        'with a non-zero input',
                   assumptions=['rounding: hat, ad (SO3/SE2/SE3), Ad (SE2, commutative groups) are exact, vee / Ad (SO3, SE3) / lie_bracket (SO3, SE2, SE3) '
                                'are bounded in the standard model fl(x op y) = (x op y)(1+d), |d| <= u (SmoothProps/C03Round.lean); Galilei / SE_K_3 / '
                                'Bundle Ad, ad, bracket and Ad(exp a) are audited with exact rational commutators and a 320-bit series for exp(ad a), '
                                'not proved'])
