"""Group-descriptor helpers shared by the C16 / C19 / C06-layout plugins: parser for the descriptor
language (`SO3`, `T4`, `SEK2`, `B[SO3,T2,B[SE2,C1]]`), Lean term printer, sizes, random elements and
tangents (as hex words), Gen-file writer."""
import math, os, struct, sys
sys.path.insert(0, os.path.dirname(os.path.dirname(__file__)))
import vlib

LEAF = {'SO2': (2, 1, 2), 'SO3': (4, 3, 3), 'SE2': (4, 3, 3), 'SE3': (7, 6, 4), 'C1': (2, 2, 2), 'GAL': (11, 10, 5)}


class D:
    """descriptor node: kind in LEAF | 'T' | 'SEK' | 'B'"""
    def __init__(self, kind, n=0, parts=()):
        self.kind, self.n, self.parts = kind, n, list(parts)

    def __str__(self):
        if self.kind == 'B':
            return 'B[' + ','.join(str(p) for p in self.parts) + ']'
        if self.kind == 'T':
            return f'T{self.n}'
        if self.kind == 'SEK':
            return f'SEK{self.n}'
        return self.kind

    # sizes as the PLUGIN needs them to build well-formed requests; they are compared with the
    # `sizes` lines dumped by the implementation before use
    def rep(self):
        if self.kind == 'B':
            return sum(p.rep() for p in self.parts)
        if self.kind == 'T':
            return self.n
        if self.kind == 'SEK':
            return 4 + 3 * self.n
        return LEAF[self.kind][0]

    def dof(self):
        if self.kind == 'B':
            return sum(p.dof() for p in self.parts)
        if self.kind == 'T':
            return self.n
        if self.kind == 'SEK':
            return 3 + 3 * self.n
        return LEAF[self.kind][1]

    def dim(self):
        if self.kind == 'B':
            return sum(p.dim() for p in self.parts)
        if self.kind == 'T':
            return self.n + 1
        if self.kind == 'SEK':
            return 3 + self.n
        return LEAF[self.kind][2]

    def comm(self):
        if self.kind == 'B':
            return all(p.comm() for p in self.parts)
        return self.kind in ('SO2', 'C1', 'T')

    def has_hess(self):
        if self.kind == 'B':
            return all(p.has_hess() for p in self.parts)
        return self.kind not in ('GAL', 'SEK')

    def is_eigen(self):
        return self.kind == 'T'

    def lean(self):
        if self.kind == 'B':
            return '.bundle [' + ', '.join(p.lean() for p in self.parts) + ']'
        if self.kind == 'T':
            return f'.tn {self.n}'
        if self.kind == 'SEK':
            return f'.sek3 {self.n}'
        return '.' + {'SO2': 'so2', 'SO3': 'so3', 'SE2': 'se2', 'SE3': 'se3', 'C1': 'c1', 'GAL': 'gal'}[self.kind]

    def sub(self, acc):
        """descriptor of the sub-part reached by accessor `acc` (None if it does not exist)"""
        k = self.kind
        if acc == 'so2' and k == 'SE2':
            return D('SO2')
        if acc == 'r2' and k == 'SE2':
            return D('T', 2)
        if acc == 'so3' and k in ('SE3', 'GAL', 'SEK'):
            return D('SO3')
        if acc == 'r3' and k == 'SE3':
            return D('T', 3)
        if acc in ('r3_v', 'r3_p') and k == 'GAL':
            return D('T', 3)
        if acc == 'r1_t' and k == 'GAL':
            return D('T', 1)
        if (acc.startswith('r3k') or acc.startswith('r3rt')) and k == 'SEK':
            i = int(acc[3:] if acc.startswith('r3k') else acc[4:])
            return D('T', 3) if i < self.n else None
        if acc.startswith('part') and k == 'B':
            i = int(acc[4:])
            return self.parts[i] if i < len(self.parts) else None
        return None

    def accessors(self):
        k = self.kind
        if k == 'SE2':
            return ['r2', 'so2']
        if k == 'SE3':
            return ['r3', 'so3']
        if k == 'GAL':
            return ['r3_v', 'r3_p', 'r1_t', 'so3']
        if k == 'SEK':
            return [f'r3k{i}' for i in range(self.n)] + ['so3']
        if k == 'B':
            return [f'part{i}' for i in range(len(self.parts))]
        return []


def parse(s):
    d, rest = _parse(s)
    if rest:
        raise ValueError('trailing ' + rest)
    return d


def _parse(s):
    if s.startswith('B['):
        s = s[2:]
        parts = []
        while True:
            if s.startswith(']'):
                return D('B', parts=parts), s[1:]
            p, s = _parse(s)
            parts.append(p)
            if s.startswith(','):
                s = s[1:]
    for k in ('SO2', 'SO3', 'SE2', 'SE3', 'GAL', 'C1'):
        if s.startswith(k):
            return D(k), s[len(k):]
    if s.startswith('SEK'):
        i = 3
        while i < len(s) and s[i].isdigit():
            i += 1
        return D('SEK', int(s[3:i])), s[i:]
    if s.startswith('T'):
        i = 1
        while i < len(s) and s[i].isdigit():
            i += 1
        return D('T', int(s[1:i])), s[i:]
    raise ValueError('bad descriptor ' + s)


def lean_acc(acc):
    if acc.startswith('r3k'):
        return f'.r3k {int(acc[3:])}'
    if acc.startswith('r3rt'):
        return f'.r3k {int(acc[4:])}'
    if acc.startswith('part'):
        return f'.part {int(acc[4:])}'
    return '.' + acc


# ----------------------------------------------------------------------------- words
def enc(x, prec):
    if prec == 'f64':
        return struct.pack('>d', x).hex()
    try:
        return struct.pack('>f', x).hex()
    except OverflowError:
        return struct.pack('>f', math.copysign(math.inf, x)).hex()


def dec(w, prec):
    return vlib.dec(w, prec)


def rnd(x, prec):
    """round a python float to the precision"""
    return dec(enc(x, prec), prec)


def sentinel(i, prec):
    """quiet NaN with payload i+1 (distinct guard words)"""
    if prec == 'f64':
        return format(0x7ff8000000000000 | (i + 1), '016x')
    return format(0x7fc00000 | (i + 1), '08x')


def is_nan_word(w, prec):
    v = dec(w, prec)
    return v != v


def _quat(r):
    while True:
        q = [r.gauss(0, 1) for _ in range(4)]
        n = math.sqrt(sum(x * x for x in q))
        if n > 1e-3:
            break
    q = [x / n for x in q]
    if q[3] < 0:
        q = [-x for x in q]
    return q


def element(d, r):
    """coefficients of a valid O(1) group element"""
    k = d.kind
    if k == 'B':
        out = []
        for p in d.parts:
            out += element(p, r)
        return out
    if k == 'T':
        return [r.uniform(-2, 2) for _ in range(d.n)]
    if k == 'SO2':
        t = r.uniform(-math.pi, math.pi)
        return [math.sin(t), math.cos(t)]
    if k == 'C1':
        t = r.uniform(-math.pi, math.pi)
        s = math.exp(r.uniform(-0.5, 0.5))
        return [s * math.sin(t), s * math.cos(t)]
    if k == 'SO3':
        return _quat(r)
    if k == 'SE2':
        t = r.uniform(-math.pi, math.pi)
        return [r.uniform(-2, 2), r.uniform(-2, 2), math.sin(t), math.cos(t)]
    if k == 'SE3':
        return [r.uniform(-2, 2) for _ in range(3)] + _quat(r)
    if k == 'GAL':
        return [r.uniform(-2, 2) for _ in range(7)] + _quat(r)
    if k == 'SEK':
        return [r.uniform(-2, 2) for _ in range(3 * d.n)] + _quat(r)
    raise ValueError(k)


def tangent(d, r, stratum):
    """tangent vector; stratum: zero | axis | series | generic | large"""
    n = d.dof()
    if stratum == 'zero':
        return [0.0] * n
    if stratum == 'axis':
        v = [0.0] * n
        if n:
            v[r.randrange(n)] = r.choice((-1, 1)) * r.uniform(0.1, 2.0)
        return v
    if stratum == 'series':
        return [r.uniform(-1, 1) * 1e-5 for _ in range(n)]
    if stratum == 'large':
        return [r.uniform(-6, 6) for _ in range(n)]
    return [r.uniform(-1.2, 1.2) for _ in range(n)]


STRATA = ('zero', 'axis', 'series', 'generic', 'generic', 'large')


# ----------------------------------------------------------------------------- generated Lean files
def write_if_changed(path, text):
    os.makedirs(os.path.dirname(path), exist_ok=True)
    if os.path.exists(path) and open(path).read() == text:
        return False
    open(path, 'w').write(text)
    return True


def lean_nat_list(l):
    return '[' + ', '.join(str(int(x)) for x in l) + ']'


def lean_pairs(l):
    return '[' + ', '.join(f'({a}, {b})' for a, b in l) + ']'
