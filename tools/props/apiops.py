"""Ops added by the API-coverage unit (tools/dev/api_inventory.py, DESIGN 8.10) to harness/lie.cpp, with the audits they get.

Every op here is an API PATH to a value-level function that C01–C05 already model and audit — the free-function interface
of concepts/lie_group.hpp (`f…`, `lplus`, `lminus`), const views as receivers (`…_cmap`), the in-place operators
(`pluseq…`, `mulassign_map…`) with separate and aliased operands, `setIdentity`, `isApprox`, `operator<<`, the class
constants — or a new INPUT REGION of an existing op (tags `zero_vec`, `tiny_a`, `identity_elem`, `same_elem`, `alias`,
`half_turn`).  The T1 comparator sees every line; the exact-oracle audit is thinned for the one-line forwards (the member
op with the same inputs' distribution is audited on every line) and complete for the new regions.

A finding raised through a forwarding op is keyed by the CANONICAL op (`exp` for `fexp`/`rplus`/`pluseq`…, `log` for
`flog`/`rminus`/`lminus`…) with the path in `via`, so that the known findings about the closed forms right above the
eps2 switch (keyed on exp/log/dr_exp…) cover the same defect reached through another door — and nothing else.
"""
from props.lie import std_key, simple_judge, rot_norms
import math

API_OPS = {
    'C01': ['fcompose3', 'compose_cmap', 'inverse_cmap', 'mulassign_mapself', 'mulassign_mapmap', 'identity_free', 'set_identity',
            'set_identity_map', 'consts', 'isapprox', 'fisapprox', 'isapprox_default', 'stream', 'act_cmap', 'random_elem'],
    'C02': ['rplus', 'rminus', 'fexp', 'flog', 'log_cmap', 'frplus', 'frminus', 'rminus_cmap', 'lplus', 'lminus', 'pluseq', 'pluseq_map', 'pluseq_log'],
    'C03': ['fAd', 'Ad_cmap', 'fad'],
    'C04': ['fdr_exp', 'fdr_expinv', 'fdl_exp', 'fdl_expinv', 'dr_action_cmap'],
    'C05': ['fd2r_exp', 'fd2r_expinv', 'fd2l_exp', 'fd2l_expinv'],
}
# ops whose outputs are exact whatever the input (compared at 0 ulp)
API_EXACT_OPS = ('identity_free', 'set_identity', 'set_identity_map', 'consts', 'isapprox', 'fisapprox', 'isapprox_default', 'stream')
# canonical op of a forwarding path (for finding keys)
CANON = {'fexp': 'exp', 'frplus': 'exp', 'rplus': 'exp', 'lplus': 'exp', 'pluseq': 'exp', 'pluseq_map': 'exp', 'pluseq_log': 'exp',
         'flog': 'log', 'log_cmap': 'log', 'rminus': 'log', 'frminus': 'log', 'rminus_cmap': 'log', 'lminus': 'log',
         'fAd': 'Ad', 'Ad_cmap': 'Ad', 'fad': 'ad',
         'fdr_exp': 'dr_exp', 'fdr_expinv': 'dr_expinv', 'fdl_exp': 'dl_exp', 'fdl_expinv': 'dl_expinv',
         'fd2r_exp': 'd2r_exp', 'fd2r_expinv': 'd2r_expinv', 'fd2l_exp': 'd2l_exp', 'fd2l_expinv': 'd2l_expinv',
         'compose_cmap': 'compose', 'fcompose3': 'compose', 'inverse_cmap': 'inverse', 'act_cmap': 'act', 'dr_action_cmap': 'dr_action'}
NEW_REGION_TAGS = ('zero_vec', 'tiny_a', 'identity_elem', 'same_elem', 'alias', 'half_turn')


def canon_key(l, tangent_from='in', tangent=None):
    """std_key with the canonical op; `tangent`: explicit word list to take the theta band from"""
    k = std_key(l, tangent_from)
    if tangent is not None:
        try:
            from props.lie import region_key, prim_sizes, flat_prims, parse_desc
            from vlib import dec
            vals = [dec(w, l.prec) for w in tangent]
            fam, band, th = region_key(l.grp, vals, l.prec)
            k.update({'culprit': fam, 'theta_band': band, 'theta': th})
        except Exception:
            pass
    if l.op in CANON:
        k['via'] = l.op
        k['op'] = CANON[l.op]
    return k


class Thin:
    """audit budget of the API ops: of the lines of one (op, group, scalar) keep one in `every` of the stratified samples
    (rotating offset, so that not always the first — `zero` — stratum is taken) and the first `region_cap` lines of each
    new input region"""
    def __init__(self, every=3, region_cap=1):
        self.every, self.cap, self.cnt = every, region_cap, {}

    def keep(self, l):
        if l.tag in NEW_REGION_TAGS:
            k = (l.op, l.grp, l.prec, l.tag)
            self.cnt[k] = self.cnt.get(k, 0) + 1
            return self.cnt[k] <= self.cap
        k = (l.op, l.grp, l.prec)
        self.cnt[k] = self.cnt.get(k, 0) + 1
        return self.cnt[k] % self.every == (1 + len(l.op)) % self.every


def rep_dof(l, n_group_args, n_tangent_args=0):
    """(rep, dof) of the group of a line from its arity: len(ins) = n_g·rep + n_t·dof, len(outs) known per op"""
    return None


# ------------------------------------------------------------------------------------------ C01
def audit_c01(l, p, base, reqs, thin):
    if l.op not in API_OPS['C01']:
        return False
    if l.op in ('mulassign_mapself', 'mulassign_mapmap'):
        reqs.append((' '.join(['a_compose', l.grp, p] + l.ins + l.ins + l.outs),
                     dict(base, what=f'{l.op}: in-place g *= g through a view over the same storage != matrix(g) matrix(g)')))
    elif l.op == 'compose_cmap' and thin.keep(l):
        reqs.append((' '.join(['a_compose', l.grp, p] + l.ins + l.outs), dict(base, what='Map<const G> * Map<const G>: matrix(g1*g2) != matrix(g1) matrix(g2)')))
    elif l.op == 'fcompose3' and thin.keep(l):
        def judge(errs, m):
            e = max(errs[0], errs[1])
            return [(e, m['tol'], m['what'])] if not (e <= m['tol']) else []
        reqs.append((' '.join(['a_assoc', l.grp, p] + l.ins + l.outs + l.outs), dict(base, judge=judge, what='composition(g1,g2,g3) != matrix product')))
    elif l.op == 'inverse_cmap' and thin.keep(l):
        reqs.append((' '.join(['a_inverse', l.grp, p] + l.ins + l.outs), dict(base, what='Map<const G>::inverse: matrix(inverse(g)) != matrix(g)^-1')))
    elif l.op in ('identity_free', 'set_identity', 'set_identity_map'):
        reqs.append((' '.join(['a_identity', l.grp, p] + l.outs), dict(base, what=f'{l.op}: matrix of the result != I')))
    elif l.op == 'random_elem':
        # Random() / smooth::Random<G>() / setRandom() (value and view): the drawn coefficients must satisfy the representation
        # constraint under which matrix(g) is an element of the documented group (unit rotation parts, SO3 in the canonical
        # hemisphere), and be finite
        from vlib import dec, EPS
        from props.lie import parse_desc, flat_prims, prim_sizes
        vals = [dec(w, l.prec) for w in l.ins]
        off, worst, neg_w = 0, 0.0, False
        for pr in flat_prims(parse_desc(l.grp)):
            rep, dof, _ = prim_sizes(pr)
            blk = {'SO2': (0, 2), 'SO3': (0, 4), 'SE2': (2, 2), 'SE3': (3, 4), 'GAL': (7, 4)}.get(pr)
            if pr.startswith('SEK'):
                blk = (rep - 4, 4)
            if blk:
                q = vals[off + blk[0]: off + blk[0] + blk[1]]
                worst = max(worst, abs(sum(v * v for v in q) - 1.0))
                if blk[1] == 4 and not (q[3] >= 0):
                    neg_w = True
            off += rep
        finite = all(v == v and abs(v) != float('inf') for v in vals)
        tol = 16 * EPS[l.prec]
        if not finite or not (worst <= tol) or neg_w:
            base['pyfindings'].append({'property': 'C01', 'key': dict(base['key'], kind='random_constraint', path=l.tag), 'err': worst, 'tol': tol,
                                       'what': f'{l.tag}: drawn element violates the representation constraint (|q|^2 - 1 = {worst:.3g}, '
                                               f'q_w < 0: {neg_w}, finite: {finite})', 'line': l.raw})
    elif l.op == 'act_cmap':
        reqs.append((' '.join(['a_act', l.grp, p] + l.ins + l.outs), dict(base, what='Map<const G> * v != matrix action')))
    return True


# ------------------------------------------------------------------------------------------ C02
def audit_c02(l, p, TOL, TOL_NEAR_PI, BAND, reqs, thin):
    """rplus / rminus families.  a_rplus: [g, a, out, side]; a_rminus: [g1, g2, out, side]"""
    if l.op not in API_OPS['C02']:
        return False
    if not thin.keep(l):
        return True
    prec = l.prec
    n_out = len(l.outs)
    if l.op in ('rplus', 'frplus', 'pluseq', 'pluseq_map', 'lplus'):
        rep = n_out
        a = l.ins[rep:]
        side = 'L' if l.op == 'lplus' else 'R'
        base = {'key': canon_key(l, tangent=a), 'line': l.raw, 'tol': TOL[prec], 'judge': simple_judge}
        reqs.append((' '.join(['a_rplus' + side, l.grp, p] + l.ins + l.outs),
                     dict(base, what=f'{l.op}: matrix(result) != ' + ('expm(hat a) matrix(g)' if side == 'L' else 'matrix(g) expm(hat a)'))))
    elif l.op == 'pluseq_log':
        base = {'key': canon_key(l, 'none'), 'line': l.raw, 'tol': TOL[prec], 'judge': simple_judge}
        reqs.append((' '.join(['a_compose', l.grp, p] + l.ins + l.ins + l.outs), dict(base, what='x += x.log(): matrix(result) != matrix(x) matrix(x)')))
    elif l.op in ('rminus', 'frminus', 'rminus_cmap', 'lminus'):
        side = 'L' if l.op == 'lminus' else 'R'

        def judge(errs, m, prec=prec):
            out = []
            rn = [math.sqrt(max(0.0, x)) for x in errs[1:]]
            near = any(abs(math.pi - r) < BAND[prec] for r in rn)
            tol = TOL_NEAR_PI[prec] if near else TOL[prec]
            if not (errs[0] <= tol):
                out.append((errs[0], tol, m['what']))
            for r in rn:
                if not (r <= math.pi * (1 + {'f64': 1e-9, 'f32': 1e-3}[prec])):
                    out.append((r, math.pi, 'rotation part of the difference has norm above pi'))
            return out
        base = {'key': canon_key(l, 'out'), 'line': l.raw, 'tol': TOL[prec], 'judge': judge}
        reqs.append((' '.join(['a_rminus' + side, l.grp, p] + l.ins + l.outs),
                     dict(base, what=f'{l.op}: expm(hat(result)) != ' + ('matrix(g1) matrix(g2)^-1' if side == 'L' else 'matrix(g2)^-1 matrix(g1)'))))
    elif l.op == 'fexp':
        base = {'key': canon_key(l), 'line': l.raw, 'tol': TOL[prec], 'judge': simple_judge}
        reqs.append((' '.join(['a_exp', l.grp, p] + l.ins + l.outs), dict(base, what='smooth::exp<G>(a): matrix != matrix exponential of hat(a)')))
    elif l.op in ('flog', 'log_cmap'):
        def judge(errs, m, prec=prec):
            out = []
            rn = [math.sqrt(max(0.0, x)) for x in errs[1:]]
            near = any(abs(math.pi - r) < BAND[prec] for r in rn)
            tol = TOL_NEAR_PI[prec] if near else TOL[prec]
            if not (errs[0] <= tol):
                out.append((errs[0], tol, 'exp(log(g)) != g'))
            for r in rn:
                if not (r <= math.pi * (1 + {'f64': 1e-9, 'f32': 1e-3}[prec])):
                    out.append((r, math.pi, 'rotation part of log(g) has norm above pi'))
            return out
        base = {'key': canon_key(l, 'out'), 'line': l.raw, 'tol': TOL[prec], 'judge': judge}
        reqs.append((' '.join(['a_explog', l.grp, p] + l.ins + l.outs), dict(base, what=f'{l.op}: exp(log(g)) != g')))
    return True


# ------------------------------------------------------------------------------------------ C03
def audit_c03(l, p, base, reqs, thin, k, tangent_words):
    if l.op not in ('fAd', 'Ad_cmap'):
        return l.op in API_OPS['C03']
    if thin.keep(l):
        n = int(round(len(l.outs) ** 0.5))
        a = tangent_words(n, l.prec, k)
        reqs.append((' '.join(['a_Ad', l.grp, p] + l.ins + a + l.outs),
                     dict(base, key=canon_key(l), what=f'{l.op}: Ad(g) a != vee(matrix(g) hat(a) matrix(g)^-1)')))
    return True


def c1_scale_indices(grp):
    """tangent indices of the log-scale coordinate of every C1 factor of a group descriptor"""
    from props.lie import parse_desc, flat_prims, prim_sizes
    off, idx = 0, []
    for pr in flat_prims(parse_desc(grp)):
        rep, dof, _ = prim_sizes(pr)
        if pr == 'C1':
            idx.append(off)
        off += dof
    return idx
